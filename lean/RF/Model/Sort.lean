/-
Model of the comparators and of the grouping used when rustfmt reorders `use`, `mod` and
`extern crate` items (property C11).

  * `src/sort.rs`        `VersionChunkIter` (`nextChunk`, `chunks`), `version_sort` (`versionSort`)
  * `src/imports.rs`     `impl Ord for UseSegment` (`segCmp`), `impl Ord for UseTree` (`treeCmp`),
                         `UseSegment::remove_alias` (`removeAlias`)
  * `src/reorder.rs`     `compare_items` (`compareItems`), `ReorderableItemKind`,
                         `visit_items_with_reordering` / `walk_reorderable_or_regroupable_items`
                         (`splitGroups`)
  * oracles used by the theorems: `allRunsFit` (no digit run ≥ 2^64), `canonTree` (aliases and,
    for 2024, `r#` erased), `treeNames`
  * `slice::sort` / `sort_by` (a stable sort) is modelled by insertion sort `stableSort`;
    `RF.Lemmas.Sort.stableSort_spec_unique` shows that every stable sort returns the same list
    when the comparator is a total preorder.

Strings are `List Char`.  Rust compares `&str` byte-wise on the UTF-8 encoding; UTF-8 preserves
the order of code points, so `strCmp` compares code points lexicographically.
`usize` is 64 bit (`usizeBound = 2^64`).
`char::is_uppercase` and `char::is_numeric` are Unicode tables of the standard library; the two
tables at the end of this file were dumped from the pinned toolchain (nightly-2025-04-02,
Unicode 16.0) by enumerating all `char`s.  No theorem depends on the content of the tables.
Import-free.
-/
namespace RF.Sort

/-! ## Generic pieces -/

/-- Lexicographic comparison of two sequences: the shape of `Ord for [T]`/`str`, and of the loops
`for (a, b) in xs.iter().zip(ys.iter()) { let ord = a.cmp(b); if ord != Equal { return ord } }
xs.len().cmp(&ys.len())` in `imports.rs`. -/
def lexCmp {α} (cmp : α → α → Ordering) : List α → List α → Ordering
  | [], [] => .eq
  | [], _ :: _ => .lt
  | _ :: _, [] => .gt
  | a :: as, b :: bs =>
    match cmp a b with
    | .eq => lexCmp cmp as bs
    | o => o

/-- `char` comparison (by code point). -/
def charCmp (a b : Char) : Ordering := compare a.toNat b.toNat

/-- `str::cmp` (see the header for why code points). -/
def strCmp (a b : List Char) : Ordering := lexCmp charCmp a b

/-- `Option<T>::cmp` (derived): `None < Some(_)`. -/
def optCmp {α} (cmp : α → α → Ordering) : Option α → Option α → Ordering
  | none, none => .eq
  | none, some _ => .lt
  | some _, none => .gt
  | some a, some b => cmp a b

/-- Insert `x` in front of the first element that is not smaller than `x`. -/
def insertSorted {α} (cmp : α → α → Ordering) (x : α) : List α → List α
  | [] => [x]
  | y :: ys => if cmp x y = .gt then y :: insertSorted cmp x ys else x :: y :: ys

/-- Stable insertion sort: stands for `slice::sort_by(cmp)` / `slice::sort()`
(`reorder.rs:143` `items.sort()`, `reorder.rs:187` `item_pair_vec.sort_by(..)`,
`imports.rs:888` `trees.sort()`).  The standard library promises a stable sort and, since 1.81,
may panic when `cmp` is not a total order; the theorems of C11 show the comparators are total
preorders and that the result of any stable sort is then this list. -/
def stableSort {α} (cmp : α → α → Ordering) : List α → List α
  | [] => []
  | x :: xs => insertSorted cmp x (stableSort cmp xs)

/-! ## `src/sort.rs` -/

/-- `char::is_ascii_digit` -/
def isAsciiDigit (c : Char) : Bool := 48 ≤ c.toNat && c.toNat ≤ 57

/-- `usize::MAX + 1` on the 64-bit targets rustfmt is built for. -/
def usizeBound : Nat := 2 ^ 64

/-- Value of a run of ASCII digits, most significant first (`none` on a non-digit). -/
def digitsVal : Nat → List Char → Option Nat
  | acc, [] => some acc
  | acc, c :: cs => if isAsciiDigit c then digitsVal (acc * 10 + (c.toNat - 48)) cs else none

/-- `str::parse::<usize>().ok()` (`core::num::from_str_radix`, radix 10): empty string, a lone
sign, `-`, a non-digit or a value above `usize::MAX` give `None`; one leading `+` is accepted.
(`sort.rs:44` only ever passes a non-empty run of ASCII digits.) -/
def parseUsize (s : List Char) : Option Nat :=
  let digits := match s with
    | '+' :: rest => rest
    | _ => s
  match digits with
  | [] => none
  | _ :: _ =>
    match digitsVal 0 digits with
    | some v => if v < usizeBound then some v else none
    | none => none

/-- `VersionChunk` (`sort.rs:110-123`) -/
inductive Chunk where
  | underscore
  | str (s : List Char)
  | number (value zeros : Nat) (source : List Char)
  deriving Repr, DecidableEq

/-- The condition on which the loop of `parse_str_chunk` stops (`sort.rs:60-74`). -/
def endsStrChunk (c : Char) : Bool := c = '_' || isAsciiDigit c

/-- `VersionChunkIter::next` (`sort.rs:90-108`) with `parse_numeric_chunk` (`:15-51`) and
`parse_str_chunk` (`:53-87`); the argument is `&self.ident[self.start..]`, the second component
of the result is the same slice after the update of `self.start`.  A numeric chunk is the
maximal run of ASCII digits; a text chunk runs up to the next `_` or ASCII digit.  When the
digits do not fit `usize`, `parse::<usize>().ok()?` makes `next` return `None`. -/
def nextChunk : List Char → Option (Chunk × List Char)
  | [] => none
  | c :: cs =>
    if c = '_' then some (.underscore, cs)
    else if isAsciiDigit c then
      let source := c :: cs.takeWhile isAsciiDigit
      let rest := cs.dropWhile isAsciiDigit
      let zeros := (source.takeWhile (· = '0')).length
      match parseUsize source with
      | none => none
      | some value => some (.number value zeros source, rest)
    else
      some (.str (c :: cs.takeWhile (fun c => !endsStrChunk c)),
            cs.dropWhile (fun c => !endsStrChunk c))

/-- The items produced by the iterator until its first `None` (`zip_longest` fuses both sides and
`version_sort` returns as soon as one side is exhausted, so nothing after the first `None` is
ever looked at).  `fuel` bounds the number of calls of `next`. -/
def chunksFuel : Nat → List Char → List Chunk
  | 0, _ => []
  | fuel + 1, s =>
    match nextChunk s with
    | none => []
    | some (c, rest) => c :: chunksFuel fuel rest

/-- All chunks of an identifier; every call of `next` consumes at least one character, so
`s.length` calls suffice (`RF.Lemmas.Sort.chunksFuel_enough`). -/
def chunks (s : List Char) : List Chunk := chunksFuel s.length s

/-- `MoreLeadingZeros` (`sort.rs:125-131`) -/
inductive MoreLeadingZeros where
  | left | right | equal
  deriving Repr, DecidableEq

/-- The `for` loop and the final `match` of `version_sort` (`sort.rs:141-195`) over the two chunk
sequences; the first argument is `more_leading_zeros`. -/
def cmpChunks : MoreLeadingZeros → List Chunk → List Chunk → Ordering
  | m, [], [] =>
    match m with
    | .equal => .eq
    | .left => .lt
    | .right => .gt
  | _, _ :: _, [] => .gt          -- EitherOrBoth::Left
  | _, [], _ :: _ => .lt          -- EitherOrBoth::Right
  | m, a :: as, b :: bs =>
    match a, b with
    | .underscore, .underscore => cmpChunks m as bs
    | .underscore, _ => .lt
    | _, .underscore => .gt
    | .str ca, .str cb | .str ca, .number _ _ cb | .number _ _ ca, .str cb =>
      match strCmp ca cb with
      | .eq => cmpChunks m as bs
      | o => o
    | .number va lza _, .number vb lzb _ =>
      match compare va vb with
      | .eq =>
        if lza = lzb then cmpChunks m as bs
        else if m = .equal ∧ lza > lzb then cmpChunks .left as bs
        else if m = .equal ∧ lza < lzb then cmpChunks .right as bs
        else cmpChunks m as bs
      | o => o

/-- `version_sort` (`sort.rs:136-196`) -/
def versionSort (a b : List Char) : Ordering := cmpChunks .equal (chunks a) (chunks b)

/-- Oracle for the antisymmetry theorem: every maximal run of ASCII digits of the string has a
value below `usizeBound` (so no numeric chunk fails to parse and the iterator reaches the end of
the identifier).  `cur` is the value of the digit run read so far; the value only grows while the
run is extended, so it is checked where the run ends. -/
def runsFitAux : Nat → List Char → Bool
  | cur, [] => cur < usizeBound
  | cur, c :: cs =>
    if isAsciiDigit c then runsFitAux (cur * 10 + (c.toNat - 48)) cs
    else cur < usizeBound && runsFitAux 0 cs

def allRunsFit (s : List Char) : Bool := runsFitAux 0 s

/-- The text a chunk was cut from. -/
def Chunk.source : Chunk → List Char
  | .underscore => ['_']
  | .str s => s
  | .number _ _ src => src

/-! ## Identifier comparison of `UseSegment::cmp` (`src/imports.rs:907-991`) -/

def inRanges (rs : List (Nat × Nat)) (n : Nat) : Bool := rs.any fun r => r.1 ≤ n && n ≤ r.2

/-- Code points with the `Uppercase` property, as inclusive ranges (dumped from the toolchain). -/
def upperRanges : List (Nat × Nat) := [
  (65,90), (192,214), (216,222), (256,256), (258,258), (260,260), (262,262), (264,264),
  (266,266), (268,268), (270,270), (272,272), (274,274), (276,276), (278,278), (280,280),
  (282,282), (284,284), (286,286), (288,288), (290,290), (292,292), (294,294), (296,296),
  (298,298), (300,300), (302,302), (304,304), (306,306), (308,308), (310,310), (313,313),
  (315,315), (317,317), (319,319), (321,321), (323,323), (325,325), (327,327), (330,330),
  (332,332), (334,334), (336,336), (338,338), (340,340), (342,342), (344,344), (346,346),
  (348,348), (350,350), (352,352), (354,354), (356,356), (358,358), (360,360), (362,362),
  (364,364), (366,366), (368,368), (370,370), (372,372), (374,374), (376,377), (379,379),
  (381,381), (385,386), (388,388), (390,391), (393,395), (398,401), (403,404), (406,408),
  (412,413), (415,416), (418,418), (420,420), (422,423), (425,425), (428,428), (430,431),
  (433,435), (437,437), (439,440), (444,444), (452,452), (455,455), (458,458), (461,461),
  (463,463), (465,465), (467,467), (469,469), (471,471), (473,473), (475,475), (478,478),
  (480,480), (482,482), (484,484), (486,486), (488,488), (490,490), (492,492), (494,494),
  (497,497), (500,500), (502,504), (506,506), (508,508), (510,510), (512,512), (514,514),
  (516,516), (518,518), (520,520), (522,522), (524,524), (526,526), (528,528), (530,530),
  (532,532), (534,534), (536,536), (538,538), (540,540), (542,542), (544,544), (546,546),
  (548,548), (550,550), (552,552), (554,554), (556,556), (558,558), (560,560), (562,562),
  (570,571), (573,574), (577,577), (579,582), (584,584), (586,586), (588,588), (590,590),
  (880,880), (882,882), (886,886), (895,895), (902,902), (904,906), (908,908), (910,911),
  (913,929), (931,939), (975,975), (978,980), (984,984), (986,986), (988,988), (990,990),
  (992,992), (994,994), (996,996), (998,998), (1000,1000), (1002,1002), (1004,1004), (1006,1006),
  (1012,1012), (1015,1015), (1017,1018), (1021,1071), (1120,1120), (1122,1122), (1124,1124), (1126,1126),
  (1128,1128), (1130,1130), (1132,1132), (1134,1134), (1136,1136), (1138,1138), (1140,1140), (1142,1142),
  (1144,1144), (1146,1146), (1148,1148), (1150,1150), (1152,1152), (1162,1162), (1164,1164), (1166,1166),
  (1168,1168), (1170,1170), (1172,1172), (1174,1174), (1176,1176), (1178,1178), (1180,1180), (1182,1182),
  (1184,1184), (1186,1186), (1188,1188), (1190,1190), (1192,1192), (1194,1194), (1196,1196), (1198,1198),
  (1200,1200), (1202,1202), (1204,1204), (1206,1206), (1208,1208), (1210,1210), (1212,1212), (1214,1214),
  (1216,1217), (1219,1219), (1221,1221), (1223,1223), (1225,1225), (1227,1227), (1229,1229), (1232,1232),
  (1234,1234), (1236,1236), (1238,1238), (1240,1240), (1242,1242), (1244,1244), (1246,1246), (1248,1248),
  (1250,1250), (1252,1252), (1254,1254), (1256,1256), (1258,1258), (1260,1260), (1262,1262), (1264,1264),
  (1266,1266), (1268,1268), (1270,1270), (1272,1272), (1274,1274), (1276,1276), (1278,1278), (1280,1280),
  (1282,1282), (1284,1284), (1286,1286), (1288,1288), (1290,1290), (1292,1292), (1294,1294), (1296,1296),
  (1298,1298), (1300,1300), (1302,1302), (1304,1304), (1306,1306), (1308,1308), (1310,1310), (1312,1312),
  (1314,1314), (1316,1316), (1318,1318), (1320,1320), (1322,1322), (1324,1324), (1326,1326), (1329,1366),
  (4256,4293), (4295,4295), (4301,4301), (5024,5109), (7305,7305), (7312,7354), (7357,7359), (7680,7680),
  (7682,7682), (7684,7684), (7686,7686), (7688,7688), (7690,7690), (7692,7692), (7694,7694), (7696,7696),
  (7698,7698), (7700,7700), (7702,7702), (7704,7704), (7706,7706), (7708,7708), (7710,7710), (7712,7712),
  (7714,7714), (7716,7716), (7718,7718), (7720,7720), (7722,7722), (7724,7724), (7726,7726), (7728,7728),
  (7730,7730), (7732,7732), (7734,7734), (7736,7736), (7738,7738), (7740,7740), (7742,7742), (7744,7744),
  (7746,7746), (7748,7748), (7750,7750), (7752,7752), (7754,7754), (7756,7756), (7758,7758), (7760,7760),
  (7762,7762), (7764,7764), (7766,7766), (7768,7768), (7770,7770), (7772,7772), (7774,7774), (7776,7776),
  (7778,7778), (7780,7780), (7782,7782), (7784,7784), (7786,7786), (7788,7788), (7790,7790), (7792,7792),
  (7794,7794), (7796,7796), (7798,7798), (7800,7800), (7802,7802), (7804,7804), (7806,7806), (7808,7808),
  (7810,7810), (7812,7812), (7814,7814), (7816,7816), (7818,7818), (7820,7820), (7822,7822), (7824,7824),
  (7826,7826), (7828,7828), (7838,7838), (7840,7840), (7842,7842), (7844,7844), (7846,7846), (7848,7848),
  (7850,7850), (7852,7852), (7854,7854), (7856,7856), (7858,7858), (7860,7860), (7862,7862), (7864,7864),
  (7866,7866), (7868,7868), (7870,7870), (7872,7872), (7874,7874), (7876,7876), (7878,7878), (7880,7880),
  (7882,7882), (7884,7884), (7886,7886), (7888,7888), (7890,7890), (7892,7892), (7894,7894), (7896,7896),
  (7898,7898), (7900,7900), (7902,7902), (7904,7904), (7906,7906), (7908,7908), (7910,7910), (7912,7912),
  (7914,7914), (7916,7916), (7918,7918), (7920,7920), (7922,7922), (7924,7924), (7926,7926), (7928,7928),
  (7930,7930), (7932,7932), (7934,7934), (7944,7951), (7960,7965), (7976,7983), (7992,7999), (8008,8013),
  (8025,8025), (8027,8027), (8029,8029), (8031,8031), (8040,8047), (8120,8123), (8136,8139), (8152,8155),
  (8168,8172), (8184,8187), (8450,8450), (8455,8455), (8459,8461), (8464,8466), (8469,8469), (8473,8477),
  (8484,8484), (8486,8486), (8488,8488), (8490,8493), (8496,8499), (8510,8511), (8517,8517), (8544,8559),
  (8579,8579), (9398,9423), (11264,11311), (11360,11360), (11362,11364), (11367,11367), (11369,11369), (11371,11371),
  (11373,11376), (11378,11378), (11381,11381), (11390,11392), (11394,11394), (11396,11396), (11398,11398), (11400,11400),
  (11402,11402), (11404,11404), (11406,11406), (11408,11408), (11410,11410), (11412,11412), (11414,11414), (11416,11416),
  (11418,11418), (11420,11420), (11422,11422), (11424,11424), (11426,11426), (11428,11428), (11430,11430), (11432,11432),
  (11434,11434), (11436,11436), (11438,11438), (11440,11440), (11442,11442), (11444,11444), (11446,11446), (11448,11448),
  (11450,11450), (11452,11452), (11454,11454), (11456,11456), (11458,11458), (11460,11460), (11462,11462), (11464,11464),
  (11466,11466), (11468,11468), (11470,11470), (11472,11472), (11474,11474), (11476,11476), (11478,11478), (11480,11480),
  (11482,11482), (11484,11484), (11486,11486), (11488,11488), (11490,11490), (11499,11499), (11501,11501), (11506,11506),
  (42560,42560), (42562,42562), (42564,42564), (42566,42566), (42568,42568), (42570,42570), (42572,42572), (42574,42574),
  (42576,42576), (42578,42578), (42580,42580), (42582,42582), (42584,42584), (42586,42586), (42588,42588), (42590,42590),
  (42592,42592), (42594,42594), (42596,42596), (42598,42598), (42600,42600), (42602,42602), (42604,42604), (42624,42624),
  (42626,42626), (42628,42628), (42630,42630), (42632,42632), (42634,42634), (42636,42636), (42638,42638), (42640,42640),
  (42642,42642), (42644,42644), (42646,42646), (42648,42648), (42650,42650), (42786,42786), (42788,42788), (42790,42790),
  (42792,42792), (42794,42794), (42796,42796), (42798,42798), (42802,42802), (42804,42804), (42806,42806), (42808,42808),
  (42810,42810), (42812,42812), (42814,42814), (42816,42816), (42818,42818), (42820,42820), (42822,42822), (42824,42824),
  (42826,42826), (42828,42828), (42830,42830), (42832,42832), (42834,42834), (42836,42836), (42838,42838), (42840,42840),
  (42842,42842), (42844,42844), (42846,42846), (42848,42848), (42850,42850), (42852,42852), (42854,42854), (42856,42856),
  (42858,42858), (42860,42860), (42862,42862), (42873,42873), (42875,42875), (42877,42878), (42880,42880), (42882,42882),
  (42884,42884), (42886,42886), (42891,42891), (42893,42893), (42896,42896), (42898,42898), (42902,42902), (42904,42904),
  (42906,42906), (42908,42908), (42910,42910), (42912,42912), (42914,42914), (42916,42916), (42918,42918), (42920,42920),
  (42922,42926), (42928,42932), (42934,42934), (42936,42936), (42938,42938), (42940,42940), (42942,42942), (42944,42944),
  (42946,42946), (42948,42951), (42953,42953), (42955,42956), (42960,42960), (42966,42966), (42968,42968), (42970,42970),
  (42972,42972), (42997,42997), (65313,65338), (66560,66599), (66736,66771), (66928,66938), (66940,66954), (66956,66962),
  (66964,66965), (68736,68786), (68944,68965), (71840,71871), (93760,93791), (119808,119833), (119860,119885), (119912,119937),
  (119964,119964), (119966,119967), (119970,119970), (119973,119974), (119977,119980), (119982,119989), (120016,120041), (120068,120069),
  (120071,120074), (120077,120084), (120086,120092), (120120,120121), (120123,120126), (120128,120132), (120134,120134), (120138,120144),
  (120172,120197), (120224,120249), (120276,120301), (120328,120353), (120380,120405), (120432,120457), (120488,120512), (120546,120570),
  (120604,120628), (120662,120686), (120720,120744), (120778,120778), (125184,125217), (127280,127305), (127312,127337), (127344,127369)]

/-- Code points of general category `Nd`, `Nl` or `No`, as inclusive ranges (dumped). -/
def numericRanges : List (Nat × Nat) := [
  (48,57), (178,179), (185,185), (188,190), (1632,1641), (1776,1785), (1984,1993), (2406,2415),
  (2534,2543), (2548,2553), (2662,2671), (2790,2799), (2918,2927), (2930,2935), (3046,3058), (3174,3183),
  (3192,3198), (3302,3311), (3416,3422), (3430,3448), (3558,3567), (3664,3673), (3792,3801), (3872,3891),
  (4160,4169), (4240,4249), (4969,4988), (5870,5872), (6112,6121), (6128,6137), (6160,6169), (6470,6479),
  (6608,6618), (6784,6793), (6800,6809), (6992,7001), (7088,7097), (7232,7241), (7248,7257), (8304,8304),
  (8308,8313), (8320,8329), (8528,8578), (8581,8585), (9312,9371), (9450,9471), (10102,10131), (11517,11517),
  (12295,12295), (12321,12329), (12344,12346), (12690,12693), (12832,12841), (12872,12879), (12881,12895), (12928,12937),
  (12977,12991), (42528,42537), (42726,42735), (43056,43061), (43216,43225), (43264,43273), (43472,43481), (43504,43513),
  (43600,43609), (44016,44025), (65296,65305), (65799,65843), (65856,65912), (65930,65931), (66273,66299), (66336,66339),
  (66369,66369), (66378,66378), (66513,66517), (66720,66729), (67672,67679), (67705,67711), (67751,67759), (67835,67839),
  (67862,67867), (68028,68029), (68032,68047), (68050,68095), (68160,68168), (68221,68222), (68253,68255), (68331,68335),
  (68440,68447), (68472,68479), (68521,68527), (68858,68863), (68912,68921), (68928,68937), (69216,69246), (69405,69414),
  (69457,69460), (69573,69579), (69714,69743), (69872,69881), (69942,69951), (70096,70105), (70113,70132), (70384,70393),
  (70736,70745), (70864,70873), (71248,71257), (71360,71369), (71376,71395), (71472,71483), (71904,71922), (72016,72025),
  (72688,72697), (72784,72812), (73040,73049), (73120,73129), (73552,73561), (73664,73684), (74752,74862), (90416,90425),
  (92768,92777), (92864,92873), (93008,93017), (93019,93025), (93552,93561), (93824,93846), (118000,118009), (119488,119507),
  (119520,119539), (119648,119672), (120782,120831), (123200,123209), (123632,123641), (124144,124153), (124401,124410), (125127,125135),
  (125264,125273), (126065,126123), (126125,126127), (126129,126132), (126209,126253), (126255,126269), (127232,127244), (130032,130041)]

/-- `char::is_uppercase` -/
def isUppercase (c : Char) : Bool := inRanges upperRanges c.toNat
/-- `char::is_numeric` -/
def isNumeric (c : Char) : Bool := inRanges numericRanges c.toNat

/-- `s.starts_with(char::is_uppercase)` -/
def startsUpper : List Char → Bool
  | [] => false
  | c :: _ => isUppercase c

/-- `is_upper_snake_case` (`imports.rs:910-913`); true of the empty string. -/
def isUpperSnakeCase (s : List Char) : Bool := s.all fun c => isUppercase c || c = '_' || isNumeric c

/-- The `else` branch computing `ident_ord` for style editions ≤ 2021 (`imports.rs:939-953`):
snake_case < CamelCase < UPPER_SNAKE_CASE, then `str::cmp`.  (The early `return`s return a
non-`Equal` value, which is also what falling through `if ident_ord != Equal` returns.) -/
def legacyIdentCmp (ia ib : List Char) : Ordering :=
  if startsUpper ia && !startsUpper ib then .gt
  else if !startsUpper ia && startsUpper ib then .lt
  else if isUpperSnakeCase ia && !isUpperSnakeCase ib then .gt
  else if !isUpperSnakeCase ia && isUpperSnakeCase ib then .lt
  else strCmp ia ib

/-- `s.trim_start_matches("r#")`: removes the prefix `r#` repeatedly. -/
def trimRaw : List Char → List Char
  | 'r' :: '#' :: rest => trimRaw rest
  | s => s

/-- Comparison of two identifier-like strings as `UseSegment::cmp` does it, selected by
`self.style_edition >= StyleEdition::Edition2024`. -/
def identCmp (v2024 : Bool) (a b : List Char) : Ordering :=
  if v2024 then versionSort (trimRaw a) (trimRaw b) else legacyIdentCmp a b

/-- Comparison of the aliases of two `Ident` segments whose names rank equal
(`imports.rs:958-970`). -/
def identAliasCmp (v2024 : Bool) : Option (List Char) → Option (List Char) → Ordering
  | none, some _ => .lt
  | some _, none => .gt
  | some a, some b => if v2024 then versionSort (trimRaw a) (trimRaw b) else strCmp a b
  | none, none => .eq

/-- Comparison of the aliases of two `self`/`super`/`crate` segments (`imports.rs:916-927`);
`a.cmp(b)` on `Option<String>` is `optCmp strCmp`. -/
def kwAliasCmp (v2024 : Bool) : Option (List Char) → Option (List Char) → Ordering
  | some a, some b => if v2024 then versionSort (trimRaw a) (trimRaw b) else optCmp strCmp (some a) (some b)
  | a, b => optCmp strCmp a b

end RF.Sort

namespace RF.Imports
open RF.Sort

/- `UseSegmentKind` / `UseTree.path` (`imports.rs:92-122`).  Shared with the C10 model; the
visibility, attributes and list item of a top-level tree are not read by `Ord`. -/
mutual
inductive Seg where
  | ident (name : List Char) (alias : Option (List Char))
  | slf (alias : Option (List Char))
  | super (alias : Option (List Char))
  | crate (alias : Option (List Char))
  | glob
  | list (trees : List Tree)
inductive Tree where
  | mk (path : List Seg)
end

/-- `UseSegment::remove_alias` (`imports.rs:144-156`); `Glob` and `List` are cloned unchanged
(aliases nested inside a list stay). -/
def removeAlias : Seg → Seg
  | .ident s _ => .ident s none
  | .slf _ => .slf none
  | .super _ => .super none
  | .crate _ => .crate none
  | s => s

/- `impl Ord for UseSegment` (`imports.rs:907-991`) and `impl Ord for UseTree` (`:992-1008`).

`segCmpCore v2024 keep a b` is `a.cmp(b)` when `keep = true` and
`a.remove_alias().cmp(&b.remove_alias())` when `keep = false`
(`RF.Lemmas.Sort.segCmpCore_false`: `segCmpCore v false a b = segCmp v (removeAlias a)
(removeAlias b)`); the second form is needed inside the same recursion by `UseTree::cmp` and
would not be a structurally smaller call if written with `removeAlias`.  With aliases removed
the alias comparisons see `(None, None)`, i.e. `Equal`.
`treesCmp` is the `(List(a), List(b))` arm, `pathCmp` the loop of `UseTree::cmp`. -/
mutual
def segCmpCore (v2024 keep : Bool) : Seg → Seg → Ordering
  | .slf a, .slf b | .super a, .super b | .crate a, .crate b =>
    if keep then kwAliasCmp v2024 a b else kwAliasCmp v2024 none none
  | .glob, .glob => .eq
  | .ident pia aa, .ident pib ab =>
    let identOrd := identCmp v2024 pia pib
    if identOrd ≠ .eq then identOrd
    else if keep then identAliasCmp v2024 aa ab else identAliasCmp v2024 none none
  | .list as, .list bs => treesCmp v2024 as bs
  | .slf _, _ => .lt
  | _, .slf _ => .gt
  | .super _, _ => .lt
  | _, .super _ => .gt
  | .crate _, _ => .lt
  | _, .crate _ => .gt
  | .ident _ _, _ => .lt
  | _, .ident _ _ => .gt
  | .glob, _ => .lt
  | _, .glob => .gt
termination_by structural a => a
def treesCmp (v2024 : Bool) : List Tree → List Tree → Ordering
  | [], [] => .eq
  | [], _ :: _ => .lt
  | _ :: _, [] => .gt
  | a :: as, b :: bs =>
    match treeCmp v2024 a b with
    | .eq => treesCmp v2024 as bs
    | o => o
termination_by structural a => a
def treeCmp (v2024 : Bool) : Tree → Tree → Ordering
  | .mk p, .mk q => pathCmp v2024 p q
termination_by structural a => a
def pathCmp (v2024 : Bool) : List Seg → List Seg → Ordering
  | [], [] => .eq
  | [], _ :: _ => .lt
  | _ :: _, [] => .gt
  | a :: as, b :: bs =>
    let ord := segCmpCore v2024 true a b
    -- "The comparison without aliases is a hack to avoid situations like comparing
    --  `a::b` to `a as c`"
    if ord ≠ .eq ∧ segCmpCore v2024 false a b ≠ .eq then ord
    else pathCmp v2024 as bs
termination_by structural a => a
end

/-- `UseSegment::cmp` -/
def segCmp (v2024 : Bool) (a b : Seg) : Ordering := segCmpCore v2024 true a b

/-- The name under which an identifier is ranked: style edition 2024 strips `r#`. -/
def canonName (v2024 : Bool) (n : List Char) : List Char := if v2024 then trimRaw n else n

/- Canonical representative of the rank of a tree under `UseTree::cmp`: every alias erased (at
every depth) and every identifier replaced by `canonName`.  `RF.Props.C11` shows that two trees
rank equal exactly when their canonical forms are equal (for 2024: when all numbers fit `usize`). -/
mutual
def canonSeg (v2024 : Bool) : Seg → Seg
  | .ident n _ => .ident (canonName v2024 n) none
  | .slf _ => .slf none
  | .super _ => .super none
  | .crate _ => .crate none
  | .glob => .glob
  | .list ts => .list (canonTrees v2024 ts)
termination_by structural a => a
def canonTrees (v2024 : Bool) : List Tree → List Tree
  | [] => []
  | t :: ts => canonTree v2024 t :: canonTrees v2024 ts
termination_by structural a => a
def canonTree (v2024 : Bool) : Tree → Tree
  | .mk p => .mk (canonPath v2024 p)
termination_by structural a => a
def canonPath (v2024 : Bool) : List Seg → List Seg
  | [] => []
  | s :: ss => canonSeg v2024 s :: canonPath v2024 ss
termination_by structural a => a
end

/- All identifier names occurring in a tree (aliases excluded). -/
mutual
def segNames : Seg → List (List Char)
  | .ident n _ => [n]
  | .list ts => treesNames ts
  | _ => []
termination_by structural a => a
def treesNames : List Tree → List (List Char)
  | [] => []
  | t :: ts => treeNames t ++ treesNames ts
termination_by structural a => a
def treeNames : Tree → List (List Char)
  | .mk p => pathNames p
termination_by structural a => a
def pathNames : List Seg → List (List Char)
  | [] => []
  | s :: ss => segNames s ++ pathNames ss
termination_by structural a => a
end

end RF.Imports

namespace RF.Reorder
open RF.Sort

/-! ## `src/reorder.rs` -/

inductive ItemKind where
  | mod | externCrate
  deriving Repr, DecidableEq

/-- What `compare_items` reads of an `ast::Item`: `mod name;`, `extern crate name;` or
`extern crate name as rename;`. -/
structure Item where
  kind : ItemKind
  name : List Char
  rename : Option (List Char)
  deriving Repr, DecidableEq

/-- `item.ident` of an `ItemKind::ExternCrate(orig_name, ident)`: the name the crate is bound to. -/
def Item.astIdent (i : Item) : List Char := i.rename.getD i.name
/-- `orig_name` of `ItemKind::ExternCrate`: `Some(name)` exactly when there is an `as` clause. -/
def Item.astOrigName (i : Item) : Option (List Char) := i.rename.map fun _ => i.name

/-- The string comparison selected by `style_edition <= Edition2021` in `compare_items`. -/
def nameCmp (v2024 : Bool) (a b : List Char) : Ordering :=
  if v2024 then versionSort a b else strCmp a b

/-- `compare_items`, `Mod` arm (`reorder.rs:30-36`) -/
def modCmp (v2024 : Bool) (a b : Item) : Ordering := nameCmp v2024 a.name b.name

/-- `compare_items`, `ExternCrate` arm (`reorder.rs:37-64`) -/
def externCmp (v2024 : Bool) (a b : Item) : Ordering :=
  let aOrig := a.astOrigName.getD a.astIdent
  let bOrig := b.astOrigName.getD b.astIdent
  let result := nameCmp v2024 aOrig bOrig
  if result ≠ .eq then result
  else match a.astOrigName, b.astOrigName with
    | some _, none => .gt
    | none, some _ => .lt
    | none, none => .eq
    | some _, some _ => nameCmp v2024 a.astIdent b.astIdent

/-- `compare_items` (`reorder.rs:27-67`); `none` is the `unreachable!()` of mixed kinds. -/
def compareItems (v2024 : Bool) (a b : Item) : Option Ordering :=
  match a.kind, b.kind with
  | .mod, .mod => some (modCmp v2024 a b)
  | .externCrate, .externCrate => some (externCmp v2024 a b)
  | _, _ => none

/-- The syntactic kind of an item, as far as `ReorderableItemKind::from` distinguishes. -/
inductive AstKind where
  | externCrate | modDecl | use | other
  deriving Repr, DecidableEq

/-- `ReorderableItemKind` (`reorder.rs:233-243`) -/
inductive RKind where
  | externCrate | mod | use | other
  deriving Repr, DecidableEq

/-- What the grouping reads of an item: kind, `#[macro_use]`, `#[rustfmt::skip]`, and the line
range of its span (`lookup_line_range`). -/
structure GItem where
  ast : AstKind
  macroUse : Bool
  skip : Bool
  lo : Nat
  hi : Nat
  deriving Repr, DecidableEq

/-- `ReorderableItemKind::from` (`reorder.rs:246-256`) -/
def RKind.ofItem (i : GItem) : RKind :=
  if i.macroUse || i.skip then .other
  else match i.ast with
    | .externCrate => .externCrate
    | .modDecl => .mod
    | .use => .use
    | .other => .other

/-- The three options read by the grouping: `reorder_imports`, `reorder_modules`, and whether
`group_imports` is `Preserve`. -/
structure GConfig where
  reorderImports : Bool
  reorderModules : Bool
  groupPreserve : Bool
  deriving Repr, DecidableEq

/-- `is_reorderable` (`reorder.rs:262-269`) -/
def RKind.isReorderable (c : GConfig) : RKind → Bool
  | .externCrate => c.reorderImports
  | .mod => c.reorderModules
  | .use => c.reorderImports
  | .other => false

/-- `is_regroupable` (`reorder.rs:271-278`) -/
def RKind.isRegroupable (c : GConfig) : RKind → Bool
  | .use => !c.groupPreserve
  | _ => false

/-- `in_group` (`reorder.rs:280-286`) -/
def RKind.inGroup (c : GConfig) : RKind → Bool
  | .externCrate | .mod => true
  | .use => c.groupPreserve
  | .other => false

/-- The `take_while(..).count()` of `walk_reorderable_or_regroupable_items`
(`reorder.rs:300-313`): `lastHi` is `last.hi`. -/
def groupLen (kind : RKind) (inGroup : Bool) : Nat → List GItem → Nat
  | _, [] => 0
  | lastHi, i :: is =>
    if RKind.ofItem i = kind ∧ (!inGroup ∨ i.lo < lastHi + 2) then
      1 + groupLen kind inGroup i.hi is
    else 0

/-- One step of the output of `visit_items_with_reordering`: a run handed to
`rewrite_reorderable_or_regroupable_items`, or a single item handed to `visit_item`. -/
inductive Group where
  | run (kind : RKind) (items : List GItem)
  | single (item : GItem)
  deriving Repr, DecidableEq

/-- `visit_items_with_reordering` (`reorder.rs:331-353`).  `fuel` bounds the iterations of the
`while` loop; `none` stands for the loop not making progress (a run of length 0, which needs
an item whose line range has `lo > hi + 1`) or for running out of fuel. -/
def splitGroupsFuel (c : GConfig) : Nat → List GItem → Option (List Group)
  | _, [] => some []
  | 0, _ :: _ => none
  | fuel + 1, i :: is =>
    let kind := RKind.ofItem i
    if kind.isReorderable c || kind.isRegroupable c then
      let n := groupLen kind (kind.inGroup c) i.hi (i :: is)
      if n = 0 then none
      else (splitGroupsFuel c fuel ((i :: is).drop n)).map fun gs => .run kind ((i :: is).take n) :: gs
    else
      (splitGroupsFuel c fuel is).map fun gs => .single i :: gs

def splitGroups (c : GConfig) (items : List GItem) : Option (List Group) :=
  splitGroupsFuel c items.length items

def Group.items : Group → List GItem
  | .run _ is => is
  | .single i => [i]

end RF.Reorder
