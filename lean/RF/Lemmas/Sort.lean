import RF.Model.Sort

/-!
Lemmas for C11: total preorders, lexicographic products, the stable sort, and the comparators of
`RF.Model.Sort`.
-/
namespace RF.Lemmas.Sort
open RF.Sort

/-! ## Total preorders given by a three-way comparison -/

/-- `cmp` is a consistent three-way comparison on the elements satisfying `P`: reflexive,
the two directions agree (`swap`, which gives totality), and `≤` (`≠ .gt`) is transitive. -/
structure TotalPreorderOn {α} (P : α → Prop) (cmp : α → α → Ordering) : Prop where
  refl : ∀ a, P a → cmp a a = .eq
  swap : ∀ a b, P a → P b → cmp b a = (cmp a b).swap
  trans : ∀ a b c, P a → P b → P c → cmp a b ≠ .gt → cmp b c ≠ .gt → cmp a c ≠ .gt

/-- `cmp` is a total preorder on the whole type. -/
structure TotalPreorder {α} (cmp : α → α → Ordering) : Prop where
  refl : ∀ a, cmp a a = .eq
  swap : ∀ a b, cmp b a = (cmp a b).swap
  trans : ∀ a b c, cmp a b ≠ .gt → cmp b c ≠ .gt → cmp a c ≠ .gt

theorem TotalPreorder.on {α} {cmp : α → α → Ordering} (h : TotalPreorder cmp) (P : α → Prop) :
    TotalPreorderOn P cmp :=
  ⟨fun a _ => h.refl a, fun a b _ _ => h.swap a b, fun a b c _ _ _ => h.trans a b c⟩

theorem TotalPreorderOn.total {α} {P : α → Prop} {cmp : α → α → Ordering}
    (h : TotalPreorderOn P cmp) (hP : ∀ a, P a) : TotalPreorder cmp :=
  ⟨fun a => h.refl a (hP a), fun a b => h.swap a b (hP a) (hP b),
   fun a b c => h.trans a b c (hP a) (hP b) (hP c)⟩

/-- Totality: of any two elements one is `≤` the other. -/
theorem TotalPreorder.total {α} {cmp : α → α → Ordering} (h : TotalPreorder cmp) (a b : α) :
    cmp a b ≠ .gt ∨ cmp b a ≠ .gt := by
  have := h.swap a b
  cases hab : cmp a b <;> simp_all

namespace TotalPreorderOn
variable {α : Sort _} {P : α → Prop} {cmp : α → α → Ordering}

/-- Rank-equal elements compare alike with every third element (left argument). -/
theorem congr_left (h : TotalPreorderOn P cmp) {a b c : α} (ha : P a) (hb : P b) (hc : P c)
    (hab : cmp a b = .eq) : cmp a c = cmp b c := by
  have s1 := h.swap a b ha hb
  have s2 := h.swap a c ha hc
  have s3 := h.swap b c hb hc
  have t1 := h.trans a b c ha hb hc
  have t2 := h.trans b a c hb ha hc
  have t3 := h.trans c a b hc ha hb
  have t4 := h.trans c b a hc hb ha
  revert s1 s2 s3 t1 t2 t3 t4
  generalize cmp a c = x, cmp b c = y, cmp c a = x', cmp c b = y', cmp b a = z at *
  rw [hab]
  cases x <;> cases y <;> cases x' <;> cases y' <;> cases z <;> simp [Ordering.swap]

/-- Rank-equal elements compare alike with every third element (right argument). -/
theorem congr_right (h : TotalPreorderOn P cmp) {a b c : α} (ha : P a) (hb : P b) (hc : P c)
    (hbc : cmp b c = .eq) : cmp a b = cmp a c := by
  have e1 := h.swap a b ha hb
  have e2 := h.swap a c ha hc
  have hcb : cmp c b = .eq := by rw [h.swap b c hb hc, hbc]; rfl
  have := h.congr_left hc hb ha hcb
  rw [e1, e2] at this
  revert this
  cases cmp a b <;> cases cmp a c <;> simp [Ordering.swap]

theorem lt_trans (h : TotalPreorderOn P cmp) {a b c : α} (ha : P a) (hb : P b) (hc : P c)
    (hab : cmp a b = .lt) (hbc : cmp b c = .lt) : cmp a c = .lt := by
  have s1 := h.swap a b ha hb
  have s2 := h.swap a c ha hc
  have s3 := h.swap b c hb hc
  have t1 := h.trans a b c ha hb hc
  have t2 := h.trans c a b hc ha hb
  revert s1 s2 s3 t1 t2
  generalize cmp a c = x, cmp c a = x', cmp c b = y', cmp b a = z at *
  rw [hab, hbc]
  cases x <;> cases x' <;> cases y' <;> cases z <;> simp [Ordering.swap]

theorem eq_symm (h : TotalPreorderOn P cmp) {a b : α} (ha : P a) (hb : P b)
    (hab : cmp a b = .eq) : cmp b a = .eq := by
  rw [h.swap a b ha hb, hab]; rfl

end TotalPreorderOn

namespace TotalPreorder
variable {α : Sort _} {cmp : α → α → Ordering}

theorem congr_left (h : TotalPreorder cmp) {a b : α} (c : α) (hab : cmp a b = .eq) :
    cmp a c = cmp b c :=
  (h.on fun _ => True).congr_left trivial trivial trivial hab

theorem congr_right (h : TotalPreorder cmp) (a : α) {b c : α} (hbc : cmp b c = .eq) :
    cmp a b = cmp a c :=
  (h.on fun _ => True).congr_right trivial trivial trivial hbc

theorem lt_trans (h : TotalPreorder cmp) {a b c : α} (hab : cmp a b = .lt) (hbc : cmp b c = .lt) :
    cmp a c = .lt :=
  (h.on fun _ => True).lt_trans trivial trivial trivial hab hbc

theorem eq_symm (h : TotalPreorder cmp) {a b : α} (hab : cmp a b = .eq) : cmp b a = .eq :=
  (h.on fun _ => True).eq_symm trivial trivial hab

theorem eq_trans (h : TotalPreorder cmp) {a b c : α} (hab : cmp a b = .eq) (hbc : cmp b c = .eq) :
    cmp a c = .eq := by
  rw [h.congr_left c hab, hbc]

end TotalPreorder

/-! ## Building total preorders -/

theorem TotalPreorderOn.pullback {α β} {P : β → Prop} {cmp : β → β → Ordering}
    (h : TotalPreorderOn P cmp) (f : α → β) (Q : α → Prop) (hQ : ∀ a, Q a → P (f a)) :
    TotalPreorderOn Q (fun a b => cmp (f a) (f b)) :=
  ⟨fun a ha => h.refl _ (hQ a ha), fun a b ha hb => h.swap _ _ (hQ a ha) (hQ b hb),
   fun _ _ _ ha hb hc => h.trans _ _ _ (hQ _ ha) (hQ _ hb) (hQ _ hc)⟩

theorem TotalPreorder.pullback {α β} {cmp : β → β → Ordering} (h : TotalPreorder cmp) (f : α → β) :
    TotalPreorder (fun a b => cmp (f a) (f b)) :=
  ⟨fun _ => h.refl _, fun _ _ => h.swap _ _, fun _ _ _ => h.trans _ _ _⟩

/-- Lexicographic product of two comparisons. -/
theorem TotalPreorderOn.then {α} {P : α → Prop} {c1 c2 : α → α → Ordering}
    (h1 : TotalPreorderOn P c1) (h2 : TotalPreorderOn P c2) :
    TotalPreorderOn P (fun a b => (c1 a b).then (c2 a b)) := by
  refine ⟨?_, ?_, ?_⟩
  · intro a ha; simp [h1.refl a ha, h2.refl a ha]
  · intro a b ha hb
    simp only [h1.swap a b ha hb, h2.swap a b ha hb]
    cases c1 a b <;> simp [Ordering.then, Ordering.swap]
  · intro a b c ha hb hc hab hbc
    cases e1 : c1 a b <;> cases e2 : c1 b c <;> simp only [e1, e2, Ordering.then] at hab hbc
    · simp [h1.lt_trans (a := a) (b := b) (c := c) ha hb hc e1 e2]
    · have := h1.congr_right (a := a) (b := b) (c := c) ha hb hc e2
      simp [← this, e1]
    · exact absurd rfl hbc
    · have := h1.congr_left (a := a) (b := b) (c := c) ha hb hc e1
      simp [this, e2]
    · have := h1.congr_left (a := a) (b := b) (c := c) ha hb hc e1
      simp only [this, e2, Ordering.then]
      exact h2.trans a b c ha hb hc hab hbc
    · exact absurd rfl hbc
    · exact absurd rfl hab
    · exact absurd rfl hab
    · exact absurd rfl hab

theorem TotalPreorder.then {α} {c1 c2 : α → α → Ordering}
    (h1 : TotalPreorder c1) (h2 : TotalPreorder c2) :
    TotalPreorder (fun a b => (c1 a b).then (c2 a b)) :=
  ((h1.on _).then (h2.on _)).total (P := fun _ => True) (fun _ => trivial)

/-- Reversing a comparison. -/
theorem TotalPreorder.flip {α} {cmp : α → α → Ordering} (h : TotalPreorder cmp) :
    TotalPreorder (fun a b => cmp b a) :=
  ⟨fun a => h.refl a, fun a b => h.swap b a, fun a b c hab hbc => h.trans c b a hbc hab⟩

theorem natCmp_tp : TotalPreorder (fun a b : Nat => compare a b) := by
  refine ⟨fun a => by simp, fun a b => (Nat.compare_swap a b).symm, ?_⟩
  intro a b c
  simp only [Nat.compare_ne_gt]
  omega

theorem lexCmp_refl {α} {cmp : α → α → Ordering} (l : List α) (h : ∀ x ∈ l, cmp x x = .eq) :
    lexCmp cmp l l = .eq := by
  induction l with
  | nil => rfl
  | cons a as ih =>
    simp only [lexCmp, h a (by simp)]
    exact ih fun x hx => h x (by simp [hx])

/-- The lexicographic comparison of sequences inherits the laws of the element comparison. -/
theorem lexCmp_tpo {α} {P : α → Prop} {cmp : α → α → Ordering} (h : TotalPreorderOn P cmp) :
    TotalPreorderOn (fun l : List α => ∀ x ∈ l, P x) (lexCmp cmp) := by
  refine ⟨?_, ?_, ?_⟩
  · intro l hl
    exact lexCmp_refl l fun x hx => h.refl x (hl x hx)
  · intro a
    induction a with
    | nil => intro b _ _; cases b <;> rfl
    | cons x xs ih =>
      intro b ha hb
      cases b with
      | nil => rfl
      | cons y ys =>
        have hx : P x := ha x (by simp)
        have hy : P y := hb y (by simp)
        have ih' := ih ys (fun z hz => ha z (by simp [hz])) (fun z hz => hb z (by simp [hz]))
        simp only [lexCmp, h.swap x y hx hy]
        cases cmp x y <;> simp [Ordering.swap, ih']
  · intro a
    induction a with
    | nil =>
      intro b c _ _ _ hab hbc
      cases b <;> cases c <;> simp_all [lexCmp]
    | cons x xs ih =>
      intro b c ha hb hc hab hbc
      cases b with
      | nil => simp [lexCmp] at hab
      | cons y ys =>
        cases c with
        | nil =>  simp [lexCmp] at hbc
        | cons z zs =>
          have hx : P x := ha x (by simp)
          have hy : P y := hb y (by simp)
          have hz : P z := hc z (by simp)
          have ih' := ih ys zs (fun w hw => ha w (by simp [hw])) (fun w hw => hb w (by simp [hw]))
            (fun w hw => hc w (by simp [hw]))
          simp only [lexCmp] at hab hbc ⊢
          cases e1 : cmp x y <;> cases e2 : cmp y z <;> simp only [e1, e2] at hab hbc
          · simp [h.lt_trans (a := x) (b := y) (c := z) hx hy hz e1 e2]
          · have := h.congr_right (a := x) (b := y) (c := z) hx hy hz e2
            simp [← this, e1]
          · exact absurd rfl hbc
          · have := h.congr_left (a := x) (b := y) (c := z) hx hy hz e1
            simp [this, e2]
          · have := h.congr_left (a := x) (b := y) (c := z) hx hy hz e1
            simp only [this, e2]
            exact ih' hab hbc
          · exact absurd rfl hbc
          · exact absurd rfl hab
          · exact absurd rfl hab
          · exact absurd rfl hab

theorem lexCmp_tp {α} {cmp : α → α → Ordering} (h : TotalPreorder cmp) :
    TotalPreorder (lexCmp cmp) :=
  (lexCmp_tpo (h.on fun _ => True)).total fun _ _ _ => trivial

/-- `lexCmp` is `Equal` only on pointwise `Equal` sequences of the same length. -/
theorem lexCmp_eq_imp_eq {α} {cmp : α → α → Ordering} (a b : List α)
    (hc : ∀ x ∈ a, ∀ y ∈ b, cmp x y = .eq → x = y) (h : lexCmp cmp a b = .eq) : a = b := by
  induction a generalizing b with
  | nil => cases b <;> simp_all [lexCmp]
  | cons x xs ih =>
    cases b with
    | nil => simp [lexCmp] at h
    | cons y ys =>
      simp only [lexCmp] at h
      cases e : cmp x y <;> simp only [e] at h <;> try (exact absurd h (by decide))
      have := hc x (by simp) y (by simp) e
      rw [this, ih ys (fun x hx y hy => hc x (by simp [hx]) y (by simp [hy])) h]

theorem lexCmp_eq_length {α} {cmp : α → α → Ordering} (a b : List α)
    (h : lexCmp cmp a b = .eq) : a.length = b.length := by
  induction a generalizing b with
  | nil => cases b <;> simp_all [lexCmp]
  | cons x xs ih =>
    cases b with
    | nil => simp [lexCmp] at h
    | cons y ys =>
      simp only [lexCmp] at h
      cases e : cmp x y <;> simp only [e] at h <;> try (exact absurd h (by decide))
      simp [ih ys h]

/-! ## The stable sort -/

/-- `l` is ascending for `cmp`: no element is greater than a later one. -/
def Sorted {α} (cmp : α → α → Ordering) (l : List α) : Prop :=
  l.Pairwise (fun a b => cmp a b ≠ .gt)

/-- The elements of `l` that rank equal to `c`, in their order in `l`. -/
def classOf {α} (cmp : α → α → Ordering) (c : α) (l : List α) : List α :=
  l.filter (fun y => cmp c y = .eq)

theorem insertSorted_perm {α} (cmp : α → α → Ordering) (x : α) (l : List α) :
    (insertSorted cmp x l).Perm (x :: l) := by
  induction l with
  | nil => exact List.Perm.refl _
  | cons y ys ih =>
    simp only [insertSorted]
    split
    · exact ((List.Perm.cons y ih).trans (List.Perm.swap x y ys))
    · exact List.Perm.refl _

theorem stableSort_perm {α} (cmp : α → α → Ordering) (l : List α) :
    (stableSort cmp l).Perm l := by
  induction l with
  | nil => exact List.Perm.refl _
  | cons x xs ih =>
    exact (insertSorted_perm cmp x _).trans (List.Perm.cons x ih)

theorem insertSorted_sorted {α} {cmp : α → α → Ordering} (tp : TotalPreorder cmp) (x : α)
    (l : List α) (h : Sorted cmp l) : Sorted cmp (insertSorted cmp x l) := by
  induction l with
  | nil => simp [insertSorted, Sorted]
  | cons y ys ih =>
    simp only [Sorted, List.pairwise_cons] at h
    simp only [insertSorted]
    split
    · next hgt =>
      simp only [Sorted, List.pairwise_cons]
      refine ⟨?_, ih h.2⟩
      intro w hw
      have := (insertSorted_perm cmp x ys).mem_iff.mp hw
      simp only [List.mem_cons] at this
      rcases this with rfl | hw'
      · rw [tp.swap w y, hgt]; decide
      · exact h.1 w hw'
    · next hle =>
      simp only [Sorted, List.pairwise_cons, List.mem_cons]
      refine ⟨?_, h.1, h.2⟩
      rintro w (rfl | hw)
      · exact hle
      · exact tp.trans x y w hle (h.1 w hw)

theorem stableSort_sorted {α} {cmp : α → α → Ordering} (tp : TotalPreorder cmp) (l : List α) :
    Sorted cmp (stableSort cmp l) := by
  induction l with
  | nil => simp [stableSort, Sorted]
  | cons x xs ih => exact insertSorted_sorted tp x _ ih

theorem insertSorted_classOf {α} {cmp : α → α → Ordering} (tp : TotalPreorder cmp) (c x : α)
    (l : List α) : classOf cmp c (insertSorted cmp x l) = classOf cmp c (x :: l) := by
  induction l with
  | nil => rfl
  | cons y ys ih =>
    simp only [insertSorted]
    split
    · next hgt =>
      simp only [classOf, List.filter_cons] at ih ⊢
      rw [ih]
      by_cases hx : cmp c x = .eq
      · have hy : cmp c y ≠ .eq := by
          rw [tp.congr_left y hx, hgt]; decide
        simp [hx, hy]
      · simp [hx]
    · rfl

/-- Stability: the sort keeps, for every rank, the elements of that rank in their input order. -/
theorem stableSort_classOf {α} {cmp : α → α → Ordering} (tp : TotalPreorder cmp) (c : α)
    (l : List α) : classOf cmp c (stableSort cmp l) = classOf cmp c l := by
  induction l with
  | nil => rfl
  | cons x xs ih =>
    simp only [stableSort]
    rw [insertSorted_classOf tp]
    simp only [classOf, List.filter_cons] at ih ⊢
    rw [ih]

private theorem head_rank_eq {α} {cmp : α → α → Ordering} (tp : TotalPreorder cmp)
    {a b : α} {s1 s2 : List α} (h1 : Sorted cmp (a :: s1)) (h2 : Sorted cmp (b :: s2))
    (ha : a ∈ b :: s2) (hb : b ∈ a :: s1) : cmp a b = .eq := by
  simp only [Sorted, List.pairwise_cons] at h1 h2
  simp only [List.mem_cons] at ha hb
  have hsw := tp.swap a b
  rcases ha with rfl | ha
  · exact tp.refl _
  · rcases hb with rfl | hb
    · exact tp.refl _
    · have := h1.1 b hb
      have := h2.1 a ha
      revert hsw
      cases hab : cmp a b <;> cases hba : cmp b a <;> simp_all [Ordering.swap]

/-- Two ascending lists with the same elements of every rank, in the same order, are equal. -/
theorem sorted_classOf_unique {α} {cmp : α → α → Ordering} (tp : TotalPreorder cmp)
    (s1 s2 : List α) (h1 : Sorted cmp s1) (h2 : Sorted cmp s2)
    (h : ∀ c, classOf cmp c s1 = classOf cmp c s2) : s1 = s2 := by
  induction s1 generalizing s2 with
  | nil =>
    cases s2 with
    | nil => rfl
    | cons b s2 =>
      have := h b
      simp [classOf, tp.refl] at this
  | cons a s1 ih =>
    cases s2 with
    | nil =>
      have := h a
      simp [classOf, tp.refl] at this
    | cons b s2 =>
      have ha : a ∈ b :: s2 := by
        have : a ∈ classOf cmp a (b :: s2) := by
          rw [← h a]; simp [classOf, tp.refl]
        exact (List.mem_filter.mp this).1
      have hb : b ∈ a :: s1 := by
        have : b ∈ classOf cmp b (a :: s1) := by
          rw [h b]; simp [classOf, tp.refl]
        exact (List.mem_filter.mp this).1
      have hab := head_rank_eq tp h1 h2 ha hb
      have e := h a
      simp only [classOf, List.filter_cons, tp.refl, hab, decide_true, if_true] at e
      have hab' : a = b := (List.cons.inj e).1
      subst hab'
      congr 1
      apply ih s2 (List.Pairwise.of_cons h1) (List.Pairwise.of_cons h2)
      intro c
      have e := h c
      simp only [classOf, List.filter_cons] at e ⊢
      split at e
      · exact (List.cons.inj e).2
      · exact e

/-- The result of the stable sort is determined by the per-rank subsequences of the input: two
inputs in which, for every rank, the elements of that rank appear in the same order (in
particular the inputs are permutations of each other) are sorted to the same list. -/
theorem stableSort_unique {α} {cmp : α → α → Ordering} (tp : TotalPreorder cmp) (l1 l2 : List α)
    (h : ∀ c, classOf cmp c l1 = classOf cmp c l2) : stableSort cmp l1 = stableSort cmp l2 := by
  apply sorted_classOf_unique tp _ _ (stableSort_sorted tp l1) (stableSort_sorted tp l2)
  intro c
  rw [stableSort_classOf tp, stableSort_classOf tp, h c]

/-- Any list that is ascending and keeps every rank's elements in input order (i.e. the result
of any stable sorting algorithm) is the list computed by `stableSort`. -/
theorem stableSort_spec_unique {α} {cmp : α → α → Ordering} (tp : TotalPreorder cmp)
    (l s : List α) (hs : Sorted cmp s) (h : ∀ c, classOf cmp c s = classOf cmp c l) :
    s = stableSort cmp l := by
  apply sorted_classOf_unique tp _ _ hs (stableSort_sorted tp l)
  intro c
  rw [stableSort_classOf tp, h c]

/-- Ascending lists that are permutations of each other are equal when rank-equal elements of
the list are equal. -/
theorem sorted_perm_unique {α} {cmp : α → α → Ordering} (tp : TotalPreorder cmp)
    (s1 s2 : List α) (h1 : Sorted cmp s1) (h2 : Sorted cmp s2) (hp : s1.Perm s2)
    (anti : ∀ a ∈ s1, ∀ b ∈ s1, cmp a b = .eq → a = b) : s1 = s2 := by
  induction s1 generalizing s2 with
  | nil => exact (List.Perm.nil_eq hp)
  | cons a s1 ih =>
    cases s2 with
    | nil => exact absurd hp.length_eq (by simp)
    | cons b s2 =>
      have ha : a ∈ b :: s2 := hp.mem_iff.mp (by simp)
      have hb : b ∈ a :: s1 := hp.mem_iff.mpr (by simp)
      have hab := head_rank_eq tp h1 h2 ha hb
      have hab' : a = b := anti a (by simp) b hb hab
      subst hab'
      congr 1
      exact ih s2 (List.Pairwise.of_cons h1) (List.Pairwise.of_cons h2) (List.Perm.cons_inv hp)
        (fun x hx y hy => anti x (by simp [hx]) y (by simp [hy]))

/-- When no two distinct elements of the input rank equal, the sorted list does not depend on
the input order. -/
theorem order_independent {α} {cmp : α → α → Ordering} (tp : TotalPreorder cmp) (l1 l2 : List α)
    (hp : l1.Perm l2) (anti : ∀ a ∈ l1, ∀ b ∈ l1, cmp a b = .eq → a = b) :
    stableSort cmp l1 = stableSort cmp l2 := by
  apply sorted_perm_unique tp _ _ (stableSort_sorted tp l1) (stableSort_sorted tp l2)
  · exact (stableSort_perm cmp l1).trans (hp.trans (stableSort_perm cmp l2).symm)
  · intro a ha b hb
    exact anti a ((stableSort_perm cmp l1).mem_iff.mp ha) b ((stableSort_perm cmp l1).mem_iff.mp hb)

/-! ## Strings -/

theorem TotalPreorderOn.congr {α} {P : α → Prop} {cmp cmp' : α → α → Ordering}
    (h : TotalPreorderOn P cmp') (e : ∀ a b, P a → P b → cmp a b = cmp' a b) :
    TotalPreorderOn P cmp :=
  ⟨fun a ha => by rw [e a a ha ha]; exact h.refl a ha,
   fun a b ha hb => by rw [e a b ha hb, e b a hb ha]; exact h.swap a b ha hb,
   fun a b c ha hb hc => by rw [e a b ha hb, e b c hb hc, e a c ha hc]; exact h.trans a b c ha hb hc⟩

theorem charCmp_tp : TotalPreorder charCmp := natCmp_tp.pullback Char.toNat

theorem charCmp_eq {a b : Char} (h : charCmp a b = .eq) : a = b := by
  simp only [charCmp, Nat.compare_eq_eq] at h
  exact Char.toNat_inj.mp h

theorem strCmp_tp : TotalPreorder strCmp := lexCmp_tp charCmp_tp

/-- `str::cmp` returns `Equal` only on equal strings. -/
theorem strCmp_eq {a b : List Char} (h : strCmp a b = .eq) : a = b :=
  lexCmp_eq_imp_eq a b (fun _ _ _ _ => charCmp_eq) h

theorem strCmp_cons_lt {c d : Char} (cs ds : List Char) (h : c.toNat < d.toNat) :
    strCmp (c :: cs) (d :: ds) = .lt := by
  have : charCmp c d = .lt := by simp [charCmp, Nat.compare_eq_lt, h]
  simp [strCmp, lexCmp, this]

theorem strCmp_cons_gt {c d : Char} (cs ds : List Char) (h : d.toNat < c.toNat) :
    strCmp (c :: cs) (d :: ds) = .gt := by
  have : charCmp c d = .gt := by simp [charCmp, Nat.compare_eq_gt, h]
  simp [strCmp, lexCmp, this]

/-! ## `version_sort` is a total preorder -/

/-- What the chunk iterator guarantees about a chunk, as far as the comparison needs it: a text
chunk starts with a character that is not an ASCII digit, the source of a numeric chunk starts
with an ASCII digit. -/
def ChunkWF : Chunk → Prop
  | .underscore => True
  | .str s => ∃ c cs, s = c :: cs ∧ isAsciiDigit c = false
  | .number _ _ src => ∃ c cs, src = c :: cs ∧ isAsciiDigit c = true

theorem nextChunk_wf {s rest : List Char} {c : Chunk} (h : nextChunk s = some (c, rest)) :
    ChunkWF c := by
  cases s with
  | nil => simp [nextChunk] at h
  | cons x xs =>
    simp only [nextChunk] at h
    split at h
    · cases h; trivial
    · split at h
      · next hd =>
        split at h
        · cases h
        · cases h; exact ⟨x, _, rfl, hd⟩
      · next hd =>
        cases h
        exact ⟨x, _, rfl, by simpa using hd⟩

theorem chunksFuel_wf (n : Nat) (s : List Char) : ∀ c ∈ chunksFuel n s, ChunkWF c := by
  induction n generalizing s with
  | zero => simp [chunksFuel]
  | succ n ih =>
    simp only [chunksFuel]
    split
    · simp
    · next c rest h =>
      intro d hd
      simp only [List.mem_cons] at hd
      rcases hd with rfl | hd
      · exact nextChunk_wf h
      · exact ih rest d hd

theorem chunks_wf (s : List Char) : ∀ c ∈ chunks s, ChunkWF c := chunksFuel_wf _ _

/-- The primary comparison of two chunks in `version_sort` (everything but leading zeros). -/
def chunkCmp : Chunk → Chunk → Ordering
  | .underscore, .underscore => .eq
  | .underscore, _ => .lt
  | _, .underscore => .gt
  | .str ca, .str cb | .str ca, .number _ _ cb | .number _ _ ca, .str cb => strCmp ca cb
  | .number va _ _, .number vb _ _ => compare va vb

def zerosOf : Chunk → Nat
  | .number _ z _ => z
  | _ => 0

/-- The secondary comparison: more leading zeros sorts first. -/
def zerosCmp (a b : Chunk) : Ordering := compare (zerosOf b) (zerosOf a)

def mlzOrd : MoreLeadingZeros → Ordering
  | .equal => .eq
  | .left => .lt
  | .right => .gt

/-- Sort key of a well-formed chunk: `_` < text starting below `'0'` < numbers < other text. -/
def chunkKey : Chunk → Nat × List Char × Nat
  | .underscore => (0, [], 0)
  | .str s => (match s with | c :: _ => if c.toNat < 48 then 1 else 3 | [] => 1, s, 0)
  | .number v _ _ => (2, [], v)

def keyCmp (a b : Nat × List Char × Nat) : Ordering :=
  (compare a.1 b.1).then ((strCmp a.2.1 b.2.1).then (compare a.2.2 b.2.2))

theorem keyCmp_tp : TotalPreorder keyCmp :=
  (natCmp_tp.pullback (fun k : Nat × List Char × Nat => k.1)).then
    ((strCmp_tp.pullback (fun k : Nat × List Char × Nat => k.2.1)).then
      (natCmp_tp.pullback (fun k : Nat × List Char × Nat => k.2.2)))

theorem chunkCmp_eq_keyCmp (a b : Chunk) (ha : ChunkWF a) (hb : ChunkWF b) :
    chunkCmp a b = keyCmp (chunkKey a) (chunkKey b) := by
  cases a with
  | underscore =>
    cases b with
    | underscore => rfl
    | str t =>
      obtain ⟨d, ds, rfl, hd⟩ := hb
      simp only [chunkCmp, keyCmp, chunkKey]
      split <;> rfl
    | number v z src => rfl
  | str s =>
    obtain ⟨c, cs, rfl, hc⟩ := ha
    cases b with
    | underscore =>
      simp only [chunkCmp, keyCmp, chunkKey]
      split <;> rfl
    | str t =>
      obtain ⟨d, ds, rfl, hd⟩ := hb
      simp only [chunkCmp, keyCmp, chunkKey]
      simp only [isAsciiDigit, Bool.and_eq_false_iff, decide_eq_false_iff_not] at hc hd
      by_cases h1 : c.toNat < 48 <;> by_cases h2 : d.toNat < 48 <;> simp only [h1, h2, if_true, if_false]
      · simp
      · rw [strCmp_cons_lt _ _ (by omega)]; rfl
      · rw [strCmp_cons_gt _ _ (by omega)]; rfl
      · simp
    | number v z src =>
      obtain ⟨d, ds, rfl, hd⟩ := hb
      simp only [chunkCmp, keyCmp, chunkKey]
      simp only [isAsciiDigit, Bool.and_eq_false_iff, Bool.and_eq_true, decide_eq_false_iff_not,
        decide_eq_true_eq] at hc hd
      by_cases h1 : c.toNat < 48 <;> simp only [h1, if_true, if_false]
      · rw [strCmp_cons_lt _ _ (by omega)]; rfl
      · rw [strCmp_cons_gt _ _ (by omega)]; rfl
  | number v z src =>
    obtain ⟨c, cs, rfl, hc⟩ := ha
    cases b with
    | underscore => rfl
    | str t =>
      obtain ⟨d, ds, rfl, hd⟩ := hb
      simp only [chunkCmp, keyCmp, chunkKey]
      simp only [isAsciiDigit, Bool.and_eq_false_iff, Bool.and_eq_true, decide_eq_false_iff_not,
        decide_eq_true_eq] at hc hd
      by_cases h1 : d.toNat < 48 <;> simp only [h1, if_true, if_false]
      · rw [strCmp_cons_gt _ _ (by omega)]; rfl
      · rw [strCmp_cons_lt _ _ (by omega)]; rfl
    | number w y src' =>
      simp [chunkCmp, keyCmp, chunkKey, strCmp, lexCmp]

theorem chunkCmp_tpo : TotalPreorderOn ChunkWF chunkCmp :=
  ((keyCmp_tp.pullback chunkKey).on ChunkWF).congr chunkCmp_eq_keyCmp

theorem zerosCmp_tp : TotalPreorder zerosCmp := (natCmp_tp.flip).pullback zerosOf

/-- A text chunk and a numeric chunk never rank equal. -/
theorem strCmp_ne_eq_of_wf {s src : List Char}
    (hs : ∃ c cs, s = c :: cs ∧ isAsciiDigit c = false)
    (hn : ∃ c cs, src = c :: cs ∧ isAsciiDigit c = true) :
    strCmp s src ≠ .eq ∧ strCmp src s ≠ .eq := by
  obtain ⟨c, cs, rfl, hc⟩ := hs
  obtain ⟨d, ds, rfl, hd⟩ := hn
  constructor <;> intro h <;> have := strCmp_eq h <;> simp_all

/-- `version_sort`'s loop is the lexicographic product of the primary comparison of the chunk
sequences and the comparison of their leading-zero counts (the flag `more_leading_zeros`
remembers the first difference of the latter). -/
theorem cmpChunks_eq (m : MoreLeadingZeros) (as bs : List Chunk)
    (ha : ∀ c ∈ as, ChunkWF c) (hb : ∀ c ∈ bs, ChunkWF c) :
    cmpChunks m as bs =
      (lexCmp chunkCmp as bs).then ((mlzOrd m).then (lexCmp zerosCmp as bs)) := by
  induction as generalizing bs m with
  | nil =>
    cases bs with
    | nil => cases m <;> rfl
    | cons b bs => rfl
  | cons a as ih =>
    cases bs with
    | nil => rfl
    | cons b bs =>
      have ih' := fun m => ih m bs (fun c hc => ha c (by simp [hc])) (fun c hc => hb c (by simp [hc]))
      have wa := ha a (by simp)
      have wb := hb b (by simp)
      cases a with
      | underscore =>
        cases b with
        | underscore => simp [cmpChunks, lexCmp, chunkCmp, zerosCmp, zerosOf, ih']
        | str t => simp [cmpChunks, lexCmp, chunkCmp]
        | number v z src => simp [cmpChunks, lexCmp, chunkCmp]
      | str s =>
        cases b with
        | underscore => simp [cmpChunks, lexCmp, chunkCmp]
        | str t =>
          simp only [cmpChunks, lexCmp, chunkCmp, zerosCmp, zerosOf]
          cases strCmp s t <;> simp [ih']
        | number v z src =>
          have := (strCmp_ne_eq_of_wf wa wb).1
          simp only [cmpChunks, lexCmp, chunkCmp]
          cases h : strCmp s src <;> simp_all
      | number v z src =>
        cases b with
        | underscore => simp [cmpChunks, lexCmp, chunkCmp]
        | str t =>
          have := (strCmp_ne_eq_of_wf wb wa).2
          simp only [cmpChunks, lexCmp, chunkCmp]
          cases h : strCmp src t <;> simp_all
        | number w y src' =>
          simp only [cmpChunks, lexCmp, chunkCmp, zerosCmp, zerosOf]
          cases hvw : compare v w
          · simp
          · by_cases hzy : z = y
            · simp [hzy, ih']
            · simp only [hzy, if_false]
              by_cases hgt : z > y
              · have hc : compare y z = .lt := Nat.compare_eq_lt.mpr hgt
                cases m <;> simp [hgt, hc, ih', mlzOrd]
              · have hlt : z < y := by omega
                have hc : compare y z = .gt := Nat.compare_eq_gt.mpr hlt
                cases m <;> simp [hgt, hlt, hc, ih', mlzOrd]
          · simp

/-- `versionSort` on the chunk sequences. -/
def seqCmp (as bs : List Chunk) : Ordering :=
  (lexCmp chunkCmp as bs).then (lexCmp zerosCmp as bs)

theorem seqCmp_tpo : TotalPreorderOn (fun l : List Chunk => ∀ c ∈ l, ChunkWF c) seqCmp :=
  (lexCmp_tpo chunkCmp_tpo).then ((lexCmp_tp zerosCmp_tp).on _)

theorem versionSort_eq (a b : List Char) : versionSort a b = seqCmp (chunks a) (chunks b) := by
  simp [versionSort, seqCmp, cmpChunks_eq _ _ _ (chunks_wf a) (chunks_wf b), mlzOrd]

theorem versionSort_tp : TotalPreorder versionSort := by
  have := (seqCmp_tpo.pullback chunks (fun _ => True) (fun a _ => chunks_wf a)).total
    (fun _ => trivial)
  refine ⟨?_, ?_, ?_⟩
  · intro a; rw [versionSort_eq]; exact this.refl a
  · intro a b; rw [versionSort_eq, versionSort_eq]; exact this.swap a b
  · intro a b c; rw [versionSort_eq, versionSort_eq, versionSort_eq]; exact this.trans a b c

/-! ## Identifier and alias comparisons of `UseSegment::cmp` -/

theorem optCmp_tp {α} {cmp : α → α → Ordering} (h : TotalPreorder cmp) : TotalPreorder (optCmp cmp) := by
  refine ⟨?_, ?_, ?_⟩
  · intro a; cases a <;> simp [optCmp, h.refl]
  · intro a b
    cases a <;> cases b <;> simp only [optCmp, Ordering.swap]
    exact h.swap _ _
  · intro a b c
    cases a <;> cases b <;> cases c <;> simp [optCmp]
    exact h.trans _ _ _

theorem legacyIdentCmp_eq (a b : List Char) :
    legacyIdentCmp a b =
      (compare (startsUpper a).toNat (startsUpper b).toNat).then
        ((compare (isUpperSnakeCase a).toNat (isUpperSnakeCase b).toNat).then (strCmp a b)) := by
  unfold legacyIdentCmp
  cases startsUpper a <;> cases startsUpper b <;> cases isUpperSnakeCase a <;>
    cases isUpperSnakeCase b <;> simp [Ordering.then] <;> rfl

theorem legacyIdentCmp_tp : TotalPreorder legacyIdentCmp := by
  have := (natCmp_tp.pullback (fun s => (startsUpper s).toNat)).then
    ((natCmp_tp.pullback (fun s => (isUpperSnakeCase s).toNat)).then strCmp_tp)
  exact ⟨fun a => by rw [legacyIdentCmp_eq]; exact this.refl a,
    fun a b => by rw [legacyIdentCmp_eq, legacyIdentCmp_eq]; exact this.swap a b,
    fun a b c => by rw [legacyIdentCmp_eq, legacyIdentCmp_eq, legacyIdentCmp_eq]; exact this.trans a b c⟩

theorem legacyIdentCmp_eq_imp {a b : List Char} (h : legacyIdentCmp a b = .eq) : a = b := by
  rw [legacyIdentCmp_eq] at h
  simp only [Ordering.then_eq_eq] at h
  exact strCmp_eq h.2.2

theorem identCmp_tp (v : Bool) : TotalPreorder (identCmp v) := by
  cases v
  · exact legacyIdentCmp_tp
  · exact versionSort_tp.pullback trimRaw

/-- The comparison of two alias strings. -/
def aliasStrCmp (v2024 : Bool) (a b : List Char) : Ordering :=
  if v2024 then versionSort (trimRaw a) (trimRaw b) else strCmp a b

theorem aliasStrCmp_tp (v : Bool) : TotalPreorder (aliasStrCmp v) := by
  cases v
  · exact strCmp_tp
  · exact versionSort_tp.pullback trimRaw

theorem identAliasCmp_eq (v : Bool) (a b : Option (List Char)) :
    RF.Sort.identAliasCmp v a b = optCmp (aliasStrCmp v) a b := by
  cases a <;> cases b <;> rfl

theorem kwAliasCmp_eq (v : Bool) (a b : Option (List Char)) :
    RF.Sort.kwAliasCmp v a b = optCmp (aliasStrCmp v) a b := by
  cases a <;> cases b <;> cases v <;> rfl

/-! ## `UseSegment::cmp` and `UseTree::cmp` are total preorders -/

open RF.Imports

def segRank : Seg → Nat
  | .slf _ => 0
  | .super _ => 1
  | .crate _ => 2
  | .ident _ _ => 3
  | .glob => 4
  | .list _ => 5

def segName : Seg → List Char
  | .ident n _ => n
  | _ => []

def segAlias (keep : Bool) : Seg → Option (List Char)
  | .ident _ a | .slf a | .super a | .crate a => if keep then a else none
  | _ => none

def segTrees : Seg → List Tree
  | .list ts => ts
  | _ => []

private theorem then_eq' (o : Ordering) : o.then .eq = o := by cases o <;> rfl
private theorem eq_then' (o : Ordering) : Ordering.eq.then o = o := rfl

/-- `UseSegment::cmp` as a lexicographic product: kind, then name, then alias, then nested list. -/
theorem segCmpCore_eq (v keep : Bool) (a b : Seg) :
    segCmpCore v keep a b =
      (compare (segRank a) (segRank b)).then
        ((identCmp v (segName a) (segName b)).then
          ((optCmp (aliasStrCmp v) (segAlias keep a) (segAlias keep b)).then
            (treesCmp v (segTrees a) (segTrees b)))) := by
  have hnil : identCmp v [] [] = .eq := (identCmp_tp v).refl []
  have h00 : ∀ n : Nat, compare n n = .eq := fun n => by simp
  cases a <;> cases b
  all_goals
    simp only [segCmpCore, segRank, segName, segAlias, segTrees, hnil, h00, treesCmp,
      kwAliasCmp_eq, identAliasCmp_eq, then_eq', eq_then']
  all_goals try (first | rfl | decide)
  all_goals cases keep <;> simp [optCmp]
  all_goals cases h : identCmp v _ _ <;> simp [Ordering.then]

/-- With aliases removed, `keep = false` computes the literal `a.remove_alias().cmp(&b.remove_alias())`. -/
theorem segCmpCore_false (v : Bool) (a b : Seg) :
    segCmpCore v false a b = segCmp v (removeAlias a) (removeAlias b) := by
  simp only [segCmp, segCmpCore_eq]
  cases a <;> cases b <;> rfl

/-- The alias-insensitive "hack" of `UseTree::cmp` makes the loop compare the segments with
their aliases removed: the value returned is the one of the alias-free comparison. -/
theorem hack_eq (v : Bool) (a b : Seg) :
    (if segCmpCore v true a b ≠ .eq ∧ segCmpCore v false a b ≠ .eq then segCmpCore v true a b
     else .eq) = segCmpCore v false a b := by
  have hnil : identCmp v [] [] = .eq := (identCmp_tp v).refl []
  have h00 : ∀ n : Nat, compare n n = .eq := fun n => by simp
  cases a <;> cases b
  all_goals try (first | rfl | decide)
  all_goals simp [segCmpCore, kwAliasCmp_eq, identAliasCmp_eq, optCmp]
  · cases h : identCmp v _ _ <;> simp
  · intro h; exact h.symm

theorem pathCmp_eq_lex (v : Bool) (p q : List Seg) :
    pathCmp v p q = lexCmp (segCmpCore v false) p q := by
  induction p generalizing q with
  | nil => cases q <;> rfl
  | cons a as ih =>
    cases q with
    | nil => rfl
    | cons b bs =>
      have hk := hack_eq v a b
      simp only [pathCmp, lexCmp, ih bs]
      revert hk
      generalize segCmpCore v true a b = x, segCmpCore v false a b = y
      cases x <;> cases y <;> simp

theorem treesCmp_eq_lex (v : Bool) (p q : List Tree) :
    treesCmp v p q = lexCmp (treeCmp v) p q := by
  induction p generalizing q with
  | nil => cases q <;> rfl
  | cons a as ih =>
    cases q with
    | nil => rfl
    | cons b bs => simp only [treesCmp, lexCmp, ih bs]

def Tree.path : Tree → List Seg
  | .mk p => p

theorem treeCmp_eq_lex (v : Bool) (a b : Tree) :
    treeCmp v a b = lexCmp (segCmpCore v false) (Tree.path a) (Tree.path b) := by
  cases a; cases b; simp only [treeCmp, Tree.path, pathCmp_eq_lex]

theorem segCmpCore_tpo_of (v keep : Bool) (n : Nat)
    (ih : TotalPreorderOn (fun t : Tree => sizeOf t < n) (treeCmp v)) :
    TotalPreorderOn (fun s : Seg => ∀ t ∈ segTrees s, sizeOf t < n) (segCmpCore v keep) := by
  have h4 : TotalPreorderOn (fun l : List Tree => ∀ t ∈ l, sizeOf t < n) (treesCmp v) :=
    (lexCmp_tpo ih).congr fun a b _ _ => treesCmp_eq_lex v a b
  have := ((natCmp_tp.pullback segRank).on (fun s : Seg => ∀ t ∈ segTrees s, sizeOf t < n)).then
    ((((identCmp_tp v).pullback segName).on _).then
      (((((optCmp_tp (aliasStrCmp_tp v)).pullback (segAlias keep)).on _)).then
        (h4.pullback segTrees _ (fun _ h => h))))
  exact this.congr fun a b _ _ => segCmpCore_eq v keep a b

theorem treeCmp_tpo (v : Bool) (n : Nat) :
    TotalPreorderOn (fun t : Tree => sizeOf t < n) (treeCmp v) := by
  induction n with
  | zero => exact ⟨fun _ h => absurd h (by omega), fun _ _ h => absurd h (by omega),
      fun _ _ _ h => absurd h (by omega)⟩
  | succ n ih =>
    have hs := segCmpCore_tpo_of v false n ih
    have := (lexCmp_tpo hs).pullback Tree.path (fun t : Tree => sizeOf t < n + 1) (by
      intro t ht s hs t' ht'
      cases t with
      | mk p =>
        simp only [Tree.path] at hs
        have h1 := List.sizeOf_lt_of_mem hs
        simp only [Tree.mk.sizeOf_spec] at ht
        cases s <;> simp only [segTrees, List.not_mem_nil] at ht'
        have h2 := List.sizeOf_lt_of_mem ht'
        simp only [Seg.list.sizeOf_spec] at h1
        omega)
    exact this.congr fun a b _ _ => treeCmp_eq_lex v a b

/-- `UseTree::cmp` is a total preorder, for both style-edition families. -/
theorem treeCmp_tp (v : Bool) : TotalPreorder (treeCmp v) :=
  ⟨fun a => (treeCmp_tpo v (sizeOf a + 1)).refl a (by omega),
   fun a b => (treeCmp_tpo v (sizeOf a + sizeOf b + 1)).swap a b (by omega) (by omega),
   fun a b c => (treeCmp_tpo v (sizeOf a + sizeOf b + sizeOf c + 1)).trans a b c
     (by omega) (by omega) (by omega)⟩

theorem segCmpCore_tp (v keep : Bool) : TotalPreorder (segCmpCore v keep) := by
  have h4 : TotalPreorder (treesCmp v) := by
    have := lexCmp_tp (treeCmp_tp v)
    exact ⟨fun a => by rw [treesCmp_eq_lex]; exact this.refl a,
      fun a b => by rw [treesCmp_eq_lex, treesCmp_eq_lex]; exact this.swap a b,
      fun a b c => by rw [treesCmp_eq_lex, treesCmp_eq_lex, treesCmp_eq_lex]; exact this.trans a b c⟩
  have := (natCmp_tp.pullback segRank).then
    (((identCmp_tp v).pullback segName).then
      ((((optCmp_tp (aliasStrCmp_tp v)).pullback (segAlias keep))).then
        (h4.pullback segTrees)))
  exact ⟨fun a => by rw [segCmpCore_eq]; exact this.refl a,
    fun a b => by rw [segCmpCore_eq, segCmpCore_eq]; exact this.swap a b,
    fun a b c => by rw [segCmpCore_eq, segCmpCore_eq, segCmpCore_eq]; exact this.trans a b c⟩

/-- `UseSegment::cmp` is a total preorder, for both style-edition families. -/
theorem segCmp_tp (v : Bool) : TotalPreorder (segCmp v) := segCmpCore_tp v true

/-! ## `compare_items` -/

open RF.Reorder

theorem nameCmp_tp (v : Bool) : TotalPreorder (nameCmp v) := by
  cases v
  · exact strCmp_tp
  · exact versionSort_tp

theorem modCmp_tp (v : Bool) : TotalPreorder (modCmp v) := (nameCmp_tp v).pullback Item.name

private theorem ite_ne_then (x y : Ordering) : (if x ≠ .eq then x else y) = x.then y := by
  cases x <;> simp [Ordering.then]

theorem externCmp_eq (v : Bool) (a b : Item) :
    externCmp v a b =
      (nameCmp v a.name b.name).then (optCmp (nameCmp v) a.rename b.rename) := by
  obtain ⟨ka, na, ra⟩ := a
  obtain ⟨kb, nb, rb⟩ := b
  cases ra <;> cases rb <;>
    simp only [externCmp, Item.astOrigName, Item.astIdent, Option.map, Option.getD, optCmp] <;>
    exact ite_ne_then _ _

theorem externCmp_tp (v : Bool) : TotalPreorder (externCmp v) := by
  have := ((nameCmp_tp v).pullback Item.name).then
    ((optCmp_tp (nameCmp_tp v)).pullback Item.rename)
  exact ⟨fun a => by rw [externCmp_eq]; exact this.refl a,
    fun a b => by rw [externCmp_eq, externCmp_eq]; exact this.swap a b,
    fun a b c => by rw [externCmp_eq, externCmp_eq, externCmp_eq]; exact this.trans a b c⟩

/-- The comparison `compare_items` performs on two items of kind `k`. -/
def kindCmp (v : Bool) : ItemKind → Item → Item → Ordering
  | .mod => modCmp v
  | .externCrate => externCmp v

theorem kindCmp_tp (v : Bool) (k : ItemKind) : TotalPreorder (kindCmp v k) := by
  cases k
  · exact modCmp_tp v
  · exact externCmp_tp v

theorem compareItems_same (v : Bool) (a b : Item) (h : a.kind = b.kind) :
    compareItems v a b = some (kindCmp v a.kind a b) := by
  obtain ⟨ka, na, ra⟩ := a
  obtain ⟨kb, nb, rb⟩ := b
  cases ka <;> cases kb <;> simp_all [compareItems, kindCmp]

theorem compareItems_none_iff (v : Bool) (a b : Item) :
    compareItems v a b = none ↔ a.kind ≠ b.kind := by
  obtain ⟨ka, na, ra⟩ := a
  obtain ⟨kb, nb, rb⟩ := b
  cases ka <;> cases kb <;> simp [compareItems]

/-! ## Antisymmetry of `version_sort` when every number fits `usize` -/

/-- Value of a digit string read with accumulator `acc` (no digit check). -/
def dval (acc : Nat) (s : List Char) : Nat := s.foldl (fun a c => a * 10 + (c.toNat - 48)) acc

theorem dval_nil (acc : Nat) : dval acc [] = acc := rfl
theorem dval_cons (acc : Nat) (c : Char) (cs : List Char) :
    dval acc (c :: cs) = dval (acc * 10 + (c.toNat - 48)) cs := by
  simp only [dval, List.foldl_cons]

theorem digitsVal_some {acc v : Nat} {s : List Char} (h : digitsVal acc s = some v) :
    (∀ c ∈ s, isAsciiDigit c = true) ∧ dval acc s = v := by
  induction s generalizing acc with
  | nil => simp_all [digitsVal, dval_nil]
  | cons c cs ih =>
    simp only [digitsVal] at h
    split at h
    · next hc =>
      have := ih h
      exact ⟨fun x hx => by rcases List.mem_cons.mp hx with rfl | hx; exact hc; exact this.1 x hx, by rw [dval_cons]; exact this.2⟩
    · cases h

theorem dval_acc (acc : Nat) (s : List Char) : dval acc s = acc * 10 ^ s.length + dval 0 s := by
  induction s generalizing acc with
  | nil => simp [dval_nil]
  | cons c cs ih =>
    simp only [dval_cons, List.length_cons]
    rw [ih (acc * 10 + _), ih (0 * 10 + _)]
    simp only [Nat.zero_mul, Nat.zero_add, Nat.pow_succ, Nat.add_mul]
    rw [Nat.mul_assoc, Nat.mul_comm 10]
    omega

theorem digit_le {c : Char} (h : isAsciiDigit c = true) : c.toNat - 48 ≤ 9 ∧ 48 ≤ c.toNat := by
  simp only [isAsciiDigit, Bool.and_eq_true, decide_eq_true_eq] at h
  omega

theorem dval_lt (s : List Char) (h : ∀ c ∈ s, isAsciiDigit c = true) :
    dval 0 s < 10 ^ s.length := by
  induction s with
  | nil => simp [dval_nil]
  | cons c cs ih =>
    have hc := digit_le (h c (by simp))
    have ih' := ih fun x hx => h x (by simp [hx])
    simp only [dval_cons, List.length_cons, Nat.zero_mul, Nat.zero_add]
    rw [dval_acc, Nat.pow_succ]
    have := Nat.mul_le_mul_right (10 ^ cs.length) hc.1
    omega

/-- Digit strings of the same length with the same value are equal. -/
theorem dval_inj_len (s t : List Char) (hs : ∀ c ∈ s, isAsciiDigit c = true)
    (ht : ∀ c ∈ t, isAsciiDigit c = true) (hl : s.length = t.length)
    (hv : dval 0 s = dval 0 t) : s = t := by
  induction s generalizing t with
  | nil => cases t <;> simp_all
  | cons c cs ih =>
    cases t with
    | nil => simp at hl
    | cons d ds =>
      have hc := digit_le (hs c (by simp))
      have hd := digit_le (ht d (by simp))
      have hcs : ∀ x ∈ cs, isAsciiDigit x = true := fun x hx => hs x (by simp [hx])
      have hds : ∀ x ∈ ds, isAsciiDigit x = true := fun x hx => ht x (by simp [hx])
      have l1 := dval_lt cs hcs
      have l2 := dval_lt ds hds
      simp only [List.length_cons, Nat.add_right_cancel_iff] at hl
      simp only [dval_cons, Nat.zero_mul, Nat.zero_add] at hv
      rw [dval_acc _ cs, dval_acc _ ds, hl] at hv
      rw [hl] at l1
      generalize 10 ^ ds.length = K at *
      have hcd : c.toNat - 48 = d.toNat - 48 := by
        rcases Nat.lt_trichotomy (c.toNat - 48) (d.toNat - 48) with h | h | h
        · have := Nat.mul_le_mul_right K (Nat.succ_le_of_lt h)
          simp only [Nat.succ_mul] at this
          omega
        · exact h
        · have := Nat.mul_le_mul_right K (Nat.succ_le_of_lt h)
          simp only [Nat.succ_mul] at this
          omega
      have hcd' : c = d := Char.toNat_inj.mp (by omega)
      rw [hcd] at hv
      rw [hcd', ih ds hcs hds hl (by omega)]

/-- A digit string without leading zero has as many digits as its value says. -/
theorem dval_bounds (c : Char) (cs : List Char) (h : ∀ x ∈ c :: cs, isAsciiDigit x = true)
    (hc : c ≠ '0') : 10 ^ cs.length ≤ dval 0 (c :: cs) ∧ dval 0 (c :: cs) < 10 ^ (cs.length + 1) := by
  have hd := digit_le (h c (by simp))
  have hcs : ∀ x ∈ cs, isAsciiDigit x = true := fun x hx => h x (by simp [hx])
  have l1 := dval_lt cs hcs
  have hne : c.toNat ≠ 48 := fun e => hc (Char.toNat_inj.mp (by simpa using e))
  simp only [dval_cons, Nat.zero_mul, Nat.zero_add]
  rw [dval_acc, Nat.pow_succ]
  have h1 := Nat.mul_le_mul_right (10 ^ cs.length) hd.1
  have h2 := Nat.mul_le_mul_right (10 ^ cs.length) (show 1 ≤ c.toNat - 48 by omega)
  omega

theorem dval_inj_nolz (c d : Char) (cs ds : List Char)
    (hs : ∀ x ∈ c :: cs, isAsciiDigit x = true) (ht : ∀ x ∈ d :: ds, isAsciiDigit x = true)
    (hc : c ≠ '0') (hd : d ≠ '0') (hv : dval 0 (c :: cs) = dval 0 (d :: ds)) :
    c :: cs = d :: ds := by
  have b1 := dval_bounds c cs hs hc
  have b2 := dval_bounds d ds ht hd
  have hl : cs.length = ds.length := by
    rcases Nat.lt_trichotomy cs.length ds.length with h | h | h
    · have := Nat.pow_le_pow_right (show 0 < 10 by omega) (Nat.succ_le_of_lt h)
      omega
    · exact h
    · have := Nat.pow_le_pow_right (show 0 < 10 by omega) (Nat.succ_le_of_lt h)
      omega
  exact dval_inj_len _ _ hs ht (by simp [hl]) hv

def leadingZeros (s : List Char) : Nat := (s.takeWhile (· = '0')).length

/-- A digit string is determined by its value and its number of leading zeros. -/
theorem dval_inj (s t : List Char) (hs : ∀ x ∈ s, isAsciiDigit x = true)
    (ht : ∀ x ∈ t, isAsciiDigit x = true) (hz : leadingZeros s = leadingZeros t)
    (hv : dval 0 s = dval 0 t) : s = t := by
  induction s generalizing t with
  | nil =>
    cases t with
    | nil => rfl
    | cons d ds =>
      by_cases hd : d = '0'
      · simp [leadingZeros, hd] at hz
      · have := dval_bounds d ds ht hd
        have : 0 < 10 ^ ds.length := Nat.pow_pos (by omega)
        simp only [dval_nil] at hv
        omega
  | cons c cs ih =>
    by_cases hc : c = '0'
    · subst hc
      cases t with
      | nil => simp [leadingZeros] at hz
      | cons d ds =>
        by_cases hd : d = '0'
        · subst hd
          simp only [leadingZeros, List.takeWhile_cons, decide_true, if_true, List.length_cons,
            Nat.add_right_cancel_iff] at hz
          have hv' : dval 0 cs = dval 0 ds := by simpa [dval_cons] using hv
          rw [ih ds (fun x hx => hs x (by simp [hx])) (fun x hx => ht x (by simp [hx])) hz hv']
        · simp [leadingZeros, hd] at hz
    · cases t with
      | nil =>
        have := dval_bounds c cs hs hc
        have : 0 < 10 ^ cs.length := Nat.pow_pos (by omega)
        simp only [dval_nil] at hv
        omega
      | cons d ds =>
        by_cases hd : d = '0'
        · simp [leadingZeros, hd, hc] at hz
        · exact dval_inj_nolz c d cs ds hs ht hc hd hv

theorem lexCmp_then_eq {α} (c1 c2 : α → α → Ordering) (a b : List α)
    (h1 : lexCmp c1 a b = .eq) (h2 : lexCmp c2 a b = .eq) :
    lexCmp (fun x y => (c1 x y).then (c2 x y)) a b = .eq := by
  induction a generalizing b with
  | nil => cases b <;> simp_all [lexCmp]
  | cons x xs ih =>
    cases b with
    | nil => simp [lexCmp] at h1
    | cons y ys =>
      simp only [lexCmp] at h1 h2 ⊢
      cases e1 : c1 x y <;> simp only [e1] at h1 <;> try (exact absurd h1 (by decide))
      cases e2 : c2 x y <;> simp only [e2] at h2 <;> try (exact absurd h2 (by decide))
      simp only [Ordering.then]
      exact ih ys h1 h2

theorem parseUsize_digit {x : Char} (ds : List Char) (hx : isAsciiDigit x = true) :
    parseUsize (x :: ds) =
      match digitsVal 0 (x :: ds) with
      | some v => if v < usizeBound then some v else none
      | none => none := by
  have hne : x ≠ '+' := by
    intro e; subst e; simp [isAsciiDigit] at hx
  unfold parseUsize
  split
  · next rest heq => cases heq; exact absurd rfl hne
  · rfl

/-- What the iterator guarantees about a numeric chunk beyond `ChunkWF`: value and zero count are
those of the source. -/
def ChunkExact : Chunk → Prop
  | .number v z src => digitsVal 0 src = some v ∧ z = leadingZeros src
  | _ => True

theorem nextChunk_exact {s rest : List Char} {c : Chunk} (h : nextChunk s = some (c, rest)) :
    ChunkExact c := by
  cases s with
  | nil => simp [nextChunk] at h
  | cons x xs =>
    simp only [nextChunk] at h
    split at h
    · cases h; trivial
    · split at h
      · next hd =>
        rw [parseUsize_digit _ hd] at h
        cases hv : digitsVal 0 (x :: List.takeWhile isAsciiDigit xs) with
        | none => simp [hv] at h
        | some v =>
          simp only [hv] at h
          by_cases hb : v < usizeBound
          · simp only [hb, if_true, Option.some.injEq, Prod.mk.injEq] at h
            obtain ⟨rfl, _⟩ := h
            exact ⟨hv, rfl⟩
          · simp [hb] at h
      · cases h; trivial

theorem nextChunk_source {s rest : List Char} {c : Chunk} (h : nextChunk s = some (c, rest)) :
    c.source ++ rest = s := by
  cases s with
  | nil => simp [nextChunk] at h
  | cons x xs =>
    simp only [nextChunk] at h
    split at h
    · next hx => cases h; simp [Chunk.source, hx]
    · split at h
      · split at h
        · cases h
        · cases h; simp [Chunk.source, List.takeWhile_append_dropWhile]
      · cases h; simp [Chunk.source, List.takeWhile_append_dropWhile]

theorem chunksFuel_exact (n : Nat) (s : List Char) : ∀ c ∈ chunksFuel n s, ChunkExact c := by
  induction n generalizing s with
  | zero => simp [chunksFuel]
  | succ n ih =>
    simp only [chunksFuel]
    split
    · simp
    · next c rest h =>
      intro d hd
      simp only [List.mem_cons] at hd
      rcases hd with rfl | hd
      · exact nextChunk_exact h
      · exact ih rest d hd

theorem nextChunk_length {s rest : List Char} {c : Chunk} (h : nextChunk s = some (c, rest)) :
    rest.length < s.length := by
  have hs := congrArg List.length (nextChunk_source h)
  have hw := nextChunk_wf h
  cases c with
  | underscore => simp [Chunk.source] at hs; omega
  | str t => obtain ⟨_, _, rfl, _⟩ := hw; simp [Chunk.source] at hs; omega
  | number v z src => obtain ⟨_, _, rfl, _⟩ := hw; simp [Chunk.source] at hs; omega

theorem chunksFuel_indep (n m : Nat) (s : List Char) (hn : s.length ≤ n) (hm : s.length ≤ m) :
    chunksFuel n s = chunksFuel m s := by
  induction n generalizing s m with
  | zero => cases s <;> cases m <;> simp_all [chunksFuel, nextChunk]
  | succ n ih =>
    cases m with
    | zero => cases s <;> simp_all [chunksFuel, nextChunk]
    | succ m =>
      simp only [chunksFuel]
      split
      · rfl
      · next c rest hc =>
        have := nextChunk_length hc
        rw [ih m rest (by omega) (by omega)]

/-- Each call of `next` consumes at least one character, so `s.length` calls are enough. -/
theorem chunksFuel_enough (n : Nat) (s : List Char) (h : s.length ≤ n) :
    chunksFuel n s = chunks s :=
  chunksFuel_indep n s.length s h (Nat.le_refl _)

theorem runsFitAux_digits (cur : Nat) (xs : List Char) (h : runsFitAux cur xs = true) :
    ∃ v, digitsVal cur (xs.takeWhile isAsciiDigit) = some v ∧ v < usizeBound ∧
      runsFitAux 0 (xs.dropWhile isAsciiDigit) = true := by
  induction xs generalizing cur with
  | nil => exact ⟨cur, rfl, by simpa [runsFitAux] using h, by simp [runsFitAux, usizeBound]⟩
  | cons c cs ih =>
    simp only [runsFitAux] at h
    by_cases hc : isAsciiDigit c = true
    · simp only [hc, if_true] at h
      obtain ⟨v, h1, h2, h3⟩ := ih _ h
      exact ⟨v, by simp [hc, digitsVal, h1], h2, by simp [hc, h3]⟩
    · simp only [hc, Bool.false_eq_true, if_false, Bool.and_eq_true, decide_eq_true_eq] at h
      refine ⟨cur, by simp [hc, digitsVal], h.1, ?_⟩
      simp [hc, runsFitAux, h.2, usizeBound]

theorem runsFitAux_dropWhile (p : Char → Bool) (hp : ∀ c, p c = true → isAsciiDigit c = false)
    (xs : List Char) (h : runsFitAux 0 xs = true) : runsFitAux 0 (xs.dropWhile p) = true := by
  induction xs with
  | nil => simpa using h
  | cons c cs ih =>
    by_cases hc : p c = true
    · simp only [List.dropWhile_cons, hc, if_true]
      apply ih
      simp only [runsFitAux, hp c hc, Bool.false_eq_true, if_false, Bool.and_eq_true] at h
      exact h.2
    · simpa [List.dropWhile_cons, hc] using h

/-- If every digit run fits, `next` succeeds on a non-empty rest and the property is kept. -/
theorem nextChunk_of_fit (x : Char) (xs : List Char) (h : runsFitAux 0 (x :: xs) = true) :
    ∃ c rest, nextChunk (x :: xs) = some (c, rest) ∧ runsFitAux 0 rest = true := by
  simp only [nextChunk]
  by_cases hu : x = '_'
  · subst hu
    refine ⟨.underscore, xs, by simp, ?_⟩
    simp only [runsFitAux, isAsciiDigit, Bool.and_eq_true] at h
    exact (by simpa using h : _ ∧ _).2
  · simp only [hu, if_false]
    by_cases hd : isAsciiDigit x = true
    · simp only [hd, if_true]
      simp only [runsFitAux, hd, if_true] at h
      obtain ⟨v, h1, h2, h3⟩ := runsFitAux_digits _ xs h
      rw [parseUsize_digit _ hd]
      simp only [digitsVal, hd, if_true, h1, h2]
      exact ⟨_, _, rfl, h3⟩
    · simp only [hd, Bool.false_eq_true, if_false]
      refine ⟨_, _, rfl, ?_⟩
      apply runsFitAux_dropWhile
      · intro c hc
        simp only [endsStrChunk, Bool.not_eq_true', Bool.or_eq_false_iff] at hc
        exact hc.2
      · simp only [runsFitAux, hd, Bool.false_eq_true, if_false, Bool.and_eq_true] at h
        exact h.2

theorem chunksFuel_source (n : Nat) (s : List Char) (hn : s.length ≤ n)
    (h : runsFitAux 0 s = true) : (chunksFuel n s).flatMap Chunk.source = s := by
  induction n generalizing s with
  | zero => cases s <;> simp_all [chunksFuel]
  | succ n ih =>
    cases s with
    | nil => simp [chunksFuel, nextChunk]
    | cons x xs =>
      obtain ⟨c, rest, hc, hr⟩ := nextChunk_of_fit x xs h
      simp only [chunksFuel, hc, List.flatMap_cons]
      have hs := nextChunk_source hc
      have hlen : rest.length ≤ n := by
        have := nextChunk_length hc
        simp only [List.length_cons] at this hn
        omega
      rw [ih rest hlen hr, hs]

/-- When every digit run fits `usize`, the chunks concatenate back to the identifier. -/
theorem chunks_source (s : List Char) (h : allRunsFit s = true) :
    (chunks s).flatMap Chunk.source = s :=
  chunksFuel_source _ s (Nat.le_refl _) h

/-- Two chunks produced by the iterator that rank equal in both comparisons are the same chunk. -/
theorem chunk_eq_of_rank_eq (a b : Chunk) (wa : ChunkWF a) (wb : ChunkWF b)
    (ea : ChunkExact a) (eb : ChunkExact b) (h1 : chunkCmp a b = .eq) (h2 : zerosCmp a b = .eq) :
    a = b := by
  cases a with
  | underscore => cases b <;> simp_all [chunkCmp]
  | str s =>
    cases b with
    | underscore => simp [chunkCmp] at h1
    | str t => simp only [chunkCmp] at h1; rw [strCmp_eq h1]
    | number v z src => exact absurd h1 (strCmp_ne_eq_of_wf wa wb).1
  | number v z src =>
    cases b with
    | underscore => simp [chunkCmp] at h1
    | str t => exact absurd h1 (strCmp_ne_eq_of_wf wb wa).2
    | number w y src' =>
      simp only [chunkCmp, Nat.compare_eq_eq] at h1
      simp only [zerosCmp, zerosOf, Nat.compare_eq_eq] at h2
      obtain ⟨ha1, ha2⟩ := ea
      obtain ⟨hb1, hb2⟩ := eb
      have da := digitsVal_some ha1
      have db := digitsVal_some hb1
      have : src = src' := dval_inj src src' da.1 db.1 (by omega) (by omega)
      subst this; subst h1; subst ha2; subst hb2; rfl

/-- `version_sort` returns `Equal` only on equal identifiers, provided every run of digits in
both identifiers has a value below 2^64. -/
theorem versionSort_eq_imp (a b : List Char) (ha : allRunsFit a = true) (hb : allRunsFit b = true)
    (h : versionSort a b = .eq) : a = b := by
  rw [versionSort_eq, seqCmp, Ordering.then_eq_eq] at h
  have : chunks a = chunks b := by
    have hz := h.2
    refine lexCmp_eq_imp_eq (cmp := fun x y => (chunkCmp x y).then (zerosCmp x y)) _ _ ?_ ?_
    · intro x hx y hy hxy
      rw [Ordering.then_eq_eq] at hxy
      exact chunk_eq_of_rank_eq x y (chunks_wf a x hx) (chunks_wf b y hy)
        (chunksFuel_exact _ _ x hx) (chunksFuel_exact _ _ y hy) hxy.1 hxy.2
    · exact lexCmp_then_eq _ _ _ _ h.1 h.2
  rw [← chunks_source a ha, ← chunks_source b hb, this]

/-! ## Which trees rank equal -/

theorem allRunsFit_trimRaw (n : List Char) : allRunsFit (trimRaw n) = allRunsFit n := by
  induction n using trimRaw.induct with
  | case1 rest ih =>
    rw [trimRaw, ih]
    simp [allRunsFit, runsFitAux, isAsciiDigit, usizeBound]
  | case2 s h => rw [trimRaw]; exact h

/-- Two identifier names rank equal exactly when their canonical names are equal (for style
edition 2024 provided their numbers fit `usize`). -/
theorem identCmp_eq_iff (v : Bool) (n m : List Char)
    (hn : v = true → allRunsFit n = true) (hm : v = true → allRunsFit m = true) :
    identCmp v n m = .eq ↔ canonName v n = canonName v m := by
  cases v
  · simp only [identCmp, canonName, Bool.false_eq_true, if_false]
    exact ⟨legacyIdentCmp_eq_imp, fun h => h ▸ legacyIdentCmp_tp.refl n⟩
  · simp only [identCmp, canonName, if_true]
    constructor
    · intro h
      exact versionSort_eq_imp _ _ (by rw [allRunsFit_trimRaw]; exact hn rfl)
        (by rw [allRunsFit_trimRaw]; exact hm rfl) h
    · intro h; rw [h]; exact versionSort_tp.refl _

theorem pathCmp_cons (v : Bool) (a b : Seg) (as bs : List Seg) :
    pathCmp v (a :: as) (b :: bs) =
      match segCmpCore v false a b with
      | .eq => pathCmp v as bs
      | o => o := by
  simp only [pathCmp_eq_lex, lexCmp]
  rfl

mutual
theorem segCmp_eq_iff_canon (v : Bool) (ok : List Char → Prop)
    (hid : ∀ n m, ok n → ok m → (identCmp v n m = .eq ↔ canonName v n = canonName v m)) :
    ∀ (a b : Seg), (∀ n ∈ segNames a, ok n) → (∀ n ∈ segNames b, ok n) →
      (segCmpCore v false a b = .eq ↔ canonSeg v a = canonSeg v b)
  | .list as, .list bs, ha, hb => by
    simp only [segCmpCore, canonSeg, Seg.list.injEq]
    exact treesCmp_eq_iff_canon v ok hid as bs ha hb
  | .ident n _, .ident m _, ha, hb => by
    have := hid n m (ha n (by simp [segNames])) (hb m (by simp [segNames]))
    simp only [segCmpCore, canonSeg, Seg.ident.injEq, and_true, identAliasCmp, Bool.false_eq_true, if_false]
    rw [← this]
    cases identCmp v n m <;> simp
  | .slf _, .slf _, _, _ | .super _, .super _, _, _ | .crate _, .crate _, _, _ => by
    simp [segCmpCore, canonSeg, kwAliasCmp, optCmp]
  | .glob, .glob, _, _ => by simp [segCmpCore, canonSeg]
  | .slf _, .super _, _, _ | .slf _, .crate _, _, _ | .slf _, .ident _ _, _, _ | .slf _, .glob, _, _
  | .slf _, .list _, _, _ => by simp [segCmpCore, canonSeg]
  | .super _, .slf _, _, _ | .super _, .crate _, _, _ | .super _, .ident _ _, _, _ | .super _, .glob, _, _
  | .super _, .list _, _, _ => by simp [segCmpCore, canonSeg]
  | .crate _, .slf _, _, _ | .crate _, .super _, _, _ | .crate _, .ident _ _, _, _ | .crate _, .glob, _, _
  | .crate _, .list _, _, _ => by simp [segCmpCore, canonSeg]
  | .ident _ _, .slf _, _, _ | .ident _ _, .super _, _, _ | .ident _ _, .crate _, _, _ | .ident _ _, .glob, _, _
  | .ident _ _, .list _, _, _ => by simp [segCmpCore, canonSeg]
  | .glob, .slf _, _, _ | .glob, .super _, _, _ | .glob, .crate _, _, _ | .glob, .ident _ _, _, _
  | .glob, .list _, _, _ => by simp [segCmpCore, canonSeg]
  | .list _, .slf _, _, _ | .list _, .super _, _, _ | .list _, .crate _, _, _ | .list _, .ident _ _, _, _
  | .list _, .glob, _, _ => by simp [segCmpCore, canonSeg]
termination_by structural a => a
theorem treesCmp_eq_iff_canon (v : Bool) (ok : List Char → Prop)
    (hid : ∀ n m, ok n → ok m → (identCmp v n m = .eq ↔ canonName v n = canonName v m)) :
    ∀ (a b : List Tree), (∀ n ∈ treesNames a, ok n) → (∀ n ∈ treesNames b, ok n) →
      (treesCmp v a b = .eq ↔ canonTrees v a = canonTrees v b)
  | [], [], _, _ => by simp [treesCmp, canonTrees]
  | [], _ :: _, _, _ => by simp [treesCmp, canonTrees]
  | _ :: _, [], _, _ => by simp [treesCmp, canonTrees]
  | a :: as, b :: bs, ha, hb => by
    simp only [treesNames, List.mem_append] at ha hb
    have h1 := treeCmp_eq_iff_canon v ok hid a b (fun n h => ha n (Or.inl h)) (fun n h => hb n (Or.inl h))
    have h2 := treesCmp_eq_iff_canon v ok hid as bs (fun n h => ha n (Or.inr h)) (fun n h => hb n (Or.inr h))
    simp only [treesCmp, canonTrees, List.cons.injEq, ← h1, ← h2]
    cases treeCmp v a b <;> simp
termination_by structural a => a
theorem treeCmp_eq_iff_canon (v : Bool) (ok : List Char → Prop)
    (hid : ∀ n m, ok n → ok m → (identCmp v n m = .eq ↔ canonName v n = canonName v m)) :
    ∀ (a b : Tree), (∀ n ∈ treeNames a, ok n) → (∀ n ∈ treeNames b, ok n) →
      (treeCmp v a b = .eq ↔ canonTree v a = canonTree v b)
  | .mk p, .mk q, ha, hb => by
    simp only [treeCmp, canonTree, Tree.mk.injEq]
    exact pathCmp_eq_iff_canon v ok hid p q ha hb
termination_by structural a => a
theorem pathCmp_eq_iff_canon (v : Bool) (ok : List Char → Prop)
    (hid : ∀ n m, ok n → ok m → (identCmp v n m = .eq ↔ canonName v n = canonName v m)) :
    ∀ (a b : List Seg), (∀ n ∈ pathNames a, ok n) → (∀ n ∈ pathNames b, ok n) →
      (pathCmp v a b = .eq ↔ canonPath v a = canonPath v b)
  | [], [], _, _ => by simp [pathCmp, canonPath]
  | [], _ :: _, _, _ => by simp [pathCmp, canonPath]
  | _ :: _, [], _, _ => by simp [pathCmp, canonPath]
  | a :: as, b :: bs, ha, hb => by
    simp only [pathNames, List.mem_append] at ha hb
    have h1 := segCmp_eq_iff_canon v ok hid a b (fun n h => ha n (Or.inl h)) (fun n h => hb n (Or.inl h))
    have h2 := pathCmp_eq_iff_canon v ok hid as bs (fun n h => ha n (Or.inr h)) (fun n h => hb n (Or.inr h))
    simp only [pathCmp_cons, canonPath, List.cons.injEq, ← h1, ← h2]
    cases segCmpCore v false a b <;> simp
termination_by structural a => a
end

/-- Style editions ≤ 2021: two trees rank equal exactly when they are equal after erasing every
alias. -/
theorem treeCmp_legacy_eq_iff (a b : Tree) :
    treeCmp false a b = .eq ↔ canonTree false a = canonTree false b :=
  treeCmp_eq_iff_canon false (fun _ => True)
    (fun n m _ _ => identCmp_eq_iff false n m (by simp) (by simp)) a b (fun _ _ => trivial)
    (fun _ _ => trivial)

/-- Style edition 2024: two trees whose identifiers have no number ≥ 2^64 rank equal exactly when
they are equal after erasing every alias and every `r#` prefix. -/
theorem treeCmp_2024_eq_iff (a b : Tree) (ha : ∀ n ∈ treeNames a, allRunsFit n = true)
    (hb : ∀ n ∈ treeNames b, allRunsFit n = true) :
    treeCmp true a b = .eq ↔ canonTree true a = canonTree true b :=
  treeCmp_eq_iff_canon true (fun n => allRunsFit n = true)
    (fun n m hn hm => identCmp_eq_iff true n m (fun _ => hn) (fun _ => hm)) a b ha hb

/-! ## Grouping of reorderable items -/

open RF.Reorder

/-- Consecutive items are at most one line apart: each starts before `hi + 2` of the previous
one (`lastHi` is the `hi` before the first item). -/
def Adjacent : Nat → List GItem → Prop
  | _, [] => True
  | lastHi, i :: is => i.lo < lastHi + 2 ∧ Adjacent i.hi is

theorem groupLen_le (kind : RKind) (ig : Bool) (h : Nat) (l : List GItem) :
    groupLen kind ig h l ≤ l.length := by
  induction l generalizing h with
  | nil => simp [groupLen]
  | cons i is ih =>
    simp only [groupLen]
    split
    · have := ih i.hi; simp only [List.length_cons]; omega
    · omega

theorem groupLen_kind (kind : RKind) (ig : Bool) (h : Nat) (l : List GItem) :
    ∀ i ∈ l.take (groupLen kind ig h l), RKind.ofItem i = kind := by
  induction l generalizing h with
  | nil => simp [groupLen]
  | cons i is ih =>
    simp only [groupLen]
    split
    · next hc =>
      rw [Nat.add_comm, List.take_succ_cons]
      intro j hj
      rcases List.mem_cons.mp hj with rfl | hj
      · exact hc.1
      · exact ih i.hi j hj
    · simp

theorem groupLen_adjacent (kind : RKind) (h : Nat) (l : List GItem) :
    Adjacent h (l.take (groupLen kind true h l)) := by
  induction l generalizing h with
  | nil => simp [groupLen, Adjacent]
  | cons i is ih =>
    simp only [groupLen]
    split
    · next hc =>
      rw [Nat.add_comm, List.take_succ_cons]
      refine ⟨?_, ih i.hi⟩
      simpa using hc.2
    · simp [Adjacent]

/-- What `visit_items_with_reordering` guarantees about one group. -/
def GroupOK (c : GConfig) : Group → Prop
  | .run kind is =>
    is ≠ [] ∧ (kind.isReorderable c = true ∨ kind.isRegroupable c = true) ∧
    (∀ i ∈ is, RKind.ofItem i = kind) ∧
    (kind.inGroup c = true → ∀ i rest, is = i :: rest → Adjacent i.hi rest)
  | .single i =>
    (RKind.ofItem i).isReorderable c = false ∧ (RKind.ofItem i).isRegroupable c = false

theorem splitGroupsFuel_spec (c : GConfig) (n : Nat) (items : List GItem) (gs : List Group)
    (h : splitGroupsFuel c n items = some gs) :
    gs.flatMap Group.items = items ∧ ∀ g ∈ gs, GroupOK c g := by
  induction n generalizing items gs with
  | zero =>
    cases items with
    | nil => simp [splitGroupsFuel] at h; subst h; simp
    | cons i is => simp [splitGroupsFuel] at h
  | succ n ih =>
    cases items with
    | nil => simp [splitGroupsFuel] at h; subst h; simp
    | cons i is =>
      simp only [splitGroupsFuel] at h
      split at h
      · next hk =>
        split at h
        · cases h
        · next hn =>
          simp only [Option.map_eq_some_iff] at h
          obtain ⟨gs', hgs', rfl⟩ := h
          obtain ⟨h1, h2⟩ := ih _ _ hgs'
          refine ⟨by simp [Group.items, h1, List.take_append_drop], ?_⟩
          intro g hg
          rcases List.mem_cons.mp hg with rfl | hg
          · refine ⟨?_, by simpa using hk, groupLen_kind _ _ _ _, ?_⟩
            · intro e
              have := congrArg List.length e
              simp only [List.length_take, List.length_nil] at this
              have := groupLen_le (RKind.ofItem i) ((RKind.ofItem i).inGroup c) i.hi (i :: is)
              simp only [List.length_cons] at *
              omega
            · intro hin j rest hj
              have hadj := groupLen_adjacent (RKind.ofItem i) i.hi (i :: is)
              rw [hin] at hj
              rw [hj] at hadj
              have : j = i := by
                cases hl : groupLen (RKind.ofItem i) true i.hi (i :: is) with
                | zero => rw [hl] at hj; simp at hj
                | succ m => rw [hl, List.take_succ_cons] at hj; exact (List.cons.inj hj).1.symm
              subst this
              exact hadj.2
          · exact h2 g hg
      · next hk =>
        simp only [Option.map_eq_some_iff] at h
        obtain ⟨gs', hgs', rfl⟩ := h
        obtain ⟨h1, h2⟩ := ih _ _ hgs'
        refine ⟨by simp [Group.items, h1], ?_⟩
        intro g hg
        rcases List.mem_cons.mp hg with rfl | hg
        · simpa [GroupOK] using hk
        · exact h2 g hg

/-- Every real span has `lo ≤ hi`; then the loop always makes progress. -/
theorem splitGroupsFuel_some (c : GConfig) (n : Nat) (items : List GItem)
    (hn : items.length ≤ n) (hw : ∀ i ∈ items, i.lo ≤ i.hi) :
    ∃ gs, splitGroupsFuel c n items = some gs := by
  induction n generalizing items with
  | zero => cases items <;> simp_all [splitGroupsFuel]
  | succ n ih =>
    cases items with
    | nil => simp [splitGroupsFuel]
    | cons i is =>
      simp only [splitGroupsFuel]
      have hi := hw i (by simp)
      split
      · generalize hg : groupLen (RKind.ofItem i) ((RKind.ofItem i).inGroup c) i.hi (i :: is) = g
        have hpos : g ≠ 0 := by
          rw [← hg]
          simp only [groupLen, true_and]
          rw [if_pos (by right; omega)]
          omega
        simp only [hpos, if_false]
        obtain ⟨gs, hgs⟩ := ih ((i :: is).drop g)
          (by simp only [List.length_drop, List.length_cons] at *; omega)
          (fun j hj => hw j (List.mem_of_mem_drop hj))
        exact ⟨_, by rw [hgs]; rfl⟩
      · obtain ⟨gs, hgs⟩ := ih is (by simp only [List.length_cons] at hn; omega)
          (fun j hj => hw j (by simp [hj]))
        exact ⟨_, by rw [hgs]; rfl⟩

/-! ## A tree ranks equal to its canonical form -/

theorem trimRaw_idem (n : List Char) : trimRaw (trimRaw n) = trimRaw n := by
  induction n using trimRaw.induct with
  | case1 rest ih => rw [trimRaw, ih]
  | case2 s h =>
    have e : trimRaw s = s := by rw [trimRaw]; exact h
    rw [e, e]

theorem identCmp_canonName (v : Bool) (n : List Char) : identCmp v n (canonName v n) = .eq := by
  cases v
  · exact legacyIdentCmp_tp.refl n
  · simp only [identCmp, canonName, if_true, trimRaw_idem]
    exact versionSort_tp.refl _

mutual
theorem segCmp_canon (v : Bool) : ∀ a : Seg, segCmpCore v false a (canonSeg v a) = .eq
  | .ident n _ => by simp [segCmpCore, canonSeg, identCmp_canonName, identAliasCmp]
  | .slf _ | .super _ | .crate _ => by simp [segCmpCore, canonSeg, kwAliasCmp, optCmp]
  | .glob => by simp [segCmpCore, canonSeg]
  | .list ts => by simp only [segCmpCore, canonSeg]; exact treesCmp_canon v ts
termination_by structural a => a
theorem treesCmp_canon (v : Bool) : ∀ a : List Tree, treesCmp v a (canonTrees v a) = .eq
  | [] => by simp [treesCmp, canonTrees]
  | t :: ts => by simp only [treesCmp, canonTrees, treeCmp_canon v t, treesCmp_canon v ts]
termination_by structural a => a
theorem treeCmp_canon (v : Bool) : ∀ a : Tree, treeCmp v a (canonTree v a) = .eq
  | .mk p => by simp only [treeCmp, canonTree]; exact pathCmp_canon v p
termination_by structural a => a
theorem pathCmp_canon (v : Bool) : ∀ a : List Seg, pathCmp v a (canonPath v a) = .eq
  | [] => by simp [pathCmp, canonPath]
  | s :: ss => by simp only [pathCmp_cons, canonPath, segCmp_canon v s, pathCmp_canon v ss]
termination_by structural a => a
end

/-- Trees that are equal after erasing aliases (and, for 2024, `r#` prefixes) rank equal: no
hypothesis on the identifiers. -/
theorem treeCmp_eq_of_canon (v : Bool) (a b : Tree) (h : canonTree v a = canonTree v b) :
    treeCmp v a b = .eq := by
  have tp := treeCmp_tp v
  have h1 := treeCmp_canon v a
  have h2 := tp.eq_symm (treeCmp_canon v b)
  rw [← h] at h2
  exact tp.eq_trans h1 h2

end RF.Lemmas.Sort
