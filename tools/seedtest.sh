#!/bin/bash
# seedtest.sh <dir with patch.diff> <Cnn> [tier] [seed]
# Runs one registered check against a seeded change WITHOUT touching /repo: the patch is applied in the
# scratch worktree /tmp/hw/test/repo (synced to /repo's HEAD first), the check runs from a synced copy of
# /verif in /tmp/hw/test/verif with VERIF_REPO pointing at that worktree, and the patch is undone afterwards.
# Equivalent to `git -C /repo apply …; ./check …; git -C /repo checkout -- .` but safe while other work runs.
D=$(cd "$1" && pwd); P=$2; TIER=${3:-quick}; SEED=${4:-0}
B=/tmp/hw/test
[ -d $B/repo ] || /verif/tools/mkworker.sh test >/dev/null
git -C $B/repo checkout -q -- . && git -C $B/repo clean -qfd -e target && git -C $B/repo checkout -q --detach "$(git -C /repo rev-parse HEAD)"
rsync -a --delete --exclude .build --exclude work --exclude .git --exclude evidence /verif/ $B/verif/
sed -i "s#path = \"/repo\"#path = \"$B/repo\"#" $B/verif/harness/Cargo.toml
sed -i "s#/verif/.build/target#$B/verif/.build/target#" $B/verif/harness/.cargo/config.toml
mkdir -p $B/verif/evidence $B/verif/work
git -C $B/repo apply "$D/patch.diff" || { echo "patch does not apply"; exit 2; }
. $B/env.sh
(cd $B/verif && VERIF_SEED=$SEED timeout 3600 ./check $P --tier $TIER); rc=$?
echo "seedtest: check $P tier=$TIER seed=$SEED on $(basename $D) -> exit $rc"
if [ $rc -ne 0 ]; then ls $B/verif/work/replays/ 2>/dev/null | tail -2; fi
git -C $B/repo checkout -q -- . && git -C $B/repo clean -qfd -e target
exit $rc
