import RF.Lemmas.Imports

/-!
# C10  Import rewriting preserves what is imported

Theorems about `RF.Model.Imports` (the model of `UseTree::normalize`, `flatten`,
`nest_trailing_self`, `share_prefix`, `merge`, `merge_rest`, `merge_use_trees_inner`,
`normalize_use_trees_with_granularity`, `group_imports` and the `use` arm of
`rewrite_reorderable_or_regroupable_items`).

Quantification: every tree / item / run of the model types, every comparison function `cmp` (the
order used for sorting is a parameter; nothing here depends on it), every granularity.

"The imports denoted" by a tree are `leaves t`: a list of (path, alias); for a run of items
`runLeaves` keys every leaf by (visibility, attributes).  **Set equality of two leaf lists is mutual
membership**: `SetEq a b := ∀ x, x ∈ a ↔ x ∈ b`.

Where the code violates the plain statement there is a `…_counterexample` (proved, concrete input)
and a `…_partial` with a decidable hypothesis (all hypotheses are `Bool` functions of the model,
exposed by the driver as `imp.safe` / `imp.wf`).
-/
namespace RF.Props.C10
open RF.Imports RF.Lemmas.Imports

/-! ## concrete trees used by the counter-examples and the non-vacuity examples -/

private def n (c : Char) : List Char := [c]
private def use (p : List Seg) : Item := ⟨.mk p, some [], none, false⟩
private def i (c : Char) : Seg := .ident (n c) none
private def ia (c x : Char) : Seg := .ident (n c) (some (n x))

/-- `use a;` -/
def useA : Item := use [i 'a']
/-- `use a as x;` -/
def useAasX : Item := use [ia 'a' 'x']
/-- `use a::b;` -/
def useAB : Item := use [i 'a', i 'b']
/-- `use a::{self, b as c, d::*};` -/
def useNested : Item := use [i 'a', .list [.mk [.slf none], .mk [ia 'b' 'c'], .mk [i 'd', .glob]]]

/-- The denotation of `a::{self, b as c, d::*}` is `{(a,–), (a::b, c), (a::d::*,–)}`. -/
example : leaves useNested.tree =
    [⟨[.name (n 'a') none], none⟩, ⟨[.name (n 'a') none, .name (n 'b') none], some (n 'c')⟩,
     ⟨[.name (n 'a') none, .name (n 'd') none, .glob], none⟩] := by decide

/-! ## `normalize` -/

/-- `normalize` keeps the imports of a well-formed item (as the parser builds it) that is not a bare
`use self;` with a visibility and no attributes: the keyed leaf set is unchanged (`foo::{}` denotes
nothing, `foo::self` is `foo`, `foo::{bar}` is `foo::bar`, lists are sorted by any `cmp`), and
visibility, attributes and comment flag are untouched. -/
theorem normalize_leaves (cmp : Tree → Tree → Ordering) (it it' : Item)
    (h : normalizeItem cmp it = .ok it') (hwf : wfPath true it.tree.path = true)
    (hb : bareSelf it = false) :
    SetEq (itemLeaves it') (itemLeaves it) ∧ it'.vis = it.vis ∧ it'.attrs = it.attrs ∧
      it'.hasComment = it.hasComment :=
  normalizeItem_leaves cmp it it' h hwf hb

example : wfPath true useNested.tree.path = true ∧ bareSelf useNested = false := by decide
example (cmp : Tree → Tree → Ordering) : ∃ it', normalizeItem cmp (use [i 'a', .list [.mk [i 'b']]]) = .ok it' :=
  ⟨use [i 'a', i 'b'], rfl⟩

/-- `normalize` does not panic on a well-formed non-empty item (and the model's fuel suffices). -/
theorem normalize_total (cmp : Tree → Tree → Ordering) (it : Item)
    (hwf : wfPath true it.tree.path = true) (hne : it.tree.path ≠ []) :
    ∃ it', normalizeItem cmp it = .ok it' :=
  normalizeItem_ok cmp it hwf hne

/-- … and panics (`expect("Empty use tree?")`) on the empty path. -/
theorem normalize_empty_panics (cmp : Tree → Tree → Ordering) (v a : Option (List Char)) (c : Bool) :
    normalizeItem cmp ⟨.mk [], v, a, c⟩ = .error .panic := rfl

/-- The excluded case is real: `use self;` (parsed, rejected later by rustc) is deleted. -/
theorem normalize_bare_self_counterexample (cmp : Tree → Tree → Ordering) :
    normalizeItem cmp (use [.slf none]) = .ok (use []) ∧
      itemLeaves (use [.slf none]) ≠ [] ∧ itemLeaves (use []) = [] :=
  ⟨rfl, by decide, by decide⟩

/-- `normalize` keeps a declaration well-formed (in particular every nested tree keeps a non-empty
path: the hypothesis of `flatten_leaves`), and a declaration without attributes comes out without
any empty list. -/
theorem normalize_wf (cmp : Tree → Tree → Ordering) (it it' : Item)
    (h : normalizeItem cmp it = .ok it') (hwf : wfPath true it.tree.path = true) :
    wfPath true it'.tree.path = true ∧ nePath it'.tree.path = true ∧
      (it.attrs = none → leafyPath it'.tree.path = true) := by
  unfold normalizeItem at h
  split at h
  · simp at h
  · rename_i p hp
    simp only [Except.ok.injEq] at h; subst h
    have hw := normPath_wf cmp _ _ _ _ _ true hp hwf
    refine ⟨hw, wfPath_nePath true _ hw, ?_⟩
    intro ha
    exact normPath_leafy cmp _ _ _ _ _ true (by simp [ha]) hp hwf

/-- `use a::{b::{}, c};` is normalised to `use a::c;` and `use a::{b::{}, c::{}};` to nothing
(the element that imports nothing is removed and the tree normalised again). -/
theorem normalize_removes_nested_empty (cmp : Tree → Tree → Ordering) :
    normalizeItem cmp (use [i 'a', .list [.mk [i 'b', .list []], .mk [i 'c']]]) = .ok (use [i 'a', i 'c']) ∧
    normalizeItem cmp (use [i 'a', .list [.mk [i 'b', .list []], .mk [i 'c', .list []]]]) = .ok (use []) :=
  ⟨rfl, rfl⟩

/-! ## `flatten`, `nest_trailing_self` -/

/-- `flatten` keeps the imports, **as a list** (order and multiplicity), when every nested tree has
a non-empty path, for `Item` granularity or an item without attributes (other granularities drop
the attributes of the pieces: they are never called with attributes). -/
theorem flatten_leaves (g : Granularity) (it : Item) (h : nePath it.tree.path = true)
    (hg : g = .item ∨ it.attrs = none) : runLeaves (flattenItem g it) = itemLeaves it :=
  flattenItem_leaves g it h hg

example : nePath useNested.tree.path = true := by decide

/-- Every piece keeps the visibility. -/
theorem flatten_vis (g : Granularity) (it : Item) : ∀ p ∈ flattenItem g it, p.vis = it.vis :=
  flattenItem_vis g it

/-- The hypothesis is needed: a nested tree with an empty path is flattened to an import of the
prefix itself: `use a::{<empty>, c}` becomes `use a; use a::c;` — an import nobody wrote.  Before the
repair of `UseTree::normalize` in /repo this is what `normalize` left of the nested `b::{}` in
`use a::{b::{}, c};` (reproduced on the binary then: `imports_granularity=Item` gave `use a;`);
`normalize` now removes such elements (`normalize_removes_nested_empty`, `normalize_wf`), so no
parsed declaration reaches `flatten` in this shape any more. -/
theorem flatten_empty_nested_counterexample :
    let it := use [i 'a', .list [.mk [], .mk [i 'c']]]
    (⟨[], none, ⟨[.name (n 'a') none], none⟩⟩ : ItemLeaf) ∈ runLeaves (flattenItem .item it) ∧
    (⟨[], none, ⟨[.name (n 'a') none], none⟩⟩ : ItemLeaf) ∉ itemLeaves it := by decide

/-- `nest_trailing_self` (`a::self` to `a::{self}`) keeps the imports, as a list. -/
theorem nest_leaves (it : Item) : itemLeaves (nestItem it) = itemLeaves it :=
  nestItem_leaves it

/-! ## `merge` -/

/-- One `self.merge(other)` at top level (after `share_prefix` said yes): the merged item denotes
exactly the imports of both, provided both are well-formed and leafy and the two leaf lists satisfy
the safety relation of the mode (`safePair`: nothing for `Crate`; no one-segment alias twins for
`Module`; no aliased import that is a prefix of another for `One`). -/
theorem merge_leaves_partial (cmp : Tree → Tree → Ordering) (sp : SharedPrefix) (t f t' : Item)
    (h : mergeItem cmp sp t f = .ok t') (hs : sharePrefix sp t f = true)
    (hwt : wfItem t = true) (hwf : wfItem f = true) (hfa : f.attrs = none)
    (hp : pairwiseB (safePair sp) (itemLeaves t ++ itemLeaves f) = true) :
    SetEq (itemLeaves t') (itemLeaves t ++ itemLeaves f) := by
  have hot : okPath true t.tree.path = true := by simpa [wfItem, okPath] using hwt
  have hof : okPath true f.tree.path = true := by simpa [wfItem, okPath] using hwf
  exact (mergeItem_spec cmp sp h hs hot hof hfa ((pairwiseB_iff _ _).1 hp)).2.2.setEq

example : sharePrefix .crate useAB (use [i 'a', i 'c']) = true ∧ wfItem useAB = true ∧
    pairwiseB (safePair .one) (itemLeaves useAB ++ itemLeaves (use [i 'a', i 'c'])) = true := by decide

/-- `merge_use_trees_inner` on nested trees under a prefix `pre`: the new list denotes the old list
plus the new tree.  (`HypN` is the `One` alias-stem condition on the leaves; trivial otherwise.) -/
theorem merge_inner_leaves_partial (cmp : Tree → Tree → Ordering) (sp : SharedPrefix)
    (trees trees' : List Tree) (u : Tree) (r : Bool) (pre : List PSeg)
    (h : mergeUseTreesInner cmp sp trees u = .ok trees')
    (ht : ∀ t ∈ trees, wfTree r t = true ∧ leafyTree t = true)
    (hu : wfTree r u = true ∧ leafyTree u = true) (hroot : r = true → pre = [])
    (hyp : HypN sp (leavesTrees pre trees ++ leavesTree pre u)) :
    SetEq (leavesTrees pre trees') (leavesTrees pre trees ++ leavesTree pre u) :=
  ((merge_specs cmp sp _).2 trees u trees' r pre h
    (fun t ht' => by simp [okTree, ht t ht']) (by simp [okTree, hu]) hroot hyp).2.2.setEq

/-- F6, at the nested level, for every order: in `One` mode `c as p` merged into `{c, d}` is dropped. -/
theorem alias_twin_nested_counterexample (cmp : Tree → Tree → Ordering) :
    mergeUseTreesInner cmp .one [.mk [i 'c'], .mk [i 'd']] (.mk [ia 'c' 'p']) =
      .ok [.mk [i 'c'], .mk [i 'd']] := rfl

/-! ## `normalize_use_trees_with_granularity` -/

/-- `Crate`, `Module`, `One`: under `safeRun sp` (the mergeable items — no attributes, no comment —
are well-formed and leafy, and every two import occurrences of them satisfy `safePair sp`) the keyed
leaf set of the run is unchanged, and the items with attributes or comments come out unchanged, in
their order.  For `Crate` `safePair` is `true`: no alias condition at all. -/
theorem granularity_leaves_partial (cmp : Tree → Tree → Ordering) (g : Granularity)
    (sp : SharedPrefix) (hg : spOf g = some sp) (its res : List Item)
    (h : withGranularity cmp g its = .ok res) (hs : safeRun sp its = true) :
    SetEq (runLeaves res) (runLeaves its) ∧ res.filter isProt = its.filter isProt :=
  granularity_leaves cmp g sp hg its res h hs

example : safeRun .one [useNested, use [i 'a', i 'e'], use [.slf none, i 'd']] = true := by decide
example : safeRun .module [useA, useAB, use [i 'a', ia 'b' 'x']] = true := by decide
example : safeRun .crate [useA, useAasX, useAB] = true := by decide

/-- F6: `use a; use a as x;` under `Module` and `One` loses `a as x`
(`merge_rest` returns `None` when both paths are exhausted by the alias-blind prefix). -/
theorem alias_twin_counterexample (cmp : Tree → Tree → Ordering) :
    withGranularity cmp .module [useA, useAasX] = .ok [useA] ∧
    withGranularity cmp .one [useA, useAasX] = .ok [useA] ∧
    (⟨[], none, ⟨[.name (n 'a') none], some (n 'x')⟩⟩ : ItemLeaf) ∈ runLeaves [useA, useAasX] ∧
    (⟨[], none, ⟨[.name (n 'a') none], some (n 'x')⟩⟩ : ItemLeaf) ∉ runLeaves [useA] :=
  ⟨rfl, rfl, by decide, by decide⟩

/-- `Crate` is not affected: the twins are kept. -/
theorem alias_twin_crate_ok (cmp : Tree → Tree → Ordering) :
    withGranularity cmp .crate [useA, useAasX] = .ok [useA, useAasX] := rfl

/-- A second defect of `One` (found by the brute force for the hypothesis): `use a::b; use a as x;`
becomes `use a as x::{self as x, b};` — the alias lands on a non-terminal segment (not Rust), and
neither original import is denoted any more.  (`use a as x; use a::b;` in that order is fine.) -/
theorem alias_stem_counterexample (cmp : Tree → Tree → Ordering) :
    withGranularity cmp .one [useAB, useAasX] =
      .ok [use [ia 'a' 'x', .list [.mk [.slf (some (n 'x'))], .mk [i 'b']]]] ∧
    (⟨[], none, ⟨[.name (n 'a') none], some (n 'x')⟩⟩ : ItemLeaf) ∉
      runLeaves [use [ia 'a' 'x', .list [.mk [.slf (some (n 'x'))], .mk [i 'b']]]] ∧
    (⟨[], none, ⟨[.name (n 'a') none, .name (n 'b') none], none⟩⟩ : ItemLeaf) ∉
      runLeaves [use [ia 'a' 'x', .list [.mk [.slf (some (n 'x'))], .mk [i 'b']]]] :=
  ⟨rfl, by decide, by decide⟩

/-- `Item`: the keyed leaf set is unchanged (nested paths non-empty, as the parser builds them):
flattening, nesting a trailing `self` and dropping repeated imports lose nothing.  (Before the
repair of `flatten_use_trees` in /repo this needed the hypothesis that no import occurs twice with
different visibility or attributes: `unique()` compared paths only.) -/
theorem granularity_item_leaves (cmp : Tree → Tree → Ordering) (its res : List Item)
    (h : withGranularity cmp .item its = .ok res) (hne : neRun its = true) :
    SetEq (runLeaves res) (runLeaves its) := by
  simp only [withGranularity, Except.ok.injEq] at h
  subst h
  exact RF.Lemmas.Imports.granularity_item_leaves its hne

example : neRun [useNested, useAB, useA] = true := by decide

/-- The declarations the old code lost are kept: `#[x] use f::B; #[y] use f::B;` and
`pub use f::B; use f::B;` come out unchanged, while a plain repetition is dropped. -/
theorem granularity_item_keeps_keyed_twins (cmp : Tree → Tree → Ordering) :
    let a : Item := ⟨.mk [i 'f', i 'B'], some [], some (n 'x'), false⟩
    let b : Item := ⟨.mk [i 'f', i 'B'], some [], some (n 'y'), false⟩
    let p : Item := ⟨.mk [i 'f', i 'B'], some ['p', 'u', 'b'], none, false⟩
    let q : Item := ⟨.mk [i 'f', i 'B'], some [], none, false⟩
    withGranularity cmp .item [a, b] = .ok [a, b] ∧
    withGranularity cmp .item [p, q] = .ok [p, q] ∧
    withGranularity cmp .item [q, q] = .ok [q] :=
  ⟨rfl, rfl, rfl⟩

/-- `Preserve` returns the run unchanged. -/
theorem granularity_preserve (cmp : Tree → Tree → Ordering) (its : List Item) :
    withGranularity cmp .preserve its = .ok its := rfl

/-- `normalize_use_trees_with_granularity` never panics, for any input and granularity: the index,
`unreachable!` and `len -= 1` sites of `merge_rest` are not reachable from it (and the model's
fuel always suffices). -/
theorem granularity_total (cmp : Tree → Tree → Ordering) (g : Granularity) (its : List Item) :
    ∃ res, withGranularity cmp g its = .ok res :=
  RF.Lemmas.Imports.granularity_total cmp g its

/-! ## visibility: `is_same_visibility` / `UseTree::same_visibility`, literally -/

private def s (str : String) : List Char := str.toList

/-- `is_same_visibility` holds exactly when the two visibilities denote the same thing
(`pub(crate)` and `pub(in crate)` do, `pub(in a)` and `pub(in a::b)` do not), for visibilities as the
parser builds them (a restricted path is non-empty and no name contains a colon). -/
theorem sameVisibility_iff_eq (a b : Vis) (ha : visWF a = true) (hb : visWF b = true) :
    isSameVisibility a b = true ↔ visDen a = visDen b :=
  isSameVisibility_iff_den a b ha hb

example : visWF (.vres [s "crate", s "engine"] false) = true ∧
    isSameVisibility (.vres [s "crate"] true) (.vres [s "crate"] false) = true ∧
    isSameVisibility (.vres [s "crate"] true) (.vres [s "crate", s "engine"] false) = false ∧
    isSameVisibility (.vres [s "crate", s "engine"] false) (.vres [s "crate", s "engine", s "planner"] false) = false ∧
    isSameVisibility (.vres [s "super"] true) (.vres [s "super", s "x"] false) = false ∧
    isSameVisibility .vpub (.vres [s "crate"] true) = false := by decide

/-- The guard is needed: names with colons (no parser builds them) collide under `path_to_string`. -/
theorem sameVisibility_colon_counterexample :
    isSameVisibility (.vres [s "a::b"] false) (.vres [s "a", s "b"] false) = true ∧
    visDen (.vres [s "a::b"] false) ≠ visDen (.vres [s "a", s "b"] false) := by decide

/-- The model of the import algebra keeps, of a visibility, the key `visKey`; comparing keys (what
`sharePrefix` does, `sameVis`) IS `UseTree::same_visibility` with `is_same_visibility` inside, for
every pair of optional visibilities, without hypothesis. -/
theorem sameVisibility_is_key_equality (a b : Option Vis) :
    sameVisibility a b = sameVis (a.map visKey) (b.map visKey) ∧
    (∀ x y : Vis, isSameVisibility x y = true ↔ visKey x = visKey y) :=
  ⟨sameVisibility_eq_sameVis a b, isSameVisibility_iff_key⟩

/-! ## no merging across attributes, comments, visibility -/

/-- (1) `share_prefix` is false when `self` has attributes or a comment, and across differing
visibility (`None` and inherited count as the same); (2) `merge` changes only the path;
(3) the merging granularities return the items with attributes or comments unchanged and in order. -/
theorem no_merge_across (cmp : Tree → Tree → Ordering) :
    (∀ sp a b, sharePrefix sp a b = true →
      a.attrs = none ∧ a.hasComment = false ∧ a.vis.getD [] = b.vis.getD []) ∧
    (∀ sp a b a', mergeItem cmp sp a b = .ok a' →
      a'.vis = a.vis ∧ a'.attrs = a.attrs ∧ a'.hasComment = a.hasComment) ∧
    (∀ g sp its res, spOf g = some sp → withGranularity cmp g its = .ok res →
      res.filter isProt = its.filter isProt) := by
  refine ⟨?_, ?_, ?_⟩
  · intro sp a b h
    obtain ⟨h1, h2, h3, _⟩ := sharePrefix_true h
    exact ⟨h1, h2, sameVis_key h3⟩
  · intro sp a b a' h; exact mergeItem_fields h
  · intro g sp its res hg h
    have hloop : mergeLoop cmp g sp its [] = .ok res := by
      cases g <;> simp [spOf] at hg <;> subst hg <;> exact h
    simpa using mergeLoop_prot cmp g sp its [] res hloop

/-! ## `group_imports` -/

/-- `group_imports` returns exactly three groups (std, external, local); their concatenation is a
permutation of the input (nothing dropped or duplicated), every item is in the group of its class,
and each group keeps the input order. -/
theorem group_is_partition (ts : List Item) :
    (groupImports ts).length = 3 ∧ (groupImports ts).flatten.Perm ts ∧
    (∀ t ∈ (groupImports ts)[0]!, classify t.tree = .std) ∧
    (∀ t ∈ (groupImports ts)[1]!, classify t.tree = .external) ∧
    (∀ t ∈ (groupImports ts)[2]!, classify t.tree = .localG) ∧
    (∀ g ∈ groupImports ts, g.Sublist ts) :=
  RF.Lemmas.Imports.group_is_partition ts

/-! ## the whole `use` arm -/

/-- Normalise every item, apply the granularity, regroup, sort (any `cmp`), drop empty groups:
the keyed leaf set of the output is that of the input, provided the input items are well-formed
(`normalizable`) and the *normalised* items satisfy the hypothesis of the granularity (`safeFor`). -/
theorem run_leaves_partial (cmp : Tree → Tree → Ordering) (g : Granularity) (gt : GroupTactic)
    (reorder : Bool) (items normalized : List Item) (groups : List (List Item))
    (hn : mapE (normalizeItem cmp) items = .ok normalized)
    (h : rewriteUseRun cmp g gt reorder items = .ok groups)
    (hwf : normalizable items = true) (hs : safeFor g normalized = true) :
    SetEq (runLeaves groups.flatten) (runLeaves items) :=
  run_leaves cmp g gt reorder items normalized groups hn h hwf hs

example : normalizable [useNested, useAB] = true ∧ safeFor .crate [useNested, useAB] = true := by decide

/-- The groups that are rendered are, put end to end, a permutation of what the granularity step
returned: regrouping, sorting and dropping empty groups neither lose nor repeat a declaration. -/
theorem run_groups_permutation (cmp : Tree → Tree → Ordering) (g : Granularity) (gt : GroupTactic)
    (reorder : Bool) (items normalized : List Item) (groups : List (List Item))
    (hn : mapE (normalizeItem cmp) items = .ok normalized)
    (h : rewriteUseRun cmp g gt reorder items = .ok groups) :
    ∃ merged, withGranularity cmp g normalized = .ok merged ∧ groups.flatten.Perm merged :=
  run_perm cmp g gt reorder items normalized groups hn h

/-- No merging across attributes or attached comments, for the whole arm and without any
hypothesis on the declarations: under `Crate`, `Module` and `One` every declaration that has
attributes or a comment (anywhere in it) is rendered exactly as it was normalised — same path, same
visibility, same attributes — and no other declaration acquires attributes or a comment. -/
theorem run_no_merge_across (cmp : Tree → Tree → Ordering) (g : Granularity) (sp : SharedPrefix)
    (hg : spOf g = some sp) (gt : GroupTactic) (reorder : Bool)
    (items normalized : List Item) (groups : List (List Item))
    (hn : mapE (normalizeItem cmp) items = .ok normalized)
    (h : rewriteUseRun cmp g gt reorder items = .ok groups) :
    (groups.flatten.filter isProt).Perm (normalized.filter isProt) :=
  run_protected cmp g sp hg gt reorder items normalized groups hn h

/-- non-vacuity: `#[x] use a::b; use a::c; use a::d; // c` under `Crate`: the two plain
declarations… are one, the attributed one and the commented one stand as they were. -/
example (cmp : Tree → Tree → Ordering) :
    let a : Item := ⟨.mk [i 'a', i 'b'], some [], some (n 'x'), false⟩
    let c : Item := ⟨.mk [i 'a', i 'c'], some [], none, true⟩
    withGranularity cmp .crate [a, useAB, c, use [i 'a', i 'd']] =
      .ok [a, use [i 'a', .list (RF.Sort.stableSort cmp [.mk [i 'b'], .mk [i 'd']])], c] := rfl

/-- The arm never panics on declarations as the parser builds them (well-formed, non-empty paths),
whatever the granularity, grouping and reordering. -/
theorem run_total (cmp : Tree → Tree → Ordering) (g : Granularity) (gt : GroupTactic)
    (reorder : Bool) (items : List Item)
    (hwf : ∀ it ∈ items, wfPath true it.tree.path = true ∧ it.tree.path ≠ []) :
    ∃ groups, rewriteUseRun cmp g gt reorder items = .ok groups :=
  RF.Lemmas.Imports.run_total cmp g gt reorder items hwf

example : ∀ it ∈ [useNested, useAB, useAasX], wfPath true it.tree.path = true ∧ it.tree.path ≠ [] := by
  decide

/-- The whole arm under `Preserve`, `Item` and `Crate` keeps the keyed leaf set of every run of
declarations as the parser builds them (`normalizable`: well-formed paths, no bare `use self;`):
no hypothesis on aliases, duplicates, visibilities, attributes or comments.  (For `Module` and `One`
see `run_leaves_partial`: the alias conditions are needed, the counter-examples are above.) -/
theorem run_leaves_preserve_item_crate (cmp : Tree → Tree → Ordering) (g : Granularity)
    (hg : g = .preserve ∨ g = .item ∨ g = .crate) (gt : GroupTactic) (reorder : Bool)
    (items : List Item) (groups : List (List Item))
    (h : rewriteUseRun cmp g gt reorder items = .ok groups) (hwf : normalizable items = true) :
    SetEq (runLeaves groups.flatten) (runLeaves items) := by
  cases hn : mapE (normalizeItem cmp) items with
  | error e => simp [rewriteUseRun, hn] at h
  | ok normalized =>
    obtain ⟨h1, h2, h3⟩ := normalized_safe cmp items normalized hn hwf
    refine run_leaves cmp g gt reorder items normalized groups hn h hwf ?_
    rcases hg with rfl | rfl | rfl
    · exact h1
    · exact h2
    · exact h3

example : normalizable [useNested, useA, useAasX, use [i 'a', .list [.mk [i 'b', .list []], .mk [i 'c']]]] = true := by
  decide

end RF.Props.C10
