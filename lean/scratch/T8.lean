import RF.Lemmas.TokEquiv
namespace RF.Tok

/-- no token of a synthetic class (true of everything the lexer sends) -/
def NoR (ts : List Tok) : Prop := ∀ t ∈ ts, isR t = false

theorem NoR_cons {t : Tok} {ts : List Tok} : NoR (t :: ts) ↔ isR t = false ∧ NoR ts := by
  simp [NoR]

theorem NoR_append {a b : List Tok} : NoR (a ++ b) ↔ NoR a ∧ NoR b := by
  simp only [NoR, List.mem_append]
  constructor
  · intro h; exact ⟨fun t ht => h t (Or.inl ht), fun t ht => h t (Or.inr ht)⟩
  · rintro ⟨h1, h2⟩ t (ht | ht); exact h1 t ht; exact h2 t ht

theorem resplitAux_noR : ∀ (ts : List Tok) (dots : Nat), NoR ts → NoR (resplitAux dots ts) := by
  intro ts
  induction ts with
  | nil => intro _ h; simpa [resplitAux] using h
  | cons t ts ih =>
    intro dots h
    rw [NoR_cons] at h
    unfold resplitAux
    split
    · exact NoR_cons.2 ⟨h.1, ih _ h.2⟩
    · split
      · split
        · refine NoR_cons.2 ⟨rfl, NoR_cons.2 ⟨rfl, NoR_cons.2 ⟨rfl, ih _ h.2⟩⟩⟩
        · exact NoR_cons.2 ⟨h.1, ih _ h.2⟩
      · exact NoR_cons.2 ⟨h.1, ih _ h.2⟩

theorem docAttrToks_noR {inner : Bool} {o d e s c : Tok} {x : List Tok}
    (h : docAttrToks inner o d e s c = some x) : NoR x := by
  unfold docAttrToks at h
  split at h
  · simp only [Option.map_eq_some_iff] at h
    obtain ⟨v, _, rfl⟩ := h
    intro t ht
    simp only [List.mem_map] at ht
    obtain ⟨l, _, rfl⟩ := ht
    rfl
  · cases h

theorem docAttrAt_noR {ts : List Tok} {x : List Tok} {n : Nat} (h : docAttrAt ts = some (x, n)) : NoR x := by
  unfold docAttrAt at h
  split at h
  · split at h
    · split at h
      · rename_i y hy; cases h; exact docAttrToks_noR hy
      · split at h
        · split at h
          · simp only [Option.map_eq_some_iff] at h
            obtain ⟨y, hy, hh⟩ := h
            cases hh
            exact docAttrToks_noR hy
          · cases h
        · cases h
    · cases h
  · cases h

theorem docAttrAux_noR : ∀ (ts : List Tok) (n : Nat), NoR ts → NoR (docAttrAux n ts) := by
  intro ts
  induction ts with
  | nil => intro _ h; simpa [docAttrAux] using h
  | cons t ts ih =>
    intro n h
    rw [NoR_cons] at h
    cases n with
    | succ n => simp only [docAttrAux]; exact ih n h.2
    | zero =>
      simp only [docAttrAux]
      split
      · rename_i x n hx
        exact NoR_append.2 ⟨docAttrAt_noR hx, ih n h.2⟩
      · exact NoR_cons.2 ⟨h.1, ih 0 h.2⟩

theorem canonTok_cls (cfg : Cfg) (t : Tok) :
    (canonTok cfg t).cls = t.cls ∨ (t.cls = ['L','i'] ∧ (canonTok cfg t).cls = ['L','f']) := by
  unfold canonTok
  repeat' split
  all_goals simp_all

theorem canonTok_noR (cfg : Cfg) (t : Tok) (h : isR t = false) : isR (canonTok cfg t) = false := by
  rcases canonTok_cls cfg t with h1 | ⟨_, h2⟩
  · unfold isR at *; rw [h1]; exact h
  · simp [isR, h2]

theorem docMergeAux_noR (code : Bool) : ∀ (ts : List Tok) (cur : Option (Bool × List (List Char))),
    NoR ts → NoR (docMergeAux code cur ts) := by
  intro ts
  induction ts with
  | nil =>
    intro cur _
    cases cur with
    | none => simp [docMergeAux, NoR]
    | some x => obtain ⟨i, acc⟩ := x; simp [docMergeAux, NoR, docFlush, isR]
  | cons t ts ih =>
    intro cur h
    rw [NoR_cons] at h
    cases cur with
    | none =>
      simp only [docMergeAux]
      split
      · exact ih _ h.2
      · exact NoR_cons.2 ⟨h.1, ih _ h.2⟩
    | some x =>
      obtain ⟨j, acc⟩ := x
      simp only [docMergeAux]
      split
      · split
        · exact ih _ h.2
        · exact NoR_cons.2 ⟨rfl, ih _ h.2⟩
      · exact NoR_cons.2 ⟨rfl, NoR_cons.2 ⟨h.1, ih _ h.2⟩⟩

theorem mid_noR (cfg : Cfg) (ts : List Tok) (h : NoR ts) : NoR (mid cfg ts) := by
  unfold mid
  simp only []
  have h1 : NoR (resplit ts) := resplitAux_noR ts 0 h
  have h2 : NoR (onlyIf cfg.docattr docAttr (resplit ts)) := by
    unfold onlyIf; split
    · exact docAttrAux_noR _ 0 h1
    · exact h1
  have h3 : NoR ((onlyIf cfg.docattr docAttr (resplit ts)).map (canonTok cfg)) := by
    intro t ht
    simp only [List.mem_map] at ht
    obtain ⟨u, hu, rfl⟩ := ht
    exact canonTok_noR cfg u (h2 u hu)
  unfold onlyIf; split
  · exact docMergeAux_noR _ _ none h3
  · exact h3

theorem segsAux_plain_mem (cfg : Cfg) : ∀ (ts : List Tok) (n : Nat) (t : Tok),
    Seg.plain t ∈ segsAux cfg n ts → t ∈ ts := by
  intro ts
  induction ts with
  | nil => intro n t h; simp [segsAux] at h
  | cons u ts ih =>
    intro n t h
    cases n with
    | succ n => simp only [segsAux] at h; exact List.mem_cons_of_mem _ (ih n t h)
    | zero =>
      simp only [segsAux] at h
      split at h
      · simp only [List.mem_cons, reduceCtorEq, false_or] at h
        exact List.mem_cons_of_mem _ (ih _ t h)
      · simp only [List.mem_cons, Seg.plain.injEq] at h
        rcases h with rfl | h
        · exact List.mem_cons_self
        · exact List.mem_cons_of_mem _ (ih _ t h)

/-- the certificate: the hard tokens outside reorder regions, in order, interleaved with the
(non-empty) reorder regions as canonical leaf lists -/
def hardSeq (cfg : Cfg) (ts : List Tok) : List Seg := (segs cfg (mid cfg ts)).filter (Seg.keep cfg)

theorem hardSeq_wf (cfg : Cfg) (ts : List Tok) (h : NoR ts) : ∀ s ∈ hardSeq cfg ts, s.wf := by
  intro s hs
  unfold hardSeq at hs
  simp only [List.mem_filter] at hs
  cases s with
  | plain t => exact mid_noR cfg ts h t (segsAux_plain_mem cfg _ 0 t hs.1)
  | region k l =>
    have := hs.2
    simp only [Seg.keep, Bool.not_eq_true', List.isEmpty_eq_false_iff] at this
    exact this

end RF.Tok
