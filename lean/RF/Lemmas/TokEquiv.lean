import RF.Model.TokEquiv
namespace RF.Tok

/-- tokens outside the class `S` -/
def outside (S : Tok → Bool) (ts : List Tok) : List Tok := ts.filter (fun t => !S t)

@[simp] theorem outside_nil (S) : outside S [] = [] := rfl
theorem outside_cons (S t ts) : outside S (t :: ts) = if S t then outside S ts else t :: outside S ts := by
  unfold outside; by_cases h : S t <;> simp [h]
theorem outside_append (S a b) : outside S (a ++ b) = outside S a ++ outside S b := by
  simp [outside]

structure ActLocal (S : Tok → Bool) (t : Tok) (a : Act) : Prop where
  out : outside S a.out = outside S [t]
  close : ∀ o, a.close = some o → outside S o = [] ∧ ∀ c : Tok, c.isClose = true → S c = true
  comma : (a.commaAfter = true ∨ a.skipComma = true) → S (mkP ',') = true

def RuleLocal (S : Tok → Bool) (f : Rule) : Prop :=
  ∀ enc lo p2 p1 t rest a, f enc lo p2 p1 t rest = some a → ActLocal S t a

structure FrameOk (S : Tok → Bool) (fr : Frame) : Prop where
  close : ∀ o, fr.close = some o → outside S o = [] ∧ ∀ c : Tok, c.isClose = true → S c = true
  comma : (fr.commaAfter = true ∨ fr.skipComma = true) → S (mkP ',') = true

theorem isP_eq {t : Tok} {c : Char} (h : t.isP c = true) : t = mkP c := by
  cases t with | mk cls text =>
  simp [Tok.isP, mkP] at h ⊢
  exact h

theorem closeOut_outside (S) (fr : Frame) (hfr : FrameOk S fr) (t lo : Tok) (ht : t.isClose = true) :
    outside S (closeOut fr t lo) = outside S [t] := by
  unfold closeOut
  have hc := hfr.close
  have hm := hfr.comma
  cases hcl : fr.close with
  | none =>
    simp only []
    split
    · rename_i h
      have : S (mkP ',') = true := hm (Or.inl (by simp at h; exact h.1))
      simp [outside_cons, this]
    · rfl
  | some o =>
    have ⟨h1, h2⟩ := hc o hcl
    have h3 := h2 t ht
    simp only []
    split
    · rename_i h
      have : S (mkP ',') = true := hm (Or.inl (by simp at h; exact h.1))
      simp [outside_append, outside_cons, this, h1, h3]
    · simp [outside_cons, h1, h3]

theorem bpass_outside (S : Tok → Bool) (f : Rule) (hf : RuleLocal S f) :
    ∀ (ts : List Tok) (p2 p1 lo : Tok) (skip : Bool) (st : List Frame),
      (∀ fr ∈ st, FrameOk S fr) → (skip = true → S (mkP ',') = true) →
      outside S (bpass f p2 p1 lo skip st ts) = outside S ts := by
  intro ts
  induction ts with
  | nil => intros; simp [bpass]
  | cons t ts ih =>
    intro p2 p1 lo skip st hst hskip
    unfold bpass
    split
    · rename_i h
      simp at h
      have := isP_eq h.2
      subst this
      rw [ih _ _ _ _ _ hst (by simp), outside_cons, hskip h.1]; simp
    · split
      · split
        · rename_i a ha
          have hl := hf _ _ _ _ _ _ _ ha
          rw [outside_append, ih _ _ _ _ _ (by
            intro fr hfr
            simp at hfr
            rcases hfr with rfl | hfr
            · exact ⟨hl.close, hl.comma⟩
            · exact hst fr hfr) (by simp), hl.out]
          simp [outside_cons]; split <;> rfl
        · rw [outside_cons, outside_cons, ih _ _ _ _ _ (by
            intro fr hfr
            simp at hfr
            rcases hfr with rfl | hfr
            · exact ⟨by simp, by simp⟩
            · exact hst fr hfr) (by simp)]
      · split
        · split
          · rename_i hcl _ fr st'
            have hfr : FrameOk S fr := hst fr (by simp)
            rw [outside_append, closeOut_outside S fr hfr t lo hcl,
              ih _ _ _ _ _ (fun fr' h => hst fr' (by simp [h])) (fun h => hfr.comma (Or.inr h))]
            simp [outside_cons]; split <;> rfl
          · rw [outside_cons, outside_cons, ih _ _ _ _ _ (by simp) (by simp)]
        · split
          · rename_i a ha
            have hl := hf _ _ _ _ _ _ _ ha
            rw [outside_append, ih _ _ _ _ _ hst (by simp), hl.out]
            simp [outside_cons]; split <;> rfl
          · rw [outside_cons, outside_cons, ih _ _ _ _ _ hst (by simp)]

theorem runRule_outside (S f) (hf : RuleLocal S f) (ts) : outside S (runRule f ts) = outside S ts :=
  bpass_outside S f hf ts _ _ _ _ _ (by simp) (by simp)

def clsDelim (t : Tok) : Bool := t.isOpen || t.isClose
def clsTry (t : Tok) : Bool := t.isI kwTry || t.isP '!' || t.isP '?' || clsDelim t
def clsAbi (t : Tok) : Bool := isAbiC t
def clsVis (t : Tok) : Bool := t.isI kwIn || t.isP ':'
def clsEmpty (t : Tok) : Bool := t.isP '<' || t.isP '>' || t.isI kwFor || t.isI kwWhere || t.isP ':'
def clsPipe (t : Tok) : Bool := t.isP '|'
def clsBlock (t : Tok) : Bool := clsDelim t || t.isP ','
def clsSemi (t : Tok) : Bool := t.isP ';'
def clsComma (t : Tok) : Bool := t.isP ','

theorem actLocal_drop (S : Tok → Bool) (t : Tok) (h : S t = true) : ActLocal S t { out := [] } :=
  ⟨by simp [outside_cons, h], by simp, by simp⟩

theorem isO_isOpen {t : Tok} {c} (h : t.isO c = true) : t.isOpen = true := by
  simp [Tok.isO, Tok.isOpen] at *; exact h.1
theorem isC_isClose {t : Tok} {c} (h : t.isC c = true) : t.isClose = true := by
  simp [Tok.isC, Tok.isClose] at *; exact h.1

macro "rule_cases" h:ident : tactic =>
  `(tactic| (repeat' (split at $h:ident)) <;> (try (cases $h:ident; done)))

theorem ruleAbi_local : RuleLocal clsAbi ruleAbi := by
  intro enc lo p2 p1 t rest a h
  unfold ruleAbi at h
  rule_cases h
  all_goals (simp only [drop_, Option.some.injEq] at h; subst h; apply actLocal_drop; simp_all [clsAbi])

theorem ruleVis_local : RuleLocal clsVis ruleVis := by
  intro enc lo p2 p1 t rest a h
  unfold ruleVis at h
  rule_cases h
  all_goals (simp only [drop_, Option.some.injEq] at h; subst h; apply actLocal_drop; simp_all [clsVis])

theorem ruleEmpty_local : RuleLocal clsEmpty ruleEmpty := by
  intro enc lo p2 p1 t rest a h
  unfold ruleEmpty at h
  rule_cases h
  all_goals (simp only [drop_, Option.some.injEq] at h; subst h; apply actLocal_drop; simp_all [clsEmpty])

theorem rulePipe_local : RuleLocal clsPipe rulePipe := by
  intro enc lo p2 p1 t rest a h
  unfold rulePipe at h
  rule_cases h
  all_goals (simp only [drop_, Option.some.injEq] at h; subst h; apply actLocal_drop; simp_all [clsPipe])

theorem ruleSemi_local : RuleLocal clsSemi ruleSemi := by
  intro enc lo p2 p1 t rest a h
  unfold ruleSemi at h
  rule_cases h
  all_goals (simp only [drop_, Option.some.injEq] at h; subst h; apply actLocal_drop; simp_all [clsSemi])

theorem ruleComma_local : RuleLocal clsComma ruleComma := by
  intro enc lo p2 p1 t rest a h
  unfold ruleComma at h
  rule_cases h
  all_goals (simp only [drop_, Option.some.injEq] at h; subst h; apply actLocal_drop; simp_all [clsComma])


theorem clsDelim_of_open {t : Tok} (h : t.isOpen = true) : clsDelim t = true := by simp [clsDelim, h]
theorem clsDelim_close : ∀ c : Tok, c.isClose = true → clsDelim c = true := by intro c h; simp [clsDelim, h]

theorem ruleVec_local : RuleLocal clsDelim ruleVec := by
  intro enc lo p2 p1 t rest a h
  unfold ruleVec at h
  rule_cases h
  rename_i hc
  simp only [Option.some.injEq] at h; subst h
  simp only [Bool.and_eq_true] at hc
  refine ⟨?_, ?_, by simp⟩
  · have := hc.1.1
    simp [outside_cons, clsDelim, this]; simp [mkO, Tok.isOpen]
  · intro o ho; simp at ho; subst ho
    exact ⟨by simp [outside_cons, clsDelim, mkC, Tok.isClose], clsDelim_close⟩

theorem ruleTry_local : RuleLocal clsTry ruleTry := by
  intro enc lo p2 p1 t rest a h
  unfold ruleTry at h
  rule_cases h
  · simp only [drop_, Option.some.injEq] at h; subst h; apply actLocal_drop; simp_all [clsTry]
  · simp only [drop_, Option.some.injEq] at h; subst h; apply actLocal_drop; simp_all [clsTry]
  · rename_i hc
    simp only [Option.some.injEq] at h; subst h
    simp only [Bool.and_eq_true] at hc
    refine ⟨?_, ?_, by simp⟩
    · simp [outside_cons, clsTry, clsDelim, isO_isOpen hc.1.1]
    · intro o ho; simp at ho; subst ho
      exact ⟨by simp [outside_cons, clsTry, mkP, Tok.isP], fun c h => by simp [clsTry, clsDelim, h]⟩

theorem paren_act_local {t : Tok} (h : t.isO '(' = true) :
    ActLocal clsDelim t { out := [], close := some [] } :=
  ⟨by simp [outside_cons, clsDelim, isO_isOpen h], by
    intro o ho; simp at ho; subst ho; exact ⟨rfl, clsDelim_close⟩, by simp⟩

theorem ruleParen_local : RuleLocal clsDelim ruleParen := by
  intro enc lo p2 p1 t rest a h
  unfold ruleParen at h
  rule_cases h
  all_goals (cases h; apply paren_act_local; simp_all)

theorem ruleLitParen_local : RuleLocal clsDelim ruleLitParen := by
  intro enc lo p2 p1 t rest a h
  unfold ruleLitParen at h
  rule_cases h
  all_goals (cases h; apply paren_act_local; simp_all)

theorem ruleClosureParen_local : RuleLocal clsDelim ruleClosureParen := by
  intro enc lo p2 p1 t rest a h
  unfold ruleClosureParen at h
  rule_cases h
  all_goals (cases h; apply paren_act_local; simp_all)


theorem actLocal_mk (S : Tok → Bool) (t : Tok) (a : Act) (h1 : outside S a.out = outside S [t])
    (h2 : ∀ o, a.close = some o → outside S o = []) (h3 : ∀ c : Tok, c.isClose = true → S c = true)
    (h4 : S (mkP ',') = true) : ActLocal S t a :=
  ⟨h1, fun o ho => ⟨h2 o ho, h3⟩, fun _ => h4⟩

theorem ruleBlock_local : RuleLocal clsBlock ruleBlock := by
  intro enc lo p2 p1 t rest a h
  have hcl : ∀ c : Tok, c.isClose = true → clsBlock c = true := fun c h => by simp [clsBlock, clsDelim, h]
  have hcomma : clsBlock (mkP ',') = true := by decide
  have h1 : clsBlock (mkO '{') = true := by decide
  have h2 : clsBlock (mkC '}') = true := by decide
  unfold ruleBlock at h
  rule_cases h
  all_goals (cases h; simp only [Bool.and_eq_true] at *)
  all_goals
    have ht : clsBlock t = true := by
      simp_all [clsBlock, clsDelim, Tok.isO, Tok.isOpen]
  all_goals refine actLocal_mk _ _ _ ?_ ?_ hcl hcomma
  all_goals simp [outside_cons, ht, h1, h2]

theorem whereSep_local : ∀ (ts : List Tok) (w : Bool) (d : Nat),
    outside clsComma (whereSep w d ts) = outside clsComma ts := by
  intro ts
  induction ts with
  | nil => intros; simp [whereSep]
  | cons t ts ih =>
    intro w d
    unfold whereSep
    repeat' split
    all_goals simp only [outside_cons, ih]
    all_goals simp_all [clsComma]

theorem closureSep_local : ∀ (ts : List Tok) (m d : Nat) (p1 : Tok),
    outside clsComma (closureSep m d p1 ts) = outside clsComma ts := by
  intro ts
  induction ts with
  | nil => intro m d p1; unfold closureSep; rfl
  | cons t ts ih =>
    intro m d p1
    unfold closureSep
    repeat' split
    all_goals simp only [outside_cons]
    all_goals simp_all [clsComma]


theorem outside_outside (S S' : Tok → Bool) (h : ∀ t, S t = true → S' t = true) (ts : List Tok) :
    outside S' (outside S ts) = outside S' ts := by
  unfold outside
  rw [List.filter_filter]
  congr 1
  funext t
  cases hs : S t <;> cases hs' : S' t <;> simp_all

theorem outside_mono {S S' : Tok → Bool} (h : ∀ t, S t = true → S' t = true) {a b : List Tok}
    (hab : outside S a = outside S b) : outside S' a = outside S' b := by
  rw [← outside_outside S S' h a, ← outside_outside S S' h b, hab]

theorem hards_eq_outside (cfg : Cfg) (ts : List Tok) : hards cfg ts = outside (soft cfg) ts := rfl

theorem clsDelim_soft (cfg) (t) (h : clsDelim t = true) : soft cfg t = true := by
  simp only [clsDelim, Bool.or_eq_true] at h
  unfold soft; rcases h with h | h <;> simp [h]
theorem clsAbi_soft (cfg) (t) (h : clsAbi t = true) : soft cfg t = true := by
  simp only [clsAbi] at h; unfold soft; simp [h]
theorem clsVis_soft (cfg) (t) (h : clsVis t = true) : soft cfg t = true := by
  simp only [clsVis, Bool.or_eq_true] at h
  unfold soft; rcases h with h | h <;> simp [h]
theorem clsEmpty_soft (cfg) (t) (h : clsEmpty t = true) : soft cfg t = true := by
  simp only [clsEmpty, Bool.or_eq_true] at h
  unfold soft; rcases h with (((h | h) | h) | h) | h <;> simp [h]
theorem clsPipe_soft (cfg) (t) (h : clsPipe t = true) : soft cfg t = true := by
  simp only [clsPipe] at h; unfold soft; simp [h]
theorem clsSemi_soft (cfg) (t) (h : clsSemi t = true) : soft cfg t = true := by
  simp only [clsSemi] at h; unfold soft; simp [h]
theorem clsComma_soft (cfg) (t) (h : clsComma t = true) : soft cfg t = true := by
  simp only [clsComma] at h; unfold soft; simp [h]
theorem clsBlock_soft (cfg) (t) (h : clsBlock t = true) : soft cfg t = true := by
  simp only [clsBlock, Bool.or_eq_true] at h
  rcases h with h | h
  · exact clsDelim_soft cfg t h
  · unfold soft; simp [h]
theorem clsTry_soft (cfg : Cfg) (hc : cfg.useTry = true) (t) (h : clsTry t = true) : soft cfg t = true := by
  simp only [clsTry, Bool.or_eq_true] at h
  rcases h with ((h | h) | h) | h
  · unfold soft; simp [h, hc]
  · unfold soft; simp [h, hc]
  · unfold soft; simp [h, hc]
  · exact clsDelim_soft cfg t h

/-- the soft rules of `post` (everything but the two opt-in hard rewrites) -/
def postSoft (cfg : Cfg) (ts : List Tok) : List Tok :=
  let ts := runRule ruleVec ts
  let ts := runRule ruleAbi ts
  let ts := runRule ruleVis ts
  let ts := whereSep false 0 ts
  let ts := runRule ruleEmpty ts
  let ts := runRule rulePipe ts
  let ts := closureSep 0 0 noTok ts
  let ts := runRule ruleSemi ts
  let ts := runRule ruleBlock ts
  let ts := runRule ruleComma ts
  let ts := onlyIf cfg.parens (runRule ruleParen) ts
  let ts := runRule ruleLitParen ts
  runRule ruleClosureParen ts

theorem post_eq (cfg : Cfg) (ts : List Tok) :
    post cfg ts = postSoft cfg (onlyIf cfg.wild wildCondense
      (onlyIf cfg.useTry (runRule ruleTry) (onlyIf cfg.fis (runRule ruleFis) ts))) := rfl

theorem runRule_hards (cfg : Cfg) {S : Tok → Bool} {f : Rule} (hf : RuleLocal S f)
    (hS : ∀ t, S t = true → soft cfg t = true) (ts : List Tok) :
    hards cfg (runRule f ts) = hards cfg ts :=
  outside_mono hS (runRule_outside S f hf ts)

theorem postSoft_hards (cfg : Cfg) (ts : List Tok) : hards cfg (postSoft cfg ts) = hards cfg ts := by
  unfold postSoft
  simp only []
  rw [runRule_hards cfg ruleClosureParen_local (clsDelim_soft cfg),
      runRule_hards cfg ruleLitParen_local (clsDelim_soft cfg)]
  have hp : ∀ x, hards cfg (onlyIf cfg.parens (runRule ruleParen) x) = hards cfg x := by
    intro x; unfold onlyIf; split
    · exact runRule_hards cfg ruleParen_local (clsDelim_soft cfg) x
    · rfl
  rw [hp, runRule_hards cfg ruleComma_local (clsComma_soft cfg),
      runRule_hards cfg ruleBlock_local (clsBlock_soft cfg),
      runRule_hards cfg ruleSemi_local (clsSemi_soft cfg),
      hards_eq_outside, outside_mono (clsComma_soft cfg) (closureSep_local _ 0 0 noTok), ← hards_eq_outside,
      runRule_hards cfg rulePipe_local (clsPipe_soft cfg),
      runRule_hards cfg ruleEmpty_local (clsEmpty_soft cfg),
      hards_eq_outside, outside_mono (clsComma_soft cfg) (whereSep_local _ false 0), ← hards_eq_outside,
      runRule_hards cfg ruleVis_local (clsVis_soft cfg),
      runRule_hards cfg ruleAbi_local (clsAbi_soft cfg),
      runRule_hards cfg ruleVec_local (clsDelim_soft cfg)]

theorem tryRule_hards (cfg : Cfg) (ts : List Tok) :
    hards cfg (onlyIf cfg.useTry (runRule ruleTry) ts) = hards cfg ts := by
  unfold onlyIf; split
  · rename_i h; exact runRule_hards cfg ruleTry_local (clsTry_soft cfg h) ts
  · rfl

/-- the two opt-in rewrites of hard tokens -/
def hardRw (cfg : Cfg) (ts : List Tok) : List Tok :=
  onlyIf cfg.wild wildCondense (onlyIf cfg.fis (runRule ruleFis) ts)


/-! ## Reorder regions as segments -/

inductive Seg where
  | plain (t : Tok)
  | region (k : Kind) (leaves : List (List Tok))
deriving DecidableEq, Repr

/-- `regionAt` with the canonical leaves instead of their encoding -/
def regionLeavesAt (cfg : Cfg) (ts : List Tok) : Option (Nat × Kind × List (List Tok)) :=
  match itemLen cfg ts with
  | none => none
  | some (k, n) =>
    if cfg.imports || k == 3 then
      let lens := runItemsAux cfg k 0 ts
      let total := sumNat lens
      some (total, k, canonLeaves k (runLeaves k (cutItems lens (ts.take total))))
    else
      some (n, k, canonLeaves k (itemLeaves k (ts.take n)))

theorem regionAt_eq (cfg : Cfg) (ts : List Tok) :
    regionAt cfg ts = (regionLeavesAt cfg ts).map fun x => (x.1, encRegion x.2.1 x.2.2) := by
  unfold regionAt regionLeavesAt
  cases itemLen cfg ts with
  | none => rfl
  | some x =>
    obtain ⟨k, n⟩ := x
    simp only []
    split <;> rfl

def segsAux (cfg : Cfg) : Nat → List Tok → List Seg
  | _, [] => []
  | n + 1, _ :: ts => segsAux cfg n ts
  | 0, t :: ts =>
    match regionLeavesAt cfg (t :: ts) with
    | some (n, k, l) => .region k l :: segsAux cfg (n - 1) ts
    | none => .plain t :: segsAux cfg 0 ts

def segs (cfg : Cfg) (ts : List Tok) : List Seg := segsAux cfg 0 ts

def render : List Seg → List Tok
  | [] => []
  | .plain t :: r => t :: render r
  | .region k l :: r => encRegion k l ++ render r

theorem regionsAux_eq_render (cfg : Cfg) : ∀ (ts : List Tok) (n : Nat),
    regionsAux cfg n ts = render (segsAux cfg n ts) := by
  intro ts
  induction ts with
  | nil => intro n; simp [regionsAux, segsAux, render]
  | cons t ts ih =>
    intro n
    cases n with
    | succ n => simp [regionsAux, segsAux, ih]
    | zero =>
      unfold regionsAux segsAux
      rw [regionAt_eq]
      cases h : regionLeavesAt cfg (t :: ts) with
      | none => simp [render, ih]
      | some x => obtain ⟨n, k, l⟩ := x; simp [render, ih]

theorem regions_eq_render (cfg : Cfg) (ts : List Tok) : regions cfg ts = render (segs cfg ts) :=
  regionsAux_eq_render cfg ts 0

/-- a token of one of the synthetic classes `Ro` `Rs` `Rc` `Rt…` -/
def isR (t : Tok) : Bool := match t.cls with | 'R' :: _ => true | _ => false

theorem isR_hard (cfg : Cfg) (t : Tok) (h : isR t = true) : hard cfg t = true := by
  obtain ⟨cls, text⟩ := t
  unfold isR at h
  split at h
  · rename_i r hr
    simp only at hr
    subst hr
    simp [hard, soft, Tok.isOpen, Tok.isClose, Tok.isP, Tok.isI, isAbiC]
  · cases h

theorem isR_wrapTok (t : Tok) : isR (wrapTok t) = true := rfl
theorem isR_regOpen (k) : isR (regOpen k) = true := rfl
theorem isR_regSep : isR regSep = true := rfl
theorem isR_regClose : isR regClose = true := rfl

theorem encLeaves_allR : ∀ (ls : List (List Tok)) (t : Tok), t ∈ encLeaves ls → isR t = true := by
  intro ls
  induction ls with
  | nil => intro t h; simp [encLeaves] at h
  | cons l ls ih =>
    intro t h
    simp only [encLeaves, encLeaf, List.mem_append, List.mem_map, List.mem_singleton] at h
    rcases h with (⟨x, _, rfl⟩ | rfl) | h
    · rfl
    · rfl
    · exact ih t h

theorem encRegion_allR (k : Kind) (ls : List (List Tok)) (t : Tok) (h : t ∈ encRegion k ls) : isR t = true := by
  unfold encRegion at h
  split at h
  · simp at h
  · simp only [List.mem_cons, List.mem_append, List.mem_singleton, List.not_mem_nil, or_false] at h
    rcases h with rfl | h | rfl
    · rfl
    · exact encLeaves_allR ls t h
    · rfl

theorem hards_of_allR (cfg : Cfg) (ts : List Tok) (h : ∀ t ∈ ts, isR t = true) : hards cfg ts = ts := by
  unfold hards
  rw [List.filter_eq_self]
  intro t ht
  exact isR_hard cfg t (h t ht)

def Seg.keep (cfg : Cfg) : Seg → Bool
  | .plain t => hard cfg t
  | .region _ l => !l.isEmpty

theorem hards_append (cfg : Cfg) (a b : List Tok) : hards cfg (a ++ b) = hards cfg a ++ hards cfg b := by
  simp [hards]

theorem hards_render (cfg : Cfg) : ∀ sg : List Seg, hards cfg (render sg) = render (sg.filter (Seg.keep cfg)) := by
  intro sg
  induction sg with
  | nil => rfl
  | cons s sg ih =>
    cases s with
    | plain t =>
      simp only [render, List.filter_cons, Seg.keep]
      by_cases h : hard cfg t = true
      · simp [hards, h, render]; exact ih
      · simp [hards, h]; exact ih
    | region k l =>
      simp only [render, List.filter_cons, Seg.keep, hards_append]
      rw [hards_of_allR cfg _ (encRegion_allR k l), ih]
      cases l with
      | nil => simp [encRegion]
      | cons x xs => simp [render]


theorem wrapTok_inj {a b : Tok} (h : wrapTok a = wrapTok b) : a = b := by
  obtain ⟨c1, t1⟩ := a; obtain ⟨c2, t2⟩ := b
  simp [wrapTok] at h
  simp [h]

theorem wrapTok_ne_sep (a : Tok) : wrapTok a ≠ regSep := by
  intro h; simp [wrapTok, regSep] at h
theorem wrapTok_ne_close (a : Tok) : wrapTok a ≠ regClose := by
  intro h; simp [wrapTok, regClose] at h
theorem regSep_ne_close : regSep ≠ regClose := by decide

theorem encLeaf_inj : ∀ (x y : List Tok) (u v : List Tok),
    x.map wrapTok ++ regSep :: u = y.map wrapTok ++ regSep :: v → x = y ∧ u = v := by
  intro x
  induction x with
  | nil =>
    intro y u v h
    cases y with
    | nil => simp at h; exact ⟨rfl, h⟩
    | cons b y => simp at h; exact absurd h.1.symm (wrapTok_ne_sep b)
  | cons a x ih =>
    intro y u v h
    cases y with
    | nil => simp at h; exact absurd h.1 (wrapTok_ne_sep a)
    | cons b y =>
      simp only [List.map_cons, List.cons_append, List.cons.injEq] at h
      obtain ⟨h1, h2⟩ := ih y u v h.2
      exact ⟨by rw [wrapTok_inj h.1, h1], h2⟩

theorem encLeaves_cons_head (l : List Tok) (ls : List (List Tok)) (r : List Tok) :
    encLeaves (l :: ls) ++ r = l.map wrapTok ++ regSep :: (encLeaves ls ++ r) := by
  simp [encLeaves, encLeaf]

theorem encLeaves_inj : ∀ (l1 l2 : List (List Tok)) (r1 r2 : List Tok),
    encLeaves l1 ++ regClose :: r1 = encLeaves l2 ++ regClose :: r2 → l1 = l2 ∧ r1 = r2 := by
  intro l1
  induction l1 with
  | nil =>
    intro l2 r1 r2 h
    cases l2 with
    | nil => simp [encLeaves] at h; exact ⟨rfl, h⟩
    | cons y ys =>
      rw [encLeaves_cons_head] at h
      simp only [encLeaves, List.nil_append] at h
      cases y with
      | nil => simp at h; exact absurd h.1.symm regSep_ne_close
      | cons b y => simp at h; exact absurd h.1.symm (wrapTok_ne_close b)
  | cons x xs ih =>
    intro l2 r1 r2 h
    cases l2 with
    | nil =>
      rw [encLeaves_cons_head] at h
      simp only [encLeaves, List.nil_append] at h
      cases x with
      | nil => simp at h; exact absurd h.1 regSep_ne_close
      | cons b y => simp at h; exact absurd h.1 (wrapTok_ne_close b)
    | cons y ys =>
      rw [encLeaves_cons_head, encLeaves_cons_head] at h
      obtain ⟨h1, h2⟩ := encLeaf_inj x y _ _ h
      obtain ⟨h3, h4⟩ := ih ys r1 r2 h2
      exact ⟨by rw [h1, h3], h4⟩

def Seg.wf : Seg → Prop
  | .plain t => isR t = false
  | .region _ l => l ≠ []

theorem regOpen_inj {k k' : Kind} (h : regOpen k = regOpen k') : k = k' := by
  simp [regOpen] at h
  exact h

theorem encRegion_cons (k : Kind) (x : List Tok) (xs : List (List Tok)) (r : List Tok) :
    encRegion k (x :: xs) ++ r = regOpen k :: (encLeaves (x :: xs) ++ regClose :: r) := by
  simp [encRegion]

theorem render_inj : ∀ (s1 s2 : List Seg), (∀ s ∈ s1, s.wf) → (∀ s ∈ s2, s.wf) →
    render s1 = render s2 → s1 = s2 := by
  intro s1
  induction s1 with
  | nil =>
    intro s2 _ h2 h
    cases s2 with
    | nil => rfl
    | cons b s2 =>
      cases b with
      | plain t => simp [render] at h
      | region k l =>
        have := h2 _ (List.mem_cons_self)
        cases l with
        | nil => exact absurd rfl this
        | cons x xs => simp only [render] at h; rw [encRegion_cons] at h; cases h
  | cons a s1 ih =>
    intro s2 h1 h2 h
    have ha := h1 a (List.mem_cons_self)
    have h1' : ∀ s ∈ s1, s.wf := fun s hs => h1 s (List.mem_cons_of_mem _ hs)
    cases s2 with
    | nil =>
      cases a with
      | plain t => simp [render] at h
      | region k l =>
        cases l with
        | nil => exact absurd rfl ha
        | cons x xs => simp only [render] at h; rw [encRegion_cons] at h; cases h
    | cons b s2 =>
      have hb := h2 b (List.mem_cons_self)
      have h2' : ∀ s ∈ s2, s.wf := fun s hs => h2 s (List.mem_cons_of_mem _ hs)
      cases a with
      | plain t =>
        cases b with
        | plain u =>
          simp only [render, List.cons.injEq] at h
          rw [h.1, ih s2 h1' h2' h.2]
        | region k l =>
          cases l with
          | nil => exact absurd rfl hb
          | cons x xs =>
            simp only [render] at h; rw [encRegion_cons] at h
            simp only [List.cons.injEq] at h
            have : isR t = true := by rw [h.1]; rfl
            simp [Seg.wf] at ha; rw [ha] at this; cases this
      | region k l =>
        cases l with
        | nil => exact absurd rfl ha
        | cons x xs =>
          cases b with
          | plain u =>
            simp only [render] at h; rw [encRegion_cons] at h
            simp only [List.cons.injEq] at h
            have : isR u = true := by rw [← h.1]; rfl
            simp [Seg.wf] at hb; rw [hb] at this; cases this
          | region k' l' =>
            cases l' with
            | nil => exact absurd rfl hb
            | cons y ys =>
              simp only [render] at h; rw [encRegion_cons, encRegion_cons] at h
              simp only [List.cons.injEq] at h
              have hk := regOpen_inj h.1
              obtain ⟨hl, hr⟩ := encLeaves_inj _ _ _ _ h.2
              rw [hk, hl, ih s2 h1' h2' hr]


/-- no token of a synthetic class (true of everything the lexer sends) -/
def NoR (ts : List Tok) : Prop := ∀ t ∈ ts, isR t = false

theorem NoR_cons {t : Tok} {ts : List Tok} : NoR (t :: ts) ↔ isR t = false ∧ NoR ts := by
  simp [NoR]

theorem NoR_append {a b : List Tok} : NoR (a ++ b) ↔ NoR a ∧ NoR b := by
  simp only [NoR, List.mem_append]
  constructor
  · intro h; exact ⟨fun t ht => h t (Or.inl ht), fun t ht => h t (Or.inr ht)⟩
  · rintro ⟨h1, h2⟩ t (ht | ht); exact h1 t ht; exact h2 t ht

theorem resplitAux_noR : ∀ (ts : List Tok) (dots : Nat), NoR ts → NoR (resplitAux dots ts) := by
  intro ts
  induction ts with
  | nil => intro _ h; simpa [resplitAux] using h
  | cons t ts ih =>
    intro dots h
    rw [NoR_cons] at h
    unfold resplitAux
    split
    · exact NoR_cons.2 ⟨h.1, ih _ h.2⟩
    · split
      · split
        · refine NoR_cons.2 ⟨rfl, NoR_cons.2 ⟨rfl, NoR_cons.2 ⟨rfl, ih _ h.2⟩⟩⟩
        · exact NoR_cons.2 ⟨h.1, ih _ h.2⟩
      · exact NoR_cons.2 ⟨h.1, ih _ h.2⟩

theorem docAttrToks_noR {inner : Bool} {o d e s c : Tok} {x : List Tok}
    (h : docAttrToks inner o d e s c = some x) : NoR x := by
  unfold docAttrToks at h
  split at h
  · simp only [Option.map_eq_some_iff] at h
    obtain ⟨v, _, rfl⟩ := h
    intro t ht
    simp only [List.mem_map] at ht
    obtain ⟨l, _, rfl⟩ := ht
    rfl
  · cases h

theorem docAttrAt_noR {ts : List Tok} {x : List Tok} {n : Nat} (h : docAttrAt ts = some (x, n)) : NoR x := by
  unfold docAttrAt at h
  split at h
  · split at h
    · split at h
      · rename_i y hy; cases h; exact docAttrToks_noR hy
      · split at h
        · split at h
          · simp only [Option.map_eq_some_iff] at h
            obtain ⟨y, hy, hh⟩ := h
            cases hh
            exact docAttrToks_noR hy
          · cases h
        · cases h
    · cases h
  · cases h

theorem docAttrAux_noR : ∀ (ts : List Tok) (n : Nat), NoR ts → NoR (docAttrAux n ts) := by
  intro ts
  induction ts with
  | nil => intro _ h; simpa [docAttrAux] using h
  | cons t ts ih =>
    intro n h
    rw [NoR_cons] at h
    cases n with
    | succ n => simp only [docAttrAux]; exact ih n h.2
    | zero =>
      simp only [docAttrAux]
      split
      · rename_i x n hx
        exact NoR_append.2 ⟨docAttrAt_noR hx, ih n h.2⟩
      · exact NoR_cons.2 ⟨h.1, ih 0 h.2⟩

theorem canonTok_cls (cfg : Cfg) (t : Tok) :
    (canonTok cfg t).cls = t.cls ∨ (t.cls = ['L','i'] ∧ (canonTok cfg t).cls = ['L','f']) := by
  unfold canonTok
  repeat' split
  all_goals simp_all

theorem canonTok_noR (cfg : Cfg) (t : Tok) (h : isR t = false) : isR (canonTok cfg t) = false := by
  rcases canonTok_cls cfg t with h1 | ⟨_, h2⟩
  · unfold isR at *; rw [h1]; exact h
  · simp [isR, h2]

theorem docMergeAux_noR (code : Bool) : ∀ (ts : List Tok) (cur : Option (Bool × List (List Char))),
    NoR ts → NoR (docMergeAux code cur ts) := by
  intro ts
  induction ts with
  | nil =>
    intro cur _
    cases cur with
    | none => simp [docMergeAux, NoR]
    | some x => obtain ⟨i, acc⟩ := x; simp [docMergeAux, NoR, docFlush, isR]
  | cons t ts ih =>
    intro cur h
    rw [NoR_cons] at h
    cases cur with
    | none =>
      simp only [docMergeAux]
      split
      · exact ih _ h.2
      · exact NoR_cons.2 ⟨h.1, ih _ h.2⟩
    | some x =>
      obtain ⟨j, acc⟩ := x
      simp only [docMergeAux]
      split
      · split
        · exact ih _ h.2
        · exact NoR_cons.2 ⟨rfl, ih _ h.2⟩
      · exact NoR_cons.2 ⟨rfl, NoR_cons.2 ⟨h.1, ih _ h.2⟩⟩

theorem mid_noR (cfg : Cfg) (ts : List Tok) (h : NoR ts) : NoR (mid cfg ts) := by
  unfold mid
  simp only []
  have h1 : NoR (resplit ts) := resplitAux_noR ts 0 h
  have h2 : NoR (onlyIf cfg.docattr docAttr (resplit ts)) := by
    unfold onlyIf; split
    · exact docAttrAux_noR _ 0 h1
    · exact h1
  have h3 : NoR ((onlyIf cfg.docattr docAttr (resplit ts)).map (canonTok cfg)) := by
    intro t ht
    simp only [List.mem_map] at ht
    obtain ⟨u, hu, rfl⟩ := ht
    exact canonTok_noR cfg u (h2 u hu)
  unfold onlyIf; split
  · exact docMergeAux_noR _ _ none h3
  · exact h3

theorem segsAux_plain_mem (cfg : Cfg) : ∀ (ts : List Tok) (n : Nat) (t : Tok),
    Seg.plain t ∈ segsAux cfg n ts → t ∈ ts := by
  intro ts
  induction ts with
  | nil => intro n t h; simp [segsAux] at h
  | cons u ts ih =>
    intro n t h
    cases n with
    | succ n => simp only [segsAux] at h; exact List.mem_cons_of_mem _ (ih n t h)
    | zero =>
      simp only [segsAux] at h
      split at h
      · simp only [List.mem_cons, reduceCtorEq, false_or] at h
        exact List.mem_cons_of_mem _ (ih _ t h)
      · simp only [List.mem_cons, Seg.plain.injEq] at h
        rcases h with rfl | h
        · exact List.mem_cons_self
        · exact List.mem_cons_of_mem _ (ih _ t h)

/-- the certificate: the hard tokens outside reorder regions, in order, interleaved with the
(non-empty) reorder regions as canonical leaf lists -/
def hardSeq (cfg : Cfg) (ts : List Tok) : List Seg := (segs cfg (mid cfg ts)).filter (Seg.keep cfg)

theorem hardSeq_wf (cfg : Cfg) (ts : List Tok) (h : NoR ts) : ∀ s ∈ hardSeq cfg ts, s.wf := by
  intro s hs
  unfold hardSeq at hs
  simp only [List.mem_filter] at hs
  cases s with
  | plain t => exact mid_noR cfg ts h t (segsAux_plain_mem cfg _ 0 t hs.1)
  | region k l =>
    have := hs.2
    simp only [Seg.keep, Bool.not_eq_true', List.isEmpty_eq_false_iff] at this
    exact this

end RF.Tok
