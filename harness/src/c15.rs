//! C15: output is a function of source and configuration only.
//!
//! Sets of 1..5 source files (unformatted, formatted, failing to parse, with a sub-module, with a
//! local rustfmt.toml, a missing path, a version-mismatched configuration) are run through the real
//! `rustfmt` binary alone and together in EVERY order, in every emit mode, and through one API session.
//!   * oracles (from the property): per-file bytes / stdout block / stderr block / json entry /
//!     checkstyle element of the joint run are those of the single-file runs; exit status = max of the
//!     single-file statuses; json/checkstyle list the same files whatever the order; standard input vs
//!     path; working directory; HOME / XDG_CONFIG_HOME (compared only under the same effective
//!     configuration); ten repeated processes;
//!   * correspondence: `sess.fold` (the `for file in files` loop of main.rs over per-file results) vs the
//!     real exit status and the flags of the replayed session; `sess.exit`, `sess.exitstdin`,
//!     `sess.add`, `sess.noerrors` vs the binary / the API.
//! Enumerated probes: F3 (`--config max_width=120,fn_call_width=110` is applied in hash-map order),
//! D1 (a path whose local configuration does not load cuts the command line short, so the set of
//! files formatted depends on the order), D2 (informational: `emit_mode` in a local rustfmt.toml).
use std::collections::BTreeMap;
use std::path::{Path, PathBuf};
use std::time::Duration;

use serde_json::{json, Value};

use crate::c05::{rustfmt_cmd, snapshot, Snap};
use crate::pool;
use crate::sessrun;
use crate::util::*;

#[derive(Clone, Debug)]
struct Item {
    kind: &'static str,
    dir: String,
    file: String,
    text: String,
    toml: Option<String>,
    extra: Vec<(String, String)>,
    missing: bool,
}

impl Item {
    fn rel(&self) -> String {
        format!("{}/{}", self.dir, self.file)
    }
}

const KINDS: &[&str] = &["unformatted", "unformatted", "formatted", "unclosed", "syntax", "lex", "tree", "overflow", "version", "missing", "unformatted-cfg", "unformatted-cfg"];

fn body(rng: &mut Rng, tag: &str) -> String {
    let mut s = String::new();
    s.push_str(&format!("fn  {}_a ( x :u32 )->u32{{ x+1 }}\n", tag));
    if rng.chance(1, 2) {
        s.push_str(&format!("pub struct  {}S{{pub x:u32,y:Vec<u8>}}\n", tag.to_uppercase()));
    }
    if rng.chance(2, 3) {
        s.push_str(&format!("fn  {}_g(){{ let v=some_function_name(argument_number_one,argument_number_two,argument_number_three,argument_number_four,5); }}\n", tag));
    }
    if rng.chance(1, 3) {
        s.push_str("use  std::{fmt,collections::HashMap,  io};\n");
    }
    s
}

fn formatted_body(tag: &str) -> String {
    format!("fn {}_a(x: u32) -> u32 {{\n    x + 1\n}}\n", tag)
}

fn gen_item(rng: &mut Rng, i: usize, kind: &'static str) -> Item {
    let tag = format!("i{}", i);
    let mut it = Item { kind, dir: format!("d{}", i), file: format!("f{}.rs", i), text: String::new(), toml: None, extra: vec![], missing: false };
    let local = ["tab_spaces = 2\n", "max_width = 60\n", "hard_tabs = true\n", "tab_spaces = 8\nmax_width = 70\n"];
    match kind {
        "unformatted" => it.text = body(rng, &tag),
        "unformatted-cfg" => {
            it.text = body(rng, &tag);
            it.toml = Some(rng.pick(&local).to_string());
        }
        "formatted" => it.text = formatted_body(&tag),
        "unclosed" => it.text = format!("{}fn  {}_u(){{ let x = 1;\n", body(rng, &tag), tag),
        "syntax" => it.text = format!("{}{}\n", body(rng, &tag), rng.pick(&["fn  fn  synbad(){}", "struct  S { a: }", "fn  synbad(){ let = ; }"])),
        "lex" => it.text = format!("{}{}\n", body(rng, &tag), rng.pick(&["fn  lexbad(){ let c = 'a; }", "fn  lexbad(){ let x = 0x; }", "fn  lexbad(){ let x = 1 \\ 2; }"])),
        "tree" => {
            it.text = format!("mod   {}_sub ;\n{}", tag, body(rng, &tag));
            it.extra.push((format!("{}_sub.rs", tag), body(rng, &format!("{}s", tag))));
            if rng.chance(1, 2) {
                it.toml = Some(rng.pick(&local).to_string());
            }
        }
        "overflow" => {
            it.text = format!("{}fn  {}_o(){{ let s = \"{}\"; }}\n", body(rng, &tag), tag, "x".repeat(120));
            it.toml = Some("error_on_line_overflow = true\n".into());
        }
        "version" => {
            it.text = body(rng, &tag);
            it.toml = Some("required_version = \"0.0.1\"\n".into());
        }
        "missing" => {
            it.missing = true;
        }
        _ => unreachable!(),
    }
    it
}

fn gen_set(rng: &mut Rng, n: usize, deck: &mut Vec<&'static str>) -> Vec<Item> {
    let mut items = vec![];
    for i in 0..n {
        // kinds are dealt from a shuffled deck so that every kind turns up about equally often
        if deck.is_empty() {
            let mut d: Vec<&'static str> = KINDS.to_vec();
            for k in (1..d.len()).rev() {
                d.swap(k, rng.below(k + 1));
            }
            *deck = d;
        }
        let kind = deck.pop().unwrap();
        items.push(gen_item(rng, i, kind));
    }
    // every set of two or more: at least one file that gets rewritten
    if n >= 2 && !items.iter().any(|it| it.kind.starts_with("unformatted") || it.kind == "tree") {
        items[0] = gen_item(rng, 0, "unformatted");
    }
    items
}

fn materialise(items: &[Item], base: &Path) {
    std::fs::create_dir_all(base).unwrap();
    for it in items {
        if it.missing {
            continue;
        }
        let d = base.join(&it.dir);
        std::fs::create_dir_all(&d).unwrap();
        std::fs::write(d.join(&it.file), &it.text).unwrap();
        for (n, t) in &it.extra {
            std::fs::write(d.join(n), t).unwrap();
        }
        if let Some(t) = &it.toml {
            std::fs::write(d.join("rustfmt.toml"), t).unwrap();
        }
    }
}

const MODES: [(&str, &[&str]); 5] = [("files", &[]), ("stdout", &["--emit", "stdout"]), ("check", &["--check"]), ("json", &["--emit", "json"]), ("checkstyle", &["--emit", "checkstyle"])];

#[derive(Clone, Debug, PartialEq)]
struct RunOut {
    exit: Option<i32>,
    stdout: String,
    stderr: String,
    /// files mode: the item directories afterwards
    after: Snap,
    timed_out: bool,
}

fn norm(bytes: &[u8], base: &Path) -> String {
    let s = String::from_utf8_lossy(bytes).into_owned();
    let b = base.display().to_string();
    s.replace(&b, "$B")
}

struct Ctx {
    work: PathBuf,
    home: PathBuf,
    counter: std::sync::atomic::AtomicUsize,
}

impl Ctx {
    fn fresh(&self, tag: &str) -> PathBuf {
        let n = self.counter.fetch_add(1, std::sync::atomic::Ordering::SeqCst);
        self.work.join(format!("{}{}", tag, n))
    }
}

/// One invocation of the binary on the items in the given order.  Files mode works on a fresh copy.
fn invoke(ctx: &Ctx, items: &[Item], order: &[usize], mode: usize, shared: &Path, home: &Path, relative_from: Option<&Path>, extra_args: &[&str]) -> RunOut {
    let writes = MODES[mode].0 == "files";
    let base = if writes {
        let b = ctx.fresh("r");
        materialise(items, &b);
        b
    } else {
        shared.to_path_buf()
    };
    let cwd = relative_from.map(|p| p.to_path_buf()).unwrap_or_else(|| base.clone());
    let mut cmd = rustfmt_cmd(&cwd, home);
    cmd.args(MODES[mode].1).args(extra_args);
    for i in order {
        if relative_from.is_some() {
            cmd.arg(base.join(items[*i].rel()));
        } else {
            cmd.arg(items[*i].rel());
        }
    }
    let r = run_cmd(&mut cmd, b"", Duration::from_secs(60));
    let after = if writes { snapshot(&base) } else { Snap::new() };
    if writes {
        let _ = std::fs::remove_dir_all(&base);
    }
    RunOut { exit: r.code, stdout: norm(&r.stdout, &base), stderr: norm(r.stderr.as_bytes(), &base), after, timed_out: r.timed_out }
}

fn permutations(n: usize) -> Vec<Vec<usize>> {
    fn go(cur: &mut Vec<usize>, used: &mut Vec<bool>, n: usize, out: &mut Vec<Vec<usize>>) {
        if cur.len() == n {
            out.push(cur.clone());
            return;
        }
        for i in 0..n {
            if !used[i] {
                used[i] = true;
                cur.push(i);
                go(cur, used, n, out);
                cur.pop();
                used[i] = false;
            }
        }
    }
    let mut out = vec![];
    go(&mut vec![], &mut vec![false; n], n, &mut out);
    out
}

const CS_HEADER: &str = "<?xml version=\"1.0\" encoding=\"utf-8\"?>\n<checkstyle version=\"4.3\">";
const CS_FOOTER: &str = "</checkstyle>\n";

fn cs_body(s: &str) -> Option<&str> {
    s.strip_prefix(CS_HEADER)?.strip_suffix(CS_FOOTER)
}

fn json_entries(s: &str) -> Option<Vec<Value>> {
    serde_json::from_str::<Value>(s.trim_end()).ok()?.as_array().cloned()
}

fn cs_files(body: &str) -> Vec<String> {
    // <file name="…">…</file> elements
    let mut v = vec![];
    let mut rest = body;
    while let Some(p) = rest.find("<file ") {
        let r = &rest[p..];
        match r.find("</file>") {
            Some(e) => {
                v.push(r[..e + 7].to_string());
                rest = &r[e + 7..];
            }
            None => break,
        }
    }
    v
}

/// Compares a joint run with the single-file runs.  (sig, detail)
fn compare(mode: usize, order: &[usize], singles: &[RunOut], joint: &RunOut, items: &[Item]) -> Vec<(String, String)> {
    let mut f = vec![];
    let m = MODES[mode].0;
    let want_exit = order.iter().map(|i| singles[*i].exit.unwrap_or(-1)).max().unwrap_or(0);
    if joint.exit != Some(want_exit) {
        f.push(("c15:exit-status-is-not-the-max-of-the-single-runs".to_string(), format!("joint {:?}, singles {:?}", joint.exit, order.iter().map(|i| singles[*i].exit).collect::<Vec<_>>())));
    }
    let want_err: String = order.iter().map(|i| singles[*i].stderr.as_str()).collect();
    if joint.stderr != want_err {
        f.push(("c15:stderr-is-not-the-concatenation-of-the-single-runs".to_string(), format!("joint {:?} vs {:?}", joint.stderr.chars().take(300).collect::<String>(), want_err.chars().take(300).collect::<String>())));
    }
    match m {
        "files" | "stdout" | "check" => {
            let want: String = order.iter().map(|i| singles[*i].stdout.as_str()).collect();
            if joint.stdout != want {
                f.push((format!("c15:{}-output-differs-from-the-single-runs", m), format!("joint {:?} vs {:?}", joint.stdout.chars().take(300).collect::<String>(), want.chars().take(300).collect::<String>())));
            }
        }
        "json" => {
            let mut want: Vec<Value> = vec![];
            let mut bad = false;
            for i in order {
                match json_entries(&singles[*i].stdout) {
                    Some(v) => want.extend(v),
                    None => bad = true,
                }
            }
            match json_entries(&joint.stdout) {
                Some(got) if !bad => {
                    if got != want {
                        let key = |v: &Vec<Value>| {
                            let mut k: Vec<String> = v.iter().map(|x| x.to_string()).collect();
                            k.sort();
                            k
                        };
                        if key(&got) != key(&want) {
                            f.push(("c15:json-entries-differ-from-the-single-runs".to_string(), format!("{} entries vs {}", got.len(), want.len())));
                        } else {
                            f.push(("c15:json-entries-not-in-command-line-order".to_string(), String::new()));
                        }
                    }
                }
                _ => f.push(("c15:json-document-does-not-parse".to_string(), joint.stdout.chars().take(200).collect())),
            }
        }
        _ => {
            let mut want: Vec<String> = vec![];
            let mut bad = false;
            for i in order {
                match cs_body(&singles[*i].stdout) {
                    Some(b) => want.extend(cs_files(b)),
                    None => bad = true,
                }
            }
            match cs_body(&joint.stdout) {
                Some(b) if !bad => {
                    let got = cs_files(b);
                    if got.concat() != b {
                        f.push(("c15:checkstyle-document-has-text-outside-file-elements".to_string(), String::new()));
                    }
                    if got != want {
                        let mut a = got.clone();
                        let mut w = want.clone();
                        a.sort();
                        w.sort();
                        if a != w {
                            f.push(("c15:checkstyle-entries-differ-from-the-single-runs".to_string(), format!("{} elements vs {}", got.len(), want.len())));
                        } else {
                            f.push(("c15:checkstyle-entries-not-in-command-line-order".to_string(), String::new()));
                        }
                    }
                }
                _ => f.push(("c15:checkstyle-document-malformed".to_string(), joint.stdout.chars().take(200).collect())),
            }
        }
    }
    if m == "files" {
        for i in order {
            let it = &items[*i];
            if it.missing {
                continue;
            }
            let pre = format!("{}/", it.dir);
            // the files of the item's directory, without those of another item's directory nested in it
            let deeper: Vec<String> = items.iter().filter(|x| x.dir.len() > it.dir.len() && x.dir.starts_with(&pre)).map(|x| format!("{}/", x.dir)).collect();
            let own = |k: &String| k.starts_with(&pre) && !deeper.iter().any(|d| k.starts_with(d));
            let a: Vec<_> = joint.after.iter().filter(|(k, _)| own(k)).collect();
            let b: Vec<_> = singles[*i].after.iter().filter(|(k, _)| own(k)).collect();
            if a != b {
                f.push(("c15:file-bytes-differ-from-the-single-run".to_string(), it.rel()));
            }
        }
    }
    f
}

fn api_spec(items: &[Item], order: &[usize], base: &Path, cli: bool, emit: &str, check: bool, text_inputs: bool) -> Value {
    // emit "stdout+mixed": the inputs without a local rustfmt.toml are formatted under the session's
    // own configuration (no override_config), the others through override_config
    let mixed = emit == "stdout+mixed";
    let emit = if mixed { "stdout" } else { emit };
    let inputs: Vec<Value> = order
        .iter()
        .map(|i| if text_inputs { json!({"text": items[*i].text}) } else { json!({"path": base.join(items[*i].rel()).display().to_string(), "plain": mixed && items[*i].toml.is_none() && !items[*i].missing}) })
        .collect();
    json!({"cli_loop": cli, "emit": emit, "check": check, "backup": false, "cwd": base.display().to_string(), "inputs": inputs, "config": []})
}

fn norm_entry(e: &Value, base: &Path) -> Value {
    let mut e = e.clone();
    if let Some(h) = e["out"].as_str() {
        let b = dec_bytes(h).unwrap_or_default();
        e["out"] = json!(norm(&b, base));
    }
    if let Some(m) = e["msg"].as_str() {
        e["msg"] = json!(norm(m.as_bytes(), base));
    }
    // `sess` is the accumulated state: compared through sess.add, not entry by entry
    e.as_object_mut().map(|o| o.remove("sess"));
    e
}

fn item_word(e: &Value) -> String {
    match e["kind"].as_str().unwrap_or("") {
        "ok" => e["flags"].as_str().unwrap_or("?").to_string(),
        "err" => "e".into(),
        "missing" => "m".into(),
        "cfgerr" => "x".into(),
        _ => "?".into(),
    }
}

fn or_flags(a: &str, b: &str) -> String {
    a.chars().zip(b.chars()).map(|(x, y)| if x == '1' || y == '1' { '1' } else { '0' }).collect()
}

fn fail(o: &mut Outcome, sig: &str, what: String, extra: Value) {
    let mut v = extra;
    v["sig"] = json!(sig);
    v["what"] = json!(what);
    o.direct_failures.push(v);
}

fn set_json(items: &[Item]) -> Value {
    json!(items.iter().map(|it| json!({"kind": it.kind, "path": it.rel(), "text": it.text, "rustfmt.toml": it.toml, "extra": it.extra})).collect::<Vec<_>>())
}

/// Inputs of one invocation whose module trees OVERLAP: a root together with one of its own out-of-line modules, the
/// same path twice, two roots that share a module through `#[path]`.  The per-file output of every input must still be
/// the one of its single-file run (nothing remembered from the inputs before it): stdout / stderr / json / checkstyle
/// of the joint run are the concatenation of the single runs, whatever the order.
fn overlapping(o: &mut Outcome, rng: &mut Rng, ctx: &Ctx, home: &Path, thorough: bool) -> (u64, u64) {
    let mut direct = 0u64;
    let mut distinct = 0u64;
    for k in 0..(if thorough { 12 } else { 2 }) {
        let dir = format!("ov{}", k);
        let tag = format!("o{}", k);
        let util = body(rng, &format!("{}u", tag));
        let other = format!("{}fn  {}_extra( ){{ }}\n", body(rng, &format!("{}t", tag)), tag);
        let shared_mod = body(rng, &format!("{}s", tag));
        let lib = format!("mod   util ;\nmod other;\n{}", body(rng, &tag));
        let ra = format!("#[path = \"shared.rs\"]\nmod   s ;\n{}", body(rng, &format!("{}a", tag)));
        let rb = format!("#[path = \"shared.rs\"]\nmod   s ;\n{}", body(rng, &format!("{}b", tag)));
        let all: Vec<(String, String)> = vec![("lib.rs".into(), lib.clone()), ("util.rs".into(), util.clone()), ("other.rs".into(), other.clone()), ("shared.rs".into(), shared_mod.clone()), ("a.rs".into(), ra.clone()), ("b.rs".into(), rb.clone())];
        let mk = |file: &str| -> Item {
            let text = all.iter().find(|(n, _)| n == file).unwrap().1.clone();
            Item { kind: "overlap", dir: dir.clone(), file: file.to_string(), text, toml: None, extra: all.iter().filter(|(n, _)| n != file).cloned().collect(), missing: false }
        };
        // the command lines (indices into `items`)
        let items: Vec<Item> = ["lib.rs", "util.rs", "other.rs", "a.rs", "b.rs", "shared.rs"].iter().map(|f| mk(f)).collect();
        let lines: Vec<Vec<usize>> = vec![vec![0, 1], vec![1, 0], vec![0, 0], vec![1, 2, 0], vec![0, 2, 1], vec![3, 4], vec![4, 3], vec![5, 3], vec![3, 5, 4], vec![1, 1]];
        let shared = ctx.fresh("ov");
        materialise(&items[..1], &shared);
        let mut single_jobs: Vec<(usize, usize)> = vec![];
        for m in 0..MODES.len() {
            for i in 0..items.len() {
                single_jobs.push((m, i));
            }
        }
        let singles_flat: Vec<RunOut> = par_map(&single_jobs, |(m, i)| invoke(ctx, &items, &[*i], *m, &shared, home, None, &[]));
        let n = items.len();
        let singles: Vec<Vec<RunOut>> = (0..MODES.len()).map(|m| singles_flat[m * n..(m + 1) * n].to_vec()).collect();
        let joint_jobs: Vec<(usize, usize)> = (0..MODES.len()).flat_map(|m| (0..lines.len()).map(move |l| (m, l))).collect();
        let joints: Vec<RunOut> = par_map(&joint_jobs, |(m, l)| invoke(ctx, &items, &lines[*l], *m, &shared, home, None, &[]));
        for ((m, l), j) in joint_jobs.iter().zip(joints.iter()) {
            if j.timed_out || singles[*m].iter().any(|r| r.timed_out) {
                o.count("timeout");
                continue;
            }
            direct += 1;
            distinct += 1;
            o.count(&format!("overlapping-inputs:{}", MODES[*m].0));
            let mut fails = if MODES[*m].0 == "files" { vec![] } else { compare(*m, &lines[*l], &singles[*m], j, &items) };
            if MODES[*m].0 == "files" {
                // every file holds what the first single run that rewrites it leaves there, else the original
                let pre = format!("{}/", dir);
                for (name, orig) in &all {
                    let key = format!("{}{}", pre, name);
                    let want = lines[*l].iter().filter_map(|i| singles[*m][*i].after.get(&key)).find(|b| b.as_slice() != orig.as_bytes()).cloned().unwrap_or_else(|| orig.clone().into_bytes());
                    if j.after.get(&key) != Some(&want) {
                        fails.push(("c15:file-bytes-differ-from-the-single-run".to_string(), key.clone()));
                    }
                }
                let want_exit = lines[*l].iter().map(|i| singles[*m][*i].exit.unwrap_or(-1)).max().unwrap_or(0);
                if j.exit != Some(want_exit) {
                    fails.push(("c15:exit-status-is-not-the-max-of-the-single-runs".to_string(), format!("joint {:?}", j.exit)));
                }
            }
            for (sig, detail) in fails {
                let names: Vec<&str> = lines[*l].iter().map(|i| items[*i].file.as_str()).collect();
                fail(o, &sig, format!("{} [overlapping module trees, mode {}, command line {:?}] {}", sig, MODES[*m].0, names, detail), json!({"files": all.iter().map(|(n, t)| json!({"name": n, "text": t})).collect::<Vec<_>>(), "mode": MODES[*m].0, "command_line": names}));
            }
        }
        let _ = std::fs::remove_dir_all(&shared);
    }
    (direct, distinct)
}

/// Inputs of one invocation that live in NESTED directories with different configuration files: `p/rustfmt.toml` and
/// `p/x.rs`, `p/n/rustfmt.toml` (or `.rustfmt.toml`, or none) and `p/n/y.rs`, `p/n/d/z.rs`, a sibling `p/s/w.rs`.  Each
/// file is formatted under the nearest configuration file at or above it, whatever was formatted before it: the joint
/// run in every order equals the single runs.
fn nested(o: &mut Outcome, rng: &mut Rng, ctx: &Ctx, home: &Path, thorough: bool) -> (u64, u64) {
    let mut direct = 0u64;
    let mut distinct = 0u64;
    let local = ["tab_spaces = 2\n", "max_width = 60\n", "hard_tabs = true\n", "tab_spaces = 8\nmax_width = 70\n", "brace_style = \"AlwaysNextLine\"\n"];
    for k in 0..(if thorough { 16 } else { 4 }) {
        let p = format!("np{}", k);
        let mut tomls: Vec<usize> = (0..local.len()).collect();
        for i in (1..tomls.len()).rev() {
            tomls.swap(i, rng.below(i + 1));
        }
        // (directory, own configuration file)
        let shape: Vec<(String, Option<String>)> = vec![
            (p.clone(), if rng.chance(4, 5) { Some(local[tomls[0]].to_string()) } else { None }),
            (format!("{}/n", p), if rng.chance(3, 4) { Some(local[tomls[1]].to_string()) } else { None }),
            (format!("{}/n/d", p), if rng.chance(1, 3) { Some(local[tomls[2]].to_string()) } else { None }),
            (format!("{}/s", p), if rng.chance(1, 2) { Some(local[tomls[3]].to_string()) } else { None }),
        ];
        let items: Vec<Item> = shape.iter().enumerate().map(|(i, (d, t))| Item { kind: "nested", dir: d.clone(), file: format!("f{}.rs", i), text: body(rng, &format!("n{}x{}", k, i)), toml: t.clone(), extra: vec![], missing: false }).collect();
        let shared = ctx.fresh("np");
        materialise(&items, &shared);
        let n = items.len();
        let mut single_jobs: Vec<(usize, usize)> = vec![];
        for m in 0..MODES.len() {
            for i in 0..n {
                single_jobs.push((m, i));
            }
        }
        let singles_flat: Vec<RunOut> = par_map(&single_jobs, |(m, i)| invoke(ctx, &items, &[*i], *m, &shared, home, None, &[]));
        let singles: Vec<Vec<RunOut>> = (0..MODES.len()).map(|m| singles_flat[m * n..(m + 1) * n].to_vec()).collect();
        // every ordered pair, and (thorough: every; quick: six seeded) permutation of all four
        let mut lines: Vec<Vec<usize>> = vec![];
        for a in 0..n {
            for b in 0..n {
                if a != b {
                    lines.push(vec![a, b]);
                }
            }
        }
        let perms = permutations(n);
        if thorough {
            lines.extend(perms);
        } else {
            for _ in 0..6 {
                lines.push(rng.pick(&perms).clone());
            }
        }
        let joint_jobs: Vec<(usize, usize)> = (0..MODES.len()).flat_map(|m| (0..lines.len()).map(move |l| (m, l))).collect();
        let joints: Vec<RunOut> = par_map(&joint_jobs, |(m, l)| invoke(ctx, &items, &lines[*l], *m, &shared, home, None, &[]));
        for ((m, l), j) in joint_jobs.iter().zip(joints.iter()) {
            if j.timed_out || singles[*m].iter().any(|r| r.timed_out) {
                o.count("timeout");
                continue;
            }
            direct += 1;
            distinct += 1;
            o.count(&format!("nested-directories:{}", MODES[*m].0));
            for (sig, detail) in compare(*m, &lines[*l], &singles[*m], j, &items) {
                let names: Vec<String> = lines[*l].iter().map(|i| items[*i].rel()).collect();
                fail(o, &sig, format!("{} [nested directories with their own configuration files, mode {}, command line {:?}] {}", sig, MODES[*m].0, names, detail), json!({"set": set_json(&items), "mode": MODES[*m].0, "command_line": names}));
            }
        }
        let _ = std::fs::remove_dir_all(&shared);
    }
    (direct, distinct)
}

/// Two roots in different directories whose configuration files hold the SAME non-empty `ignore` list (the workspace shape with
/// copied configuration files): the patterns of a list are relative to the directory of the file that holds it, so each root's own
/// `gen.rs` is ignored, alone and in a joint run in either order.
fn ignore_twins(o: &mut Outcome, rng: &mut Rng, ctx: &Ctx, home: &Path, thorough: bool) -> (u64, u64) {
    let mut direct = 0u64;
    let mut distinct = 0u64;
    for k in 0..(if thorough { 6 } else { 2 }) {
        let pat = *rng.pick(&["gen.rs", "gen.rs\", \"other.rs", "/gen.rs"]);
        let toml = format!("ignore = [\"{}\"]\n", pat);
        let dirs = [format!("ig{}/a/src", k), format!("ig{}/b/deep/src", k), format!("ig{}/c/src", k)];
        let items: Vec<Item> = dirs.iter().enumerate().map(|(i, d)| Item { kind: "ignore-twin", dir: d.clone(), file: "lib.rs".into(), text: format!("mod   gen ;\n{}", body(rng, &format!("g{}x{}", k, i))), toml: if i < 2 { Some(toml.clone()) } else { None }, extra: vec![("gen.rs".to_string(), body(rng, &format!("g{}y{}", k, i)))], missing: false }).collect();
        let shared = ctx.fresh("ig");
        materialise(&items, &shared);
        let n = items.len();
        let mut single_jobs: Vec<(usize, usize)> = vec![];
        for m in 0..MODES.len() {
            for i in 0..n {
                single_jobs.push((m, i));
            }
        }
        let singles_flat: Vec<RunOut> = par_map(&single_jobs, |(m, i)| invoke(ctx, &items, &[*i], *m, &shared, home, None, &[]));
        let singles: Vec<Vec<RunOut>> = (0..MODES.len()).map(|m| singles_flat[m * n..(m + 1) * n].to_vec()).collect();
        let lines: Vec<Vec<usize>> = vec![vec![0, 1], vec![1, 0], vec![0, 2], vec![2, 0], vec![0, 1, 2], vec![2, 1, 0], vec![1, 2, 0]];
        let joint_jobs: Vec<(usize, usize)> = (0..MODES.len()).flat_map(|m| (0..lines.len()).map(move |l| (m, l))).collect();
        let joints: Vec<RunOut> = par_map(&joint_jobs, |(m, l)| invoke(ctx, &items, &lines[*l], *m, &shared, home, None, &[]));
        for ((m, l), j) in joint_jobs.iter().zip(joints.iter()) {
            if j.timed_out || singles[*m].iter().any(|r| r.timed_out) {
                o.count("timeout");
                continue;
            }
            direct += 1;
            distinct += 1;
            o.count(&format!("ignore-twins:{}", MODES[*m].0));
            for (sig, detail) in compare(*m, &lines[*l], &singles[*m], j, &items) {
                let names: Vec<String> = lines[*l].iter().map(|i| items[*i].rel()).collect();
                fail(o, &sig, format!("{} [roots in different directories with the same ignore list, mode {}, command line {:?}] {}", sig, MODES[*m].0, names, detail), json!({"set": set_json(&items), "mode": MODES[*m].0, "command_line": names}));
            }
        }
        let _ = std::fs::remove_dir_all(&shared);
    }
    (direct, distinct)
}

pub fn run(tier: &str, seed: u64, out: &Path) -> i32 {
    pool::install_panic_hook();
    let mut o = Outcome::new("C15", tier, seed);
    let thorough = tier == "thorough";
    let mut rng = Rng::new(seed ^ 0xc15);
    let work = out.parent().unwrap_or(Path::new("/verif/work")).join("c15");
    let _ = std::fs::remove_dir_all(&work);
    std::fs::create_dir_all(&work).unwrap();
    let work = std::fs::canonicalize(&work).unwrap_or(work);
    let home = work.join("empty-home");
    std::fs::create_dir_all(&home).unwrap();
    let ctx = Ctx { work: work.clone(), home: home.clone(), counter: std::sync::atomic::AtomicUsize::new(0) };
    if !crate::c05::rustfmt_bin().exists() {
        o.direct_failures.push(json!({"sig": "c15:no-rustfmt-binary", "what": format!("{} is missing", crate::c05::rustfmt_bin().display())}));
        return o.finish(out, jobs());
    }

    // ---- the sets
    let mut sets: Vec<Vec<Item>> = vec![];
    let (n5, nsmall) = if thorough { (40, 10) } else { (3, 1) };
    let mut deck: Vec<&'static str> = vec![];
    for _ in 0..n5 {
        sets.push(gen_set(&mut rng, 5, &mut deck));
    }
    for n in 1..=4 {
        for _ in 0..nsmall {
            sets.push(gen_set(&mut rng, n, &mut deck));
        }
    }
    let api_sets: Vec<usize> = if thorough { (0..6).chain(n5..n5 + 4 * nsmall).collect() } else { vec![0, n5 + 3, n5 + 2, n5 + 1] };
    let mut direct = 0u64;
    let mut distinct = 0u64;

    for (si, items) in sets.iter().enumerate() {
        let n = items.len();
        o.count(&format!("set-size:{}", n));
        for it in items {
            o.count(&format!("item:{}", it.kind));
            if it.toml.is_some() {
                o.count("item-with-local-rustfmt.toml");
            }
        }
        let shared = ctx.fresh("s");
        materialise(items, &shared);
        let perms = permutations(n);
        // single runs
        let mut single_jobs: Vec<(usize, usize)> = vec![];
        for m in 0..MODES.len() {
            for i in 0..n {
                single_jobs.push((m, i));
            }
        }
        let singles_flat: Vec<RunOut> = par_map(&single_jobs, |(m, i)| invoke(&ctx, items, &[*i], *m, &shared, &home, None, &[]));
        let singles: Vec<Vec<RunOut>> = (0..MODES.len()).map(|m| singles_flat[m * n..(m + 1) * n].to_vec()).collect();
        if singles_flat.iter().any(|r| r.timed_out) {
            o.count("timeout");
            continue;
        }
        for i in 0..n {
            o.count(&format!("single-exit:{}", singles[0][i].exit.unwrap_or(-1)));
        }
        // joint runs, every order, every mode
        let mut joint_jobs: Vec<(usize, usize)> = vec![];
        for m in 0..MODES.len() {
            for p in 0..perms.len() {
                if n == 1 {
                    continue;
                }
                joint_jobs.push((m, p));
            }
        }
        let joints: Vec<RunOut> = par_map(&joint_jobs, |(m, p)| invoke(&ctx, items, &perms[*p], *m, &shared, &home, None, &[]));
        let mut exit_of: BTreeMap<(usize, usize), Option<i32>> = BTreeMap::new();
        for ((m, p), j) in joint_jobs.iter().zip(joints.iter()) {
            exit_of.insert((*m, *p), j.exit);
            if j.timed_out {
                o.count("timeout");
                continue;
            }
            direct += 1;
            distinct += 1;
            o.count(&format!("joint-runs:{}", MODES[*m].0));
            for (sig, detail) in compare(*m, &perms[*p], &singles[*m], j, items) {
                fail(&mut o, &sig, format!("{} [mode {}, order {:?}] {}", sig, MODES[*m].0, perms[*p], detail), json!({"set": set_json(items), "mode": MODES[*m].0, "order": perms[*p]}));
            }
        }
        // repeated processes: ten runs of one joint invocation per mode
        if n >= 2 {
            let reps: Vec<(usize, usize)> = (0..MODES.len()).flat_map(|m| (0..10).map(move |k| (m, k))).collect();
            let p = rng.below(perms.len());
            let rr: Vec<RunOut> = par_map(&reps, |(m, _)| invoke(&ctx, items, &perms[p], *m, &shared, &home, None, &[]));
            for m in 0..MODES.len() {
                direct += 1;
                let first = &rr[m * 10];
                if rr[m * 10..(m + 1) * 10].iter().any(|r| r != first) {
                    fail(&mut o, "c15:repeated-processes-differ", format!("ten runs of the same command line in mode {} are not identical", MODES[m].0), json!({"set": set_json(items), "order": perms[p]}));
                }
            }
            o.count_n("repeated-process-groups", MODES.len() as u64);
            // working directory: absolute paths from an unrelated directory
            let elsewhere = work.join("elsewhere");
            std::fs::create_dir_all(&elsewhere).ok();
            for m in 0..MODES.len() {
                let a = invoke(&ctx, items, &perms[p], m, &shared, &home, Some(&elsewhere), &[]);
                let b = &rr[m * 10];
                direct += 1;
                // a path that does not exist is echoed as it was given: the only legitimate difference
                let has_missing = items.iter().any(|it| it.missing);
                let same = a.exit == b.exit && a.stdout == b.stdout && a.after == b.after && (a.stderr == b.stderr || has_missing);
                if !same {
                    fail(&mut o, "c15:working-directory-changes-the-result", format!("mode {}: absolute paths from another directory vs relative paths", MODES[m].0), json!({"set": set_json(items), "order": perms[p], "a": format!("{:?}", a).chars().take(600).collect::<String>(), "b": format!("{:?}", b).chars().take(600).collect::<String>()}));
                }
            }
            o.count_n("cwd-comparisons", MODES.len() as u64);
            // environment: another empty HOME / XDG_CONFIG_HOME
            let home2 = work.join("another-empty-home");
            std::fs::create_dir_all(&home2).ok();
            for m in [0usize, 1, 2] {
                let a = invoke(&ctx, items, &perms[p], m, &shared, &home2, None, &[]);
                direct += 1;
                if a != rr[m * 10] {
                    fail(&mut o, "c15:environment-changes-the-result", format!("mode {}: HOME/XDG_CONFIG_HOME pointing at another empty directory", MODES[m].0), json!({"set": set_json(items), "order": perms[p]}));
                }
            }
            // a HOME that holds a rustfmt.toml: files with a local file are unaffected; the others must
            // give what `--config-path <that file>` gives for them alone
            let home3 = work.join("home-with-config");
            std::fs::create_dir_all(&home3).ok();
            std::fs::write(home3.join("rustfmt.toml"), "tab_spaces = 3\n").ok();
            let cfgp = home3.join("rustfmt.toml").display().to_string();
            let a = invoke(&ctx, items, &perms[p], 1, &shared, &home3, None, &[]);
            let mut want = String::new();
            let mut want_exit = 0;
            for i in &perms[p] {
                // a configuration file is looked up from the file's directory upwards, then in HOME
                let r = if items[*i].toml.is_some() || items[*i].missing { singles[1][*i].clone() } else { invoke(&ctx, items, &[*i], 1, &shared, &home, None, &["--config-path", &cfgp]) };
                want.push_str(&r.stdout);
                want_exit = want_exit.max(r.exit.unwrap_or(-1));
            }
            direct += 1;
            o.count("home-config-comparisons");
            if a.stdout != want || a.exit != Some(want_exit) {
                fail(&mut o, "c15:home-configuration-not-applied-per-effective-configuration", "stdout mode with a rustfmt.toml in HOME: files with a local rustfmt.toml must be unaffected, the others must equal a run under --config-path".into(), json!({"set": set_json(items), "order": perms[p], "got": a.stdout.chars().take(800).collect::<String>(), "want": want.chars().take(800).collect::<String>()}));
            }
        }
        // standard input vs path (stdout mode), for the files without out-of-line modules
        let stdin_items: Vec<usize> = (0..n).filter(|i| !items[*i].missing && items[*i].extra.is_empty()).collect();
        let stdin_runs: Vec<CliOut> = par_map(&stdin_items, |i| {
            let mut cmd = rustfmt_cmd(&shared.join(&items[*i].dir), &home);
            run_cmd(&mut cmd, items[*i].text.as_bytes(), Duration::from_secs(60))
        });
        for (i, r) in stdin_items.iter().zip(stdin_runs.iter()) {
            let s = &singles[1][*i];
            direct += 1;
            o.count("stdin-vs-path");
            let header = format!("$B/{}:\n\n", items[*i].rel());
            let path_text = s.stdout.strip_prefix(&header).unwrap_or(&s.stdout).to_string();
            let version = items[*i].kind == "version";
            if (String::from_utf8_lossy(&r.stdout) != path_text || r.code != s.exit) && !version {
                fail(&mut o, "c15:stdin-and-path-differ", format!("{}: formatted text or exit status differ between standard input and path", items[*i].rel()), json!({"set": set_json(&items[*i..*i + 1]), "stdin_exit": r.code, "path_exit": s.exit, "stdin": String::from_utf8_lossy(&r.stdout).chars().take(500).collect::<String>(), "path": path_text.chars().take(500).collect::<String>()}));
            }
        }

        // ---- API sessions and the correspondence with the session model
        if !api_sets.contains(&si) {
            let _ = std::fs::remove_dir_all(&shared);
            continue;
        }
        // (shape, emit, check): cli replay with stdout and with check; plain API session with stdout
        let shapes: [(bool, &str, bool); 4] = [(true, "stdout", false), (true, "diff", true), (false, "stdout", false), (true, "stdout+mixed", false)];
        let mut single_specs = vec![];
        for (sh, _) in shapes.iter().enumerate() {
            for i in 0..n {
                single_specs.push((sh, i));
            }
        }
        let api_singles: Vec<Option<Value>> = par_map(&single_specs, |(sh, i)| {
            let (cli, emit, check) = shapes[*sh];
            let spec = api_spec(items, &[*i], &shared, cli, emit, check, false);
            sessrun::run_child(&spec, &ctx.fresh("spec"), &home, Duration::from_secs(60))
        });
        let mut multi_specs = vec![];
        for (sh, _) in shapes.iter().enumerate() {
            for p in 0..perms.len() {
                multi_specs.push((sh, p));
            }
        }
        // a plain API session is not given the paths that do not exist (the command line checks
        // `exists()` before it calls `Session::format`; the API has no such guard)
        let present = |cli: bool, order: &[usize]| -> Vec<usize> { order.iter().copied().filter(|i| cli || !items[*i].missing).collect() };
        let api_multis: Vec<Option<Value>> = par_map(&multi_specs, |(sh, p)| {
            let (cli, emit, check) = shapes[*sh];
            let spec = api_spec(items, &present(cli, &perms[*p]), &shared, cli, emit, check, false);
            sessrun::run_child(&spec, &ctx.fresh("spec"), &home, Duration::from_secs(60))
        });
        for ((sh, p), multi) in multi_specs.iter().zip(api_multis.iter()) {
            let (cli, emit, check) = shapes[*sh];
            let multi = match multi {
                Some(m) if !m["died"].as_bool().unwrap_or(true) => m,
                _ => {
                    o.count("api:no-answer-or-panic");
                    continue;
                }
            };
            let entries = multi["entries"].as_array().cloned().unwrap_or_default();
            let mut words = vec![];
            let mut ok = true;
            let mut acc = "0000000".to_string();
            for (k, i) in present(cli, &perms[*p]).iter().enumerate() {
                let single = match &api_singles[sh * n + i] {
                    Some(s) => s,
                    None => {
                        ok = false;
                        break;
                    }
                };
                let se = &single["entries"][0];
                words.push(item_word(se));
                direct += 1;
                match entries.get(k) {
                    Some(me) => {
                        if norm_entry(me, &shared) != norm_entry(se, &shared) {
                            fail(&mut o, "c15:api-session-entry-differs-from-the-single-input-session", format!("{} session, emit {}, order {:?}, position {}: report or emitted bytes of {} differ from the session that formats it alone", if cli { "command-line replay" } else { "API" }, emit, perms[*p], k, items[*i].rel()), json!({"set": set_json(items), "joint": norm_entry(me, &shared), "alone": norm_entry(se, &shared)}));
                        }
                        // ReportedErrors::add, on the real accumulated flags
                        if let (Some(after), Some("ok")) = (me["sess"].as_str(), me["kind"].as_str()) {
                            let fl = me["flags"].as_str().unwrap_or("0000000");
                            o.push("corr", "sess.add", format!("sess.add {} {}", acc, fl), after.to_string(), format!("set {} order {:?} position {}", si, perms[*p], k), fl != "0000000" && acc != "0000000");
                        }
                        if let Some(after) = me["sess"].as_str() {
                            acc = after.to_string();
                        }
                    }
                    None => fail(&mut o, "c15:api-session-lost-an-input", format!("order {:?}: no entry for position {}", perms[*p], k), json!({"set": set_json(items)})),
                }
            }
            if !ok {
                continue;
            }
            o.count(&format!("api-sessions:{}:{}", if cli { "cli-replay" } else { "api" }, emit));
            // union of the flags
            let mut want = "0000000".to_string();
            for e in &entries {
                match e["kind"].as_str() {
                    Some("ok") => want = or_flags(&want, e["flags"].as_str().unwrap_or("0000000")),
                    Some("err") | Some("missing") => want = or_flags(&want, "1000000"),
                    _ => {}
                }
            }
            direct += 1;
            if multi["session_flags"].as_str() != Some(&want) {
                fail(&mut o, "c15:session-flags-are-not-the-union", format!("order {:?}: session flags {:?}, union of the per-input flags {}", perms[*p], multi["session_flags"], want), json!({"set": set_json(items)}));
            }
            let sf = multi["session_flags"].as_str().unwrap_or("?").to_string();
            o.push("corr", "sess.noerrors", format!("sess.noerrors {}", sf), if multi["no_errors"].as_bool().unwrap_or(false) { "1".into() } else { "0".into() }, format!("set {} order {:?}", si, perms[*p]), sf != "0000000");
            if cli && emit != "stdout+mixed" {
                // the loop of main.rs over the per-file results vs the real exit status
                let mode = if check { 2 } else { 1 };
                let exit = if n == 1 { singles[mode][0].exit } else { exit_of.get(&(mode, *p)).copied().flatten() };
                let req = format!("sess.fold {} {}", check as u8, if words.is_empty() { "_".to_string() } else { words.join(",") });
                let expect = format!("{}:{}:{}", sf, exit.map(|c| c.to_string()).unwrap_or_else(|| "signal".into()), entries.iter().filter(|e| e["kind"] != "cfgerr").count());
                let nt = words.len() >= 2 && words.iter().any(|w| w != "0000000");
                o.push("corr", "sess.fold", req, expect, format!("set {} ({}) order {:?} check={}", si, items.iter().map(|i| i.kind).collect::<Vec<_>>().join(","), perms[*p], check), nt);
            }
        }
        // exit formulas on single files
        for (sh, (_, _, check)) in shapes.iter().enumerate().take(2) {
            for i in 0..n {
                if let Some(s) = &api_singles[sh * n + i] {
                    let sf = s["session_flags"].as_str().unwrap_or("?");
                    let mode = if *check { 2 } else { 1 };
                    let exit = singles[mode][i].exit.map(|c| c.to_string()).unwrap_or_else(|| "signal".into());
                    o.push("corr", "sess.exit", format!("sess.exit {} {}", *check as u8, sf), exit, format!("{} {}", items[i].kind, items[i].rel()), sf != "0000000");
                }
            }
        }
        // exit formula of standard input
        let text_specs: Vec<usize> = stdin_items.clone();
        let api_texts: Vec<Option<Value>> = par_map(&text_specs, |i| {
            // the local configuration, as format_string loads it from the current directory
            let mut spec = api_spec(items, &[*i], &shared, false, "stdout", false, true);
            spec["cwd"] = json!(shared.join(&items[*i].dir).display().to_string());
            if let Some(t) = &items[*i].toml {
                let cfg: Vec<Value> = t.lines().filter_map(|l| l.split_once(" = ")).map(|(k, v)| json!([k, v.trim_matches('"')])).collect();
                spec["config"] = json!(cfg);
            }
            sessrun::run_child(&spec, &ctx.fresh("spec"), &home, Duration::from_secs(60))
        });
        for ((i, r), a) in stdin_items.iter().zip(stdin_runs.iter()).zip(api_texts.iter()) {
            if items[*i].kind == "version" {
                continue;
            }
            if let Some(a) = a {
                let sf = a["session_flags"].as_str().unwrap_or("?");
                o.push("corr", "sess.exitstdin", format!("sess.exitstdin {}", sf), r.code.map(|c| c.to_string()).unwrap_or_else(|| "signal".into()), format!("{} on standard input", items[*i].kind), sf != "0000000");
            }
        }
        let _ = std::fs::remove_dir_all(&shared);
    }

    // ---- inputs whose module trees overlap
    let (d2, n2) = overlapping(&mut o, &mut rng, &ctx, &home, thorough);
    direct += d2;
    distinct += n2;

    // ---- inputs in nested directories with their own configuration files
    let (d3, n3) = nested(&mut o, &mut rng, &ctx, &home, thorough);
    direct += d3;
    distinct += n3;

    // ---- roots in different directories with the same ignore list
    let (d4, n4) = ignore_twins(&mut o, &mut rng, &ctx, &home, thorough);
    direct += d4;
    distinct += n4;

    // ---- enumerated probes (seed-independent)
    // F3: two overrides on one --config: applied in the iteration order of a HashMap
    {
        let d = work.join("f3");
        std::fs::create_dir_all(&d).unwrap();
        std::fs::write(d.join("x.rs"), "fn main() {}\n").unwrap();
        let runs: Vec<usize> = (0..40).collect();
        let outs: Vec<String> = par_map(&runs, |_| {
            let mut cmd = rustfmt_cmd(&d, &home);
            cmd.args(["--print-config", "current", "x.rs", "--config", "max_width=120,fn_call_width=110"]);
            let r = run_cmd(&mut cmd, b"", Duration::from_secs(60));
            let s = String::from_utf8_lossy(&r.stdout).into_owned();
            s.lines().find(|l| l.starts_with("fn_call_width")).unwrap_or("?").to_string()
        });
        let mut vals: Vec<String> = outs.clone();
        vals.sort();
        vals.dedup();
        o.probes.push(json!({"id": "F3", "fails": vals.len() > 1, "what": format!("40 runs of `rustfmt --print-config current x.rs --config max_width=120,fn_call_width=110` print {} different values of fn_call_width ({}): the overrides of one --config are applied in HashMap order and set_width_heuristics clamps against the max_width of the moment", vals.len(), vals.join(" | ")), "detail": {"values": vals}}));
    }
    // D1: a path whose local configuration does not load cuts the command line short
    {
        let items = vec![
            Item { kind: "unformatted", dir: "a".into(), file: "x.rs".into(), text: "fn  x( ){}\n".into(), toml: None, extra: vec![], missing: false },
            Item { kind: "unloadable-config", dir: "b".into(), file: "y.rs".into(), text: "fn  y( ){}\n".into(), toml: Some("max_width = [\n".into()), extra: vec![], missing: false },
            Item { kind: "unformatted", dir: "c".into(), file: "z.rs".into(), text: "fn  z( ){}\n".into(), toml: None, extra: vec![], missing: false },
        ];
        let shared = ctx.fresh("s");
        materialise(&items, &shared);
        let perms = permutations(3);
        let idx: Vec<usize> = (0..perms.len()).collect();
        let rs: Vec<RunOut> = par_map(&idx, |p| invoke(&ctx, &items, &perms[*p], 0, &shared, &home, None, &[]));
        let mut images: Vec<String> = rs
            .iter()
            .map(|r| {
                let mut rewritten: Vec<&String> = r.after.iter().filter(|(k, v)| k.ends_with(".rs") && !String::from_utf8_lossy(v).contains("  ")).map(|(k, _)| k).collect();
                rewritten.sort();
                format!("{:?}", rewritten)
            })
            .collect();
        let per_order: Vec<String> = perms.iter().zip(images.iter()).map(|(p, i)| format!("{:?} -> {}", p, i)).collect();
        images.sort();
        images.dedup();
        let exits: Vec<Option<i32>> = rs.iter().map(|r| r.exit).collect();
        o.probes.push(json!({"id": "D1", "fails": images.len() > 1, "what": format!("`rustfmt a/x.rs b/y.rs c/z.rs` with a b/rustfmt.toml that does not load, in all 6 orders: {} different sets of rewritten files (load_config(..)? leaves the loop at b/y.rs, the paths after it are never looked at), exit statuses {:?}", images.len(), exits), "detail": {"rewritten_per_order": per_order}}));
        let _ = std::fs::remove_dir_all(&shared);
    }
    // D2 (informational): emit_mode / make_backup in a local rustfmt.toml are not honoured: the emitter is
    // created once from the global configuration.  The same for every history, so not a C15 failure.
    {
        let items = vec![
            Item { kind: "unformatted", dir: "a".into(), file: "x.rs".into(), text: "fn  x( ){}\n".into(), toml: None, extra: vec![], missing: false },
            Item { kind: "local-emit-mode", dir: "b".into(), file: "y.rs".into(), text: "fn  y( ){}\n".into(), toml: Some("emit_mode = \"Stdout\"\n".into()), extra: vec![], missing: false },
        ];
        let shared = ctx.fresh("s");
        materialise(&items, &shared);
        let alone = invoke(&ctx, &items, &[1], 0, &shared, &home, None, &[]);
        let ab = invoke(&ctx, &items, &[0, 1], 0, &shared, &home, None, &[]);
        let ba = invoke(&ctx, &items, &[1, 0], 0, &shared, &home, None, &[]);
        let y = |r: &RunOut| r.after.get("b/y.rs").cloned();
        let history_dependent = y(&alone) != y(&ab) || y(&alone) != y(&ba) || alone.stdout != "" || ab.stdout != ba.stdout;
        o.probes.push(json!({"id": "D2", "fails": history_dependent, "what": "informational: `emit_mode = \"Stdout\"` in b/rustfmt.toml is ignored (b/y.rs is rewritten, nothing is printed): Session::new creates the emitter from the global configuration and override_config swaps only `config`; the behaviour is the same alone and in either order, so it is a precedence matter (C14), not a history dependence; the probe fails only if the three runs disagree", "detail": {"alone_stdout": alone.stdout, "y_rewritten_alone": y(&alone).map(|b| String::from_utf8_lossy(&b).into_owned())}}));
        let _ = std::fs::remove_dir_all(&shared);
    }

    o.direct_evals = direct;
    o.direct_distinct = distinct;
    o.notes.push("direct comparisons = joint run vs single runs (per mode and order), repeated processes, cwd, environment, stdin vs path, API session entry vs single-input session; paths are normalised to the run's base directory before comparing".into());
    o.notes.push("non-trivial (correspondence) = at least two inputs and at least one flag set (sess.fold), a non-zero flag vector (sess.exit, sess.exitstdin, sess.noerrors), both operands non-zero (sess.add)".into());
    if std::env::var_os("VERIF_KEEP").is_none() {
        let _ = std::fs::remove_dir_all(&work);
    }
    o.finish(out, jobs())
}
