//! rfverif: correspondence (real rustfmt code vs the Lean model) and failing-input search.
//! usage: rfverif <property> --tier quick|thorough --seed N --out DIR
#![feature(rustc_private)]
mod c12;
mod util;

use std::path::PathBuf;

fn main() {
    let args: Vec<String> = std::env::args().collect();
    let prop = args.get(1).cloned().unwrap_or_default();
    let mut tier = "quick".to_string();
    let mut seed = 0u64;
    let mut out = PathBuf::from("/verif/work/out");
    let mut i = 2;
    while i < args.len() {
        match args[i].as_str() {
            "--tier" => { tier = args[i + 1].clone(); i += 1; }
            "--seed" => { seed = args[i + 1].parse().unwrap_or(0); i += 1; }
            "--out" => { out = PathBuf::from(&args[i + 1]); i += 1; }
            _ => {}
        }
        i += 1;
    }
    let code = match prop.as_str() {
        "c12" => c12::run(&tier, seed, &out),
        _ => { eprintln!("unknown property {}", prop); 2 }
    };
    std::process::exit(code);
}
