/-
Model of the skip / opt-out mechanism of rustfmt (property C04):

  * `src/utils.rs:18-25, 245-272`   `skip_annotation`, `depr_skip_annotation`, `is_skip`,
                                    `is_skip_nested`, `contains_skip`
  * `src/skip.rs` (all)             `SkipContext`, `SkipNameContext`, `is_skip_attr`, `get_skip_names`
  * `src/visitor.rs:726-813`        `push_str`, `push_rewrite_inner`, `push_rewrite`,
                                    `push_skipped_with_span`, `from_context`, `from_psess`
  * `src/visitor.rs:433-604`        `visit_item`'s save / `update_with_attrs` / restore of `skip_context`
  * `src/missed_spans.rs:54-114`    `format_missing_with_indent` (only: the panic conditions, the new
                                    `last_pos`, and "some text `W` is appended through `push_str`")
  * `src/imports.rs:56-61`, `src/items.rs:736-741`   the two places that touch `buffer` directly
  * `src/attr.rs:335-338`, `src/macros.rs:161-166`   the two queries of the `SkipContext`
  * `src/formatting.rs:30-172`      `format_input_inner`, `should_skip_module`, `format_project`
  * `src/ignore_path.rs:22-30`      `IgnorePathSet::is_match` (only: `Stdin` never matches)
  * `src/formatting/generated.rs`   `is_generated_file`

Conventions.  Identifiers and texts are `List Char`.  A `rustc_ast::Path` is the list of its
segment names (`::a` has a first segment `{{root}}` which `pprust` prints as the empty string; it
is the empty segment here).  Positions (`BytePos`) are indices into `src : List Char`; the file is
taken to start at position 0 (`SnippetProvider::start_pos = 0`), and a span is a pair `lo hi`.
The model indexes characters where the code indexes bytes: the two agree on ASCII sources, and on
any source the map byte-offset -> char-offset is monotone on char boundaries, which is all that is
used.  A `HashSet<String>` is a list read through membership only.
Where the Rust code would panic (`unwrap` of a `None` snippet, out-of-range slice, the
`assert!(start < end)` of `format_missing_inner`) the functions return `none`.
Import-free.
-/
namespace RF.Skip

/-! ## Attribute meta items -/

abbrev Name := List Char
/-- `ast::Path`, as the list of segment identifiers. -/
abbrev Path := List Name

mutual
/-- `ast::MetaItem` (`path` + `MetaItemKind::{Word, List, NameValue}`); the literal of a
`NameValue` is irrelevant to every function modelled here. -/
inductive MetaItem where
  | word (path : Path)
  | list (path : Path) (args : List Nested)
  | nameValue (path : Path)
/-- `ast::MetaItemInner` -/
inductive Nested where
  | metaItem (m : MetaItem)
  | lit
end

def MetaItem.path : MetaItem → Path
  | .word p => p
  | .list p _ => p
  | .nameValue p => p

/-- `pprust::path_to_string`: segments joined by `::`. -/
def pathToString : Path → List Char
  | [] => []
  | [s] => s
  | s :: rest => s ++ ':' :: ':' :: pathToString rest

/-- utils.rs:23 `skip_annotation()` = `"rustfmt::skip"` -/
def skipAnnotation : List Char := ['r','u','s','t','f','m','t',':',':','s','k','i','p']
/-- utils.rs:18 `depr_skip_annotation()` = `"rustfmt_skip"` -/
def deprSkipAnnotation : List Char := ['r','u','s','t','f','m','t','_','s','k','i','p']
/-- `sym::cfg_attr` -/
def cfgAttr : Name := ['c','f','g','_','a','t','t','r']
def rustfmtName : Name := ['r','u','s','t','f','m','t']
def skipName : Name := ['s','k','i','p']
def macrosName : Name := ['m','a','c','r','o','s']
def attributesName : Name := ['a','t','t','r','i','b','u','t','e','s']

/-- `MetaItem::has_name(sym)` = `self.path == sym` = exactly one segment, equal to `sym`
(rustc_ast `impl PartialEq<Symbol> for Path`). -/
def hasName (p : Path) (n : Name) : Bool :=
  match p with
  | [s] => s == n
  | _ => false

mutual
/-- utils.rs:245-257 `is_skip`.  `l.len() == 2 && is_skip_nested(&l[1])` is the pattern `[_, x]`. -/
def isSkip : MetaItem → Bool
  | .word p => pathToString p == skipAnnotation || pathToString p == deprSkipAnnotation
  | .list p [_, x] => hasName p cfgAttr && isSkipNested x
  | .list _ _ => false
  | .nameValue _ => false
/-- utils.rs:259-265 `is_skip_nested` -/
def isSkipNested : Nested → Bool
  | .metaItem m => isSkip m
  | .lit => false
end

/-- `ast::AttrArgs` as seen through `MetaItemKind::from_attr_args`: `bad` is every argument form
for which `Attribute::meta()` is `None` (`#[a[..]]`, `#[a{..}]`, a parenthesised token stream that
is not a meta-item list, `#[a = <non-literal>]`). -/
inductive AttrArgs where
  | empty
  | list (args : List Nested)
  | nameValue
  | bad

/-- `ast::Attribute`: `AttrKind::DocComment` or `AttrKind::Normal` with its path and arguments. -/
inductive Attr where
  | doc
  | normal (path : Path) (args : AttrArgs)

/-- `Attribute::meta()` -/
def Attr.getMeta : Attr → Option MetaItem
  | .doc => none
  | .normal p .empty => some (.word p)
  | .normal p (.list l) => some (.list p l)
  | .normal p .nameValue => some (.nameValue p)
  | .normal _ .bad => none

/-- `Attribute::meta_item_list()` -/
def Attr.metaItemList : Attr → Option (List Nested)
  | .normal _ (.list l) => some l
  | _ => none

/-- utils.rs:267-272 `contains_skip`: `attrs.iter().any(|a| a.meta().map_or(false, |a| is_skip(&a)))` -/
def containsSkip (attrs : List Attr) : Bool :=
  attrs.any fun a => match a.getMeta with
    | some m => isSkip m
    | none => false

/-- skip.rs:90-104 `is_skip_attr(segments)` (used by `is_unknown_rustfmt_attr`). -/
def isSkipAttr (segments : Path) : Bool :=
  match segments with
  | [a, b] => a == rustfmtName && b == skipName
  | [a, b, c] => a == rustfmtName && b == skipName && (c == macrosName || c == attributesName)
  | _ => false

/-- visitor.rs:871-876 `is_unknown_rustfmt_attr`; `segments[0]` panics on an empty path. -/
def isUnknownRustfmtAttr (segments : Path) : Option Bool :=
  match segments with
  | [] => none
  | a :: _ => some (if a != rustfmtName then false else !isSkipAttr segments)

/-! ## Skip contexts -/

/-- skip.rs:38-41 `SkipNameContext` -/
inductive SkipNameContext where
  | all
  | values (vs : List Name)
  deriving DecidableEq

namespace SkipNameContext

/-- skip.rs:43-47 `Default` -/
def default : SkipNameContext := .values []

/-- skip.rs:49-56 `Extend<String>` -/
def extend : SkipNameContext → List Name → SkipNameContext
  | .all, _ => .all
  | .values vs, ns => .values (vs ++ ns)

/-- skip.rs:59-72 `update` -/
def update : SkipNameContext → SkipNameContext → SkipNameContext
  | .all, _ => .all
  | _, .all => .all
  | .values vs, .values ns => .values (vs ++ ns)

/-- skip.rs:74-79 `skip` -/
def skip : SkipNameContext → Name → Bool
  | .all, _ => true
  | .values vs, n => vs.contains n

/-- skip.rs:81-83 `skip_all` -/
def skipAll (_ : SkipNameContext) : SkipNameContext := .all

end SkipNameContext

/-- `MetaItemInner::ident()`: the name of a single-segment meta item, `None` for literals and for
multi-segment paths. -/
def Nested.ident : Nested → Option Name
  | .metaItem m => match m.path with
    | [s] => some s
    | _ => none
  | .lit => none

/-- `rustfmt::skip::<kind>` as `path_to_string` prints it (skip.rs:108). -/
def skipKindPath (kind : Name) : List Char :=
  rustfmtName ++ ':' :: ':' :: skipName ++ ':' :: ':' :: kind

/-- skip.rs:106-127 `get_skip_names`.  A doc comment is not `Normal`, so the path test does not
apply to it, but its `meta_item_list()` is `None`. -/
def getSkipNames (kind : Name) : List Attr → List Name
  | [] => []
  | a :: rest =>
    let here : List Name :=
      match a with
      | .normal p _ =>
        if pathToString p != skipKindPath kind then []
        else match a.metaItemList with
          | some l => l.filterMap Nested.ident
          | none => []
      | .doc => []
    here ++ getSkipNames kind rest

/-- skip.rs:16-19 `SkipContext` -/
structure SkipContext where
  macros : SkipNameContext
  attributes : SkipNameContext
  deriving DecidableEq

namespace SkipContext

def default : SkipContext := ⟨.default, .default⟩

/-- skip.rs:22-25 `update_with_attrs` -/
def updateWithAttrs (c : SkipContext) (attrs : List Attr) : SkipContext :=
  ⟨c.macros.extend (getSkipNames macrosName attrs),
   c.attributes.extend (getSkipNames attributesName attrs)⟩

/-- skip.rs:27-31 `update` -/
def update (c other : SkipContext) : SkipContext :=
  ⟨c.macros.update other.macros, c.attributes.update other.attributes⟩

end SkipContext

/-- `config::MacroSelector` -/
inductive MacroSelector where
  | name (n : Name)
  | all

/-- The `for` loop of visitor.rs:790-795: (names collected, was `skip_all` called). -/
def selectorNames : List MacroSelector → List Name
  | [] => []
  | .name n :: r => n :: selectorNames r
  | .all :: r => selectorNames r

def selectorAll : List MacroSelector → Bool
  | [] => false
  | .name _ :: r => selectorAll r
  | .all :: _ => true

/-- visitor.rs:788-796 the `skip_context` built by `FmtVisitor::from_psess` from
`config.skip_macro_invocations()`. -/
def fromPsessCtx (sel : List MacroSelector) : SkipContext :=
  let c := SkipContext.default
  let m := if selectorAll sel then c.macros.skipAll else c.macros
  ⟨m.extend (selectorNames sel), c.attributes⟩

/-- formatting.rs:212-218 the context `format_file` starts every file with: `from_psess` then
`update_with_attrs(&self.krate.attrs)` — the *crate root's* inner attributes, for every file of the
crate; the inner attributes of the module file itself (`module.attrs()`) are not fed to it. -/
def formatFileCtx (sel : List MacroSelector) (krateAttrs : List Attr) : SkipContext :=
  (fromPsessCtx sel).updateWithAttrs krateAttrs

/-- visitor.rs:770-780 `from_context`: the context of a nested visitor. -/
def fromContextCtx (sel : List MacroSelector) (parent : SkipContext) : SkipContext :=
  (fromPsessCtx sel).update parent

/-- macros.rs:161-166: `rewrite_macro` gives up (`SkipFormatting`) iff the snippet of the macro's
path is in `skip_context.macros`. -/
def skipMacro (c : SkipContext) (pathSnippet : Name) : Bool := c.macros.skip pathSnippet

/-- attr.rs:335-338: an attribute is copied verbatim iff it has a single-segment path whose name is in
`skip_context.attributes` (`Attribute::ident()`; a doc comment has none). -/
def skipAttribute (c : SkipContext) : Attr → Bool
  | .normal [s] _ => c.attributes.skip s
  | _ => false

/-! ### The save / update / restore discipline of `visit_item` (visitor.rs:442-443, 603)

An item is its attribute list and the items nested in it (through inline modules; bodies of
functions are visited by nested visitors built with `from_context`, which start from the parent's
context).  `visitItem` returns the visitor's `skip_context` after the call and the log of the
contexts under which each node of the tree was processed (pre-order). -/

inductive Item where
  | mk (attrs : List Attr) (children : List Item)

mutual
def visitItem (ctx : SkipContext) : Item → SkipContext × List SkipContext
  | .mk attrs children =>
    let saved := ctx                                  -- :442 skip_context_saved = clone
    let ctx1 := ctx.updateWithAttrs attrs             -- :443
    let r := visitItems ctx1 children                 -- the body of the item
    (saved, ctx1 :: r.2)                              -- :603 self.skip_context = saved
def visitItems (ctx : SkipContext) : List Item → SkipContext × List SkipContext
  | [] => (ctx, [])
  | i :: is =>
    let r1 := visitItem ctx i
    let r2 := visitItems r1.1 is
    (r2.1, r1.2 ++ r2.2)
end

/-! ## The visitor's buffer as a log machine -/

/-- Rust `char::is_whitespace` (Unicode `White_Space`), what `str::trim` strips. -/
def isWhitespace (c : Char) : Bool :=
  let n := c.toNat
  (9 ≤ n && n ≤ 13) || n == 32 || n == 0x85 || n == 0xA0 || n == 0x1680 ||
  (0x2000 ≤ n && n ≤ 0x200A) || n == 0x2028 || n == 0x2029 || n == 0x202F ||
  n == 0x205F || n == 0x3000

def trimStart (s : List Char) : List Char := s.dropWhile isWhitespace
def trimEnd (s : List Char) : List Char := (s.reverse.dropWhile isWhitespace).reverse
/-- `str::trim` -/
def trim (s : List Char) : List Char := trimEnd (trimStart s)

/-- utils.rs:338-341 `count_newlines` -/
def countNl : List Char → Nat
  | [] => 0
  | c :: r => (if c = '\n' then 1 else 0) + countNl r

/-- visitor.rs:43-47 `SnippetProvider::span_to_snippet` with `start_pos = 0`:
`&big_snippet[lo..hi]`, which panics when `lo > hi` or `hi > len` (here: `none`). -/
def snippet (src : List Char) (lo hi : Nat) : Option (List Char) :=
  if lo ≤ hi ∧ hi ≤ src.length then some ((src.drop lo).take (hi - lo)) else none

/-- parse/session.rs:233 `line_of_byte_pos` = `lookup_char_pos(pos).line`: 1-based line of `pos`
in the *source* file = 1 + number of `\n` before `pos`.  (For `pos` past the end of the file rustc
looks the position up in whatever file covers it; the model counts to the end of `src`.) -/
def lineOf (src : List Char) (pos : Nat) : Nat := countNl (src.take pos) + 1

/-- visitor.rs:72-88 the four fields of `FmtVisitor` that matter here. -/
structure State where
  buffer : List Char
  lastPos : Nat
  lineNumber : Nat
  skipped : List (Nat × Nat)
  deriving DecidableEq

/-- visitor.rs:797-812: the state of a fresh visitor (`from_psess`; `format_file` then sets
`last_pos = snippet_provider.start_pos()`, nested visitors set it to where they start). -/
def State.init (lastPos : Nat) : State := ⟨[], lastPos, 0, []⟩

/-- visitor.rs:726-729 `push_str` -/
def pushStr (st : State) (s : List Char) : State :=
  { st with lineNumber := st.lineNumber + countNl s, buffer := st.buffer ++ s }

/-- missed_spans.rs:54-114 `format_missing_with_indent(end)`, abstracted: it panics when
`last_pos > end` (`assert!(start < end)`) or, for `last_pos < end`, when the snippet
`last_pos..end` does not exist; otherwise it sets `last_pos = end` and everything it writes goes
through `push_str` — the written text (blank lines, comments, indentation) is the parameter `w`. -/
def formatMissingWithIndent (src : List Char) (st : State) (endPos : Nat) (w : List Char) :
    Option State :=
  if st.lastPos = endPos then some (pushStr st w)
  else if st.lastPos > endPos then none
  else match snippet src st.lastPos endPos with
    | none => none
    | some _ => some { pushStr st w with lastPos := endPos }

/-- visitor.rs:732-740 `push_rewrite_inner(span, rewrite)`: a `None` rewrite pushes
`self.snippet(span).trim()`. -/
def pushRewriteInner (src : List Char) (st : State) (lo hi : Nat) (rw : Option (List Char)) :
    Option State :=
  match rw with
  | some s => some { pushStr st s with lastPos := hi }
  | none =>
    match snippet src lo hi with
    | none => none
    | some sn => some { pushStr st (trim sn) with lastPos := hi }

/-- visitor.rs:742-745 `push_rewrite(span, rewrite)` -/
def pushRewrite (src : List Char) (st : State) (lo hi : Nat) (w : List Char)
    (rw : Option (List Char)) : Option State :=
  match formatMissingWithIndent src st lo w with
  | none => none
  | some st1 => pushRewriteInner src st1 lo hi rw

/-- `attrs.iter().map(|a| line_of_byte_pos(a.span.hi())).max().unwrap_or(1)` (visitor.rs:755-759) -/
def attrsEnd (src : List Char) : List Nat → Nat
  | [] => 1
  | [h] => lineOf src h
  | h :: r => max (lineOf src h) (attrsEnd src r)

/-- visitor.rs:747-772 `push_skipped_with_span(attrs, item_span, main_span)` (as of /repo ed625bc,
"record skipped ranges in output line numbers").
`attrHis` = `attr.span.hi()` of each attribute; `itemLo itemHi` = `item_span`; `mainLo` =
`main_span.lo()`.  The source-side `lo = min(attrs_end + 1, line_of(main_span.lo))` is turned into
an offset from the item's first source line (`saturating_sub`, here truncated `Nat` subtraction)
and added to `self.line_number + 1` read *after* `format_missing_with_indent` and *before* the
copy; `hi` is `self.line_number + 1` after the copy.  Both are lines of *this visitor's buffer*
(a nested visitor counts from 0 where it starts).  Before ed625bc `lo` was the source line itself
(F2). -/
def pushSkipped (src : List Char) (st : State) (attrHis : List Nat) (itemLo itemHi mainLo : Nat)
    (w : List Char) : Option State :=
  match formatMissingWithIndent src st itemLo w with
  | none => none
  | some st1 =>
    let firstLine := lineOf src mainLo
    let lo := min (attrsEnd src attrHis + 1) firstLine
    let itemFirstLine := lineOf src itemLo
    let lo := st1.lineNumber + 1 + (lo - itemFirstLine)
    match pushRewriteInner src st1 itemLo itemHi none with
    | none => none
    | some st2 =>
      let hi := st2.lineNumber + 1
      some { st2 with skipped := st2.skipped ++ [(lo, hi)] }

/-- imports.rs:56-61 (an import that was merged away): `if buffer.ends_with('\n') { buffer.pop();
line_number -= 1 }`.  `line_number -= 1` on 0 is an overflow panic in a dev build. -/
def popNewline (st : State) : Option State :=
  if st.buffer.getLast? = some '\n' then
    if st.lineNumber = 0 then none
    else some { st with buffer := st.buffer.dropLast, lineNumber := st.lineNumber - 1 }
  else some st

/-- items.rs:736-741 (`reorder_impl_items = true`): `self.buffer.clear()` between impl items, with
`line_number` left as it is. -/
def clearBuffer (st : State) : State := { st with buffer := [] }

/-- The invariant asserted by formatting.rs:224-229: `line_number == count_newlines(buffer)`. -/
def State.Inv (st : State) : Prop := st.lineNumber = countNl st.buffer

instance (st : State) : Decidable st.Inv := inferInstanceAs (Decidable (_ = _))

/-- 1-based first and last line, in a text that starts with `pre`, of the piece `s` that follows. -/
def outLines (pre s : List Char) : Nat × Nat := (countNl pre + 1, countNl pre + countNl s + 1)

/-! ## Whole-file opt-outs -/

/-- What happens to one file of a run. -/
inductive Outcome where
  | format   -- `format_file` is called on it
  | skip     -- nothing is done with it: no emitter sees it, the report has no entry for it
  | echo     -- (stdin only) the input text is written to stdout and the run returns an empty report
  deriving DecidableEq, Repr

/-- The facts the decision reads, for one file of one run. -/
structure FileCase where
  innerSkip : Bool        -- `contains_skip(module.attrs())`
  disableAll : Bool       -- `config.disable_all_formatting()`
  ignored : Bool          -- the `ignore` set matches the path the text came from
  generated : Bool        -- `is_generated_file(src, config)`
  formatGenerated : Bool  -- `config.format_generated_files()`
  stdin : Bool            -- `Input::Text` / `main_file == FileName::Stdin`
  childSkip : Bool        -- `config.skip_children() && path != main_file`
  deriving DecidableEq, Repr

/-- ignore_path.rs:22-30 `is_match`: `FileName::Stdin => false`. -/
def ignoreFile (stdinPath : Bool) (setMatches : Bool) : Bool := !stdinPath && setMatches

/-- formatting.rs:60-92 `should_skip_module`.  `pathIsStdin`: the file's name is `Stdin`. -/
def shouldSkipModule (c : FileCase) : Bool :=
  if c.innerSkip then true
  else if c.childSkip then true
  else if !c.stdin && ignoreFile c.stdin c.ignored then true
  else if !c.stdin && !c.formatGenerated then
    (if c.generated then true else false)
  else false

/-- formatting.rs:30-56 + 143-160: `format_input_inner` then the `filter` and the `for` loop of
`format_project`, for one file. -/
def fileDecision (c : FileCase) : Outcome :=
  if c.disableAll then
    (if c.stdin then .echo else .skip)                        -- :40-46
  else if !(c.stdin || !shouldSkipModule c) then .skip        -- :143-146 filter
  else if c.stdin && c.innerSkip then .echo                   -- :155-157
  else .format                                                -- :159

/-- The same with the early return of formatting.rs:114-116
(`config.skip_children() && psess.ignore_file(&main_file)` ends the run before parsing):
`skipChildren`, whether this file is the main file, and whether the ignore set matches the main
file's path are separate inputs; `c.childSkip` is then `skipChildren && !isMain`. -/
def fileDecisionFull (c : FileCase) (skipChildren isMain mainIgnored : Bool) : Outcome :=
  let c' := { c with childSkip := skipChildren && !isMain }
  if c.disableAll then fileDecision c'
  else if skipChildren && ignoreFile c.stdin mainIgnored then .skip   -- :114-116
  else fileDecision c'

/-- The property's reading of "opts out as a whole", plus "is not reached" (`childSkip`). -/
def optedOut (c : FileCase) : Bool :=
  c.innerSkip || c.disableAll || c.ignored || (c.generated && !c.formatGenerated) || c.childSkip

/-! ### `is_generated_file` -/

/-- Pieces of `s` between `\n`s (the last piece possibly empty). -/
def splitNl : List Char → List (List Char)
  | [] => [[]]
  | c :: r =>
    if c = '\n' then [] :: splitNl r
    else match splitNl r with
      | [] => [[c]]
      | l :: ls => (c :: l) :: ls

/-- `needle` occurs in `hay` (`str::contains`). -/
def containsSub (needle : List Char) : List Char → Bool
  | [] => needle.isEmpty
  | c :: r => needle.isPrefixOf (c :: r) || containsSub needle r

def generatedMarker : List Char := ['@','g','e','n','e','r','a','t','e','d']

/-- formatting/generated.rs `is_generated_file`: `lines().take(limit).any(|l| l.contains("@generated"))`.
`str::lines` differs from `splitNl` only by dropping a final empty piece and a `\r` before each
`\n`, neither of which can contain or complete the marker, and by nothing else; the empty final
piece could only matter for `take` if it were not last. -/
def isGeneratedFile (src : List Char) (limit : Nat) : Bool :=
  ((splitNl src).take limit).any (containsSub generatedMarker)

end RF.Skip
