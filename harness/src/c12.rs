//! C12: diff-based reports reconstruct the formatted text exactly.
//! Correspondence of `make_diff` / `ModifiedLines` / json / checkstyle / XmlEscaped with the Lean
//! model, and the Lean oracles (`apply`, `consistentB`) evaluated on what the real code returned.
use std::path::Path;
use std::str::FromStr;

use rustfmt_nightly::verif_hooks::diff as hk;
use rustfmt_nightly::{EmitMode, ModifiedLines};
use serde_json::json;

use crate::util::*;

/// the line list the `diff` crate works on: `str::lines` plus a final "" when the text ends in '\n'
pub fn dlines(s: &str) -> Vec<String> {
    let mut v: Vec<String> = s.lines().map(|l| l.to_string()).collect();
    if s.ends_with('\n') {
        v.push(String::new());
    }
    v
}

pub fn enc_script(orig: &str, fmt: &str) -> (String, Vec<String>, Vec<String>, bool) {
    let script = diff::lines(orig, fmt);
    let mut items = vec![];
    let (mut l, mut r) = (vec![], vec![]);
    let mut all_both = true;
    for d in &script {
        match d {
            diff::Result::Left(s) => {
                items.push(format!("L{}", s));
                l.push(s.to_string());
                all_both = false;
            }
            diff::Result::Right(s) => {
                items.push(format!("R{}", s));
                r.push(s.to_string());
                all_both = false;
            }
            diff::Result::Both(s, _) => {
                items.push(format!("B{}", s));
                l.push(s.to_string());
                r.push(s.to_string());
            }
        }
    }
    (enc_list(&items), l, r, all_both)
}

pub fn enc_hunks(hs: &[hk::Hunk]) -> String {
    if hs.is_empty() {
        return "_".into();
    }
    hs.iter()
        .map(|h| {
            let items: Vec<String> = h
                .lines
                .iter()
                .map(|l| match l {
                    hk::Line::Context(s) => format!(" {}", s),
                    hk::Line::Expected(s) => format!("+{}", s),
                    hk::Line::Resulting(s) => format!("-{}", s),
                })
                .collect();
            format!("{}:{}:{}", h.line_number, h.line_number_orig, enc_list(&items))
        })
        .collect::<Vec<_>>()
        .join(";")
}

pub fn enc_chunks(ml: &ModifiedLines) -> String {
    if ml.chunks.is_empty() {
        return "_".into();
    }
    ml.chunks
        .iter()
        .map(|c| format!("{}:{}:{}", c.line_number_orig, c.lines_removed, enc_list(&c.lines)))
        .collect::<Vec<_>>()
        .join(";")
}

fn split_block_text(s: &str) -> Vec<String> {
    // each line was pushed followed by '\n'
    let mut v: Vec<String> = s.split('\n').map(|x| x.to_string()).collect();
    v.pop();
    v
}

fn unescape_xml(s: &str) -> Option<String> {
    let mut out = String::new();
    let mut rest = s;
    while let Some(c) = rest.chars().next() {
        if c == '&' {
            let mut hit = false;
            for (ent, ch) in [("&lt;", '<'), ("&gt;", '>'), ("&quot;", '"'), ("&apos;", '\''), ("&amp;", '&')] {
                if rest.starts_with(ent) {
                    out.push(ch);
                    rest = &rest[ent.len()..];
                    hit = true;
                    break;
                }
            }
            if !hit {
                return None;
            }
        } else {
            out.push(c);
            rest = &rest[c.len_utf8()..];
        }
    }
    Some(out)
}

/// `<error line="N" severity="warning" message="Should be `X`" />` elements, in order.
fn checkstyle_errors(doc: &str) -> Option<Vec<(u32, String)>> {
    let mut res = vec![];
    let mut rest = doc;
    let open = "<error line=\"";
    let mid = "\" severity=\"warning\" message=\"Should be `";
    let close = "`\" />";
    while let Some(i) = rest.find(open) {
        rest = &rest[i + open.len()..];
        let j = rest.find('"')?;
        let n: u32 = rest[..j].parse().ok()?;
        if !rest[j..].starts_with(mid) {
            return None;
        }
        rest = &rest[j + mid.len()..];
        // the message ends at the first raw double quote (escaping must guarantee there is none inside)
        let k = rest.find('"')?;
        let body = &rest[..k];
        let body = body.strip_suffix('`')?;
        if !rest[k - 1..].starts_with(close) {
            return None;
        }
        res.push((n, unescape_xml(body)?));
        rest = &rest[k + 1..];
    }
    Some(res)
}

pub struct Ctx<'a> {
    pub o: &'a mut Outcome,
    pub xml_docs: Vec<String>,
    pub json_docs: Vec<String>,
}

/// all comparisons for one pair of texts
pub fn pair_cases(cx: &mut Ctx<'_>, orig: &str, fmt: &str, ctxs: &[usize], emitters: bool, desc: &str) {
    let (script, l, r, all_both) = enc_script(orig, fmt);
    let (dl, dr) = (dlines(orig), dlines(fmt));
    let nontrivial = !all_both;
    if l != dl || r != dr || (dl == dr && !all_both) {
        cx.o.direct_failures.push(json!({"what": "assumption on the diff crate broken: script sides differ from the line lists, or equal line lists without an all-both script", "orig": orig, "fmt": fmt}));
    }
    let (el, er) = (enc_list(&dl), enc_list(&dr));
    for &c in ctxs {
        let hs = hk::make_diff(orig, fmt, c);
        let eh = enc_hunks(&hs);
        cx.o.push("corr", "diff.make", format!("diff.make {} {}", c, script), eh.clone(), format!("{} ctx={}", desc, c), nontrivial);
        cx.o.push("oracle", "diff.consistent", format!("diff.consistent {} {} {}", eh, el, er), "ok".into(), format!("{} ctx={}", desc, c), nontrivial);
        if hs.is_empty() != (dl == dr) {
            cx.o.direct_failures.push(json!({"what": "report empty but lines differ, or non-empty on equal lines", "orig": orig, "fmt": fmt, "ctx": c}));
        }
        cx.o.count(&format!("hunks={}", hs.len().min(4)));
    }
    let ml = hk::modified_lines(orig, fmt);
    let ec = enc_chunks(&ml);
    cx.o.push("corr", "diff.chunks", format!("diff.chunks {}", script), ec.clone(), desc.into(), nontrivial);
    cx.o.push("oracle", "diff.apply", format!("diff.apply {} {}", ec, el), er.clone(), desc.into(), nontrivial);
    let printed = ml.to_string();
    cx.o.push("corr", "diff.print", format!("diff.print {}", ec), enc_str(&printed), desc.into(), nontrivial);
    match ModifiedLines::from_str(&printed) {
        Ok(back) if back == ml => {}
        other => cx.o.direct_failures.push(json!({"what": "modified-lines report does not survive print/parse", "orig": orig, "fmt": fmt, "printed": printed, "parsed": format!("{:?}", other)})),
    }
    cx.o.push("corr", "diff.parse", format!("diff.parse {}", enc_str(&printed)), ec.clone(), desc.into(), nontrivial);
    if emitters {
        // modified-lines emitter prints exactly Display
        match hk::emit(EmitMode::ModifiedLines, false, false, "f.rs", orig, fmt) {
            Ok((bytes, has_diff)) => {
                if bytes != printed.as_bytes() || has_diff != !ml.chunks.is_empty() {
                    cx.o.direct_failures.push(json!({"what": "ModifiedLines emitter output differs from Display of the chunks", "orig": orig, "fmt": fmt}));
                }
            }
            Err(e) => cx.o.direct_failures.push(json!({"what": format!("emit error {}", e)})),
        }
        // json
        match hk::emit(EmitMode::Json, false, false, "f.rs", orig, fmt) {
            Ok((bytes, _)) => {
                let text = String::from_utf8_lossy(&bytes).into_owned();
                cx.json_docs.push(text.clone());
                match serde_json::from_str::<serde_json::Value>(&text) {
                    Ok(v) => {
                        let mut blocks = vec![];
                        let mut bad = false;
                        if let Some(files) = v.as_array() {
                            for f in files {
                                for b in f["mismatches"].as_array().cloned().unwrap_or_default() {
                                    let g = |k: &str| b[k].as_u64();
                                    let s = |k: &str| b[k].as_str().map(|x| x.to_string());
                                    match (g("original_begin_line"), g("original_end_line"), g("expected_begin_line"), g("expected_end_line"), s("original"), s("expected")) {
                                        (Some(a), Some(b_), Some(c), Some(d), Some(o), Some(e)) => blocks.push(format!(
                                            "{}:{}:{}:{}:{}:{}",
                                            a, b_, c, d,
                                            enc_list(&split_block_text(&o)),
                                            enc_list(&split_block_text(&e))
                                        )),
                                        _ => bad = true,
                                    }
                                }
                            }
                        } else {
                            bad = true;
                        }
                        if bad {
                            cx.o.direct_failures.push(json!({"what": "json document lacks the expected fields", "doc": text}));
                        }
                        let eb = if blocks.is_empty() { "_".to_string() } else { blocks.join(";") };
                        cx.o.push("corr", "diff.json", format!("diff.json {}", script), eb, desc.into(), nontrivial);
                    }
                    Err(e) => cx.o.direct_failures.push(json!({"what": format!("json emitter output is not well-formed: {}", e), "orig": orig, "fmt": fmt, "doc": text})),
                }
            }
            Err(e) => cx.o.direct_failures.push(json!({"what": format!("emit error {}", e)})),
        }
        // checkstyle
        match hk::emit(EmitMode::Checkstyle, false, false, "f.rs", orig, fmt) {
            Ok((bytes, _)) => {
                let text = String::from_utf8_lossy(&bytes).into_owned();
                cx.xml_docs.push(text.clone());
                match checkstyle_errors(&text) {
                    Some(errs) => {
                        let ee = if errs.is_empty() { "_".to_string() } else { errs.iter().map(|(n, s)| format!("{}:{}", n, enc_str(s))).collect::<Vec<_>>().join(";") };
                        cx.o.push("corr", "diff.checkstyle", format!("diff.checkstyle {}", script), ee, desc.into(), nontrivial);
                    }
                    None => cx.o.direct_failures.push(json!({"what": "checkstyle document does not have the expected element shape", "orig": orig, "fmt": fmt, "doc": text})),
                }
            }
            Err(e) => cx.o.direct_failures.push(json!({"what": format!("emit error {}", e)})),
        }
    }
}

fn seqs(alphabet: &[&str], maxlen: usize) -> Vec<Vec<String>> {
    let mut all: Vec<Vec<String>> = vec![vec![]];
    let mut frontier: Vec<Vec<String>> = vec![vec![]];
    for _ in 0..maxlen {
        let mut next = vec![];
        for s in &frontier {
            for a in alphabet {
                let mut t = s.clone();
                t.push(a.to_string());
                next.push(t);
            }
        }
        all.extend(next.iter().cloned());
        frontier = next;
    }
    all
}

fn texts(maxlen: usize) -> Vec<String> {
    let mut v = vec![];
    for s in seqs(&["a", "b", ""], maxlen) {
        let j = s.join("\n");
        v.push(j.clone());
        v.push(format!("{}\n", j));
    }
    v.sort();
    v.dedup();
    v
}

const HOSTILE: &[&str] = &["<", ">", "&", "\"", "'", "&amp;", "]]>", "<!--", "\\", "\u{e9}", "\u{1f98a}", "`", "\t", "\\u0000", "\u{7f}", "\u{2028}", "\u{feff}", "{", "}", "[", ",", ":", " "];

fn random_line(rng: &mut Rng) -> String {
    let n = rng.below(6);
    let mut s = String::new();
    for _ in 0..n {
        if rng.chance(1, 2) {
            s.push_str(*rng.pick(HOSTILE));
        } else {
            s.push((b'a' + rng.below(4) as u8) as char);
        }
    }
    s
}

fn random_text(rng: &mut Rng, pool: &[String]) -> String {
    let n = rng.below(9);
    let mut lines = vec![];
    for _ in 0..n {
        if rng.chance(2, 3) && !pool.is_empty() {
            lines.push(rng.pick(pool).clone());
        } else {
            lines.push(random_line(rng));
        }
    }
    let mut t = lines.join(if rng.chance(1, 8) { "\r\n" } else { "\n" });
    if rng.chance(2, 3) {
        t.push('\n');
    }
    t
}

pub fn run(tier: &str, seed: u64, out: &Path) -> i32 {
    let mut o = Outcome::new("C12", tier, seed);
    let thorough = tier == "thorough";
    let mut cx = Ctx { o: &mut o, xml_docs: vec![], json_docs: vec![] };
    // 0. corpus of past disagreements (pairs of texts, hex, one per line "orig fmt")
    if let Ok(c) = std::fs::read_to_string("/verif/corpus/c12_pairs.txt") {
        for line in c.lines() {
            let mut it = line.split_whitespace();
            if let (Some(a), Some(b)) = (it.next(), it.next()) {
                if let (Some(a), Some(b)) = (dec_str(a), dec_str(b)) {
                    pair_cases(&mut cx, &a, &b, &[0, 1, 2, 3], true, "corpus");
                }
            }
        }
    }
    // 1. exhaustive family
    let maxlen = if thorough { 5 } else { 3 };
    let ts = texts(maxlen);
    cx.o.count_n("exhaustive_texts", ts.len() as u64);
    for (i, a) in ts.iter().enumerate() {
        for (j, b) in ts.iter().enumerate() {
            // emitters (json/checkstyle documents) on a sub-lattice in thorough to bound the time
            let emit = !thorough || (i + j) % 7 == 0;
            pair_cases(&mut cx, a, b, &[0, 1, 2, 3], emit, "exhaustive");
        }
    }
    // 2. real source/formatted pairs from the repo's fixtures
    let repo = repo_dir();
    let mut real = 0;
    if let Ok(rd) = std::fs::read_dir(repo.join("tests/source")) {
        let mut names: Vec<_> = rd.flatten().map(|e| e.path()).filter(|p| p.extension().map(|e| e == "rs").unwrap_or(false)).collect();
        names.sort();
        let limit = if thorough { names.len() } else { 60 };
        let mut rng = Rng::new(seed ^ 0xc12);
        while real < limit && !names.is_empty() {
            let p = if thorough { names[real].clone() } else { names.remove(rng.below(names.len())) };
            real += 1;
            let t = repo.join("tests/target").join(p.file_name().unwrap());
            if let (Ok(a), Ok(b)) = (std::fs::read_to_string(&p), std::fs::read_to_string(&t)) {
                pair_cases(&mut cx, &a, &b, &[0, 3], true, &format!("fixture {}", p.file_name().unwrap().to_string_lossy()));
                cx.o.count("real_pairs");
            }
        }
    }
    // 3. random texts with XML/JSON-hostile characters (no C0 control characters other than tab:
    //    those are the enumerated known finding below)
    let mut rng = Rng::new(seed ^ 0x5eed_c12);
    let n_random = if thorough { 6000 } else { 800 };
    for k in 0..n_random {
        let pool: Vec<String> = (0..4).map(|_| random_line(&mut rng)).collect();
        let a = random_text(&mut rng, &pool);
        let b = random_text(&mut rng, &pool);
        if k < 3 {
            cx.o.sample(json!({"family": "hostile", "orig": a, "fmt": b}));
        }
        pair_cases(&mut cx, &a, &b, &[0, rng.below(4)], true, "hostile");
    }
    // 4. XmlEscaped on its own
    for _ in 0..(if thorough { 5000 } else { 500 }) {
        let s = random_line(&mut rng) + &random_line(&mut rng);
        let e = hk::xml_escape(&s);
        cx.o.push("corr", "diff.xml", format!("diff.xml {}", enc_str(&s)), enc_str(&e), "xml".into(), !s.is_empty());
        cx.o.push("oracle", "diff.unxml", format!("diff.unxml {}", enc_str(&e)), enc_str(&s), "xml".into(), !s.is_empty());
    }
    // 5. FromStr on malformed and borderline reports
    let pieces = ["1", "0", "2", "+3", "4294967295", "4294967296", "-1", "x", "", " ", "  ", "\t", "1 1 1", "1 0 2", "2 1 0", "a b c", "1 1", "1 1 1 1", "\r", "18446744073709551616", "00", "1_0", "\u{a0}", "\u{3000}1"];
    for _ in 0..(if thorough { 20000 } else { 2000 }) {
        let nl = rng.below(6);
        let mut s = String::new();
        for _ in 0..nl {
            let np = rng.range(1, 4);
            let mut parts = vec![];
            for _ in 0..np {
                parts.push(*rng.pick(&pieces));
            }
            s.push_str(&parts.join(if rng.chance(1, 5) { "  " } else { " " }));
            if rng.chance(5, 6) {
                s.push('\n');
            }
        }
        let r = match ModifiedLines::from_str(&s) {
            Ok(ml) => enc_chunks(&ml),
            Err(()) => "err".to_string(),
        };
        cx.o.count(if r == "err" { "parse_err" } else { "parse_ok" });
        cx.o.push("corr", "diff.parse", format!("diff.parse {}", enc_str(&s)), r, "fromstr".into(), true);
    }
    // 6. enumerated known-dirty input (F11): a C0 control character in a changed line
    {
        let (a, b) = ("x\n", "a\u{c}b\n");
        if let Ok((bytes, _)) = hk::emit(EmitMode::Checkstyle, false, false, "f.rs", a, b) {
            std::fs::create_dir_all(out).ok();
            std::fs::write(out.join("xml_known_f11.txt"), enc_bytes(&bytes)).ok();
        }
    }
    // documents for the independent well-formedness check done by the driver (python expat / json)
    std::fs::create_dir_all(out).ok();
    let dump = |docs: &Vec<String>, name: &str| {
        let mut uniq: Vec<&String> = docs.iter().collect();
        uniq.sort();
        uniq.dedup();
        let body: String = uniq.iter().map(|d| format!("{}\n", enc_str(d))).collect();
        std::fs::write(out.join(name), body).ok();
    };
    let (xml_docs, json_docs) = (std::mem::take(&mut cx.xml_docs), std::mem::take(&mut cx.json_docs));
    drop(cx);
    dump(&xml_docs, "xml_docs.txt");
    dump(&json_docs, "json_docs.txt");
    o.exhaustive = true;
    o.notes.push(format!("exhaustive family: all pairs of texts made of line sequences of length <= {} over {{a, b, empty}} with and without final newline, contexts 0..3", maxlen));
    o.finish(out, jobs())
}
