//! C19: rustfmt-format-diff turns a patch into exactly the lines it added.
//! Hook-free: the real `rustfmt-format-diff` binary (dev profile, built from the working tree) is run
//! with `RUSTFMT` pointing at a recording stand-in (`tools/record_rustfmt.sh`); what the stand-in
//! received is compared with the Lean model (`fd.scan`, `fd.run`), with the Lean unified-diff
//! specification (`fd.spec`, on inputs that meet `fd.hyp`), and with ranges computed independently
//! from the two file-tree versions the diff was made from (`diff -U<n> -r -N` / `git diff --no-index`).
//! The two pattern literals are also compared line by line with the real `regex` engine in-process.
use std::collections::{BTreeMap, BTreeSet};
use std::path::{Path, PathBuf};
use std::process::Command;
use std::time::Duration;

use regex::Regex;
use serde_json::{json, Value};

use crate::util::*;

// ------------------------------------------------------------------ locations

fn verif_dir() -> PathBuf {
    if let Some(d) = std::env::var_os("VERIF_DIR") {
        return PathBuf::from(d);
    }
    // <verif>/.build/target/debug/rfverif
    if let Ok(exe) = std::env::current_exe() {
        if let Some(d) = exe.ancestors().nth(4) {
            if d.join("tools").is_dir() {
                return d.to_path_buf();
            }
        }
    }
    std::env::current_dir().unwrap_or_else(|_| PathBuf::from("/verif"))
}

fn format_diff_bin() -> PathBuf {
    verif_dir().join(".build/repo-target/debug/rustfmt-format-diff")
}

fn recorder() -> PathBuf {
    verif_dir().join("tools/record_rustfmt.sh")
}

/// Which hunk pattern the model must be run with: what the translator wrote into
/// `RF/Gen/DiffPatterns.lean` (the file the theorems of `RF.Props.C19cur` are about).
fn lazy_of_generated() -> Option<bool> {
    let lean = rfmodel_path().ancestors().nth(4)?.to_path_buf();
    let t = std::fs::read_to_string(lean.join("RF/Gen/DiffPatterns.lean")).ok()?;
    if t.contains("def hunkIsLazy : Bool := true") {
        Some(true)
    } else if t.contains("def hunkIsLazy : Bool := false") {
        Some(false)
    } else {
        None
    }
}

/// The two pattern literals as they stand in the source (for the in-process line correspondence).
fn source_patterns() -> Option<(String, String)> {
    let src = std::fs::read_to_string(repo_dir().join("src/format-diff/main.rs")).ok()?;
    let grab = |after: &str| -> Option<String> {
        let i = src.find(after)? + after.len();
        let rest = &src[i..];
        let a = rest.find("r\"")? + 2;
        let b = rest[a..].find('"')? + a;
        Some(rest[a..b].to_string())
    };
    Some((grab("let diff_pattern = format!(")?, grab("let lines_pattern = Regex::new(")?))
}

// ------------------------------------------------------------------ running the tool

#[derive(Clone, Copy, Debug, PartialEq, Eq)]
enum Mode {
    Ok,
    Fail,
    SpawnErr,
}

struct Run {
    code: Option<i32>,
    calls: Vec<Vec<String>>,
    timed_out: bool,
    stderr: String,
}

fn run_fd(text: &[u8], p: &str, filter: Option<&str>, mode: Mode, rec: &Path) -> Run {
    let _ = std::fs::remove_file(rec);
    let mut cmd = Command::new(format_diff_bin());
    cmd.arg("-p").arg(p);
    if let Some(f) = filter {
        cmd.arg("-f").arg(f);
    }
    cmd.env_remove("RUSTFMT_LOG").env_remove("RUST_LOG").env("VERIF_RECORD", rec);
    match mode {
        Mode::Ok => {
            cmd.env("RUSTFMT", recorder()).env("VERIF_RECORD_STATUS", "0");
        }
        Mode::Fail => {
            cmd.env("RUSTFMT", recorder()).env("VERIF_RECORD_STATUS", "3");
        }
        Mode::SpawnErr => {
            cmd.env("RUSTFMT", "/nonexistent/verif-no-such-rustfmt");
        }
    }
    let r = run_cmd(&mut cmd, text, Duration::from_secs(20));
    let mut calls = vec![];
    if let Ok(t) = std::fs::read_to_string(rec) {
        let mut cur: Option<Vec<String>> = None;
        for l in t.split('\n') {
            if l == "call" {
                cur = Some(vec![]);
            } else if l == "end" {
                if let Some(c) = cur.take() {
                    calls.push(c);
                }
            } else if let Some(a) = l.strip_prefix("arg ") {
                if let Some(c) = cur.as_mut() {
                    c.push(a.to_string());
                }
            } else if l == "arg" {
                if let Some(c) = cur.as_mut() {
                    c.push(String::new());
                }
            }
        }
    }
    let _ = std::fs::remove_file(rec);
    Run { code: r.code, calls, timed_out: r.timed_out, stderr: r.stderr }
}

/// (file arguments, ranges in JSON-array order) of one recorded call; None = not of the expected shape
fn parse_call(args: &[String]) -> Option<(Vec<String>, Vec<(String, u64, u64)>)> {
    if args.len() < 2 || args[args.len() - 2] != "--file-lines" {
        return None;
    }
    let files = args[..args.len() - 2].to_vec();
    let v: Value = serde_json::from_str(&args[args.len() - 1]).ok()?;
    let mut ranges = vec![];
    for e in v.as_array()? {
        let o = e.as_object()?;
        if o.len() != 2 {
            return None;
        }
        let f = o.get("file")?.as_str()?.to_string();
        let r = o.get("range")?.as_array()?;
        if r.len() != 2 {
            return None;
        }
        ranges.push((f, r[0].as_u64()?, r[1].as_u64()?));
    }
    Some((files, ranges))
}

/// the model's `ranges` encoding: consecutive ranges of the same file share a group
fn enc_ranges(rs: &[(String, u64, u64)]) -> String {
    if rs.is_empty() {
        return "_".into();
    }
    let mut groups: Vec<(String, Vec<String>)> = vec![];
    for (f, a, b) in rs {
        match groups.last_mut() {
            Some((g, l)) if g == f => l.push(format!("{}-{}", a, b)),
            _ => groups.push((f.clone(), vec![format!("{}-{}", a, b)])),
        }
    }
    groups.iter().map(|(f, l)| format!("{}:{}", enc_str(f), l.join(","))).collect::<Vec<_>>().join(";")
}

// ------------------------------------------------------------------ the user's filter, extensionally

/// The filter argument of the model: `bad` when `^{filter}$` does not compile, `*` for `.*`, else
/// the list of every name the scanner could possibly ask about (every maximal non-blank run that
/// starts anywhere in a line beginning with `+++`) that the REAL engine accepts.
fn filter_arg(filter: &str, text: &[u8]) -> String {
    let re = match Regex::new(&format!("^{}$", filter)) {
        Ok(r) => r,
        Err(_) => return "bad".into(),
    };
    if filter == ".*" {
        return "*".into();
    }
    let text = match std::str::from_utf8(text) {
        Ok(t) => t,
        Err(_) => return "_".into(),
    };
    let run = Regex::new(r"^\S*").unwrap();
    let mut names = BTreeSet::new();
    for line in text.split('\n') {
        if !line.starts_with("+++") {
            continue;
        }
        for (i, _) in line.char_indices().skip(3) {
            let m = run.find(&line[i..]).map(|m| m.as_str()).unwrap_or("");
            names.insert(m.to_string());
        }
        names.insert(String::new());
    }
    let acc: Vec<String> = names.into_iter().filter(|n| re.is_match(n)).collect();
    enc_list(&acc)
}

// ------------------------------------------------------------------ file-tree versions

#[derive(Clone, Debug)]
struct FileV {
    /// path in version A / version B (relative to the tree root); None = absent in that version
    a_path: Option<String>,
    b_path: Option<String>,
    a: Vec<String>, // lines WITH their terminators
    b: Vec<String>,
    kind: &'static str,
}

const DIRS: &[&str] = &["", "", "src/", "src/m/", "tests/", "src/bin/"];
const NAMES: &[&str] = &["x.rs", "lib.rs", "mod.rs", "y.rs.in", "notes.txt", "z.hpp", "main.rs", "util.rs", "x.rs.orig"];

fn fresh_line(rng: &mut Rng, tag: &str, k: usize) -> String {
    // no `+digit`, never starts with `++` + blank; otherwise shapes that tease the scanner
    match rng.below(9) {
        0 => format!("fn {}_{}() {{", tag, k),
        1 => format!("    let {}_{} = a + b - {};", tag, k, k),
        2 => format!("-- {}_{} a/old.rs", tag, k),
        3 => format!("@@ -1,2 +x,y @@ {}_{}", tag, k),
        4 => format!("+ {}_{} plus", tag, k),
        5 => format!("// {}_{} +++ not a header", tag, k),
        6 => format!("\t{}_{}\t(tab)", tag, k),
        7 => format!("{}_{} trailing  ", tag, k),
        _ => format!("let {}_{} = {};", tag, k, k),
    }
}

fn gen_tree(rng: &mut Rng, git: bool) -> Vec<FileV> {
    let n = rng.range(1, 4);
    let mut used = BTreeSet::new();
    let mut files = vec![];
    for fid in 0..n {
        let mut path;
        loop {
            path = format!("{}{}", rng.pick(DIRS), rng.pick(NAMES));
            if used.insert(path.clone()) {
                break;
            }
        }
        let kind = match rng.below(10) {
            0 => "new",
            1 => "deleted",
            2 if git => "renamed",
            3 => "unchanged",
            _ => "modified",
        };
        let len = if kind == "renamed" { rng.range(10, 16) } else { rng.range(1, 14) };
        let mut a: Vec<String> = (0..len).map(|i| format!("{}\n", fresh_line(rng, &format!("f{}", fid), i))).collect();
        let mut b: Vec<String> = vec![];
        match kind {
            "new" => {
                b = a.clone();
                a.clear();
            }
            "deleted" => {}
            "unchanged" => b = a.clone(),
            _ => {
                // edit script: per position of A keep / delete / replace, insertions before it
                let max_edits = if kind == "renamed" { rng.range(0, 2) } else { rng.range(1, 4) };
                let mut edits = 0;
                let mut fresh = 0;
                let ins = |b: &mut Vec<String>, rng: &mut Rng, fresh: &mut usize| {
                    for _ in 0..rng.range(1, 3) {
                        b.push(format!("{}\n", fresh_line(rng, &format!("n{}", fid), *fresh)));
                        *fresh += 1;
                    }
                };
                // additions at the first line get their own weight
                if edits < max_edits && rng.chance(1, 5) {
                    ins(&mut b, rng, &mut fresh);
                    edits += 1;
                }
                let mut i = 0;
                while i < a.len() {
                    if edits < max_edits && rng.chance(1, 4) {
                        edits += 1;
                        match rng.below(3) {
                            0 => {
                                // insertion before line i
                                ins(&mut b, rng, &mut fresh);
                                b.push(a[i].clone());
                                i += 1;
                            }
                            1 => {
                                // pure deletion of 1..3 lines
                                i += rng.range(1, 3).min(a.len() - i);
                            }
                            _ => {
                                // replacement
                                i += rng.range(1, 2).min(a.len() - i);
                                ins(&mut b, rng, &mut fresh);
                            }
                        }
                    } else {
                        b.push(a[i].clone());
                        i += 1;
                    }
                }
                // additions at the last line
                if edits < max_edits || (kind == "modified" && b == a) {
                    ins(&mut b, rng, &mut fresh);
                }
            }
        }
        // final line without a newline, on either side
        if !b.is_empty() && rng.chance(1, 8) {
            let l = b.last_mut().unwrap();
            l.pop();
        }
        if !a.is_empty() && kind != "unchanged" && rng.chance(1, 12) {
            let l = a.last_mut().unwrap();
            l.pop();
        }
        let (a_path, b_path) = match kind {
            "new" => (None, Some(path.clone())),
            "deleted" => (Some(path.clone()), None),
            "renamed" => {
                let mut np;
                loop {
                    np = format!("{}{}", rng.pick(DIRS), rng.pick(NAMES));
                    if used.insert(np.clone()) {
                        break;
                    }
                }
                (Some(path.clone()), Some(np))
            }
            _ => (Some(path.clone()), Some(path.clone())),
        };
        files.push(FileV { a_path, b_path, a, b, kind });
    }
    files
}

/// Post-image ranges of the hunks a unified diff with `c` context lines must have for the pair
/// (a, b), derived from the two versions only.  Every line is unique within its file and kept lines
/// keep their order, so the alignment is forced.  Two changes share a hunk when at most 2c common
/// lines separate them (GNU diff `find_hunk`, git `xdl_get_hunk`).
fn expected_hunks(a: &[String], b: &[String], c: usize) -> Vec<(u64, u64)> {
    let pos_a: BTreeMap<&str, usize> = a.iter().enumerate().map(|(i, l)| (l.as_str(), i)).collect();
    // changes: (a_start, a_len, b_start, b_len)
    let mut changes: Vec<(usize, usize, usize, usize)> = vec![];
    let (mut i, mut j) = (0usize, 0usize);
    while i < a.len() || j < b.len() {
        if i < a.len() && j < b.len() && a[i] == b[j] {
            i += 1;
            j += 1;
            continue;
        }
        // extent of the change: B lines that are not in A, A lines up to the next kept one
        let (i0, j0) = (i, j);
        while j < b.len() && !pos_a.contains_key(b[j].as_str()) {
            j += 1;
        }
        let next_a = if j < b.len() { pos_a[b[j].as_str()] } else { a.len() };
        i = next_a.max(i);
        changes.push((i0, i - i0, j0, j - j0));
    }
    let mut res = vec![];
    let mut k = 0;
    while k < changes.len() {
        let first = changes[k];
        let mut last = changes[k];
        while k + 1 < changes.len() {
            let nx = changes[k + 1];
            let gap = nx.2 - (last.2 + last.3);
            if gap <= 2 * c {
                last = nx;
                k += 1;
            } else {
                break;
            }
        }
        k += 1;
        let lo = first.2.saturating_sub(c);
        let hi = (last.2 + last.3 + c).min(b.len());
        if hi > lo {
            res.push((lo as u64 + 1, hi as u64));
        }
    }
    res
}

fn strip_components(path: &str, p: usize) -> Option<String> {
    let mut s = path;
    for _ in 0..p {
        let i = s.find('/')?;
        s = &s[i + 1..];
    }
    Some(s.to_string())
}

struct DiffCase {
    text: Vec<u8>,
    tool: &'static str,
    context: usize,
    /// post-image header paths as the tool prints them (before -p stripping) with their expected hunks
    posts: Vec<(String, Vec<(u64, u64)>)>,
    files: Vec<FileV>,
    min_components: usize,
    /// per file: (generated as a rename, the tool reported a rename)
    renames: Vec<(bool, bool)>,
}

fn write_tree(root: &Path, files: &[FileV]) {
    for (side, pick) in [("a", 0), ("b", 1)] {
        let d = root.join(side);
        std::fs::create_dir_all(&d).ok();
        for f in files {
            let (p, lines) = if pick == 0 { (&f.a_path, &f.a) } else { (&f.b_path, &f.b) };
            if let Some(p) = p {
                let fp = d.join(p);
                if let Some(par) = fp.parent() {
                    std::fs::create_dir_all(par).ok();
                }
                std::fs::write(fp, lines.concat()).ok();
            }
        }
    }
}

fn make_diff(root: &Path, files: Vec<FileV>, git: bool, context: usize) -> Option<DiffCase> {
    let _ = std::fs::remove_dir_all(root);
    write_tree(root, &files);
    let mut cmd;
    if git {
        cmd = Command::new("git");
        cmd.current_dir(root).env("HOME", root).env("XDG_CONFIG_HOME", root).env("GIT_CONFIG_NOSYSTEM", "1").env_remove("GIT_DIR").env_remove("GIT_CONFIG_GLOBAL");
        cmd.args(["-c", "core.quotepath=false", "diff", "--no-index", "--no-color", "--no-ext-diff", "-M"]).arg(format!("-U{}", context)).arg("a").arg("b");
    } else {
        cmd = Command::new("diff");
        cmd.current_dir(root).arg(format!("-U{}", context)).arg("-r").arg("-N").arg("a").arg("b");
    }
    let r = run_cmd(&mut cmd, b"", Duration::from_secs(20));
    let _ = std::fs::remove_dir_all(root);
    if r.timed_out || !(r.code == Some(0) || r.code == Some(1)) {
        return None;
    }
    let text = r.stdout;
    let ttext = String::from_utf8_lossy(&text).into_owned();
    let (pa, pb) = if git { ("a/a/", "b/b/") } else { ("a/", "b/") };
    let mut posts = vec![];
    let mut renames = vec![];
    let mut min_components = usize::MAX;
    for f in &files {
        let renamed_detected = f.kind == "renamed" && git && ttext.contains(&format!("rename to b/{}\n", f.b_path.as_ref().unwrap()));
        renames.push((f.kind == "renamed", renamed_detected));
        match (&f.a_path, &f.b_path) {
            (_, Some(bp)) => {
                let hunks = if f.kind == "renamed" && !renamed_detected {
                    // delete + add: the whole new file is one hunk
                    expected_hunks(&[], &f.b, context)
                } else {
                    expected_hunks(&f.a, &f.b, context)
                };
                let hp = format!("{}{}", pb, bp);
                min_components = min_components.min(hp.matches('/').count());
                posts.push((hp, hunks));
                if f.kind == "renamed" && !renamed_detected && !git {
                    // GNU diff -N prints the vanished old path with a `+++ b/old` header too
                    min_components = min_components.min(format!("{}{}", pb, f.a_path.as_ref().unwrap()).matches('/').count());
                }
            }
            (Some(ap), None) => {
                // deleted: `+++ b/path` (GNU -N) or `+++ /dev/null` (git); never a non-empty post-image
                let hp = if git { "/dev/null".to_string() } else { format!("{}{}", pb, ap) };
                min_components = min_components.min(hp.matches('/').count());
            }
            _ => {}
        }
        if f.kind == "renamed" && git && !renamed_detected {
            min_components = min_components.min(2); // `+++ /dev/null` of the deleted half
        }
    }
    let _ = pa;
    Some(DiffCase { text, tool: if git { "git" } else { "gnu" }, context, posts, files, min_components, renames })
}

// ------------------------------------------------------------------ malformed stream

const MAL: &[&str] = &[
    "+++ ", "+++\t", "+++\u{a0}", "+++\u{3000}", "+++", "++ ", "--- a/x.rs", "@@", "@@ ", "@@ -1,2 +3,4 @@", "@@ -1 +1 @@", "+5", "+\u{663}", "+1\u{661}", ",", "0", "7", "12", "007", "/", "a/", "b/src/", "x.rs", "y.rs.in", " ", "\t", "\u{3000}", "\u{2003}", "\r", "+4294967295", "+4294967296", "+4294967294,2", "+4294967290,5", ",0", ",00", ",\u{660}", "+0", "+0,0", "@@@", "@ @", "\\ No newline at end of file", "diff --git a/x.rs b/x.rs", "index 1..2", "-", "+", "x", "é", "fn f() { x +7 }", "+++ b/x.rs", "+++ b/src/lib.rs\t2026-01-01", "+++ /dev/null", "\u{85}", "\u{b}",
];

fn gen_mal_line(rng: &mut Rng, li: usize, out: &mut Vec<u8>) {
    let junk = |rng: &mut Rng, out: &mut Vec<u8>, n: usize| {
        for _ in 0..n {
            out.extend_from_slice(rng.pick(MAL).as_bytes());
        }
    };
    {
        match rng.below(10) {
            // most streams start with a header that passes the default filter, so that later lines count
            _ if li == 0 && rng.chance(2, 3) => out.extend_from_slice(rng.pick(&["+++ b/x.rs", "+++ x.rs", "+++\tb/src/lib.rs", "+++ a/b/c/d/x.rs"][..]).as_bytes()),
            // a header-like line
            0 | 1 => {
                out.extend_from_slice(rng.pick(&["+++ ", "+++\t", "+++\u{a0}", "+++", "++ ", "+++  "][..]).as_bytes());
                for _ in 0..rng.below(4) {
                    out.extend_from_slice(rng.pick(&["a/", "b/", "src/", "/", "x y/", "\u{3000}/", "é/"][..]).as_bytes());
                }
                out.extend_from_slice(rng.pick(&["x.rs", "lib.rs", "y.rs.in", "x.rs.orig", "", "x.rs\t2026-01-01 00:00:00 +0000", "x.rs\u{a0}y", "dev/null"][..]).as_bytes());
                let n = rng.below(2);
                junk(rng, out, n);
            }
            // a hunk-like line: `@@`, junk, `+digits[,digits]`, junk
            2 | 3 | 4 | 5 => {
                out.extend_from_slice(rng.pick(&["@@", "@@ ", "@@ -1,2 ", "@@ -3 ", "@@@ -1 -1 ", "@ @", " @@"][..]).as_bytes());
                let n = rng.below(2);
                junk(rng, out, n);
                out.extend_from_slice(rng.pick(&["+", "+", "+", "", "++", "+ "][..]).as_bytes());
                out.extend_from_slice(rng.pick(&["1", "7", "12", "0", "007", "4294967295", "4294967296", "4294967290", "99999999999999999999", "\u{663}", "1\u{661}", ""][..]).as_bytes());
                out.extend_from_slice(rng.pick(&["", "", ",0", ",1", ",3", ",00", ",", ",\u{660}", ",4294967295", ",6", ", 2", ",2,3"][..]).as_bytes());
                out.extend_from_slice(rng.pick(&[" @@", "", " @@ fn f() { x +7 }", " @@ a +b", "@@", " +2,2 @@"][..]).as_bytes());
                let n = rng.below(2);
                junk(rng, out, n);
            }
            _ => {
                let n = rng.range(0, 5);
                junk(rng, out, n);
            }
        }
    }
}

fn gen_malformed(rng: &mut Rng) -> Vec<u8> {
    let mut out: Vec<u8> = vec![];
    let nl = rng.range(1, 8);
    for li in 0..nl {
        gen_mal_line(rng, li, &mut out);
        if rng.chance(1, 80) {
            out.push(*rng.pick(&[0xffu8, 0xc3, 0x80]));
        }
        if li + 1 < nl || rng.chance(3, 4) {
            if rng.chance(1, 10) {
                out.push(b'\r');
            }
            out.push(b'\n');
        }
    }
    out
}

// ------------------------------------------------------------------ one case

struct Case {
    text: Vec<u8>,
    p: String,
    filter: Option<String>,
    extra: Option<Mode>,
    desc: String,
    /// independent expectation: file -> ranges (None when it does not apply to this case)
    indep: Option<BTreeMap<String, Vec<(u64, u64)>>>,
    stream: &'static str,
}

struct Observed {
    ok: Run,
    extra: Option<Run>,
}

pub fn run(tier: &str, seed: u64, out: &Path) -> i32 {
    let mut o = Outcome::new("C19", tier, seed);
    let thorough = tier == "thorough";
    let mut rng = Rng::new(seed ^ 0xc19);
    std::fs::create_dir_all(out).ok();
    let work = out.join("c19work");
    let _ = std::fs::remove_dir_all(&work);
    std::fs::create_dir_all(&work).ok();

    if !format_diff_bin().exists() {
        o.direct_failures.push(json!({"sig": "c19:no-binary", "what": format!("{} not built (needs_bins)", format_diff_bin().display())}));
        return o.finish(out, jobs());
    }
    let lazy = match lazy_of_generated() {
        Some(l) => l,
        None => {
            o.direct_failures.push(json!({"sig": "c19:no-generated-pattern", "what": "RF/Gen/DiffPatterns.lean not found or not understood"}));
            return o.finish(out, jobs());
        }
    };
    let lz = if lazy { "1" } else { "0" };
    o.notes.push(format!("hunk pattern of the working tree per translator: {}", if lazy { "lazy (repaired)" } else { "greedy (pinned)" }));

    // ---- 0. the two pattern literals, line by line, against the real regex engine (in-process)
    match source_patterns() {
        Some((hp, lp)) => {
            let n_lines = if thorough { 60000 } else { 8000 };
            let lre = Regex::new(&lp).unwrap();
            let hres: Vec<Regex> = (0..4).map(|k| Regex::new(&hp.replace("{{{skip_prefix}}}", &format!("{{{}}}", k))).unwrap()).collect();
            let lazy_src = lp.contains(".*?");
            if lazy_src != lazy {
                o.direct_failures.push(json!({"sig": "c19:generated-pattern-stale", "what": "RF/Gen/DiffPatterns.lean disagrees with the source about the hunk pattern"}));
            }
            for _ in 0..n_lines {
                let mut lb = vec![];
                gen_mal_line(&mut rng, 1, &mut lb);
                let line: String = String::from_utf8_lossy(&lb).chars().filter(|c| *c != '\n').collect();
                let k = rng.below(4);
                let h = hres[k].captures(&line).map(|c| enc_str(c.get(1).unwrap().as_str())).unwrap_or_else(|| "none".into());
                o.push("corr", "fd.header", format!("fd.header {} {}", k, enc_str(&line)), h.clone(), "pattern literal of the source run by regex 1.7".into(), h != "none");
                let l = lre
                    .captures(&line)
                    .map(|c| format!("{}:{}", enc_str(c.get(1).unwrap().as_str()), c.get(3).map(|m| enc_str(m.as_str())).unwrap_or_else(|| "none".into())))
                    .unwrap_or_else(|| "none".into());
                o.push("corr", "fd.hunk", format!("fd.hunk {} {}", lz, enc_str(&line)), l.clone(), "pattern literal of the source run by regex 1.7".into(), l != "none");
            }
        }
        None => o.notes.push("pattern literals not found in the source: in-process line correspondence skipped".into()),
    }

    // ---- 1. cases
    let mut cases: Vec<Case> = vec![];
    let n_tree = if thorough { 20000 } else { 3000 };
    let trees: Vec<(Vec<FileV>, bool, usize, Rng)> = (0..n_tree)
        .map(|_| {
            let git = rng.chance(1, 2);
            let t = gen_tree(&mut rng, git);
            (t, git, rng.below(4), rng.fork())
        })
        .collect();
    let idx: Vec<usize> = (0..trees.len()).collect();
    let diffs: Vec<Option<DiffCase>> = par_map(&idx, |i| {
        let (t, git, c, _) = &trees[*i];
        make_diff(&work.join(format!("t{}", i)), t.clone(), *git, *c)
    });
    for (i, d) in diffs.into_iter().enumerate() {
        let mut r = trees[i].3.clone();
        let d = match d {
            Some(d) => d,
            None => {
                o.count("tree:diff-tool-failed");
                continue;
            }
        };
        o.count(&format!("tree:tool={}", d.tool));
        o.count(&format!("tree:context={}", d.context));
        o.count(&format!("tree:files={}", d.files.len()));
        for f in &d.files {
            o.count(&format!("tree:file-kind={}", f.kind));
        }
        for (r, det) in &d.renames {
            if *r {
                o.count(if *det { "tree:rename-reported-by-git" } else { "tree:rename-shown-as-delete+add" });
            }
        }
        let nh: usize = d.posts.iter().map(|(_, h)| h.len()).sum();
        o.count(&format!("tree:hunks={}", nh.min(6)));
        let natural = if d.tool == "git" { 2 } else { 1 };
        let variants = if thorough { 3 } else { 2 };
        for v in 0..variants {
            let p = if v == 0 || r.chance(1, 2) { natural } else { r.below(4) };
            // names after stripping (when every header has enough components)
            let names: Vec<String> = d.posts.iter().filter_map(|(hp, _)| strip_components(hp, p)).collect();
            let (fkind, filter): (&str, Option<String>) = match r.below(9) {
                0 => ("default(no -f)", None),
                1 => ("default", Some(r".*\.rs".into())),
                2 => ("rs|rs.in", Some(r".*\.(rs|rs\.in)".into())),
                3 if !names.is_empty() => ("literal", Some(regex::escape(r.pick(&names[..]).as_str()))),
                4 if names.len() >= 2 => ("alternation", Some(format!("({}|{})", regex::escape(&names[0]), regex::escape(&names[1])))),
                5 => ("all", Some(".*".into())),
                6 => ("dir", Some(r"src/.*".into())),
                7 => ("toplevel", Some(r"[^/]*\.rs".into())),
                _ => ("default", Some(r".*\.rs".into())),
            };
            o.count(&format!("tree:p={}{}", p, if p > d.min_components { "(too large for a header)" } else { "" }));
            o.count(&format!("tree:filter={}", fkind));
            let indep = if p <= d.min_components {
                let eff = filter.clone().unwrap_or_else(|| r".*\.rs".into());
                let re = Regex::new(&format!("^(?:{})$", eff)).unwrap();
                let mut m = BTreeMap::new();
                let mut collision = false;
                for (hp, hunks) in &d.posts {
                    let name = strip_components(hp, p).unwrap();
                    if re.is_match(&name) && !hunks.is_empty() {
                        // two files that get the same name after stripping: the expectation would
                        // depend on the order in which the tool lists them; left to model-vs-code
                        collision |= m.insert(name, hunks.clone()).is_some();
                    }
                }
                if collision {
                    o.count("indep:skipped(name collision after stripping)");
                    None
                } else {
                    Some(m)
                }
            } else {
                None
            };
            let extra = match r.below(6) {
                0 => Some(Mode::Fail),
                1 => Some(Mode::SpawnErr),
                _ => None,
            };
            cases.push(Case { text: d.text.clone(), p: p.to_string(), filter, extra, desc: format!("{} -U{} files={} p={} filter={}", d.tool, d.context, d.files.len(), p, fkind), indep, stream: "tree" });
        }
    }
    let n_mal = if thorough { 40000 } else { 6000 };
    for _ in 0..n_mal {
        let text = gen_malformed(&mut rng);
        let p = rng.below(4);
        let filter = match rng.below(8) {
            0 => None,
            1 => Some(".*".to_string()),
            2 => Some("(".to_string()),
            3 => Some(r"x\.rs|lib\.rs".to_string()),
            4 => Some(r"\S*".to_string()),
            _ => Some(r".*\.rs".to_string()),
        };
        let extra = match rng.below(8) {
            0 => Some(Mode::Fail),
            1 => Some(Mode::SpawnErr),
            _ => None,
        };
        cases.push(Case { text, p: p.to_string(), filter, extra, desc: "malformed".into(), indep: None, stream: "malformed" });
    }

    // ---- 2. run the real binary
    let idx: Vec<usize> = (0..cases.len()).collect();
    let obs: Vec<Observed> = par_map(&idx, |i| {
        let c = &cases[*i];
        let rec = work.join(format!("r{}.rec", i));
        let ok = run_fd(&c.text, &c.p, c.filter.as_deref(), Mode::Ok, &rec);
        let extra = c.extra.map(|m| run_fd(&c.text, &c.p, c.filter.as_deref(), m, &rec));
        Observed { ok, extra }
    });

    // ---- 3. compare
    // first the hypotheses of the theorem, to know where the specification is owed
    let hyp_reqs: Vec<String> = cases.iter().map(|c| format!("fd.hyp {} {} {}", lz, c.p, enc_bytes(&c.text))).collect();
    let hyps = run_model(&hyp_reqs, jobs());
    for ((c, ob), hyp) in cases.iter().zip(obs.iter()).zip(hyps.iter()) {
        if ob.ok.timed_out || ob.extra.as_ref().map(|e| e.timed_out).unwrap_or(false) {
            o.count("timeout");
            continue;
        }
        let eff_filter = c.filter.clone().unwrap_or_else(|| r".*\.rs".into());
        let fa = filter_arg(&eff_filter, &c.text);
        let tx = enc_bytes(&c.text);
        let code = ob.ok.code.unwrap_or(-1);
        o.count(&format!("{}:exit={}", c.stream, code));
        if ob.ok.calls.len() > 1 {
            o.direct_failures.push(json!({"sig": "c19:rustfmt-run-more-than-once", "what": "the stand-in was called more than once", "desc": c.desc, "text": String::from_utf8_lossy(&c.text)}));
            continue;
        }
        let parsed = match ob.ok.calls.first() {
            Some(args) => match parse_call(args) {
                Some(p) => Some(p),
                None => {
                    o.direct_failures.push(json!({"sig": "c19:unexpected-argv", "what": "the stand-in was not called as `files… --file-lines <json>`", "argv": args, "desc": c.desc}));
                    continue;
                }
            },
            None => None,
        };
        let ranges_enc = match &parsed {
            Some((_, rs)) => enc_ranges(rs),
            None => "_".to_string(),
        };
        if let Some((files, rs)) = &parsed {
            // the file arguments are the set of files of the ranges, each once
            let set_r: BTreeSet<&String> = rs.iter().map(|r| &r.0).collect();
            let set_f: BTreeSet<&String> = files.iter().collect();
            o.direct_evals += 1;
            if set_r != set_f || files.len() != set_f.len() || rs.is_empty() {
                o.direct_failures.push(json!({"sig": "c19:file-args-differ-from-range-files", "what": "file arguments are not exactly the files of the ranges (or an empty range list was passed)", "files": files, "ranges": format!("{:?}", rs), "desc": c.desc}));
            }
        }
        let nontrivial = parsed.is_some() || code != 0;
        o.count(&format!("{}:{}", c.stream, if parsed.is_some() { "rustfmt-called" } else { "rustfmt-not-called" }));
        // model vs code: scan_diff
        if fa != "bad" {
            let expect = if code == 101 { "panic".to_string() } else { ranges_enc.clone() };
            o.push("corr", "fd.scan", format!("fd.scan {} {} {} {}", lz, c.p, fa, tx), expect, c.desc.clone(), nontrivial);
        }
        // model vs code: main (exit status and invocation)
        let expect_run = |code: i32, spawn_attempted: bool| -> String {
            if spawn_attempted && ranges_enc != "_" { format!("{}:{}", code, ranges_enc) } else { format!("{}:nospawn", code) }
        };
        o.push("corr", "fd.run", format!("fd.run {} {} {} ok {}", lz, c.p, fa, tx), expect_run(code, parsed.is_some()), c.desc.clone(), nontrivial);
        if let (Some(m), Some(e)) = (c.extra, ob.extra.as_ref()) {
            let ecode = e.code.unwrap_or(-1);
            let word = if m == Mode::Fail { "fail" } else { "spawnerr" };
            o.count(&format!("{}:{}:exit={}", c.stream, word, ecode));
            // the invocation itself does not depend on what rustfmt answers
            if m == Mode::Fail {
                let same = e.calls.first().and_then(|a| parse_call(a)).map(|(_, rs)| enc_ranges(&rs)).unwrap_or_else(|| "_".into()) == ranges_enc;
                if !same {
                    o.direct_failures.push(json!({"sig": "c19:invocation-depends-on-status", "what": "different --file-lines when the stand-in fails", "desc": c.desc}));
                }
            }
            o.push("corr", "fd.run", format!("fd.run {} {} {} {} {}", lz, c.p, fa, word, tx), expect_run(ecode, parsed.is_some()), format!("{} rustfmt={}", c.desc, word), true);
            // the property's last clause, directly: a failing rustfmt makes the tool fail
            if parsed.is_some() {
                o.direct_evals += 1;
                if ecode == 0 {
                    o.direct_failures.push(json!({"sig": "c19:failing-rustfmt-not-propagated", "what": format!("rustfmt {} but the tool exited 0", word), "desc": c.desc, "text": String::from_utf8_lossy(&c.text)}));
                }
            }
        }
        // Lean specification as the oracle where the theorem's hypotheses hold
        if hyp == "1" && fa != "bad" {
            o.count(&format!("{}:hyp=1", c.stream));
            let expect = if code == 101 { "panic".to_string() } else { ranges_enc.clone() };
            o.push("oracle", "fd.spec", format!("fd.spec {} {} {}", c.p, fa, tx), expect, c.desc.clone(), nontrivial);
        } else {
            o.count(&format!("{}:hyp={}", c.stream, hyp));
        }
        // independent expectation from the two tree versions
        if let Some(exp) = &c.indep {
            let mut got: BTreeMap<String, Vec<(u64, u64)>> = BTreeMap::new();
            if let Some((_, rs)) = &parsed {
                for (f, a, b) in rs {
                    got.entry(f.clone()).or_default().push((*a, *b));
                }
            }
            o.direct_evals += 1;
            if !exp.is_empty() {
                o.direct_distinct += 1;
            }
            o.count(if exp.is_empty() { "indep:nothing-to-format" } else { "indep:ranges" });
            if &got != exp || code != 0 {
                o.direct_failures.push(json!({"sig": "c19:ranges-differ-from-tree-versions", "what": "the ranges handed to rustfmt are not the post-image hunk ranges of the two tree versions", "desc": c.desc, "expected": format!("{:?}", exp), "got": format!("{:?}", got), "exit": code, "diff": String::from_utf8_lossy(&c.text), "stderr": ob.ok.stderr.chars().take(400).collect::<String>()}));
            }
        }
    }

    // ---- 4. enumerated probes of inputs known to be dirty on the pinned tree
    probes(&mut o, &work);

    let _ = std::fs::remove_dir_all(&work);
    o.notes.push("a case = one run of the real rustfmt-format-diff (plus a second run when rustfmt is made to fail); non-trivial = rustfmt was invoked or the tool ended with a non-zero status; `indep:*` = comparisons with ranges computed from the two tree versions (counted as direct evaluations)".into());
    o.finish(out, jobs())
}

fn got_of(r: &Run) -> String {
    match r.calls.first().and_then(|a| parse_call(a)) {
        Some((files, rs)) => {
            let mut f = files.clone();
            f.sort();
            format!("exit={} files={:?} ranges={}", r.code.unwrap_or(-1), f, rs.iter().map(|(f, a, b)| format!("{}:{}-{}", f, a, b)).collect::<Vec<_>>().join(","))
        }
        None => format!("exit={} rustfmt-not-called", r.code.unwrap_or(-1)),
    }
}

fn probes(o: &mut Outcome, work: &Path) {
    let rec = work.join("probe.rec");
    let probe = |o: &mut Outcome, id: &str, text: &str, p: &str, filter: Option<&str>, required: &str, what: &str| {
        let r = run_fd(text.as_bytes(), p, filter, Mode::Ok, &rec);
        let got = got_of(&r);
        o.probes.push(json!({"id": id, "fails": got != required, "what": format!("{}: required `{}`, observed `{}`", what, required, got), "detail": {"stdin": text, "p": p, "filter": filter, "stderr": r.stderr.chars().take(300).collect::<String>()}}));
    };
    // F10: greedy `.*` takes the last `+N` on the hunk header line
    probe(o, "F10", "--- a/x.rs\n+++ b/x.rs\n@@ -1,3 +1,4 @@ fn f() { x +7 }\n a\n+b\n c\n d\n", "1", None, "exit=0 files=[\"x.rs\"] ranges=x.rs:1-4", "a `+N` in the hunk's section text wins over the post-image start");
    // F15: an added line whose text starts with `++ ` is read as a file header
    probe(o, "F15", "--- a/x.rs\n+++ b/x.rs\n@@ -1 +1,3 @@\n a\n+++ b/other.rs\n+x\n@@ -9 +11 @@\n-p\n+q\n", "1", None, "exit=0 files=[\"x.rs\"] ranges=x.rs:1-3,x.rs:11-11", "an added line `++ b/other.rs` redirects the following hunk to other.rs");
    // start + count overflows u32 in the dev profile
    probe(o, "C19-u32-overflow", "--- a/x.rs\n+++ b/x.rs\n@@ -1 +4294967295 @@\n-p\n+q\n", "1", None, "exit=0 files=[\"x.rs\"] ranges=x.rs:4294967295-4294967295", "`start + count - 1` is computed as (start + count) - 1 and overflows for the last u32 line");
    // \d is Unicode Nd, u32::from_str is ASCII only
    probe(o, "C19-unicode-digit", "--- a/x.rs\n+++ b/x.rs\n@@ -1 +\u{661} @@\n-p\n+q\n", "1", None, "exit=0 rustfmt-not-called", "a hunk line with a non-ASCII decimal digit after `+` (not a unified-diff header) panics in parse::<u32>().unwrap()");
    // -p larger than the number of components of a header: hunks go to the previous file
    probe(o, "C19-p-too-large", "--- a/src/x.rs\n+++ b/src/x.rs\n@@ -1 +1,2 @@\n a\n+b\n--- a/y.rs\n+++ b/y.rs\n@@ -9 +9 @@\n-p\n+q\n", "2", None, "exit=0 files=[\"x.rs\"] ranges=x.rs:1-2", "a header with fewer than -p components is not recognised and its hunks are attributed to the previous file");
    // the filter is wrapped as ^{filter}$ without a group: a top-level alternation is anchored on one side only
    probe(o, "C19-filter-alternation", "--- a/x.rs.orig\n+++ b/x.rs.orig\n@@ -1 +1,2 @@\n a\n+b\n", "1", Some(r"x\.rs|y\.rs"), "exit=0 rustfmt-not-called", "filter `x\\.rs|y\\.rs` must match the whole path, yet x.rs.orig is formatted (`^x\\.rs|y\\.rs$`)");
}
