fn a() {}
// c
 
fn b() {}
