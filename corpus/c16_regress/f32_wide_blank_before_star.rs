fn main() {
    /* a
　* b
     */
    let x = 1;
}
