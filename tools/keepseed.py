#!/usr/bin/env python3
"""keepseed.py <seed id> <Cnn> <result text> [<missed-at-first text>]
Copies a confirmed seeded change from /tmp/seed/<id>/out into /verif/seeded/<id>/ and records what the integrator ran."""
import json, os, shutil, sys
sid, prop, result = sys.argv[1], sys.argv[2], sys.argv[3]
missed = sys.argv[4] if len(sys.argv) > 4 else None
src = f"/tmp/seed/{sid}/out"
dst = f"/verif/seeded/{sid}"
os.makedirs(dst, exist_ok=True)
for f in os.listdir(src):
    p = os.path.join(src, f)
    if os.path.isdir(p):
        shutil.copytree(p, os.path.join(dst, f), dirs_exist_ok=True)
    elif os.path.getsize(p) < 2_000_000:
        shutil.copy2(p, os.path.join(dst, f))
mp = os.path.join(dst, "meta.json")
m = json.load(open(mp))
m["checked_by_integrator"] = {
    "property": prop,
    "confirmed": "patch applies to /repo HEAD; builds; unedited suite passes with it; demo.sh exits 1 with the patch and 0 without (re-run by the integrator in a scratch worktree)",
    "applied": f"tools/seedtest.sh seeded/{sid} {prop}  (= apply patch.diff in a scratch worktree of /repo's HEAD, ./check {prop} --tier quick, undo)",
    "result": result,
}
if missed:
    m["checked_by_integrator"]["missed_at_first"] = missed
json.dump(m, open(mp, "w"), indent=1)
print("kept", dst)
