#!/bin/bash
# pick_hooks.sh <commit>…  : cherry-picks hook commits of a worker into /repo; when src/verif_hooks.rs conflicts
# (both sides appended modules at the end of the file) the file is rebuilt as ours + the commit's appended part.
set -e
cd /repo
for c in "$@"; do
  if git cherry-pick "$c" >/dev/null 2>&1; then echo "picked $c"; continue; fi
  others=$(git diff --name-only --diff-filter=U | grep -v '^src/verif_hooks.rs$' || true)
  if [ -n "$others" ]; then echo "conflict outside verif_hooks.rs in $c: $others"; exit 1; fi
  git show HEAD:src/verif_hooks.rs > /tmp/_vh_ours.rs
  git show "$c":src/verif_hooks.rs > /tmp/_vh_theirs.rs
  git show "$c"~1:src/verif_hooks.rs > /tmp/_vh_base.rs
  python3 - <<'PY'
base=open('/tmp/_vh_base.rs').read(); new=open('/tmp/_vh_theirs.rs').read(); ours=open('/tmp/_vh_ours.rs').read()
if new.startswith(base):
    out=ours.rstrip('\n')+'\n'+new[len(base):]
else:
    # not a pure append: apply a line diff on top of ours' copy of the same region (their change lies within text we also have)
    import difflib
    b=base.splitlines(keepends=True); n=new.splitlines(keepends=True)
    sm=difflib.SequenceMatcher(a=b,b=n,autojunk=False)
    out=ours
    for tag,i1,i2,j1,j2 in reversed(sm.get_opcodes()):
        if tag=='equal': continue
        old=''.join(b[i1:i2]); rep=''.join(n[j1:j2])
        if old and out.count(old)==1: out=out.replace(old,rep)
        elif not old:
            # insertion: anchor on the preceding line
            anchor=''.join(b[max(0,i1-3):i1])
            if anchor and out.count(anchor)==1: out=out.replace(anchor,anchor+rep)
            else: raise SystemExit('cannot place an insertion of '+str(len(rep))+' bytes')
        else: raise SystemExit('cannot place a change')
open('/repo/src/verif_hooks.rs','w').write(out)
PY
  git add -A && git -c core.editor=true cherry-pick --continue >/dev/null && echo "picked $c (verif_hooks.rs rebuilt)"
done
cargo build --features verif-hooks --lib --offline 2>&1 | grep -E "^error" -A 8 | head -20
cargo build --offline --lib 2>&1 | tail -1
