import RF.Model.TokEquiv
namespace RF.Tok

/-- tokens outside the class `S` -/
def outside (S : Tok → Bool) (ts : List Tok) : List Tok := ts.filter (fun t => !S t)

@[simp] theorem outside_nil (S) : outside S [] = [] := rfl
theorem outside_cons (S t ts) : outside S (t :: ts) = if S t then outside S ts else t :: outside S ts := by
  unfold outside; by_cases h : S t <;> simp [h]
theorem outside_append (S a b) : outside S (a ++ b) = outside S a ++ outside S b := by
  simp [outside]

structure ActLocal (S : Tok → Bool) (t : Tok) (a : Act) : Prop where
  out : outside S a.out = outside S [t]
  close : ∀ o, a.close = some o → outside S o = [] ∧ ∀ c : Tok, c.isClose = true → S c = true
  comma : (a.commaAfter = true ∨ a.skipComma = true) → S (mkP ',') = true

def RuleLocal (S : Tok → Bool) (f : Rule) : Prop :=
  ∀ enc lo p2 p1 t rest a, f enc lo p2 p1 t rest = some a → ActLocal S t a

structure FrameOk (S : Tok → Bool) (fr : Frame) : Prop where
  close : ∀ o, fr.close = some o → outside S o = [] ∧ ∀ c : Tok, c.isClose = true → S c = true
  comma : (fr.commaAfter = true ∨ fr.skipComma = true) → S (mkP ',') = true

theorem isP_eq {t : Tok} {c : Char} (h : t.isP c = true) : t = mkP c := by
  cases t with | mk cls text =>
  simp [Tok.isP, mkP] at h ⊢
  exact h

theorem closeOut_outside (S) (fr : Frame) (hfr : FrameOk S fr) (t lo : Tok) (ht : t.isClose = true) :
    outside S (closeOut fr t lo) = outside S [t] := by
  unfold closeOut
  have hc := hfr.close
  have hm := hfr.comma
  cases hcl : fr.close with
  | none =>
    simp only []
    split
    · rename_i h
      have : S (mkP ',') = true := hm (Or.inl (by simp at h; exact h.1))
      simp [outside_cons, this]
    · rfl
  | some o =>
    have ⟨h1, h2⟩ := hc o hcl
    have h3 := h2 t ht
    simp only []
    split
    · rename_i h
      have : S (mkP ',') = true := hm (Or.inl (by simp at h; exact h.1))
      simp [outside_append, outside_cons, this, h1, h3]
    · simp [outside_cons, h1, h3]

theorem bpass_outside (S : Tok → Bool) (f : Rule) (hf : RuleLocal S f) :
    ∀ (ts : List Tok) (p2 p1 lo : Tok) (skip : Bool) (st : List Frame),
      (∀ fr ∈ st, FrameOk S fr) → (skip = true → S (mkP ',') = true) →
      outside S (bpass f p2 p1 lo skip st ts) = outside S ts := by
  intro ts
  induction ts with
  | nil => intros; simp [bpass]
  | cons t ts ih =>
    intro p2 p1 lo skip st hst hskip
    unfold bpass
    split
    · rename_i h
      simp at h
      have := isP_eq h.2
      subst this
      rw [ih _ _ _ _ _ hst (by simp), outside_cons, hskip h.1]; simp
    · split
      · split
        · rename_i a ha
          have hl := hf _ _ _ _ _ _ _ ha
          rw [outside_append, ih _ _ _ _ _ (by
            intro fr hfr
            simp at hfr
            rcases hfr with rfl | hfr
            · exact ⟨hl.close, hl.comma⟩
            · exact hst fr hfr) (by simp), hl.out]
          simp [outside_cons]; split <;> rfl
        · rw [outside_cons, outside_cons, ih _ _ _ _ _ (by
            intro fr hfr
            simp at hfr
            rcases hfr with rfl | hfr
            · exact ⟨by simp, by simp⟩
            · exact hst fr hfr) (by simp)]
      · split
        · split
          · rename_i hcl _ fr st'
            have hfr : FrameOk S fr := hst fr (by simp)
            rw [outside_append, closeOut_outside S fr hfr t lo hcl,
              ih _ _ _ _ _ (fun fr' h => hst fr' (by simp [h])) (fun h => hfr.comma (Or.inr h))]
            simp [outside_cons]; split <;> rfl
          · rw [outside_cons, outside_cons, ih _ _ _ _ _ (by simp) (by simp)]
        · split
          · rename_i a ha
            have hl := hf _ _ _ _ _ _ _ ha
            rw [outside_append, ih _ _ _ _ _ hst (by simp), hl.out]
            simp [outside_cons]; split <;> rfl
          · rw [outside_cons, outside_cons, ih _ _ _ _ _ hst (by simp)]

theorem runRule_outside (S f) (hf : RuleLocal S f) (ts) : outside S (runRule f ts) = outside S ts :=
  bpass_outside S f hf ts _ _ _ _ _ (by simp) (by simp)

def clsDelim (t : Tok) : Bool := t.isOpen || t.isClose
def clsTry (t : Tok) : Bool := t.isI kwTry || t.isP '!' || t.isP '?' || clsDelim t
def clsAbi (t : Tok) : Bool := isAbiC t
def clsVis (t : Tok) : Bool := t.isI kwIn || t.isP ':'
def clsEmpty (t : Tok) : Bool := t.isP '<' || t.isP '>' || t.isI kwFor || t.isI kwWhere || t.isP ':'
def clsPipe (t : Tok) : Bool := t.isP '|'
def clsBlock (t : Tok) : Bool := clsDelim t || t.isP ','
def clsSemi (t : Tok) : Bool := t.isP ';'
def clsComma (t : Tok) : Bool := t.isP ','

theorem actLocal_drop (S : Tok → Bool) (t : Tok) (h : S t = true) : ActLocal S t { out := [] } :=
  ⟨by simp [outside_cons, h], by simp, by simp⟩

theorem isO_isOpen {t : Tok} {c} (h : t.isO c = true) : t.isOpen = true := by
  simp [Tok.isO, Tok.isOpen] at *; exact h.1
theorem isC_isClose {t : Tok} {c} (h : t.isC c = true) : t.isClose = true := by
  simp [Tok.isC, Tok.isClose] at *; exact h.1

macro "rule_cases" h:ident : tactic =>
  `(tactic| (repeat' (split at $h:ident)) <;> (try (cases $h:ident; done)))

theorem ruleAbi_local : RuleLocal clsAbi ruleAbi := by
  intro enc lo p2 p1 t rest a h
  unfold ruleAbi at h
  rule_cases h
  all_goals (simp only [drop_, Option.some.injEq] at h; subst h; apply actLocal_drop; simp_all [clsAbi])

theorem ruleVis_local : RuleLocal clsVis ruleVis := by
  intro enc lo p2 p1 t rest a h
  unfold ruleVis at h
  rule_cases h
  all_goals (simp only [drop_, Option.some.injEq] at h; subst h; apply actLocal_drop; simp_all [clsVis])

theorem ruleEmpty_local : RuleLocal clsEmpty ruleEmpty := by
  intro enc lo p2 p1 t rest a h
  unfold ruleEmpty at h
  rule_cases h
  all_goals (simp only [drop_, Option.some.injEq] at h; subst h; apply actLocal_drop; simp_all [clsEmpty])

theorem rulePipe_local : RuleLocal clsPipe rulePipe := by
  intro enc lo p2 p1 t rest a h
  unfold rulePipe at h
  rule_cases h
  all_goals (simp only [drop_, Option.some.injEq] at h; subst h; apply actLocal_drop; simp_all [clsPipe])

theorem ruleSemi_local : RuleLocal clsSemi ruleSemi := by
  intro enc lo p2 p1 t rest a h
  unfold ruleSemi at h
  rule_cases h
  all_goals (simp only [drop_, Option.some.injEq] at h; subst h; apply actLocal_drop; simp_all [clsSemi])

theorem ruleComma_local : RuleLocal clsComma ruleComma := by
  intro enc lo p2 p1 t rest a h
  unfold ruleComma at h
  rule_cases h
  all_goals (simp only [drop_, Option.some.injEq] at h; subst h; apply actLocal_drop; simp_all [clsComma])


theorem clsDelim_of_open {t : Tok} (h : t.isOpen = true) : clsDelim t = true := by simp [clsDelim, h]
theorem clsDelim_close : ∀ c : Tok, c.isClose = true → clsDelim c = true := by intro c h; simp [clsDelim, h]

theorem ruleVec_local : RuleLocal clsDelim ruleVec := by
  intro enc lo p2 p1 t rest a h
  unfold ruleVec at h
  rule_cases h
  rename_i hc
  simp only [Option.some.injEq] at h; subst h
  simp only [Bool.and_eq_true] at hc
  refine ⟨?_, ?_, by simp⟩
  · have := hc.1.1
    simp [outside_cons, clsDelim, this]; simp [mkO, Tok.isOpen]
  · intro o ho; simp at ho; subst ho
    exact ⟨by simp [outside_cons, clsDelim, mkC, Tok.isClose], clsDelim_close⟩

theorem ruleTry_local : RuleLocal clsTry ruleTry := by
  intro enc lo p2 p1 t rest a h
  unfold ruleTry at h
  rule_cases h
  · simp only [drop_, Option.some.injEq] at h; subst h; apply actLocal_drop; simp_all [clsTry]
  · simp only [drop_, Option.some.injEq] at h; subst h; apply actLocal_drop; simp_all [clsTry]
  · rename_i hc
    simp only [Option.some.injEq] at h; subst h
    simp only [Bool.and_eq_true] at hc
    refine ⟨?_, ?_, by simp⟩
    · simp [outside_cons, clsTry, clsDelim, isO_isOpen hc.1.1]
    · intro o ho; simp at ho; subst ho
      exact ⟨by simp [outside_cons, clsTry, mkP, Tok.isP], fun c h => by simp [clsTry, clsDelim, h]⟩

theorem paren_act_local {t : Tok} (h : t.isO '(' = true) :
    ActLocal clsDelim t { out := [], close := some [] } :=
  ⟨by simp [outside_cons, clsDelim, isO_isOpen h], by
    intro o ho; simp at ho; subst ho; exact ⟨rfl, clsDelim_close⟩, by simp⟩

theorem ruleParen_local : RuleLocal clsDelim ruleParen := by
  intro enc lo p2 p1 t rest a h
  unfold ruleParen at h
  rule_cases h
  all_goals (cases h; apply paren_act_local; simp_all)

theorem ruleLitParen_local : RuleLocal clsDelim ruleLitParen := by
  intro enc lo p2 p1 t rest a h
  unfold ruleLitParen at h
  rule_cases h
  all_goals (cases h; apply paren_act_local; simp_all)

theorem ruleClosureParen_local : RuleLocal clsDelim ruleClosureParen := by
  intro enc lo p2 p1 t rest a h
  unfold ruleClosureParen at h
  rule_cases h
  all_goals (cases h; apply paren_act_local; simp_all)


theorem actLocal_mk (S : Tok → Bool) (t : Tok) (a : Act) (h1 : outside S a.out = outside S [t])
    (h2 : ∀ o, a.close = some o → outside S o = []) (h3 : ∀ c : Tok, c.isClose = true → S c = true)
    (h4 : S (mkP ',') = true) : ActLocal S t a :=
  ⟨h1, fun o ho => ⟨h2 o ho, h3⟩, fun _ => h4⟩

theorem ruleBlock_local : RuleLocal clsBlock ruleBlock := by
  intro enc lo p2 p1 t rest a h
  have hcl : ∀ c : Tok, c.isClose = true → clsBlock c = true := fun c h => by simp [clsBlock, clsDelim, h]
  have hcomma : clsBlock (mkP ',') = true := by decide
  have h1 : clsBlock (mkO '{') = true := by decide
  have h2 : clsBlock (mkC '}') = true := by decide
  unfold ruleBlock at h
  rule_cases h
  all_goals (cases h; simp only [Bool.and_eq_true] at *)
  all_goals
    have ht : clsBlock t = true := by
      simp_all [clsBlock, clsDelim, Tok.isO, Tok.isOpen]
  all_goals refine actLocal_mk _ _ _ ?_ ?_ hcl hcomma
  all_goals simp [outside_cons, ht, h1, h2]

theorem whereSep_local : ∀ (ts : List Tok) (w : Bool) (d : Nat),
    outside clsComma (whereSep w d ts) = outside clsComma ts := by
  intro ts
  induction ts with
  | nil => intros; simp [whereSep]
  | cons t ts ih =>
    intro w d
    unfold whereSep
    repeat' split
    all_goals simp only [outside_cons, ih]
    all_goals simp_all [clsComma]

theorem closureSep_local : ∀ (ts : List Tok) (m d : Nat) (p1 : Tok),
    outside clsComma (closureSep m d p1 ts) = outside clsComma ts := by
  intro ts
  induction ts with
  | nil => intro m d p1; unfold closureSep; rfl
  | cons t ts ih =>
    intro m d p1
    unfold closureSep
    repeat' split
    all_goals simp only [outside_cons, ih]
    all_goals simp_all [clsComma]

end RF.Tok
