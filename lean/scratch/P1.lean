import RF.Lemmas.TokEquiv
namespace RF.Tok
/-! ## a toy lexer for the examples (blank-separated words) -/
def splitSp : List Char → List Char → List (List Char)
  | [], cur => [cur.reverse]
  | c :: r, cur => if c == ' ' then cur.reverse :: splitSp r [] else splitSp r (c :: cur)

def exWord (w : List Char) : List Tok :=
  match w with
  | [] => []
  | '/' :: '/' :: '/' :: _ => [⟨['d'], w⟩]
  | '"' :: _ => [⟨['L','s'], w⟩]
  | '\'' :: _ => [⟨['l'], w⟩]
  | c :: _ =>
    if isDigit c then [⟨if w.contains '.' then ['L','f'] else ['L','i'], w⟩]
    else if c.isAlpha || c == '_' then [⟨['i'], w⟩]
    else w.map fun c =>
      if c == '(' || c == '[' || c == '{' then mkO c
      else if c == ')' || c == ']' || c == '}' then mkC c else mkP c

/-- `lexEx "fn f ( x : u32 , ) { }".toList`: identifiers, lifetimes, numbers, strings and `///` words
become one token, every other character a punctuation / delimiter token -/
def lexEx (s : List Char) : List Tok := (splitSp s []).flatMap exWord
end RF.Tok

namespace RF.Props.C01
open RF.Tok

theorem equiv_iff_norm_eq (cfg : Cfg) (a b : List Tok) : equiv cfg a b = true ↔ norm cfg a = norm cfg b := by
  unfold equiv; exact beq_iff_eq

theorem tokEquiv_refl (cfg : Cfg) (a : List Tok) : equiv cfg a a = true :=
  (equiv_iff_norm_eq cfg a a).2 rfl

theorem tokEquiv_symm (cfg : Cfg) (a b : List Tok) : equiv cfg a b = equiv cfg b a := by
  unfold equiv
  exact Bool.eq_iff_iff.2 ⟨fun h => beq_iff_eq.2 (beq_iff_eq.1 h).symm, fun h => beq_iff_eq.2 (beq_iff_eq.1 h).symm⟩

theorem tokEquiv_trans (cfg : Cfg) (a b c : List Tok) (h1 : equiv cfg a b = true) (h2 : equiv cfg b c = true) :
    equiv cfg a c = true :=
  (equiv_iff_norm_eq cfg a c).2 (((equiv_iff_norm_eq cfg a b).1 h1).trans ((equiv_iff_norm_eq cfg b c).1 h2))

theorem norm_hard_preserved (cfg : Cfg) (hf : cfg.fis = false) (hw : cfg.wild = false) (ts : List Tok) :
    hards cfg (norm cfg ts) = render (hardSeq cfg ts) := by
  unfold norm pre hardSeq
  rw [post_hards cfg hf hw, regions_eq_render, hards_render]

theorem equiv_sound (cfg : Cfg) (hf : cfg.fis = false) (hw : cfg.wild = false) (a b : List Tok)
    (ha : NoR a) (hb : NoR b) (h : equiv cfg a b = true) : hardSeq cfg a = hardSeq cfg b := by
  have hn := (equiv_iff_norm_eq cfg a b).1 h
  have h1 := norm_hard_preserved cfg hf hw a
  have h2 := norm_hard_preserved cfg hf hw b
  rw [hn] at h1
  exact render_inj _ _ (hardSeq_wf cfg a ha) (hardSeq_wf cfg b hb) (h1.symm.trans h2)

def exIn := lexEx "pub ( in crate ) unsafe extern \"C\" fn f < 'a , > ( ( x ) : & 'a mut u32 , ) -> u32 where { match * x { | 0 => { 1 } _ => { g :: < > ( 2.0 , ) } , } ; }".toList
def exOut := lexEx "pub ( crate ) unsafe extern fn f < 'a > ( ( x ) : & 'a mut u32 ) -> u32 { match * x { 0 => 1 , _ => g ( 2.0 ) , } }".toList
def exBad := lexEx "pub ( crate ) unsafe extern fn f < 'a > ( ( x ) : & 'a u32 ) -> u32 { match * x { 0 => 1 , _ => g ( 2.0 ) , } }".toList

example : equiv {} exIn exOut = true := by decide +kernel
example : equiv {} exIn exBad = false := by decide +kernel
example : NoR exIn ∧ NoR exOut := by decide +kernel

end RF.Props.C01
