//! C17: file_lines confines changes to the selected code.
//! (1) correspondence of `Range` / `normalize_ranges` / the `FileLines` queries / `lookup_line_range`
//!     / `out_of_file_lines_range!` with the Lean model, exhaustively over small ranges, and the Lean
//!     oracles (union semantics) evaluated on what the code returned;
//! (2) search with the real formatter: programs generated as a tree of pieces with known line spans
//!     (items, methods, statements), 1..3 ranges per selection; the expected text is assembled from
//!     the verbatim pieces that do not intersect the selection and the unrestricted formatting of
//!     those that do; diagnostics only on selected lines; `[]` formats nothing; adjacent /
//!     overlapping ranges behave as their union; the same three selection laws on the fixtures;
//! (3) enumerated probes of inputs known to be dirty on the pinned tree.
use std::collections::{BTreeMap, BTreeSet};
use std::path::Path;
use std::time::Duration;

use rustfmt_nightly::verif_hooks::file_lines as hf;
use serde_json::json;

use crate::corpus;
use crate::pool::{self, FmtOut, Job, Status};
use crate::util::*;

type R = (usize, usize);

fn enc_r(r: R) -> String {
    format!("{}-{}", r.0, r.1)
}
fn enc_rs(rs: &[R]) -> String {
    if rs.is_empty() { "_".into() } else { rs.iter().map(|r| enc_r(*r)).collect::<Vec<_>>().join(",") }
}
fn b(x: bool) -> String {
    if x { "1".into() } else { "0".into() }
}
fn quiet<T>(f: impl FnOnce() -> T) -> Option<T> {
    std::panic::catch_unwind(std::panic::AssertUnwindSafe(f)).ok()
}
fn sel_json(rs: &[R]) -> String {
    format!("[{}]", rs.iter().map(|(a, b)| format!("{{\"file\":\"stdin\",\"range\":[{},{}]}}", a, b)).collect::<Vec<_>>().join(","))
}
/// union semantics, as the property states them: some non-empty range shares a line with lo..=hi
fn meets(rs: &[R], lo: usize, hi: usize) -> bool {
    rs.iter().any(|r| r.0 <= r.1 && r.0.max(lo) <= r.1.min(hi))
}

// ------------------------------------------------------------------ (1) range algebra

fn list_case(o: &mut Outcome, sf: &hf::StdinFile, rs: &[R], queries: &[(usize, usize, usize)], desc: &str) {
    let e = enc_rs(rs);
    let no_empty = rs.iter().all(|r| r.0 <= r.1);
    let nontrivial = rs.len() >= 2;
    let norm = quiet(|| hf::normalize(rs));
    match &norm {
        Some(n) => {
            o.push("corr", "fl.normalize", format!("fl.normalize {}", e), enc_rs(n), desc.into(), nontrivial);
            if no_empty {
                // normalize_sorted_disjoint_partial
                o.push("oracle", "fl.sorted_disjoint", format!("fl.sorted_disjoint {}", enc_rs(n)), "1".into(), format!("{} raw={}", desc, e), nontrivial);
            }
            o.count(if no_empty { "lists:no-empty-range" } else { "lists:with-empty-range" });
            o.count(&format!("lists:len={}", rs.len()));
            o.count(&format!("lists:normalized-len={}", n.len()));
        }
        None => {
            o.push("corr", "fl.normalize", format!("fl.normalize {}", e), "panic".into(), desc.into(), true);
            o.count("lists:panic");
            for (n, lo, hi) in queries {
                o.push("corr", "fl.contains_line", format!("fl.contains_line {} {}", e, n), "panic".into(), desc.into(), true);
                o.push("corr", "fl.contains_range", format!("fl.contains_range {} {} {}", e, lo, hi), "panic".into(), desc.into(), true);
            }
            return;
        }
    }
    let fl = match quiet(|| hf::from_ranges(Some(rs))) {
        Some(f) => f,
        None => return,
    };
    // from_ranges keeps exactly what normalize_ranges returns
    if hf::stdin_ranges(&fl) != norm {
        o.direct_failures.push(json!({"sig": "c17:from_ranges-differs-from-normalize", "ranges": e}));
    }
    for (n, lo, hi) in queries {
        let cl = hf::contains_line(&fl, *n);
        o.push("corr", "fl.contains_line", format!("fl.contains_line {} {}", e, n), b(cl), desc.into(), nontrivial);
        // normalize_same_lines: every list, empty and inverted ranges included
        o.push("oracle", "fl.union_line", format!("fl.union_line {} {}", e, n), b(cl), desc.into(), nontrivial);
        let cr = hf::contains_range(&fl, *lo, *hi);
        o.push("corr", "fl.contains_range", format!("fl.contains_range {} {} {}", e, lo, hi), b(cr), desc.into(), nontrivial);
        if hf::contains_line_range(&fl, sf, *lo, *hi) != cr {
            o.direct_failures.push(json!({"sig": "c17:contains-vs-contains_range", "ranges": e, "lo": lo, "hi": hi}));
        }
        if no_empty && lo <= hi {
            // containsRange_iff_partial
            o.push("oracle", "fl.union_range", format!("fl.union_range {} {} {}", e, lo, hi), b(cr), desc.into(), nontrivial);
        }
        let ir = hf::intersects_range(&fl, sf, *lo, *hi);
        o.push("corr", "fl.intersects_range", format!("fl.intersects_range {} {} {}", e, lo, hi), b(ir), desc.into(), nontrivial);
        // intersectsRange_iff: every list
        o.push("oracle", "fl.union_meets", format!("fl.union_meets {} {} {}", e, lo, hi), b(ir), desc.into(), nontrivial);
    }
}

fn pair_case(o: &mut Outcome, a: R, c: R, desc: &str) {
    let (ea, ec) = (enc_r(a), enc_r(c));
    let nt = a.0 <= a.1 && c.0 <= c.1;
    o.push("corr", "fl.range.contains", format!("fl.range.contains {} {}", ea, ec), b(hf::range_contains(a, c)), desc.into(), nt);
    o.push("corr", "fl.range.intersects", format!("fl.range.intersects {} {}", ea, ec), b(hf::range_intersects(a, c)), desc.into(), nt);
    let adj = quiet(|| hf::range_adjacent_to(a, c)).map(b).unwrap_or_else(|| "panic".into());
    o.push("corr", "fl.range.adjacent", format!("fl.range.adjacent {} {}", ea, ec), adj, desc.into(), nt);
    let m = match quiet(|| hf::range_merge(a, c)) {
        Some(Some(m)) => enc_r(m),
        Some(None) => "none".into(),
        None => "panic".into(),
    };
    if m == "panic" {
        o.count("pairs:panic");
    }
    o.push("corr", "fl.range.merge", format!("fl.range.merge {} {}", ea, ec), m, desc.into(), nt);
}

fn big(rng: &mut Rng) -> usize {
    match rng.below(8) {
        0 => usize::MAX,
        1 => usize::MAX - 1,
        2 => usize::MAX - rng.below(4),
        3 => (1usize << 32) + rng.below(3) - 1,
        4 => 1usize << 63,
        5 => rng.below(4),
        6 => rng.next() as usize,
        _ => rng.below(100),
    }
}

fn algebra(o: &mut Outcome, rng: &mut Rng, thorough: bool) {
    let sf = hf::stdin_file();
    const N: usize = 7; // endpoints 0..=6
    let all: Vec<R> = (0..N).flat_map(|a| (0..N).map(move |c| (a, c))).collect();
    for a in &all {
        o.push("corr", "fl.range.is_empty", format!("fl.range.is_empty {}", enc_r(*a)), b(hf::range_is_empty(*a)), "exhaustive".into(), true);
        for c in &all {
            pair_case(o, *a, *c, "exhaustive");
        }
    }
    // every list of at most 3 ranges with endpoints in 0..=6
    let nq = if thorough { 4 } else { 1 };
    let mut lists: Vec<Vec<R>> = vec![vec![]];
    for a in &all {
        lists.push(vec![*a]);
        for c in &all {
            lists.push(vec![*a, *c]);
            for d in &all {
                lists.push(vec![*a, *c, *d]);
            }
        }
    }
    for l in &lists {
        // queries: all of them for short lists, a sample for the 117649 triples
        let mut qs = vec![];
        if l.len() <= 1 || (l.len() == 2 && thorough) {
            for lo in 0..=N {
                for hi in 0..=N {
                    qs.push((lo, lo, hi));
                }
            }
        } else {
            for _ in 0..nq {
                qs.push((rng.below(N + 1), rng.below(N + 1), rng.below(N + 1)));
            }
            if !thorough && l.len() == 3 && !rng.chance(1, 3) {
                qs.clear();
            }
        }
        list_case(o, &sf, l, &qs, "exhaustive");
    }
    o.exhaustive = true;
    // large values (usize::MAX panics in builds with overflow checks)
    for _ in 0..(if thorough { 20000 } else { 3000 }) {
        let n = rng.range(1, 4);
        let l: Vec<R> = (0..n).map(|_| (big(rng), big(rng))).collect();
        let qs = vec![(big(rng), big(rng), big(rng))];
        list_case(o, &sf, &l, &qs, "large");
        pair_case(o, (big(rng), big(rng)), (big(rng), big(rng)), "large");
    }
    // ranges.sort()
    for _ in 0..(if thorough { 5000 } else { 1000 }) {
        let n = rng.range(0, 6);
        let l: Vec<R> = (0..n).map(|_| if rng.chance(1, 5) { (big(rng), big(rng)) } else { (rng.below(5), rng.below(5)) }).collect();
        o.push("corr", "fl.sort", format!("fl.sort {}", enc_rs(&l)), enc_rs(&hf::sort(&l)), "random".into(), n >= 2);
    }
    // spans -> line ranges -> guard
    const TP: &[&str] = &["\n", "\n", "a", "bc", " ", "\r", "fn f() {}", "\n\n", "x;"];
    for _ in 0..(if thorough { 12000 } else { 2500 }) {
        let mut text = String::new();
        for _ in 0..rng.range(0, 10) {
            text.push_str(*rng.pick(TP));
        }
        // rustc's source map stores CRLF as LF: keep the byte offsets meaningful
        let mut text = text;
        while text.contains("\r\n") {
            text = text.replace("\r\n", "\n");
        }
        let lo = rng.below(text.len() + 1);
        let hi = rng.range(lo, text.len());
        let sel: Option<Option<Vec<R>>> = match rng.below(6) {
            0 => None,       // FileLines::all()
            1 => Some(None), // selection that does not name the file
            _ => Some(Some((0..rng.range(1, 3)).map(|_| (rng.below(8), rng.below(8))).collect())),
        };
        let fl = match &sel {
            None => rustfmt_nightly::FileLines::default(),
            Some(v) => hf::from_ranges(v.as_deref()),
        };
        let res = quiet(|| hf::span_lines_and_guard(&text, lo as u32, hi as u32, &fl));
        let (lr, out) = match res {
            Some(x) => x,
            None => {
                o.count("span:panic");
                continue;
            }
        };
        // 0-based line of a position = number of line starts at or before it, minus one; rustc's
        // source map has no line start at the very end of the file (`analyze_source_file` pops it)
        let line_of = |pos: usize| -> usize {
            let n = text[..pos].matches('\n').count();
            if pos == text.len() && text.ends_with('\n') { n - 1 } else { n }
        };
        let lo0 = line_of(lo);
        let hi0 = line_of(hi);
        let snippet = &text[lo..hi];
        let nl = snippet.starts_with('\n') || snippet.starts_with("\r\n");
        o.push("corr", "fl.lookup", format!("fl.lookup {} {} {}", lo0, hi0, nl as u8), enc_r(lr), format!("text={} span={}..{}", enc_str(&text), lo, hi), true);
        let sel_enc = match &sel {
            None => "all".to_string(),
            Some(None) => "absent".to_string(),
            Some(Some(v)) => enc_rs(v),
        };
        o.push("corr", "fl.guard", format!("fl.guard {} {} {}", sel_enc, lr.0, lr.1), b(out), format!("text={} span={}..{}", enc_str(&text), lo, hi), true);
        if let Some(Some(v)) = &sel {
            // guard_iff_no_intersection
            o.push("oracle", "fl.union_meets(guard)", format!("fl.union_meets {} {} {}", enc_rs(v), lr.0, lr.1), b(!out), "guard".into(), true);
        }
        o.count(&format!("span:guard={}", out));
        o.count(if nl { "span:starts-with-newline" } else { "span:plain" });
    }
    for _ in 0..500 {
        let mut s = String::new();
        for _ in 0..rng.below(4) {
            s.push_str(*rng.pick(&["\n", "\r", "\r\n", "a", " ", "\u{2028}"][..]));
        }
        o.push("corr", "fl.starts_with_newline", format!("fl.starts_with_newline {}", enc_str(&s)), b(hf::starts_with_newline(&s)), "random".into(), !s.is_empty());
    }
}

// ------------------------------------------------------------------ (2) generated programs

#[derive(Clone, Copy, PartialEq, Eq, Debug)]
enum Kind {
    Fn,
    Impl,
}

#[derive(Clone, Debug)]
enum Node {
    /// `atomic`: the piece contains expressions or attributes on several lines; rustfmt formats it
    /// only when every part is selected (see probes), so selections are widened to all of it.
    Leaf { lines: Vec<String>, atomic: bool },
    /// `tail_blank`: a blank line before the closing brace (removed when that region is formatted)
    Block { kind: Kind, header: Vec<String>, kids: Vec<(bool, Node)>, tail_blank: bool },
}

fn ind(d: usize) -> String {
    "    ".repeat(d)
}

/// statements, each given with the indentation the generator chooses (deliberately off)
fn gen_stmt(rng: &mut Rng, d: usize, uid: &mut usize) -> Node {
    *uid += 1;
    let k = *uid;
    let off = *rng.pick(&["", "  ", "      ", "   "][..]);
    let base = format!("{}{}", ind(d), off);
    let (lines, atomic): (Vec<String>, bool) = match rng.below(9) {
        0 => (vec![format!("{}let  v{}=x+{} ;", base, k, k)], false),
        1 => (vec![format!("{}let v{}   =   {};", base, k, k)], false),
        2 => (vec![format!("{}foo{}( x,y );   ", base, k)], false),
        3 => (vec![format!("{}let  w{}=", base, k), format!("{}      x+{} ;", base, k)], true),
        4 => (vec![format!("{}bar{}( x,", base, k), format!("{}   y );", base)], true),
        5 => (vec![format!("{}let s{} = \"{}\";", base, k, "s".repeat(96))], false),
        6 => (vec![format!("{}if  x>{}{{ y( ) ; }}", base, k)], false),
        7 => (vec![format!("{}let t{}=( {},{} );", base, k, k, k)], false),
        _ => (vec![format!("{}let v{} = {};", ind(d), k, k)], false), // already formatted
    };
    Node::Leaf { lines, atomic }
}

fn gen_fn(rng: &mut Rng, d: usize, uid: &mut usize) -> Node {
    *uid += 1;
    let k = *uid;
    let slf = if d > 0 { "&self," } else { "" };
    let header = match rng.below(4) {
        0 => vec![format!("{}fn  f{}( {}x:u32 ,y:u32 )->u32{{", ind(d), k, slf)],
        1 => vec![format!("{}fn f{}({} x:u32,", ind(d), k, slf), format!("{}   y:u32 )->u32{{", ind(d))],
        2 => vec![format!("{}pub  fn f{}( {}x:u32,y:u32 ){{", ind(d), k, slf)],
        _ => vec![format!("{}fn f{}({}x: u32, y: u32) {{", ind(d), k, if d > 0 { "&self, " } else { "" })],
    };
    let n = rng.range(1, 4);
    let kids = (0..n).map(|i| (i > 0 && rng.chance(1, 6), gen_stmt(rng, d + 1, uid))).collect();
    Node::Block { kind: Kind::Fn, header, kids, tail_blank: rng.chance(1, 5) }
}

fn gen_item(rng: &mut Rng, uid: &mut usize) -> Node {
    *uid += 1;
    let k = *uid;
    match rng.below(10) {
        0 | 1 | 2 => gen_fn(rng, 0, uid),
        3 => {
            let header = vec![format!("impl  T{}{{", k)];
            let n = rng.range(1, 3);
            let kids = (0..n).map(|i| (i > 0 && rng.chance(1, 2), gen_fn(rng, 1, uid))).collect();
            Node::Block { kind: Kind::Impl, header, kids, tail_blank: false }
        }
        4 => Node::Leaf { lines: vec![format!("struct  S{}{{a:u32,b:u32}}", k)], atomic: false },
        5 => Node::Leaf { lines: vec![format!("struct  S{}{{", k), "  a:u32,".into(), "      b:u32}".into()], atomic: false },
        6 => Node::Leaf { lines: vec![format!("const  C{}:u32={};", k, k)], atomic: false },
        7 => Node::Leaf { lines: vec![format!("enum  E{}{{A,", k), "  B}".into()], atomic: false },
        8 => Node::Leaf { lines: vec!["#[derive( Debug )]".into(), format!("struct  S{}{{a:u32}}", k)], atomic: true },
        _ => Node::Leaf { lines: vec![format!("static  G{}:u32=", k), format!("   {};", k)], atomic: true },
    }
}

struct Program {
    nodes: Vec<(bool, Node)>,
}

fn gen_program(rng: &mut Rng) -> Program {
    let mut uid = 0;
    let n = rng.range(2, 6);
    Program { nodes: (0..n).map(|i| (i > 0 && rng.chance(1, 2), gen_item(rng, &mut uid))).collect() }
}

fn node_input(n: &Node, d: usize, out: &mut Vec<String>) {
    match n {
        Node::Leaf { lines, .. } => out.extend(lines.iter().cloned()),
        Node::Block { header, kids, tail_blank, .. } => {
            out.extend(header.iter().cloned());
            for (blank, k) in kids {
                if *blank {
                    out.push(String::new());
                }
                node_input(k, d + 1, out);
            }
            if *tail_blank {
                out.push(String::new());
            }
            out.push(format!("{}}}", ind(d)));
        }
    }
}

fn program_input(p: &Program) -> Vec<String> {
    let mut out = vec![];
    for (blank, n) in &p.nodes {
        if *blank {
            out.push(String::new());
        }
        node_input(n, 0, &mut out);
    }
    out
}

/// the text that, formatted without restriction, gives the formatted piece between `front` leading
/// and `back` trailing lines
fn wrap(path: &[Kind], piece: &[String], dummy: Option<Kind>) -> (String, usize, usize) {
    let mut s = String::new();
    for (i, k) in path.iter().enumerate() {
        s.push_str(&format!("{}{}\n", ind(i), if *k == Kind::Fn { "fn w() {" } else { "impl W {" }));
    }
    for l in piece {
        s.push_str(l);
        s.push('\n');
    }
    let d = path.len();
    let mut back = path.len();
    if let Some(k) = dummy {
        s.push_str(&format!("{}{}\n{}}}\n", ind(d + 1), if k == Kind::Fn { "0" } else { "fn w() {}" }, ind(d)));
        back += 2;
    }
    for i in (0..path.len()).rev() {
        s.push_str(&format!("{}}}\n", ind(i)));
    }
    (s, path.len(), back)
}

fn collect_pieces(n: &Node, path: &mut Vec<Kind>, out: &mut BTreeSet<(String, usize, usize)>) {
    match n {
        Node::Leaf { lines, .. } => {
            out.insert(wrap(path, lines, None));
        }
        Node::Block { kind, header, kids, .. } => {
            out.insert(wrap(path, header, Some(*kind)));
            path.push(*kind);
            for (_, k) in kids {
                collect_pieces(k, path, out);
            }
            path.pop();
        }
    }
}

type Cache = BTreeMap<String, Option<Vec<String>>>;

fn formatted(cache: &Cache, path: &[Kind], piece: &[String], dummy: Option<Kind>) -> Option<Vec<String>> {
    cache.get(&wrap(path, piece, dummy).0).cloned().flatten()
}

struct Asm {
    lines: Vec<String>,
    /// per output line: it belongs to a piece that was formatted
    from_formatted: Vec<bool>,
    /// per output line: first / last line of a piece copied verbatim (the blank space before the
    /// first and after the last character of a piece is not part of the piece)
    first_v: Vec<bool>,
    last_v: Vec<bool>,
    /// some formatted piece has another number of lines than its source
    shifted: bool,
    /// the expectation depends on the known off-by-one of the gap line ranges: left to the probe
    gap_quirk: bool,
    formatted_pieces: usize,
    verbatim_pieces: usize,
}

impl Asm {
    fn mark(&mut self, first: usize, last: usize) {
        if self.first_v.len() <= last {
            self.first_v.resize(last + 1, false);
            self.last_v.resize(last + 1, false);
        }
        self.first_v[first] = true;
        self.last_v[last] = true;
    }
    /// `got` has every piece the property speaks of in place: formatted pieces, closing braces and
    /// blank lines exactly, verbatim pieces byte for byte from their first to their last character
    fn matches(&self, got: &str) -> bool {
        let g: Vec<&str> = got.lines().collect();
        if g.len() != self.lines.len() || !got.ends_with('\n') {
            return false;
        }
        self.lines.iter().enumerate().all(|(i, e)| {
            let (mut e, mut x): (&str, &str) = (e.as_str(), g[i]);
            if self.first_v.get(i).copied().unwrap_or(false) {
                e = e.trim_start();
                x = x.trim_start();
            }
            if self.last_v.get(i).copied().unwrap_or(false) {
                e = e.trim_end();
                x = x.trim_end();
            }
            e == x
        })
    }
}

/// Assembles the text the property demands.  `line` is the 1-based input line of the node's first line.
fn assemble(n: &Node, path: &mut Vec<Kind>, line: &mut usize, sel: &dyn Fn(usize, usize) -> bool, cache: &Cache, a: &mut Asm) -> Option<()> {
    let mut input = vec![];
    node_input(n, path.len(), &mut input);
    let (lo, hi) = (*line, *line + input.len() - 1);
    if !sel(lo, hi) {
        a.mark(a.lines.len(), a.lines.len() + input.len() - 1);
        a.from_formatted.extend(std::iter::repeat(false).take(input.len()));
        a.lines.extend(input);
        a.verbatim_pieces += 1;
        *line = hi + 1;
        return Some(());
    }
    match n {
        Node::Leaf { lines, .. } => {
            let f = formatted(cache, path, lines, None)?;
            a.shifted |= f.len() != lines.len();
            a.from_formatted.extend(std::iter::repeat(true).take(f.len()));
            a.lines.extend(f);
            a.formatted_pieces += 1;
            *line = hi + 1;
        }
        Node::Block { kind, header, kids, tail_blank } => {
            let f = formatted(cache, path, header, Some(*kind))?;
            a.shifted |= f.len() != header.len();
            a.from_formatted.extend(std::iter::repeat(true).take(f.len()));
            a.lines.extend(f);
            a.formatted_pieces += 1;
            *line += header.len();
            path.push(*kind);
            for (blank, k) in kids {
                if *blank {
                    a.lines.push(String::new());
                    a.from_formatted.push(false);
                    *line += 1;
                }
                assemble(k, path, line, sel, cache, a)?;
            }
            path.pop();
            if *tail_blank {
                // the region from the last piece to the closing brace (lines *line ..= *line + 1) is
                // copied when it does not intersect the selection, else formatted (blank line dropped)
                // (the region starts on the last piece's line when blanks follow that piece)
                let mut last_in = vec![];
                if let Some((_, k)) = kids.last() {
                    node_input(k, path.len() + 1, &mut last_in);
                }
                let from = if last_in.last().map(|l| l.ends_with(' ')).unwrap_or(false) { *line - 1 } else { *line };
                if !sel(from, *line + 1) {
                    a.lines.push(String::new());
                    a.from_formatted.push(false);
                    // lookup_line_range stretches that region by one line (probe C17-gap-line-range)
                    a.gap_quirk |= sel(*line + 2, *line + 2);
                }
                *line += 1;
            }
            a.lines.push(format!("{}}}", ind(path.len())));
            a.from_formatted.push(false);
            *line += 1;
        }
    }
    Some(())
}

fn assemble_program(p: &Program, sel: &dyn Fn(usize, usize) -> bool, cache: &Cache) -> Option<Asm> {
    let mut a = Asm { lines: vec![], from_formatted: vec![], first_v: vec![], last_v: vec![], shifted: false, gap_quirk: false, formatted_pieces: 0, verbatim_pieces: 0 };
    let mut line = 1;
    for (blank, n) in &p.nodes {
        if *blank {
            a.lines.push(String::new());
            a.from_formatted.push(false);
            line += 1;
        }
        assemble(n, &mut vec![], &mut line, sel, cache, &mut a)?;
    }
    Some(a)
}

/// line spans of the atomic leaves (selections are widened to cover them entirely) and of all pieces
fn spans(n: &Node, d: usize, line: &mut usize, atomic: &mut Vec<R>, all: &mut Vec<R>) {
    match n {
        Node::Leaf { lines, atomic: at } => {
            let r = (*line, *line + lines.len() - 1);
            if *at {
                atomic.push(r);
            }
            all.push(r);
            *line += lines.len();
        }
        Node::Block { header, kids, tail_blank, .. } => {
            let start = *line;
            all.push((*line, *line + header.len() - 1));
            *line += header.len();
            for (blank, k) in kids {
                if *blank {
                    *line += 1;
                }
                spans(k, d + 1, line, atomic, all);
            }
            if *tail_blank {
                *line += 1;
            }
            all.push((start, *line));
            *line += 1;
        }
    }
}

fn gen_selection(rng: &mut Rng, nlines: usize, pieces: &[R], atomic: &[R]) -> (Vec<R>, &'static str) {
    let any = |rng: &mut Rng| rng.range(1, nlines);
    let (mut rs, kind): (Vec<R>, &'static str) = match rng.below(10) {
        0 => (vec![*rng.pick(pieces)], "aligned"),
        1 => (vec![*rng.pick(pieces), *rng.pick(pieces)], "aligned x2"),
        2 => {
            let a = any(rng);
            (vec![(a, a)], "one line")
        }
        3 => {
            let a = any(rng);
            let c = rng.range(a, nlines);
            (vec![(a, c)], "cutting")
        }
        4 => {
            let a = any(rng);
            let m = rng.range(a, nlines);
            let c = rng.range(m, nlines);
            (vec![(a, m), (m + 1, c + 1)], "adjacent")
        }
        5 => {
            let a = any(rng);
            let m = rng.range(a, nlines);
            let c = rng.range(m, nlines);
            (vec![(a, m), (a.max(m.saturating_sub(1)), c)], "overlapping")
        }
        6 => {
            let a = any(rng);
            (vec![(a + 1, a.saturating_sub(1)), *rng.pick(pieces)], "inverted + aligned")
        }
        7 => (vec![(nlines + rng.range(1, 3), nlines + 9), *rng.pick(pieces)], "past the end + aligned"),
        8 => {
            let a = any(rng);
            (vec![(a, nlines + 5)], "to past the end")
        }
        _ => (vec![*rng.pick(pieces), (any(rng), any(rng)), *rng.pick(pieces)], "three"),
    };
    // widen to whole atomic leaves
    for r in rs.iter_mut() {
        if r.0 > r.1 {
            continue;
        }
        loop {
            let mut changed = false;
            for a in atomic {
                if r.0.max(a.0) <= r.1.min(a.1) && (r.0 > a.0 || r.1 < a.1) {
                    r.0 = r.0.min(a.0);
                    r.1 = r.1.max(a.1);
                    changed = true;
                }
            }
            if !changed {
                break;
            }
        }
    }
    (rs, kind)
}

fn usable(r: &FmtOut) -> bool {
    // flags[0] (operational) is also raised by a reported LineOverflow: only parse errors disqualify
    r.status == Status::Ok && !r.flags[1]
}

fn e2e_cfg() -> Vec<(String, String)> {
    vec![("error_on_line_overflow".into(), "true".into()), ("error_on_unformatted".into(), "true".into())]
}

fn generated(o: &mut Outcome, rng: &mut Rng, thorough: bool, extra: &[(String, String)], nprog: usize) {
    let tag = if extra.is_empty() { String::new() } else { format!("[{}]", crate::gen::cfg_text(extra)) };
    let run_cfg = crate::gen::merge_cfg(&e2e_cfg(), extra);
    let nsel = if thorough { 8 } else { 6 };
    let progs: Vec<Program> = (0..nprog).map(|_| gen_program(rng)).collect();
    // formatted pieces, each distinct (wrapper, piece) once
    let mut pieces = BTreeSet::new();
    for p in &progs {
        for (_, n) in &p.nodes {
            collect_pieces(n, &mut vec![], &mut pieces);
        }
    }
    let pieces: Vec<(String, usize, usize)> = pieces.into_iter().collect();
    let pjobs: Vec<Job> = pieces.iter().map(|(s, _, _)| Job { src: s.clone(), cfg: extra.to_vec(), file_lines: None }).collect();
    let pres = pool::run_jobs(&pjobs, jobs(), Duration::from_secs(10));
    let mut cache: Cache = BTreeMap::new();
    for ((s, front, back), r) in pieces.iter().zip(pres.iter()) {
        let v = if usable(r) {
            let ls: Vec<String> = r.out.lines().map(|l| l.to_string()).collect();
            if ls.len() > front + back { Some(ls[*front..ls.len() - back].to_vec()) } else { None }
        } else {
            None
        };
        cache.insert(s.clone(), v);
    }
    o.count_n("gen:distinct-pieces", pieces.len() as u64);
    // jobs per program: unrestricted, then selections (and for pairs, their union)
    struct Sel {
        prog: usize,
        ranges: Vec<R>,
        kind: &'static str,
        /// job index of the single-range union this selection must agree with
        union_of: Option<usize>,
    }
    let mut jobs_v: Vec<Job> = vec![];
    let mut sels: Vec<Option<Sel>> = vec![];
    let mut inputs: Vec<String> = vec![];
    // per program: the line ranges of its leaves (statements, fields, one-piece items)
    let mut leaves: Vec<Vec<R>> = vec![];
    for (pi, p) in progs.iter().enumerate() {
        let lines = program_input(p);
        let src = lines.join("\n") + "\n";
        inputs.push(src.clone());
        jobs_v.push(Job { src: src.clone(), cfg: run_cfg.clone(), file_lines: None });
        sels.push(None);
        let (mut atomic, mut all) = (vec![], vec![]);
        let mut line = 1;
        for (blank, n) in &p.nodes {
            if *blank {
                line += 1;
            }
            spans(n, 0, &mut line, &mut atomic, &mut all);
        }
        leaves.push(all.iter().copied().filter(|r| atomic.contains(r)).collect());
        let mut list: Vec<(Vec<R>, &'static str)> = vec![(vec![], "empty selection []"), (vec![(lines.len() + 2, lines.len() + 7)], "past the end")];
        for _ in 0..nsel {
            list.push(gen_selection(rng, lines.len(), &all, &atomic));
        }
        for (rs, kind) in list {
            let idx = jobs_v.len();
            jobs_v.push(Job { src: src.clone(), cfg: run_cfg.clone(), file_lines: Some(sel_json(&rs)) });
            sels.push(Some(Sel { prog: pi, ranges: rs.clone(), kind, union_of: None }));
            if kind == "adjacent" || kind == "overlapping" {
                let u = vec![(rs[0].0.min(rs[1].0), rs[0].1.max(rs[1].1))];
                jobs_v.push(Job { src: src.clone(), cfg: run_cfg.clone(), file_lines: Some(sel_json(&u)) });
                sels.push(Some(Sel { prog: pi, ranges: u, kind: "union of the pair", union_of: Some(idx) }));
            }
        }
    }
    let res = pool::run_jobs(&jobs_v, jobs(), Duration::from_secs(10));
    // per program: index of its unrestricted job
    let mut unrestricted: BTreeMap<usize, usize> = BTreeMap::new();
    let mut pi = 0;
    for (j, s) in sels.iter().enumerate() {
        if s.is_none() {
            unrestricted.insert(pi, j);
            pi += 1;
        }
    }
    let mut decomposable = vec![false; progs.len()];
    for (pi, p) in progs.iter().enumerate() {
        let u = &res[unrestricted[&pi]];
        if !usable(u) {
            o.count("gen:unrestricted-run-unusable");
            continue;
        }
        match assemble_program(p, &|_, _| true, &cache) {
            Some(a) if a.lines.join("\n") + "\n" == u.out => decomposable[pi] = true,
            _ => o.count("gen:not-compositional(skipped)"),
        }
    }
    for (j, s) in sels.iter().enumerate() {
        let s = match s {
            Some(s) => s,
            None => continue,
        };
        let r = &res[j];
        if r.status == Status::Timeout {
            o.count("gen:timeout");
            continue;
        }
        let src = &inputs[s.prog];
        let desc = format!("{} {}", s.kind, enc_rs(&s.ranges));
        // model-free clause of the property, for every program (compositional or not): a statement / field / one-piece item
        // that does not meet the selection comes out byte for byte (from its first to its last non-blank character)
        if usable(r) && !r.out.is_empty() {
            let in_lines: Vec<&str> = src.lines().collect();
            for (lo, hi) in &leaves[s.prog] {
                if meets(&s.ranges, *lo, *hi) || *hi > in_lines.len() {
                    continue;
                }
                let text = in_lines[*lo - 1..*hi].join("\n");
                let text = text.trim();
                o.direct_evals += 1;
                if !text.is_empty() && !r.out.contains(text) {
                    o.direct_failures.push(json!({"sig": "c17:unselected-leaf-changed", "what": format!("lines {}..{} do not meet the selection but their text is not in the output any more", lo, hi), "selection": desc, "config": tag, "src": src, "got": r.out}));
                    break;
                }
            }
        }
        if !decomposable[s.prog] {
            continue;
        }
        if !usable(r) {
            o.direct_failures.push(json!({"sig": "c17:restricted-run-fails", "what": format!("status {:?} flags {:?}", r.status, r.flags), "selection": desc, "config": tag, "src": src}));
            continue;
        }
        o.count(&format!("gen{}:selection={}", if tag.is_empty() { "" } else { "+opt" }, s.kind));
        o.direct_evals += 1;
        let rs = s.ranges.clone();
        let a = assemble_program(&progs[s.prog], &move |lo, hi| meets(&rs, lo, hi), &cache);
        let a = match a {
            Some(a) => a,
            None => continue,
        };
        if a.gap_quirk {
            o.count("gen:skipped(blank line before a closing brace, only the line after the brace selected)");
            continue;
        }
        let expected = a.lines.join("\n") + "\n";
        if a.formatted_pieces > 0 && a.verbatim_pieces > 0 {
            o.direct_distinct += 1;
            o.count("gen:mixed(formatted and verbatim pieces)");
        } else if a.formatted_pieces == 0 {
            o.count("gen:nothing-selected");
        } else {
            o.count("gen:everything-selected");
        }
        if r.out != expected && a.matches(&r.out) {
            // only the blank space around a verbatim piece differs (indentation of its first line,
            // trailing blanks of its last line): the gaps between pieces are formatted as units of
            // their own (probe C17-gap-line-range shows where that goes wrong)
            o.count("gen:gap-whitespace-of-a-verbatim-piece-rewritten(allowed)");
        } else if r.out != expected {
            let sig = if s.ranges.is_empty() { "c17:empty-selection-changes-text" } else { "c17:restricted-output-differs" };
            o.direct_failures.push(json!({"sig": sig, "what": "restricted output is not (verbatim unselected pieces + unrestricted formatting of the selected ones)", "selection": desc, "config": tag, "src": src, "expected": expected, "got": r.out}));
            continue;
        }
        // adjacent / overlapping ranges behave as their union
        if let Some(pair) = s.union_of {
            o.direct_evals += 1;
            if usable(&res[pair]) && res[pair].out != r.out {
                o.direct_failures.push(json!({"sig": "c17:pair-differs-from-union", "selection": format!("{} vs {}", sel_json(&sels[pair].as_ref().unwrap().ranges), desc), "src": src, "pair": res[pair].out, "union": r.out}));
            }
        }
        // diagnostics only on selected lines (checked where output and input line numbers coincide)
        if !a.shifted {
            o.direct_evals += 1;
            let bad: Vec<usize> = r.entries.iter().filter(|e| !meets(&s.ranges, e.line, e.line)).map(|e| e.line).collect();
            o.count(if r.entries.is_empty() { "gen:diag:none" } else { "gen:diag:some" });
            if !bad.is_empty() {
                o.direct_failures.push(json!({"sig": "c17:diagnostic-on-unselected-line", "lines": bad, "selection": desc, "src": src, "out": r.out}));
            }
        } else {
            o.count("gen:diag:skipped(line numbers shift)");
        }
    }
}

// ------------------------------------------------------------------ (2b) runs of reorderable declarations, selection between them

/// A run of `use` / `extern crate` declarations (badly laid out, unsorted) whose members are separated by blank lines,
/// comment lines or attribute lines, and a selection that consists ONLY of such separating lines: no declaration
/// intersects it, so every declaration must come out byte for byte and in its place - whatever `group_imports` and
/// `reorder_imports` say (the reordering may only look at the members themselves; F7 is the known exception where a
/// MEMBER is selected).
fn import_gaps(o: &mut Outcome, rng: &mut Rng, thorough: bool) {
    let n = if thorough { 3000 } else { 150 };
    let roots = ["std", "core", "alloc", "crate", "zeta", "alpha", "super", "mid"];
    let mut cases: Vec<(String, Vec<R>, Vec<(String, String)>, Vec<String>)> = vec![];
    for k in 0..n {
        let extern_run = rng.chance(1, 5);
        let m = rng.range(2, 5);
        let mut lines: Vec<String> = vec![];
        let mut decl: Vec<String> = vec![];
        let mut gaps: Vec<usize> = vec![];
        let mut names: Vec<usize> = (0..m).collect();
        // unsorted on purpose: descending
        names.reverse();
        for (i, j) in names.iter().enumerate() {
            if i > 0 {
                match rng.below(3) {
                    0 => { lines.push(String::new()); gaps.push(lines.len()); }
                    1 => { lines.push(format!("// note {} stays with the imports", k)); gaps.push(lines.len()); }
                    _ => { lines.push("#[cfg( test )]".to_string()); gaps.push(lines.len()); }
                }
            }
            let d = if extern_run { format!("extern  crate  c{}{} ;", j, k) } else { format!("use  {}::m{}::{{T{} ,  A{}}} ;", rng.pick(&roots), j, j, j) };
            lines.push(d.clone());
            decl.push(d);
        }
        lines.push(String::new());
        let f = format!("pub fn  f{}( a : u32 )->u32 {{ a }}", k);
        lines.push(f.clone());
        decl.push(f);
        if gaps.is_empty() {
            continue;
        }
        let mut sel: Vec<R> = vec![];
        let g = *rng.pick(&gaps);
        sel.push((g, g));
        if rng.chance(1, 3) {
            let g2 = *rng.pick(&gaps);
            if g2 != g { sel.push((g2, g2)); }
        }
        let mut cfg: Vec<(String, String)> = vec![];
        match rng.below(4) {
            0 => {}
            1 => cfg.push(("group_imports".into(), "StdExternalCrate".into())),
            2 => cfg.push(("group_imports".into(), "One".into())),
            _ => { cfg.push(("group_imports".into(), "StdExternalCrate".into())); cfg.push(("imports_granularity".into(), "Crate".into())); }
        }
        if rng.chance(1, 6) { cfg.push(("reorder_imports".into(), "false".into())); }
        cases.push((lines.join("\n") + "\n", sel, cfg, decl));
    }
    let jobs_v: Vec<Job> = cases.iter().map(|(src, sel, cfg, _)| Job { src: src.clone(), cfg: cfg.clone(), file_lines: Some(sel_json(sel)) }).collect();
    let res = pool::run_jobs(&jobs_v, jobs(), Duration::from_secs(10));
    for ((src, sel, cfg, decl), r) in cases.iter().zip(res.iter()) {
        if !usable(r) {
            o.count("import-gaps:unusable");
            continue;
        }
        o.direct_evals += 1;
        o.direct_distinct += 1;
        o.count(&format!("import-gaps:{}", crate::gen::cfg_text(cfg)));
        // every declaration verbatim, in the input order
        let mut pos = 0usize;
        let mut bad = None;
        for d in decl {
            match r.out[pos..].find(d.as_str()) {
                Some(p) => pos += p + d.len(),
                None => { bad = Some(d.clone()); break; }
            }
        }
        if let Some(d) = bad {
            o.direct_failures.push(json!({"sig": "c17:declaration-outside-selection-changed", "what": format!("the selection {:?} consists of lines between the declarations of a run, yet `{}` is not found verbatim (in input order) in the output", sel, d), "config": crate::gen::cfg_text(cfg), "src": src, "out": r.out}));
        }
        if o.samples.len() < 5 && !cfg.is_empty() {
            o.sample(json!({"family": "import-gaps", "selection": sel, "config": crate::gen::cfg_text(cfg), "src": src}));
        }
    }
}

// ------------------------------------------------------------------ fixtures: the three selection laws

/// a `#` followed (blanks apart) by `[` or `!`
fn has_attribute(src: &str) -> bool {
    let b = src.as_bytes();
    (0..b.len()).any(|i| b[i] == b'#' && b[i + 1..].iter().find(|c| **c != b' ' && **c != b'\t').map(|c| *c == b'[' || *c == b'!').unwrap_or(false))
}

fn fixtures(o: &mut Outcome, rng: &mut Rng, thorough: bool) {
    let mut progs = corpus::programs(&["tests/target", "tests/source"]);
    // Known-dirty families are left to the probes: attributes (doc comments included) are rewritten whatever the
    // selection (C17-attributes), block comments lose the indentation of their last line
    // (C17-comment-last-line), blank lines at the two ends of the file are dropped and a missing
    // final newline is added (C17-file-edges); newline_style is a pass over the whole text (C08).
    progs.retain(|p| !p.src.trim().is_empty() && p.src.len() < 30000 && !has_attribute(&p.src) && !p.src.contains("/*") && !p.src.contains("//!") && !p.src.contains("///") && !p.src.contains('\r'));
    for p in progs.iter_mut() {
        p.cfg.retain(|(k, _)| k != "newline_style");
        p.src = format!("{}\n", p.src.trim());
    }
    let take = if thorough { progs.len() } else { 220 };
    // a rotating slice, by seed
    let start = if progs.is_empty() { 0 } else { rng.below(progs.len()) };
    let chosen: Vec<&corpus::Program> = (0..take.min(progs.len())).map(|i| &progs[(start + i * 7) % progs.len()]).collect();
    let mut jobs_v = vec![];
    let mut meta = vec![];
    for p in &chosen {
        let n = p.src.lines().count().max(1);
        let a = rng.range(1, n);
        let m = rng.range(a, n);
        let c = rng.range(m, n);
        let sels: Vec<Vec<R>> = vec![vec![], vec![(n + 3, n + 9)], vec![(a, m), (m + 1, c + 1)], vec![(a, c + 1)], vec![(a, m), (a.max(m.saturating_sub(1)), c)], vec![(a, c)]];
        for s in sels {
            jobs_v.push(Job { src: p.src.clone(), cfg: p.cfg.clone(), file_lines: Some(sel_json(&s)) });
            meta.push(s);
        }
    }
    let res = pool::run_jobs(&jobs_v, jobs(), Duration::from_secs(if thorough { 30 } else { 10 }));
    for (k, p) in chosen.iter().enumerate() {
        let r = &res[k * 6..k * 6 + 6];
        let m = &meta[k * 6..k * 6 + 6];
        if r.iter().any(|x| x.status == Status::Timeout) {
            o.count("fixtures:timeout");
            continue;
        }
        if !r.iter().all(|x| x.status == Status::Ok && !x.flags[1]) {
            o.count("fixtures:not-formattable");
            continue;
        }
        if r[0].out.is_empty() && !p.src.is_empty() {
            // echoed on the process' stdout (inner skip attribute): not captured in-process
            o.count("fixtures:echo");
            continue;
        }
        o.count("fixtures:checked");
        o.direct_evals += 4;
        o.direct_distinct += 2;
        if r[0].out != p.src {
            o.direct_failures.push(json!({"sig": "c17:empty-selection-changes-text", "program": p.name, "config": crate::gen::cfg_text(&p.cfg), "selection": "[]", "src": p.src, "out": r[0].out}));
        }
        if r[1].out != p.src {
            o.direct_failures.push(json!({"sig": "c17:selection-past-the-end-changes-text", "program": p.name, "selection": sel_json(&m[1]), "src": p.src, "out": r[1].out}));
        }
        if r[2].out != r[3].out {
            o.direct_failures.push(json!({"sig": "c17:pair-differs-from-union", "program": p.name, "selection": format!("{} vs {}", sel_json(&m[2]), sel_json(&m[3])), "src": p.src, "pair": r[2].out, "union": r[3].out}));
        }
        if r[4].out != r[5].out {
            o.direct_failures.push(json!({"sig": "c17:pair-differs-from-union", "program": p.name, "selection": format!("{} vs {}", sel_json(&m[4]), sel_json(&m[5])), "src": p.src, "pair": r[4].out, "union": r[5].out}));
        }
        if r[3].out != p.src {
            o.count("fixtures:selection-changed-something");
        }
    }
}

// ------------------------------------------------------------------ (3) probes

fn run1(src: &str, sel: Option<&[R]>, cfg: Vec<(String, String)>) -> FmtOut {
    pool::run_jobs(&[Job { src: src.into(), cfg, file_lines: sel.map(sel_json) }], 1, Duration::from_secs(10)).remove(0)
}

fn changed_lines(src: &str, out: &str, watch: &[usize]) -> Vec<usize> {
    let a: Vec<&str> = src.lines().collect();
    let c: Vec<&str> = out.lines().collect();
    watch.iter().copied().filter(|l| a.get(l - 1) != c.get(l - 1)).collect()
}

fn probes(o: &mut Outcome) {
    // F7: one line of a run of `use` items selected: the whole run is rewritten and reordered
    {
        let src = "use  z::b;\nuse a::c;\nuse  m::d;\nfn  f( ){}\n";
        let r = run1(src, Some(&[(2, 2)]), vec![]);
        let ch = changed_lines(src, &r.out, &[1, 3, 4]);
        o.probes.push(json!({"id": "F7", "fails": r.status == Status::Ok && !ch.is_empty(), "what": format!("selection [2,2] inside a run of `use` items: unselected lines {:?} changed", ch), "detail": {"src": src, "out": r.out}}));
    }
    let comment = "fn  a( ){}\n    /* x\n         y\n       z */\nfn  b( ){}\n";
    // an empty (inverted) range between two mergeable ranges blocks the merge
    {
        let r1 = run1(comment, Some(&[(1, 3), (2, 0), (3, 8)]), vec![]);
        let r2 = run1(comment, Some(&[(1, 8)]), vec![]);
        o.probes.push(json!({"id": "C17-inverted-range", "fails": r1.status == Status::Ok && r2.status == Status::Ok && r1.out != r2.out, "what": "selection [1,3],[2,0],[3,8] does not behave as its union [1,8]: the comment on lines 2-4 is reformatted only under [1,8]", "detail": {"src": comment, "with_inverted": r1.out, "union": r2.out}}));
    }
    // the last line of an unselected block comment is re-indented
    {
        let r = run1(comment, Some(&[(1, 1)]), vec![]);
        let ch = changed_lines(comment, &r.out, &[2, 3, 4, 5]);
        o.probes.push(json!({"id": "C17-comment-last-line", "fails": r.status == Status::Ok && !ch.is_empty(), "what": format!("selection [1,1]: unselected lines {:?} changed (last line of the block comment between the items is dedented)", ch), "detail": {"src": comment, "out": r.out}}));
    }
    // diagnostics are filtered by OUTPUT line numbers against the selection given in INPUT lines
    {
        let long = "r".repeat(120);
        let src = format!("struct  S{{a:u32}}\nfn  b( ){{\n  let q   = 1;\n      let {}=2;\n}}\nfn  c( ){{\n}}\n", long);
        let cfg = e2e_cfg();
        let r = run1(&src, Some(&[(1, 1), (6, 6)]), cfg.clone());
        // input line 4 (unselected, over-long) lands on output line 6, which is a selected number
        let spurious: Vec<usize> = r.entries.iter().filter(|e| r.out.lines().nth(e.line - 1).map(|l| l.contains(&long) && l.starts_with("      let")).unwrap_or(false)).map(|e| e.line).collect();
        let r2 = run1(&src, Some(&[(1, 1), (4, 4)]), cfg);
        let missed = r2.status == Status::Ok && r2.entries.is_empty() && r2.out.lines().any(|l| l.chars().count() > 100);
        o.probes.push(json!({"id": "C17-diagnostic-line-numbers", "fails": r.status == Status::Ok && !spurious.is_empty(), "what": format!("selection [1,1],[6,6]: a diagnostic is issued for the unselected over-long statement (input line 4) because it lands on output line {:?}; conversely with [1,1],[4,4] the selected over-long line is {} ", spurious, if missed { "NOT reported (it moved to output line 6)" } else { "reported" }), "detail": {"src": src, "out": r.out, "entries": format!("{:?}", r.entries)}}));
    }
    // the line range of a span that starts with a newline gets +1 on BOTH ends (lookup_line_range)
    {
        let src = "fn f() {\n          let a = 1;\n    let  b=2;\n}\n";
        let r = run1(src, Some(&[(3, 3)]), vec![]);
        let ch = changed_lines(src, &r.out, &[2]);
        o.probes.push(json!({"id": "C17-gap-line-range", "fails": r.status == Status::Ok && !ch.is_empty(), "what": format!("selection [3,3]: unselected line {:?} is re-indented; the blank gap that ends on line 2 is given the line range 2..3 (lookup_line_range adds the newline offset to the upper end too), so it counts as touching the selected line 3", ch), "detail": {"src": src, "out": r.out}}));
    }
    // attributes are rewritten whatever the selection says
    {
        let src = "#![allow( dead_code )]\n#[cfg(unix)] extern crate a;\nfn  f( ){}\n";
        let r = run1(src, Some(&[]), vec![]);
        let ch = changed_lines(src, &r.out, &[1, 2, 3]);
        o.probes.push(json!({"id": "C17-attributes", "fails": r.status == Status::Ok && !ch.is_empty(), "what": format!("empty selection []: lines {:?} changed (the inner attribute is formatted, and the blank between `#[cfg(unix)]` and the item on the same line is dropped, which alters an unselected item)", ch), "detail": {"src": src, "out": r.out}}));
    }
    // the two ends of the file
    {
        let src = "\n\nfn  f( ){}\n\n\nfn  g( ){}";
        let r = run1(src, Some(&[]), vec![]);
        o.probes.push(json!({"id": "C17-file-edges", "fails": r.status == Status::Ok && r.out != src, "what": "empty selection []: the blank lines at the start of the file are dropped and a final newline is added (the text between is untouched)", "detail": {"src": src, "out": r.out}}));
    }
    // a statement that intersects the selection with one of its lines only is not formatted
    {
        let src = "fn f() {\n    let  y=\n        g( )+1 ;\n}\n";
        let r = run1(src, Some(&[(2, 2)]), vec![]);
        let u = run1(src, None, vec![]);
        o.probes.push(json!({"id": "C17-partial-statement", "fails": r.status == Status::Ok && u.status == Status::Ok && r.out != u.out, "what": "selection [2,2] intersects the statement on lines 2-3, yet it is left as it is: the initialiser on line 3 refuses (SkipFormatting) and the refusal propagates to the whole statement", "detail": {"src": src, "out": r.out, "unrestricted": u.out}}));
    }
    // an attribute line selected alone
    {
        let src = "#[derive( Debug )]\nstruct  S{a:u32}\n";
        let r = run1(src, Some(&[(1, 1)]), vec![]);
        let u = run1(src, None, vec![]);
        o.probes.push(json!({"id": "C17-attribute-line", "fails": r.status == Status::Ok && u.status == Status::Ok && r.out != u.out, "what": "selection [1,1] is the attribute line of the item, yet neither the attribute nor the item is formatted (the guard looks at the item without its attributes)", "detail": {"src": src, "out": r.out, "unrestricted": u.out}}));
    }
}

pub fn run(tier: &str, seed: u64, out: &Path) -> i32 {
    pool::install_panic_hook();
    let mut o = Outcome::new("C17", tier, seed);
    let thorough = tier == "thorough";
    let mut rng = Rng::new(seed ^ 0xc17);
    algebra(&mut o, &mut rng, thorough);
    generated(&mut o, &mut rng, thorough, &[], if thorough { 8000 } else { 250 });
    // the same under options that move code across lines (one at a time, 20 options; 150 programs each in quick, 600 in thorough)
    {
        const OPTS: &[(&str, &str)] = &[("fn_single_line", "true"), ("empty_item_single_line", "false"), ("brace_style", "AlwaysNextLine"), ("control_brace_style", "AlwaysNextLine"), ("where_single_line", "true"), ("struct_lit_single_line", "false"), ("match_block_trailing_comma", "true"), ("trailing_semicolon", "false"), ("fn_params_layout", "Vertical"), ("indent_style", "Visual"), ("hard_tabs", "true"), ("tab_spaces", "2"), ("max_width", "40"), ("use_small_heuristics", "Max"), ("blank_lines_upper_bound", "0"), ("match_arm_blocks", "false"), ("force_multiline_blocks", "true"), ("combine_control_expr", "false"), ("trailing_comma", "Never"), ("reorder_impl_items", "true")];
        let mut order: Vec<usize> = (0..OPTS.len()).collect();
        for i in (1..order.len()).rev() {
            order.swap(i, rng.below(i + 1));
        }
        let take = OPTS.len();
        for k in order.into_iter().take(take) {
            let extra = vec![(OPTS[k].0.to_string(), OPTS[k].1.to_string())];
            generated(&mut o, &mut rng, thorough, &extra, if thorough { 600 } else { 150 });
        }
    }
    import_gaps(&mut o, &mut rng, thorough);
    fixtures(&mut o, &mut rng, thorough);
    probes(&mut o);
    o.notes.push("correspondence cases go to the model (per_op); the e2e comparisons are direct evaluations: one per (program, selection) text comparison, per pair-vs-union comparison, per diagnostics check, four per fixture; non-trivial e2e case = the selection formats some pieces and leaves others verbatim".into());
    o.finish(out, jobs())
}
