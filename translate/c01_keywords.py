#!/usr/bin/env python3
"""translator:c01_keywords — the table-like functions of src/utils.rs that turn an AST enum into the text of a
keyword (`format_coro`, `format_constness`, `format_constness_right`, `format_defaultness`, `format_safety`,
`format_auto`, `format_mutability`), the arms of `format_extern` and the constants of `format_visibility`
-> RF/Gen/Keywords.lean.

Accepted shape of a keyword function:

    pub(crate) fn NAME(ARG: [&]TYPE) -> &'static str {
        match ARG {
            PATH::Variant [(..) | { .. }] => "text",
            …
        }
    }

one `match` on the argument, every arm one variant pattern without bindings and a string literal; a wildcard or a
binding arm, a guard, a second statement or a new function `format_*` returning `&'static str` is refused.
`format_extern` must consist of the five arms the model `RF.Opt.formatExtern` transcribes, `format_visibility` of the
three arms with the `is_keyword` closure, the `in ` prefix and the `pub({in_str}{path}) ` format.  The theorems of
RF/Props/OptRewrites.lean (`keywords_exact`, `extern_arms_modelled`, `visibility_constants_modelled`) compare what is
read here with what the hand-written model assumes."""
import os, re, sys
sys.path.insert(0, os.path.dirname(os.path.abspath(__file__)))
from common import *

NAME = "c01_keywords"
FUNCS = ["format_coro", "format_constness", "format_constness_right", "format_defaultness", "format_safety",
         "format_auto", "format_mutability"]


def lean_str(s):
    """a text as an explicit `List Char` (the kernel is slow at `String.toList`)"""
    def ch(c):
        return "'\\''" if c == "'" else "'\\\\'" if c == "\\" else "'" + c + "'"
    return "[" + ", ".join(ch(c) for c in s) + "]"


def fn_body(src, name):
    m = re.search(r"pub\(crate\)\s+fn\s+" + name + r"\s*\(([^)]*)\)\s*->\s*([^{]+)\{", src)
    if not m:
        refuse(NAME, f"fn {name} not found")
    body, _ = block_after(src, m.end() - 1)
    return m.group(1).strip(), m.group(2).strip(), body


def keyword_fn(src, name):
    params, ret, body = fn_body(src, name)
    if ret != "&'static str":
        refuse(NAME, f"{name} returns `{ret}`, not &'static str")
    pm = re.fullmatch(r"(\w+)\s*:\s*&?\s*([\w:]+)", params)
    if not pm:
        refuse(NAME, f"{name}: parameter list `{params}` is not one plain argument")
    arg, ty = pm.group(1), pm.group(2)
    body = strip_rust_comments(body).strip()
    mm = re.fullmatch(r"match\s+\*?" + arg + r"\s*\{(.*)\}", body, re.S)
    if not mm:
        refuse(NAME, f"{name}: the body is not one `match {arg} {{ … }}`")
    arms = []
    text = mm.group(1).strip()
    for arm in [a.strip() for a in re.split(r",\s*\n", text + "\n") if a.strip()]:
        arm = arm.rstrip(",").strip()
        am = re.fullmatch(r"([\w:]+)\s*(\(\s*\.\.\s*\)|\{\s*\.\.\s*\})?\s*=>\s*\"((?:[^\"\\]|\\.)*)\"", arm)
        if not am:
            refuse(NAME, f"{name}: arm `{arm}` is not `Path::Variant[(..)|{{ .. }}] => \"text\"`")
        path = am.group(1)
        if "::" not in path:
            refuse(NAME, f"{name}: arm `{arm}` binds or is a wildcard")
        enum, variant = path.rsplit("::", 1)
        if not variant[0].isupper():
            refuse(NAME, f"{name}: `{path}` does not name a variant")
        if "\\" in am.group(3):
            refuse(NAME, f"{name}: escape in the keyword text `{am.group(3)}`")
        arms.append((enum, variant, am.group(3)))
    enums = {e for e, _, _ in arms}
    if len(enums) != 1:
        refuse(NAME, f"{name}: arms name several enums {sorted(enums)}")
    if len({v for _, v, _ in arms}) != len(arms):
        refuse(NAME, f"{name}: a variant appears twice")
    return ty, arms


EXTERN_ARMS = [
    (r"ast::Extern::None", None, r'Cow::from\(""\)', ("none", "always", "lit", "")),
    (r"ast::Extern::Implicit\(_\)", r"explicit_abi", r'Cow::from\("extern \\"C\\" "\)', ("implicit", "explicitAbi", "lit", 'extern "C" ')),
    (r"ast::Extern::Implicit\(_\)", None, r'Cow::from\("extern "\)', ("implicit", "always", "lit", "extern ")),
    (r"ast::Extern::Explicit\(abi, _\)", r"abi\.symbol_unescaped == sym::C && !explicit_abi",
     r'\{\s*Cow::from\("extern "\)\s*\}', ("explicit", "abiIsCAndNotExplicit", "lit", "extern ")),
    (r"ast::Extern::Explicit\(abi, _\)", None,
     r'\{\s*Cow::from\(format!\(r#"extern "\{\}" "#, abi\.symbol_unescaped\)\)\s*\}', ("explicit", "always", "quoteAbi", "")),
]


def extern_arms(src):
    params, ret, body = fn_body(src, "format_extern")
    if not re.fullmatch(r"ext\s*:\s*ast::Extern\s*,\s*explicit_abi\s*:\s*bool", params):
        refuse(NAME, f"format_extern: parameters `{params}`")
    body = strip_rust_comments(body).strip()
    mm = re.fullmatch(r"match\s+ext\s*\{(.*)\}", body, re.S)
    if not mm:
        refuse(NAME, "format_extern: the body is not one `match ext { … }`")
    rest = mm.group(1).strip()
    out = []
    for pat, guard, res, enc in EXTERN_ARMS:
        rx = r"\s*" + pat + (r"\s+if\s+" + guard if guard else "") + r"\s*=>\s*" + res + r"\s*,?"
        m = re.match(rx, rest, re.S)
        if not m:
            refuse(NAME, f"format_extern: expected the arm `{pat}{' if ' + guard if guard else ''} => …` at `{rest[:70]}…`")
        rest = rest[m.end():]
        out.append(enc)
    if rest.strip():
        refuse(NAME, f"format_extern: arms the model does not know: `{rest.strip()[:80]}`")
    return out


def visibility(src):
    params, ret, body = fn_body(src, "format_visibility")
    body = strip_rust_comments(body)
    need = [
        (r'VisibilityKind::Public\s*=>\s*Cow::from\("(pub )"\)', "public"),
        (r'VisibilityKind::Inherited\s*=>\s*Cow::from\("()"\)', "inherited"),
        (r"VisibilityKind::Restricted\s*\{\s*ref path,\s*\.\.\s*\}\s*=>", None),
        (r"segments\.iter\(\)\.map\(\|seg\| rewrite_ident\(context, seg\.ident\)\)", None),
        (r"if path\.is_global\(\)\s*\{\s*segments_iter\s*\.next\(\)", None),
        (r'let is_keyword = \|s: &str\| s == "(\w+)" \|\| s == "(\w+)" \|\| s == "(\w+)";', "keywords"),
        (r'let path = segments_iter\.collect::<Vec<_>>\(\)\.join\("(::)"\);', "sep"),
        (r'let in_str = if is_keyword\(&path\) \{ "()" \} else \{ "(in )" \};', "in"),
        (r'Cow::from\(format!\("(pub\(\{in_str\}\{path\}\) )"\)\)', "format"),
    ]
    got = {}
    for rx, key in need:
        m = re.search(rx, body)
        if not m:
            refuse(NAME, f"format_visibility: `{rx}` not found")
        if key:
            got[key] = m.groups()
    if len(re.findall(r"=>", body)) != 3:
        refuse(NAME, "format_visibility: not exactly three arms")
    return got


def main():
    a = args()
    src = cut_tests(read(a.repo, "src/utils.rs", NAME))
    known = set(FUNCS)
    for m in re.finditer(r"pub\(crate\)\s+fn\s+(format_\w+)\s*\([^)]*\)\s*->\s*&'static str", src):
        if m.group(1) not in known:
            refuse(NAME, f"new keyword function {m.group(1)} (not in the model)")
    L = ["/- GENERATED by translate/c01_keywords.py from src/utils.rs.  Do not edit. -/",
         "namespace RF.Gen.Keywords\n",
         "/-- one keyword function: its name, the enum it matches on, and for every arm (variant, text) -/",
         "structure KwFn where",
         "  name : List Char",
         "  enum : List Char",
         "  arms : List (List Char × List Char)",
         "  deriving DecidableEq, Repr\n",
         "def kwFns : List KwFn := ["]
    rows = []
    for f in FUNCS:
        ty, arms = keyword_fn(src, f)
        rows.append("  ⟨%s, %s, [%s]⟩" % (lean_str(f), lean_str(arms[0][0]),
                    ", ".join("(%s, %s)" % (lean_str(v), lean_str(t)) for _, v, t in arms)))
    L.append(",\n".join(rows) + "]\n")
    ex = extern_arms(src)
    L += ["/-- the arms of `format_extern` in order: (variant of `ast::Extern`, guard, kind of result, literal text) -/",
          "def externArms : List (List Char × List Char × List Char × List Char) := ["]
    L.append(",\n".join("  (%s, %s, %s, %s)" % tuple(lean_str(x) for x in e) for e in ex) + "]\n")
    v = visibility(src)
    L += ["/-- `format_visibility`: the texts of the `Public` and `Inherited` arms, the words `is_keyword` accepts, the",
          "path separator, the two values of `in_str`, and the format of the `Restricted` arm -/",
          f"def visPublic : List Char := {lean_str(v['public'][0])}",
          f"def visInherited : List Char := {lean_str(v['inherited'][0])}",
          "def visKeywords : List (List Char) := [%s]" % ", ".join(lean_str(k) for k in v['keywords']),
          f"def visSep : List Char := {lean_str(v['sep'][0])}",
          f"def visInKeyword : List Char := {lean_str(v['in'][0])}",
          f"def visInOther : List Char := {lean_str(v['in'][1])}",
          f"def visFormat : List Char := {lean_str(v['format'][0])}\n",
          "end RF.Gen.Keywords\n"]
    changed = write_if_changed(os.path.join(a.out, "Keywords.lean"), "\n".join(L))
    print(f"c01_keywords: ok ({'rewritten' if changed else 'unchanged'}); {len(FUNCS)} keyword functions, "
          f"{len(ex)} arms of format_extern, visibility keywords {list(v['keywords'])}")


if __name__ == "__main__":
    main()
