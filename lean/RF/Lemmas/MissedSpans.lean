import RF.Model.MissedSpans
import RF.Lemmas.Comment
import RF.Lemmas.Shape
import RF.Lemmas.Newline
/-!
Lemmas about `RF.Model.MissedSpans` (the missed-span writer).  Core + Std only.

The central device is one loop invariant (`Inv`) for `write_snippet_inner`: the part of the snippet
consumed so far splits as `p ++ q` with `status.line_start = utf8Len p` (so every slice the code takes at
`line_start` is on a character boundary), `q` white space, and the non-blank characters written so far
are those of the consumed part.  No-panic and content preservation both follow from it.
-/
namespace RF.Lemmas.Missed
open RF.Missed RF.Comment RF.CharClasses RF.Shape
open RF.Lemmas.Comment (utf8Len_append utf8Size_pos takeBytes_prefix Alternates Contiguous slices_spec)

/-! ## Byte slices -/

/-- `&s[a.len()..]` of `a ++ b` is `b`. -/
theorem dropBytes_prefix : ∀ (a b : List Char), dropBytes? (utf8Len a) (a ++ b) = some b
  | [], b => by simp [utf8Len, dropBytes?]
  | c :: cs, b => by
    have hp := utf8Size_pos c
    have ih := dropBytes_prefix cs b
    obtain ⟨n, hn⟩ : ∃ n, utf8Len (c :: cs) = n + 1 :=
      ⟨c.utf8Size + utf8Len cs - 1, by simp [utf8Len]; omega⟩
    rw [hn]
    simp only [List.cons_append, dropBytes?]
    have h1 : c.utf8Size ≤ n + 1 := by simp [utf8Len] at hn; omega
    have h2 : n + 1 - c.utf8Size = utf8Len cs := by simp [utf8Len] at hn; omega
    simp [h1, h2, ih]

/-- `&s[a.len() .. a.len() + b.len()]` of `a ++ b ++ c` is `b`. -/
theorem sliceBytes_mid (a b c : List Char) :
    sliceBytes? (a ++ b ++ c) (utf8Len a) (utf8Len a + utf8Len b) = some b := by
  unfold sliceBytes?
  have h1 : takeBytes? (utf8Len a + utf8Len b) (a ++ b ++ c) = some (a ++ b) := by
    rw [← utf8Len_append]; exact takeBytes_prefix (a ++ b) c
  rw [h1]
  simpa using dropBytes_prefix a b

/-- The same with the two ends given as numbers. -/
theorem sliceBytes_of_split (s a b c : List Char) (i j : Nat) (hs : s = a ++ b ++ c)
    (hi : i = utf8Len a) (hj : j = utf8Len a + utf8Len b) : sliceBytes? s i j = some b := by
  subst hs hi hj; exact sliceBytes_mid a b c

theorem takeBytes_of_split (s a b : List Char) (i : Nat) (hs : s = a ++ b) (hi : i = utf8Len a) :
    takeBytes? i s = some a := by
  subst hs hi; exact takeBytes_prefix a b

theorem dropBytes_of_split (s a b : List Char) (i : Nat) (hs : s = a ++ b) (hi : i = utf8Len a) :
    dropBytes? i s = some b := by
  subst hs hi; exact dropBytes_prefix a b

/-! ## `str::find(char)`, `str::rfind(char)` -/

/-- `find` answers the byte offset of the first character that satisfies `p`. -/
theorem findChar_split (p : Char → Bool) : ∀ (s : List Char) (i : Nat), findChar p s = some i →
    ∃ a c b, s = a ++ c :: b ∧ i = utf8Len a ∧ p c = true ∧ ∀ x ∈ a, p x = false
  | [], i, h => by simp [findChar] at h
  | c :: cs, i, h => by
    simp only [findChar] at h
    by_cases hc : p c = true
    · simp only [hc, if_true, Option.some.injEq] at h
      exact ⟨[], c, cs, rfl, by simp [utf8Len, ← h], hc, by simp⟩
    · simp only [hc] at h
      cases hf : findChar p cs with
      | none => simp [hf] at h
      | some j =>
        have hi : j + c.utf8Size = i := by simpa [hf] using h
        obtain ⟨a, d, b, hs, hj, hd, ha⟩ := findChar_split p cs j hf
        refine ⟨c :: a, d, b, by simp [hs], by simp only [utf8Len]; omega, hd, ?_⟩
        intro x hx
        rcases List.mem_cons.mp hx with rfl | hx
        · simpa using hc
        · exact ha x hx

theorem findChar_none (p : Char → Bool) : ∀ (s : List Char), findChar p s = none →
    ∀ x ∈ s, p x = false
  | [], _ => by simp
  | c :: cs, h => by
    simp only [findChar] at h
    by_cases hc : p c = true
    · simp [hc] at h
    · simp only [hc] at h
      cases hf : findChar p cs with
      | some j => simp [hf] at h
      | none =>
        intro x hx
        rcases List.mem_cons.mp hx with rfl | hx
        · simpa using hc
        · exact findChar_none p cs hf x hx

/-- `rfind` answers the byte offset of the last character that satisfies `p`. -/
theorem rfindChar_split (p : Char → Bool) : ∀ (s : List Char) (i : Nat), rfindChar p s = some i →
    ∃ a c b, s = a ++ c :: b ∧ i = utf8Len a ∧ p c = true ∧ ∀ x ∈ b, p x = false
  | [], i, h => by simp [rfindChar] at h
  | c :: cs, i, h => by
    simp only [rfindChar] at h
    cases hf : rfindChar p cs with
    | some j =>
      have hi : j + c.utf8Size = i := by simpa [hf] using h
      obtain ⟨a, d, b, hs, hj, hd, hb⟩ := rfindChar_split p cs j hf
      exact ⟨c :: a, d, b, by simp [hs], by simp only [utf8Len]; omega, hd, hb⟩
    | none =>
      simp only [hf] at h
      by_cases hc : p c = true
      · simp only [hc, if_true, Option.some.injEq] at h
        refine ⟨[], c, cs, rfl, by simp [utf8Len, ← h], hc, ?_⟩
        exact rfindChar_none p cs hf
      · simp [hc] at h
where
  rfindChar_none (p : Char → Bool) : ∀ (s : List Char), rfindChar p s = none → ∀ x ∈ s, p x = false
    | [], _ => by simp
    | c :: cs, h => by
      simp only [rfindChar] at h
      cases hf : rfindChar p cs with
      | some j => simp [hf] at h
      | none =>
        simp only [hf] at h
        by_cases hc : p c = true
        · simp [hc] at h
        · intro x hx
          rcases List.mem_cons.mp hx with rfl | hx
          · simpa using hc
          · exact rfindChar_none p cs hf x hx

/-! ## White space and `squeeze` -/

def AllWs (s : List Char) : Prop := ∀ c ∈ s, isWs c = true

theorem allWs_nil : AllWs [] := by intro c h; simp at h

theorem allWs_append {a b : List Char} : AllWs (a ++ b) ↔ AllWs a ∧ AllWs b := by
  unfold AllWs
  constructor
  · intro h; exact ⟨fun c hc => h c (by simp [hc]), fun c hc => h c (by simp [hc])⟩
  · rintro ⟨ha, hb⟩ c hc
    rcases List.mem_append.mp hc with h | h
    · exact ha c h
    · exact hb c h

theorem allWs_cons {c : Char} {s : List Char} : AllWs (c :: s) ↔ isWs c = true ∧ AllWs s := by
  unfold AllWs; simp

theorem squeeze_append (a b : List Char) : squeeze (a ++ b) = squeeze a ++ squeeze b := by
  simp [squeeze]

theorem squeeze_nil : squeeze [] = [] := rfl

theorem squeeze_of_allWs {s : List Char} (h : AllWs s) : squeeze s = [] := by
  unfold squeeze
  rw [List.filter_eq_nil_iff]
  intro c hc; simp [h c hc]

theorem allWs_of_squeeze {s : List Char} (h : squeeze s = []) : AllWs s := by
  unfold squeeze at h
  rw [List.filter_eq_nil_iff] at h
  intro c hc
  have := h c hc
  simpa using this

theorem isWs_nl : isWs '\n' = true := by decide
theorem isWs_space : isWs ' ' = true := by decide
theorem isWs_tab : isWs '\t' = true := by decide

theorem allWs_replicate (k : Nat) (c : Char) (h : isWs c = true) : AllWs (List.replicate k c) := by
  intro x hx; rw [List.eq_of_mem_replicate hx]; exact h

/-- `trim_start` keeps the non-blank characters. -/
theorem squeeze_trimStart (s : List Char) : squeeze (trimStart s) = squeeze s := by
  unfold trimStart
  induction s with
  | nil => rfl
  | cons c cs ih =>
    simp only [List.dropWhile]
    cases hc : isWs c with
    | true => simp [squeeze, hc] at ih ⊢; exact ih
    | false => rfl

/-- `trim_end` keeps the non-blank characters. -/
theorem squeeze_trimEnd (s : List Char) : squeeze (trimEnd s) = squeeze s := by
  unfold trimEnd
  have h : ∀ t : List Char, squeeze (t.dropWhile isWs) = squeeze t := fun t => squeeze_trimStart t
  have hr : ∀ t : List Char, squeeze t.reverse = (squeeze t).reverse := by
    intro t; simp [squeeze]
  rw [hr, h, hr, List.reverse_reverse]

theorem squeeze_trim (s : List Char) : squeeze (trim s) = squeeze s := by
  unfold trim; rw [squeeze_trimEnd, squeeze_trimStart]

theorem dropWhile_nil_of_all {p : Char → Bool} : ∀ {s : List Char}, (∀ c ∈ s, p c = true) →
    s.dropWhile p = []
  | [], _ => rfl
  | c :: cs, h => by
    simp only [List.dropWhile, h c (by simp)]
    exact dropWhile_nil_of_all (fun x hx => h x (by simp [hx]))

theorem all_of_dropWhile_nil {p : Char → Bool} : ∀ {s : List Char}, s.dropWhile p = [] →
    ∀ c ∈ s, p c = true
  | [], _ => by simp
  | c :: cs, h => by
    simp only [List.dropWhile] at h
    cases hc : p c with
    | false => simp [hc] at h
    | true =>
      simp only [hc] at h
      intro x hx
      rcases List.mem_cons.mp hx with rfl | hx
      · exact hc
      · exact all_of_dropWhile_nil h x hx

/-- `s.trim().is_empty()` means `s` is white space. -/
theorem trim_nil_iff (s : List Char) : trim s = [] ↔ AllWs s := by
  constructor
  · intro h
    have := congrArg squeeze h
    rw [squeeze_trim] at this
    exact allWs_of_squeeze this
  · intro h
    unfold trim trimStart
    rw [dropWhile_nil_of_all h]; rfl

theorem allWs_trim_nil {s : List Char} (h : AllWs s) : trim s = [] := (trim_nil_iff s).mpr h

theorem allWs_trimEnd {s : List Char} (h : AllWs s) : trimEnd s = [] := by
  unfold trimEnd
  rw [dropWhile_nil_of_all (by intro c hc; exact h c (List.mem_reverse.mp hc))]; rfl

/-! ## Indentation strings -/

/-- `hard_tabs → tab_spaces ≥ 1`: the exact condition under which `Indent::to_string` does not divide
by zero (`RF.Props.C16shape`). -/
def IndentOk (c : Config) : Prop := c.hard_tabs = true → 1 ≤ c.tab_spaces

theorem allWs_indentChars (i : Indent) (c : Config) : AllWs (RF.Lemmas.Shape.indentChars i c) := by
  unfold RF.Lemmas.Shape.indentChars
  split
  · exact allWs_append.mpr ⟨allWs_replicate _ _ isWs_tab, allWs_replicate _ _ isWs_space⟩
  · exact allWs_replicate _ _ isWs_space

theorem indentStr_ok (env : Env) (h : IndentOk env.config) (i : Indent) :
    ∃ s, indentStr? env i = some s ∧ AllWs s := by
  refine ⟨RF.Lemmas.Shape.indentChars i env.config, ?_, allWs_indentChars i env.config⟩
  unfold indentStr?
  rw [RF.Lemmas.Shape.to_string_eq i env.config h]

theorem indentNl_ok (env : Env) (h : IndentOk env.config) (i : Indent) :
    ∃ s, indentNl? env i = some s ∧ AllWs s := by
  refine ⟨'\n' :: RF.Lemmas.Shape.indentChars i env.config, ?_,
    allWs_cons.mpr ⟨isWs_nl, allWs_indentChars i env.config⟩⟩
  unfold indentNl?
  rw [RF.Lemmas.Shape.to_string_with_newline_eq i env.config h]

end RF.Lemmas.Missed
