import RF.Model.FormatLines
/-!
# Line-based specification of the diagnostics of `format_lines` (property C07)

Independent of the scanner of `RF/Model/FormatLines.lean`: no running state, no character loop.
The tagged text is cut into lines at `'\n'`; every *terminated* line is judged on its own from

  * `width`      Σ over its characters other than `'\r'` of (`tab_spaces` for a tab, else 1);
  * `endsBlank`  its last character other than `'\r'` is `char::is_whitespace`;
  * `commentLine` the kind of its terminating `'\n'` is a comment kind;
  * `stringLine` one of its characters other than `'\r'` has a string kind;
  * its 1-based number, the skipped ranges and the `file_lines` predicate.

An unterminated last line is never judged (`new_line` is not called for it; `format_file` always
appends `'\n'` before `format_lines`, so this does not occur in rustfmt).

`RF/Props/C07.lean` proves that the scanner computes exactly this (`scan_eq_spec`).
-/
namespace RF.FormatLines.Spec
open RF.CharClasses (Kind)
open RF.FormatLines

/-- A terminated line: its tagged characters (without the `'\n'`) and the kind of the `'\n'`. -/
structure Line where
  body : List (Kind × Char)
  nl : Kind
  deriving DecidableEq, Repr, Inhabited

/-- Cut at `'\n'`.  `cur` = characters of the line being collected.  Result: the terminated lines
and the unterminated remainder. -/
def splitLines (cur : List (Kind × Char)) : List (Kind × Char) → List Line × List (Kind × Char)
  | [] => ([], cur)
  | (k, c) :: rest =>
    if c = '\n' then ((⟨cur, k⟩ : Line) :: (splitLines [] rest).1, (splitLines [] rest).2)
    else splitLines (cur ++ [(k, c)]) rest

/-- The terminated lines of a tagged text. -/
def lines (tagged : List (Kind × Char)) : List Line := (splitLines [] tagged).1

/-- The characters of a line that the scanner looks at: all but `'\r'`. -/
def visible (l : Line) : List (Kind × Char) := l.body.filter (fun p => p.2 ≠ '\r')

/-- The line as text without `'\r'` (what `line_buffer` holds). -/
def lineText (l : Line) : List Char := (visible l).map (·.2)

def charWidth (tabSpaces : Nat) (c : Char) : Nat := if c = '\t' then tabSpaces else 1

def width (tabSpaces : Nat) (l : Line) : Nat := ((lineText l).map (charWidth tabSpaces)).sum

def endsBlank (l : Line) : Bool :=
  match (lineText l).getLast? with
  | some c => isWhitespace c
  | none => false

def commentLine (l : Line) : Bool := l.nl.isComment

def stringLine (l : Line) : Bool := (visible l).any (fun p => p.1.isString)

/-- `error_on_unformatted = false` exempts exactly comment lines and string lines. -/
def allowed (cfg : Config) (l : Line) : Bool :=
  cfg.errorOnUnformatted || !(commentLine l || stringLine l)

def inSkipped (skipped : List (Nat × Nat)) (n : Nat) : Bool :=
  skipped.any fun r => r.1 ≤ n && n ≤ r.2

/-- Width as reported: one column less when the line ends blank. -/
def reportedWidth (tabSpaces : Nat) (l : Line) : Nat :=
  if endsBlank l then width tabSpaces l - 1 else width tabSpaces l

/-- A line is eligible for diagnostics. -/
def eligible (cfg : Config) (skipped : List (Nat × Nat)) (selected : Nat → Bool) (n : Nat)
    (l : Line) : Bool :=
  selected n && !inSkipped skipped n && allowed cfg l

/-- The diagnostics of line number `n`. -/
def lineErrors (cfg : Config) (skipped : List (Nat × Nat)) (selected : Nat → Bool) (n : Nat)
    (l : Line) : List FormattingError :=
  if eligible cfg skipped selected n l then
    (if endsBlank l then
      [⟨n, .trailingWhitespace, commentLine l, l.nl.isString, lineText l⟩] else []) ++
    (if cfg.errorOnLineOverflow && decide (reportedWidth cfg.tabSpaces l > cfg.maxWidth) then
      [⟨n, .lineOverflow (reportedWidth cfg.tabSpaces l) cfg.maxWidth, commentLine l,
        stringLine l, lineText l⟩] else [])
  else []

/-- The one situation in which the Rust code panics (builds with overflow checks): a selected
line that ends blank and has width 0 — only possible with `tab_spaces = 0` and a line of tabs. -/
def underflows (cfg : Config) (selected : Nat → Bool) (n : Nat) (l : Line) : Bool :=
  selected n && endsBlank l && width cfg.tabSpaces l == 0

/-- Diagnostics of the lines `ls`, numbered from `n`; `none` if one of them `underflows`. -/
def errorsFrom (cfg : Config) (skipped : List (Nat × Nat)) (selected : Nat → Bool) :
    Nat → List Line → Option (List FormattingError)
  | _, [] => some []
  | n, l :: ls =>
    if underflows cfg selected n l then none
    else (errorsFrom cfg skipped selected (n + 1) ls).map (lineErrors cfg skipped selected n l ++ ·)

/-- The specified report for a tagged text: lines numbered from 1. -/
def errors (cfg : Config) (skipped : List (Nat × Nat)) (selected : Nat → Bool)
    (tagged : List (Kind × Char)) : Option (List FormattingError) :=
  errorsFrom cfg skipped selected 1 (lines tagged)

/-- Number of `'\n'` in the longest suffix of the text made of `'\n'` and `'\r'` only. -/
def trailingNewlines (text : List Char) : Nat :=
  (text.reverse.takeWhile (fun c => c = '\n' || c = '\r')).count '\n'

/-- The specified text after `format_lines`: if the text ends in `k > 1` newlines (carriage
returns between them not counted), its last `k - 1` characters are cut off. -/
def truncated (text : List Char) : List Char :=
  text.take (text.length - (trailingNewlines text - 1))

/-- The specified result. -/
def result (cfg : Config) (skipped : List (Nat × Nat)) (selected : Nat → Bool)
    (tagged : List (Kind × Char)) : Option Result :=
  (errors cfg skipped selected tagged).map fun es => ⟨es, truncated (tagged.map (·.2))⟩

end RF.FormatLines.Spec
