#!/bin/sh
# Recording stand-in for rustfmt (C18 harness; set RUSTFMT to this file).
#
#   RF_STANDIN_LOG     file; one record is appended per call:
#                        "argc <n>\n" then per argument "<byte length>\n<bytes>\n"
#                      (byte lengths, so any argument text survives; calls must be sequential,
#                      which holds for cargo-fmt and format-diff: they wait for each child)
#   RF_STANDIN_STATUS  file with one entry per line; the k-th call (k = number of records already in
#                      the log) ends with the k-th entry: a number = that exit code, `kill` = the
#                      process kills itself with SIGKILL (ExitStatus::code() == None for the parent);
#                      a missing entry or variable = exit 0
LC_ALL=C
export LC_ALL
log=${RF_STANDIN_LOG:-/dev/null}
k=0
if [ -f "$log.n" ]; then
  read k < "$log.n"
fi
{
  printf 'argc %d\n' "$#"
  for a in "$@"; do
    printf '%d\n%s\n' "${#a}" "$a"
  done
} >> "$log"
echo $((k + 1)) > "$log.n"
st=0
if [ -n "$RF_STANDIN_STATUS" ] && [ -f "$RF_STANDIN_STATUS" ]; then
  i=0
  while read line; do
    if [ "$i" -eq "$k" ]; then
      st=$line
      break
    fi
    i=$((i + 1))
  done < "$RF_STANDIN_STATUS"
fi
case "$st" in
  kill) kill -9 $$ ;;
  '') exit 0 ;;
  *) exit "$st" ;;
esac
