-- This module serves as the root of the `RF` library.
-- Import modules here that should be built as part of the library.
import RF.Basic
