//! C10: import rewriting preserves what is imported.
//!
//! 1. Correspondence of every stage of the import algebra (`from_ast`, `normalize`, `flatten`,
//!    `nest_trailing_self`, `share_prefix`, `merge`/`merge_rest`, `merge_use_trees_inner`,
//!    `normalize_use_trees_with_granularity`, `group_imports`, the `use` arm of
//!    `rewrite_reorderable_or_regroupable_items`) with the Lean model `RF/Model/Imports.lean`:
//!    on path-only trees (shapes the parser never builds included; exhaustive over small
//!    universes) and on generated source text through the real parser (visibilities, attributes,
//!    comments).
//! 2. Oracle on the real formatter: generated files, every granularity x grouping x reordering
//!    x edition x style edition x width; the keyed leaf sets of input and output are computed by a
//!    parser of the harness over rustc_lexer tokens and the Lean denotation `leaves`.
//! 3. Enumerated probes of the inputs known to be dirty on the pinned tree.
use std::collections::{BTreeMap, BTreeSet};
use std::path::Path;
use std::time::Duration;

use rustfmt_nightly::verif_hooks::imports as hi;
use rustfmt_nightly::StyleEdition;
use serde_json::json;

use crate::c11::{dec_tree, dec_trees, Seg, Tree};
use crate::gen::{lex, TokClass};
use crate::pool::{self, Job, Status};
use crate::util::*;

// ------------------------------------------------------------------ encodings of the Lean driver

fn lalias(a: &Option<String>) -> String {
    match a {
        None => "-".into(),
        Some(s) => enc_str(s),
    }
}

fn lseg(s: &Seg) -> String {
    match s {
        Seg::Ident(n, a) => format!("I{}~{}", enc_str(n), lalias(a)),
        Seg::Slf(a) => format!("S~{}", lalias(a)),
        Seg::Super(a) => format!("U~{}", lalias(a)),
        Seg::Crate(a) => format!("C~{}", lalias(a)),
        Seg::Glob => "*".into(),
        Seg::List(l) => format!("[{}]", l.iter().map(ltree).collect::<Vec<_>>().join(",")),
    }
}

fn ltree(t: &Tree) -> String {
    if t.0.is_empty() { "@".into() } else { t.0.iter().map(lseg).collect::<Vec<_>>().join(":") }
}

/// A top-level `use` item as the model sees it.
#[derive(Clone, Debug, PartialEq, Eq, PartialOrd, Ord)]
pub(crate) struct Item {
    tree: Tree,
    vis: Option<String>,
    attrs: Option<String>,
    comment: bool,
}

fn litem(i: &Item) -> String {
    let v = match &i.vis {
        None => "n".to_string(),
        Some(v) if v.is_empty() => "v".to_string(),
        Some(v) => format!("v{}", enc_str(v)),
    };
    let a = match &i.attrs {
        None => "n".to_string(),
        Some(a) => format!("a{}", enc_str(a)),
    };
    format!("{};{};{};{}", v, a, i.comment as u8, ltree(&i.tree))
}

fn litems(v: &[Item]) -> String {
    if v.is_empty() { "_".into() } else { v.iter().map(litem).collect::<Vec<_>>().join("|") }
}

fn lgroups(g: &[Vec<Item>]) -> String {
    if g.is_empty() { "_".into() } else { g.iter().map(|x| litems(x)).collect::<Vec<_>>().join("!") }
}

fn bare(t: &Tree) -> Item {
    Item { tree: t.clone(), vis: None, attrs: None, comment: false }
}

fn of_hook(u: &hi::UseItem) -> Item {
    Item { tree: dec_tree(&u.tree).expect("hook tree encoding"), vis: u.vis.clone(), attrs: u.attrs.clone(), comment: u.comment }
}

fn of_hooks(v: &[hi::UseItem]) -> Vec<Item> {
    v.iter().map(of_hook).collect()
}

const GNAMES: [&str; 5] = ["preserve", "crate", "module", "item", "one"];
const SPNAMES: [&str; 3] = ["crate", "module", "one"];

fn se_of(v: bool) -> StyleEdition {
    if v { StyleEdition::Edition2024 } else { StyleEdition::Edition2021 }
}

fn st(v: bool) -> &'static str {
    if v { "2024" } else { "2021" }
}

// ------------------------------------------------------------------ a liberal use-tree parser

/// A token that is not white space, with the lines it starts and ends on (1-based).
#[derive(Clone, Debug)]
struct LTok {
    class: TokClass,
    text: String,
    line: usize,
    end_line: usize,
}

fn lex_lines(src: &str) -> Vec<LTok> {
    let mut line = 1;
    let mut res = vec![];
    for t in lex(src) {
        let nl = t.text.matches('\n').count();
        if t.class != TokClass::Ws {
            // a line comment's text does not contain its newline
            res.push(LTok { class: t.class.clone(), text: t.text.clone(), line, end_line: line + nl });
        }
        line += nl;
    }
    res
}

fn is_comment(t: &LTok) -> bool {
    matches!(t.class, TokClass::LineComment { .. } | TokClass::BlockComment { .. })
}

fn is_doc(t: &LTok) -> bool {
    matches!(t.class, TokClass::LineComment { doc: true } | TokClass::BlockComment { doc: true, .. })
}

struct TP<'a> {
    t: &'a [LTok],
    i: usize,
    /// comments met inside the tree
    comments: Vec<String>,
}

impl<'a> TP<'a> {
    fn skip_comments(&mut self) {
        while self.i < self.t.len() && is_comment(&self.t[self.i]) {
            self.comments.push(self.t[self.i].text.clone());
            self.i += 1;
        }
    }
    fn peek(&mut self) -> Option<&'a LTok> {
        self.skip_comments();
        self.t.get(self.i)
    }
    fn eat(&mut self, s: &str) -> bool {
        if self.peek().map(|t| t.text == s).unwrap_or(false) {
            self.i += 1;
            true
        } else {
            false
        }
    }
    fn eat_sep(&mut self) -> bool {
        // `::` is two `:` puncts for rustc_lexer
        self.skip_comments();
        if self.i + 1 < self.t.len() && self.t[self.i].text == ":" && self.t[self.i + 1].text == ":" {
            self.i += 2;
            true
        } else {
            false
        }
    }
    /// `as <ident>` | `as _`
    fn alias(&mut self) -> Result<Option<String>, String> {
        if self.peek().map(|t| t.class == TokClass::Ident && t.text == "as").unwrap_or(false) {
            self.i += 1;
            match self.peek() {
                Some(t) if matches!(t.class, TokClass::Ident | TokClass::RawIdent) => {
                    self.i += 1;
                    Ok(Some(t.text.clone()))
                }
                _ => Err("alias expected".into()),
            }
        } else {
            Ok(None)
        }
    }
    fn seg(&mut self) -> Result<Seg, String> {
        let t = self.peek().ok_or("segment expected, end of input")?;
        if t.text == "*" {
            self.i += 1;
            return Ok(Seg::Glob);
        }
        if t.text == "{" {
            self.i += 1;
            let mut l = vec![];
            loop {
                if self.eat("}") {
                    break;
                }
                l.push(self.tree()?);
                if self.eat(",") {
                    continue;
                }
                if self.eat("}") {
                    break;
                }
                return Err("`,` or `}` expected".into());
            }
            return Ok(Seg::List(l));
        }
        if t.text == "@" {
            return Err("empty".into());
        }
        if !matches!(t.class, TokClass::Ident | TokClass::RawIdent) {
            return Err(format!("segment expected, found `{}`", t.text));
        }
        self.i += 1;
        let a = self.alias()?;
        Ok(match t.text.as_str() {
            "self" => Seg::Slf(a),
            "super" => Seg::Super(a),
            "crate" => Seg::Crate(a),
            n => Seg::Ident(n.to_string(), a),
        })
    }
    /// `[::] seg (:: seg)*`; a leading `::` becomes a first segment with the empty name
    fn tree(&mut self) -> Result<Tree, String> {
        let mut segs = vec![];
        if self.eat("@") {
            return Ok(Tree(vec![]));
        }
        if self.eat_sep() {
            segs.push(Seg::Ident(String::new(), None));
        }
        loop {
            segs.push(self.seg()?);
            if !self.eat_sep() {
                break;
            }
        }
        Ok(Tree(segs))
    }
}

/// `a::{self as s, b::*}`, `@` (the empty path), `a as x::b` (not Rust, but a `UseTree`)
fn tr(s: &str) -> Tree {
    let toks = lex_lines(s);
    let mut p = TP { t: &toks, i: 0, comments: vec![] };
    let t = p.tree().unwrap_or_else(|e| panic!("tr({}): {}", s, e));
    assert!(p.i == toks.len(), "tr({}): trailing input", s);
    t
}

// ------------------------------------------------------------------ top-level items of a file

#[derive(Clone, Debug)]
struct PUse {
    /// `` | `pub` | `pub(<path>)` (without `in`)
    vis: String,
    /// attributes and doc comments, white space removed from attributes
    attrs: Vec<String>,
    tree: Tree,
    /// non-doc comments inside the item and attached to it (the line above, the same line after `;`)
    comments: Vec<String>,
    first_line: usize,
    last_line: usize,
}

#[derive(Clone, Debug)]
enum PItem {
    Use(PUse),
    /// any other item, a `#[macro_use]` / skipped `use` included: its tokens
    Other(String),
}

fn unraw(s: &str) -> &str {
    s.strip_prefix("r#").unwrap_or(s)
}

/// `a as a` is `a`; under edition 2015 a leading `::` means nothing
fn canon_tree(t: &Tree, e2015: bool, top: bool) -> Tree {
    let mut segs: Vec<Seg> = vec![];
    for (k, s) in t.0.iter().enumerate() {
        match s {
            Seg::Ident(n, _) if n.is_empty() && k == 0 && top && e2015 => {}
            Seg::Ident(n, Some(a)) if unraw(a) == unraw(n) && a != "_" => segs.push(Seg::Ident(n.clone(), None)),
            Seg::List(l) => segs.push(Seg::List(l.iter().map(|x| canon_tree(x, e2015, false)).collect())),
            s => segs.push(s.clone()),
        }
    }
    Tree(segs)
}

/// The top-level items of a file of the restricted grammar the generators write (attributes,
/// visibilities, `use` trees, and other items that end in `;` or a brace block), and the
/// comments between them.
fn parse_file(src: &str) -> Result<Vec<PItem>, String> {
    let toks = lex_lines(src);
    let mut items: Vec<PItem> = vec![];
    // (text, line, end_line) of comments between items, with the index of the item that follows
    let mut loose: Vec<(String, usize, usize, usize)> = vec![];
    let mut i = 0;
    while i < toks.len() {
        if is_comment(&toks[i]) && !is_doc(&toks[i]) {
            loose.push((toks[i].text.clone(), toks[i].line, toks[i].end_line, items.len()));
            i += 1;
            continue;
        }
        let start = i;
        let mut attrs = vec![];
        let mut inner_comments = vec![];
        loop {
            if i >= toks.len() {
                return Err("attributes without an item".into());
            }
            if is_doc(&toks[i]) {
                attrs.push(toks[i].text.trim().to_string());
                i += 1;
            } else if is_comment(&toks[i]) {
                inner_comments.push(toks[i].text.clone());
                i += 1;
            } else if toks[i].text == "#" {
                let mut depth = 0;
                let mut s = String::new();
                loop {
                    if i >= toks.len() {
                        return Err("unterminated attribute".into());
                    }
                    let t = &toks[i];
                    i += 1;
                    if is_comment(t) {
                        continue;
                    }
                    s.push_str(&t.text);
                    if t.text == "[" {
                        depth += 1;
                    }
                    if t.text == "]" {
                        depth -= 1;
                        if depth == 0 {
                            break;
                        }
                    }
                }
                attrs.push(s);
            } else {
                break;
            }
        }
        let mut vis = String::new();
        if toks[i].text == "pub" && toks[i].class == TokClass::Ident {
            vis = "pub".into();
            i += 1;
            if i < toks.len() && toks[i].text == "(" {
                let mut s = String::new();
                i += 1;
                while i < toks.len() && toks[i].text != ")" {
                    if !(toks[i].text == "in" && s.is_empty()) && !is_comment(&toks[i]) {
                        s.push_str(&toks[i].text);
                    }
                    i += 1;
                }
                i += 1;
                vis = format!("pub({})", s);
            }
        }
        if i >= toks.len() {
            return Err("visibility without an item".into());
        }
        let barrier = attrs.iter().any(|a| a.contains("rustfmt::skip") || a.contains("rustfmt_skip") || a.contains("macro_use"));
        if toks[i].text == "use" && toks[i].class == TokClass::Ident && !barrier {
            let mut p = TP { t: &toks, i: i + 1, comments: inner_comments };
            let tree = p.tree()?;
            if !p.eat(";") {
                return Err(format!("`;` expected after a use tree, line {}", toks[p.i.min(toks.len() - 1)].line));
            }
            i = p.i;
            items.push(PItem::Use(PUse { vis, attrs, tree, comments: p.comments, first_line: toks[start].line, last_line: toks[i - 1].end_line }));
        } else {
            // another item: up to `;` or the end of the first brace block, at depth 0
            let mut depth = 0i32;
            loop {
                if i >= toks.len() {
                    return Err("unterminated item".into());
                }
                let t = &toks[i];
                i += 1;
                match t.text.as_str() {
                    "{" | "(" | "[" => depth += 1,
                    "}" | ")" | "]" => {
                        depth -= 1;
                        if depth == 0 && t.text == "}" {
                            break;
                        }
                    }
                    ";" if depth == 0 => break,
                    _ => {}
                }
            }
            // (a trailing comma before `}` is layout: the item may be re-wrapped)
            let kept: Vec<&LTok> = toks[start..i].iter().filter(|t| !is_comment(t) || is_doc(t)).collect();
            // (and `c as c` is `c`: `from_ast` drops the alias)
            let same_alias = |k: usize| k >= 2 && kept[k - 1].text == "as" && unraw(&kept[k].text) == unraw(&kept[k - 2].text);
            let text = kept
                .iter()
                .enumerate()
                .filter(|(k, t)| !(t.text == "," && kept.get(k + 1).map(|n| n.text == "}").unwrap_or(false)))
                .filter(|(k, _)| !same_alias(*k) && !(k + 1 < kept.len() && same_alias(k + 1)))
                .map(|(_, t)| t.text.trim().to_string())
                .collect::<Vec<_>>()
                .join(" ");
            items.push(PItem::Other(text));
        }
    }
    // attach the comments between items: same line as the end of the previous `use`, or the
    // line(s) directly above the next one
    let mut above: BTreeMap<usize, usize> = BTreeMap::new(); // item index -> first line of the comment block above it
    for (text, line, end_line, next) in loose.iter().rev() {
        if *next > 0 {
            if let PItem::Use(u) = &mut items[*next - 1] {
                if *line == u.last_line {
                    u.comments.push(text.clone());
                    continue;
                }
            }
        }
        if *next < items.len() {
            if let PItem::Use(u) = &mut items[*next] {
                let top = *above.get(next).unwrap_or(&u.first_line);
                if *end_line + 1 == top {
                    u.comments.push(text.clone());
                    above.insert(*next, *line);
                }
            }
        }
    }
    Ok(items)
}

/// The segments of a file: maximal runs of `use` items between other items, and those others.
fn segments(items: &[PItem]) -> (Vec<Vec<PUse>>, Vec<String>) {
    let mut segs = vec![vec![]];
    let mut others = vec![];
    for it in items {
        match it {
            PItem::Use(u) => segs.last_mut().unwrap().push(u.clone()),
            PItem::Other(t) => {
                others.push(t.clone());
                segs.push(vec![]);
            }
        }
    }
    (segs, others)
}

/// `::a::b` as `from_ast` represents it from edition 2018 on: the first name is `::a`
fn glue_root(t: &Tree) -> Tree {
    match (t.0.first(), t.0.get(1)) {
        (Some(Seg::Ident(r, None)), Some(Seg::Ident(n, a))) if r.is_empty() => {
            let mut segs = vec![Seg::Ident(format!("::{}", n), a.clone())];
            segs.extend(t.0[2..].iter().cloned());
            Tree(segs)
        }
        _ => t.clone(),
    }
}

fn item_of_puse(u: &PUse, e2015: bool) -> Item {
    Item {
        tree: canon_tree(&u.tree, e2015, true),
        vis: Some(u.vis.clone()),
        attrs: if u.attrs.is_empty() { None } else { Some(u.attrs.iter().map(|a| a.split_whitespace().collect::<Vec<_>>().join(" ")).collect::<Vec<_>>().join("\n")) },
        comment: !u.comments.is_empty(),
    }
}

// ------------------------------------------------------------------ generated declarations

/// A use tree as written: `[::] path [:: * | :: {..} | as alias]`, with the comment written next
/// to it when it is an element of a list (0 `/* c */ elem`, 1 `elem /* c */`, 2 `elem, // c`).
#[derive(Clone, Debug)]
struct GTree {
    global: bool,
    path: Vec<String>,
    end: GEnd,
    comment: Option<(u8, String)>,
}

#[derive(Clone, Debug)]
enum GEnd {
    Plain(Option<String>),
    Glob,
    List(Vec<GTree>),
}

fn kw_seg(name: &str, alias: Option<String>) -> Seg {
    match name {
        "self" => Seg::Slf(alias),
        "super" => Seg::Super(alias),
        "crate" => Seg::Crate(alias),
        n => Seg::Ident(n.to_string(), alias),
    }
}

impl GTree {
    fn plain(path: &[&str], alias: Option<&str>) -> GTree {
        GTree { global: false, path: path.iter().map(|s| s.to_string()).collect(), end: GEnd::Plain(alias.map(|s| s.to_string())), comment: None }
    }
    fn text(&self) -> String {
        let mut s = String::new();
        if self.global {
            s.push_str("::");
        }
        s.push_str(&self.path.join("::"));
        match &self.end {
            GEnd::Plain(None) => {}
            GEnd::Plain(Some(a)) => s.push_str(&format!(" as {}", a)),
            GEnd::Glob => {
                if !self.path.is_empty() {
                    s.push_str("::");
                }
                s.push('*');
            }
            GEnd::List(l) => {
                if !self.path.is_empty() {
                    s.push_str("::");
                }
                let multiline = l.iter().any(|e| matches!(e.comment, Some((2, _))));
                s.push('{');
                for (k, e) in l.iter().enumerate() {
                    let last = k + 1 == l.len();
                    if multiline {
                        s.push_str("\n    ");
                    } else if k > 0 {
                        s.push(' ');
                    }
                    let body = e.text().replace('\n', "\n    ");
                    match &e.comment {
                        Some((0, c)) => s.push_str(&format!("/* {} */ {}{}", c, body, if last { "" } else { "," })),
                        Some((1, c)) => s.push_str(&format!("{} /* {} */{}", body, c, if last { "" } else { "," })),
                        Some((_, c)) => s.push_str(&format!("{}{} // {}", body, if last { "" } else { "," }, c)),
                        None => s.push_str(&format!("{}{}", body, if last { "" } else { "," })),
                    }
                }
                if multiline {
                    s.push('\n');
                }
                s.push('}');
            }
        }
        s
    }
    /// the tree as written (what the harness parser must read): a leading `::` is a first segment
    /// with the empty name
    fn surface(&self) -> Tree {
        let mut segs = vec![];
        if self.global {
            segs.push(Seg::Ident(String::new(), None));
        }
        for p in &self.path {
            segs.push(kw_seg(p, None));
        }
        match &self.end {
            GEnd::Plain(a) => {
                let last = segs.pop().expect("plain tree with an empty path");
                segs.push(match last {
                    Seg::Ident(n, _) => Seg::Ident(n, a.clone()),
                    Seg::Slf(_) => Seg::Slf(a.clone()),
                    Seg::Super(_) => Seg::Super(a.clone()),
                    Seg::Crate(_) => Seg::Crate(a.clone()),
                    s => s,
                });
            }
            GEnd::Glob => segs.push(Seg::Glob),
            GEnd::List(l) => segs.push(Seg::List(l.iter().map(|e| e.surface()).collect())),
        }
        Tree(segs)
    }
    /// what `UseTree::from_ast` must build (transcription of its rules): under edition >= 2018 a
    /// leading `::` is glued to the first name (`::a`) or becomes an empty first name before `*` /
    /// `{..}`, under 2015 it is dropped; `a as a` loses its alias; `as _` is the alias `_`.
    fn raw(&self, e2018: bool) -> Tree {
        let modsep = e2018 && self.global;
        let mut segs = vec![];
        for (k, p) in self.path.iter().enumerate() {
            segs.push(match kw_seg(p, None) {
                Seg::Ident(n, _) if k == 0 && modsep => Seg::Ident(format!("::{}", n), None),
                s => s,
            });
        }
        match &self.end {
            GEnd::Plain(a) => {
                let last = self.path.last().expect("plain tree with an empty path");
                let name = if self.path.len() == 1 && modsep { format!("::{}", last) } else { last.clone() };
                let alias = a.as_ref().and_then(|a| if a == "_" { Some(a.clone()) } else if unraw(a) == unraw(last) { None } else { Some(a.clone()) });
                segs.pop();
                segs.push(kw_seg(&name, alias));
            }
            GEnd::Glob | GEnd::List(_) => {
                if self.path.is_empty() && modsep {
                    segs.push(Seg::Ident(String::new(), None));
                }
                segs.push(match &self.end {
                    GEnd::List(l) => Seg::List(l.iter().map(|e| e.raw(e2018)).collect()),
                    _ => Seg::Glob,
                });
            }
        }
        Tree(segs)
    }
    /// unique tags for the nested comments
    fn retag(&mut self, next: &mut usize) {
        if let Some((_, c)) = &mut self.comment {
            *c = format!("n{}", *next);
            *next += 1;
        }
        if let GEnd::List(l) = &mut self.end {
            l.iter_mut().for_each(|e| e.retag(next));
        }
    }
    fn imports_nothing(&self) -> bool {
        matches!(&self.end, GEnd::List(l) if l.iter().all(|e| e.imports_nothing()))
    }
    fn has_comment(&self) -> bool {
        self.comment.is_some() || matches!(&self.end, GEnd::List(l) if l.iter().any(|e| e.has_comment()))
    }
    fn comments(&self, out: &mut Vec<String>) {
        if let Some((_, c)) = &self.comment {
            out.push(c.clone());
        }
        if let GEnd::List(l) = &self.end {
            l.iter().for_each(|e| e.comments(out));
        }
    }
    fn depth(&self) -> usize {
        match &self.end {
            GEnd::List(l) => 1 + l.iter().map(|e| e.depth()).max().unwrap_or(0),
            _ => 0,
        }
    }
    fn features(&self, f: &mut BTreeSet<&'static str>) {
        if self.global {
            f.insert("leading ::");
        }
        for p in &self.path {
            match p.as_str() {
                "self" => f.insert("self in path"),
                "super" => f.insert("super"),
                "crate" => f.insert("crate"),
                p if p.starts_with("r#") => f.insert("raw identifier"),
                _ => false,
            };
        }
        match &self.end {
            GEnd::Plain(Some(a)) => {
                f.insert(if a == "_" { "alias _" } else { "alias" });
                if self.path.last().map(|p| p == "self").unwrap_or(false) {
                    f.insert("self as alias");
                }
            }
            GEnd::Plain(None) => {}
            GEnd::Glob => {
                f.insert("glob");
            }
            GEnd::List(l) => {
                f.insert(match l.len() {
                    0 => "empty list",
                    1 => "list of one",
                    _ => "list",
                });
                l.iter().for_each(|e| e.features(f));
            }
        }
        if self.comment.is_some() {
            f.insert("nested comment");
        }
    }
}

#[derive(Clone, Debug)]
struct Decl {
    /// `` | `pub` | `pub(crate)` | `pub(super)` | `pub(self)` | `pub(in crate)` | `pub(in a::b)`
    vis: String,
    attrs: Vec<String>,
    /// the first attribute on the line of `use`
    inline_attr: bool,
    tree: GTree,
    /// comment line above
    pre: Option<String>,
    /// comment on the line of `;`
    trail: Option<String>,
}

impl Decl {
    fn of(tree: GTree) -> Decl {
        Decl { vis: String::new(), attrs: vec![], inline_attr: false, tree, pre: None, trail: None }
    }
    fn text(&self) -> String {
        let mut s = String::new();
        if let Some(c) = &self.pre {
            s.push_str(&format!("// {}\n", c));
        }
        for (k, a) in self.attrs.iter().enumerate() {
            s.push_str(a);
            s.push(if self.inline_attr && k + 1 == self.attrs.len() && !a.starts_with("//") { ' ' } else { '\n' });
        }
        if !self.vis.is_empty() {
            s.push_str(&self.vis);
            s.push(' ');
        }
        s.push_str(&format!("use {};", self.tree.text()));
        if let Some(c) = &self.trail {
            s.push_str(&format!(" // {}", c));
        }
        s
    }
    fn vis_key(&self) -> String {
        self.vis.replace("(in ", "(")
    }
    /// the item `from_ast` must build
    fn raw_item(&self, e2018: bool) -> Item {
        Item { tree: self.tree.raw(e2018), vis: Some(self.vis_key()), attrs: if self.attrs.is_empty() { None } else { Some(self.attrs.join("\n")) }, comment: self.tree.has_comment() }
    }
}

const ROOTS: &[&str] = &["a", "a", "a", "b", "b", "c", "std", "core", "r#try", "Z"];
const NAMES: &[&str] = &["a", "b", "b", "c", "c", "d", "e", "B", "r#as", "f1"];
const ALIASES: &[&str] = &["x", "y", "p", "r#q", "_", "X"];
const VISES: &[&str] = &[
    "", "", "", "", "", "", "pub", "pub", "pub(crate)", "pub(super)", "pub(in crate)", "pub(self)", "pub(in a::b)",
    // restricted paths that are prefixes of one another
    "pub(in a)", "pub(in a::b::c)", "pub(in crate::a)", "pub(in crate::a::b)", "pub(in super::a)", "pub(in self::a)",
];

/// a visibility whose path is a prefix or an extension of the path of `vis` (or any, for `pub` / private)
fn related_vis(rng: &mut Rng, vis: &str) -> String {
    let fam: &[&str] = if vis.contains("crate") {
        &["pub(crate)", "pub(in crate)", "pub(in crate::a)", "pub(in crate::a::b)", "pub(in crate::b)"]
    } else if vis.contains("super") {
        &["pub(super)", "pub(in super)", "pub(in super::a)", "pub(in super::super)"]
    } else if vis.contains("self") {
        &["pub(self)", "pub(in self::a)", "pub(in self::a::b)"]
    } else if vis.contains("(in a") {
        &["pub(in a)", "pub(in a::b)", "pub(in a::b::c)", "pub(in a::c)"]
    } else {
        return rng.pick(VISES).to_string();
    };
    rng.pick(fam).to_string()
}

struct GenOpts {
    max_depth: usize,
    comments: bool,
    /// shapes outside what rustc accepts but inside what the parser builds: `a::self`
    odd: bool,
    global: bool,
}

fn gen_alias(rng: &mut Rng, name: &str) -> Option<String> {
    if rng.chance(1, 25) {
        // `a as a`
        return Some(name.to_string());
    }
    Some(rng.pick(ALIASES).to_string())
}

fn gen_list(rng: &mut Rng, depth: usize, g: &GenOpts) -> Vec<GTree> {
    let n = match rng.below(12) {
        0 => 0,
        1 | 2 => 1,
        3..=7 => 2,
        8..=10 => 3,
        _ => 4,
    };
    let mut l: Vec<GTree> = (0..n)
        .map(|_| match rng.below(14) {
            0 => GTree { global: false, path: vec!["self".into()], end: GEnd::Plain(if rng.chance(1, 3) { Some(rng.pick(ALIASES).to_string()) } else { None }), comment: None },
            1 => GTree { global: false, path: vec![], end: GEnd::Glob, comment: None },
            _ => gen_tree(rng, depth + 1, g),
        })
        .collect();
    if g.comments && n >= 2 && rng.chance(1, 6) {
        let k = rng.below(n);
        // (an element that imports nothing is kept by normalize when it carries a comment; the
        // model does not locate nested comments: such an element gets none)
        // and the list keeps at least two elements when the empty ones are removed: a sole element
        // with a comment is not spliced, which the model cannot know)
        if !l[k].imports_nothing() && l.iter().filter(|e| !e.imports_nothing()).count() >= 2 {
            l[k].comment = Some((rng.below(3) as u8, format!("n{}", rng.below(1000))));
        }
    }
    l
}

/// a tree at nesting depth `depth` (0 = the tree of a declaration)
fn gen_tree(rng: &mut Rng, depth: usize, g: &GenOpts) -> GTree {
    let mut path: Vec<String> = vec![];
    let mut global = false;
    if depth == 0 {
        match rng.below(12) {
            0 => path.push("self".into()),
            1 => path.push("crate".into()),
            2 => {
                path.push("super".into());
                if rng.chance(1, 3) {
                    path.push("super".into());
                }
            }
            3 if g.global => global = true,
            _ => {}
        }
        if path.is_empty() || rng.chance(1, 2) {
            path.push(rng.pick(ROOTS).to_string());
        }
    }
    let extra = match rng.below(10) {
        0..=3 => 0,
        4..=7 => 1,
        8 => 2,
        _ => 3,
    };
    for _ in 0..(if depth > 0 && path.is_empty() { extra.max(1) } else { extra }) {
        path.push(rng.pick(NAMES).to_string());
    }
    if depth == 0 && rng.chance(1, 25) && g.max_depth > 0 {
        // `use {a::b, c};`, `use ::{a, b};`, `use ::*;`
        let global = g.global && rng.chance(1, 2);
        let end = if global && rng.chance(1, 4) { GEnd::Glob } else { GEnd::List(gen_list(rng, 0, g)) };
        return GTree { global, path: vec![], end, comment: None };
    }
    let is_kw = |s: &String| matches!(s.as_str(), "self" | "super" | "crate");
    let last_kw = path.last().map(is_kw).unwrap_or(false);
    let mut end = match rng.below(12) {
        0 => GEnd::Glob,
        1..=3 if depth < g.max_depth => GEnd::List(gen_list(rng, depth, g)),
        4 | 5 if !last_kw => GEnd::Plain(gen_alias(rng, path.last().unwrap())),
        6 if g.odd && depth == 0 && !last_kw => {
            // `a::self` / `a::self as x`
            path.push("self".into());
            GEnd::Plain(if rng.chance(1, 2) { Some(rng.pick(ALIASES).to_string()) } else { None })
        }
        _ => GEnd::Plain(None),
    };
    if matches!(end, GEnd::Plain(_)) && path.iter().all(is_kw) {
        // bare `self` / `super` / `crate`: a name must follow (bare self: probe C10-bare-self)
        path.push(rng.pick(NAMES).to_string());
        end = GEnd::Plain(None);
    }
    GTree { global, path, end, comment: None }
}

fn gen_attrs(rng: &mut Rng, tag: usize) -> Vec<String> {
    let mut v = vec![];
    if rng.chance(1, 8) {
        v.push(format!("/// doc {}", tag));
    }
    if rng.chance(1, 5) {
        v.push(format!("#[cfg(k{})]", tag % 3));
    }
    if rng.chance(1, 12) {
        v.push("#[allow(unused_imports, dead_code)]".to_string());
    }
    v
}

fn gen_decl(rng: &mut Rng, tag: usize, g: &GenOpts) -> Decl {
    let tree = gen_tree(rng, 0, g);
    let attrs = gen_attrs(rng, tag);
    Decl { vis: rng.pick(VISES).to_string(), inline_attr: attrs.len() == 1 && rng.chance(1, 3), attrs, tree, pre: None, trail: None }
}

/// a run of declarations over the small name universe: shared prefixes, duplicates, alias twins
fn gen_run(rng: &mut Rng, n: usize, g: &GenOpts) -> Vec<Decl> {
    let mut v: Vec<Decl> = vec![];
    for k in 0..n {
        let d = match rng.below(10) {
            0 if !v.is_empty() => rng.pick(&v).clone(), // duplicate
            1 if !v.is_empty() => {
                // alias twin of an earlier declaration that ends in a name
                let mut d = rng.pick(&v).clone();
                if let GEnd::Plain(a) = &mut d.tree.end {
                    *a = if a.is_none() || rng.chance(1, 2) { Some(format!("tw{}", k)) } else { None };
                }
                d
            }
            2 if !v.is_empty() => {
                // same tree, other visibility or attributes
                let mut d = rng.pick(&v).clone();
                if rng.chance(1, 2) {
                    d.vis = related_vis(rng, &d.vis);
                } else {
                    d.attrs = vec![format!("#[cfg(k{})]", k)];
                    d.inline_attr = false;
                }
                d
            }
            3 if !v.is_empty() => {
                // another name of the same module under a visibility related to the earlier one
                let mut d = rng.pick(&v).clone();
                d.attrs = vec![];
                d.tree.comment = None;
                if let (GEnd::Plain(_), true) = (&d.tree.end, d.tree.path.len() >= 2) {
                    let n = d.tree.path.len();
                    d.tree.path[n - 1] = rng.pick(NAMES).to_string();
                    d.tree.end = GEnd::Plain(None);
                }
                d.vis = related_vis(rng, &d.vis);
                d
            }
            _ => gen_decl(rng, k, g),
        };
        v.push(d);
    }
    v
}

fn count_decl(o: &mut Outcome, fam: &str, d: &Decl) {
    let mut f = BTreeSet::new();
    d.tree.features(&mut f);
    for k in f {
        o.count(&format!("{}:decl with {}", fam, k));
    }
    o.count(&format!("{}:decl depth={}", fam, d.tree.depth()));
    o.count(&format!("{}:decl vis={}", fam, if d.vis.is_empty() { "inherited" } else { &d.vis }));
    if !d.attrs.is_empty() {
        o.count(&format!("{}:decl with attributes", fam));
    }
    if d.pre.is_some() || d.trail.is_some() {
        o.count(&format!("{}:decl with attached comment", fam));
    }
}

/// hands the cases collected so far to the model once there are many (bounds memory)
fn maybe_flush(o: &mut Outcome) {
    if o.cases.len() >= 250_000 {
        o.flush(crate::util::jobs());
    }
}

// ------------------------------------------------------------------ 1. path-only trees

/// Sixteen trees around one root: alias twins, shared prefixes of every length, `self`, lists.
fn small_universe() -> Vec<Tree> {
    ["a", "a as x", "a as y", "b", "a::b", "a::b as x", "a::c", "a::*", "a::{b, c}", "a::{self, b}", "a::{self as s, c}", "a::b::c", "a::b::{c, d}", "self::a", "std::a", "a::{b::{c, d}, e}"]
        .iter()
        .map(|s| tr(s))
        .collect()
}

/// The small universe plus: every segment kind in every position, `_` and raw names, the glued
/// `::a` and the empty first name, `a::self`, sole `self` lists, empty lists, the empty path and
/// nested empty paths, aliases on inner segments and lists in the middle of a path (no parser
/// builds the last three; the functions accept them).
fn medium_universe() -> Vec<Tree> {
    let mut u = small_universe();
    for s in [
        "@", "c", "b as x", "a as _", "r#try", "r#try as r#q", "Z", "crate", "super", "self", "self as x", "*", "{a, b}", "{}", "{self}",
        "a::self", "a::self as x", "a::b::self", "a::{self}", "a::{self as s}", "a::{}", "a::{b}", "a::{b as x}", "a::{b::{}}", "a::{@, c}", "a::{b::self, c}",
        "a::b as y", "a::b::*", "a::b::c as z", "a::b::{self, d}", "a::b::{c as x, c}", "a::{b, b as x}", "a::{b as x, b as y}", "a::{c, d, e}", "a::{*, b}", "a::{b::*, c::*}",
        "a::{b::{c::{d, e}, f}, g}", "a::b::c::d::e", "b::c", "b::c as p", "b::{c, d}", "b::{self, c as p}",
        "crate::a", "crate::a::b", "crate::{a, b}", "super::a", "super::super::a", "super::{a, self}", "self::a::b", "self::{a, b}",
        "std::a::b", "core::a", "alloc::{a, b}", "std as s", "a as x::b", "a::b as x::c", "a::{b}::c", "a::{b, c}::d",
    ] {
        u.push(tr(s));
    }
    u.push(Tree(vec![Seg::Ident("::a".into(), None), Seg::Ident("b".into(), None)]));
    u.push(Tree(vec![Seg::Ident("::a".into(), None)]));
    u.push(Tree(vec![Seg::Ident("".into(), None), Seg::Glob]));
    u.push(Tree(vec![Seg::Ident("".into(), None), Seg::List(vec![tr("a"), tr("b::c")])]));
    u.sort();
    u.dedup();
    u
}

/// a random tree of the `UseTree` type (not necessarily parser-built)
fn rand_tree(rng: &mut Rng, depth: usize) -> Tree {
    let mut segs = vec![];
    if depth == 0 {
        match rng.below(12) {
            0 => segs.push(Seg::Slf(None)),
            1 => segs.push(Seg::Crate(None)),
            2 => segs.push(Seg::Super(None)),
            3 => segs.push(Seg::Ident(format!("::{}", rng.pick(ROOTS)), None)),
            _ => {}
        }
    }
    let n = if segs.is_empty() { rng.range(1, 3) } else { rng.range(0, 2) };
    for k in 0..n {
        let name = if depth == 0 && k == 0 && segs.is_empty() { rng.pick(ROOTS) } else { rng.pick(NAMES) };
        // an alias on an inner segment now and then
        segs.push(Seg::Ident(name.to_string(), if rng.chance(1, 40) { Some("w".into()) } else { None }));
    }
    match rng.below(14) {
        0 => segs.push(Seg::Glob),
        1 | 2 | 3 | 4 if depth < 4 => {
            let k = match rng.below(10) {
                0 => 0,
                1 | 2 => 1,
                3..=6 => 2,
                _ => 3,
            };
            let mut l: Vec<Tree> = (0..k)
                .map(|_| match rng.below(12) {
                    0 => Tree(vec![Seg::Slf(if rng.chance(1, 3) { Some(rng.pick(ALIASES).to_string()) } else { None })]),
                    1 => Tree(vec![Seg::Glob]),
                    2 if rng.chance(1, 4) => Tree(vec![]),
                    _ => rand_tree(rng, depth + 1),
                })
                .collect();
            if rng.chance(1, 2) {
                l.sort();
            }
            segs.push(Seg::List(l));
        }
        5 | 6 => {
            if let Some(Seg::Ident(n, _)) = segs.pop() {
                segs.push(Seg::Ident(n, Some(rng.pick(ALIASES).to_string())));
            } else {
                segs.push(Seg::Ident(rng.pick(NAMES).to_string(), Some(rng.pick(ALIASES).to_string())));
            }
        }
        7 if rng.chance(1, 2) => segs.push(Seg::Slf(if rng.chance(1, 2) { Some(rng.pick(ALIASES).to_string()) } else { None })),
        _ => {}
    }
    Tree(segs)
}

fn tree_depth(t: &Tree) -> usize {
    t.0.iter().map(|s| if let Seg::List(l) = s { 1 + l.iter().map(tree_depth).max().unwrap_or(0) } else { 0 }).max().unwrap_or(0)
}

fn enc_h(t: &Tree) -> String {
    t.enc()
}

fn enc_hs(ts: &[Tree]) -> String {
    crate::c11::enc_trees(ts)
}

fn bares(ts: &[Tree]) -> Vec<Item> {
    ts.iter().map(bare).collect()
}

/// the answer of a path-only hook as the model prints it
fn ans_item(r: Option<Option<String>>) -> String {
    match r {
        None => "undecodable".into(),
        Some(None) => "panic".into(),
        Some(Some(e)) => litem(&bare(&dec_tree(&e).expect("hook tree"))),
    }
}

fn ans_items(r: Option<Option<String>>) -> String {
    match r {
        None => "undecodable".into(),
        Some(None) => "panic".into(),
        Some(Some(e)) => litems(&bares(&dec_trees(&e).expect("hook trees"))),
    }
}

fn corr_granularity(o: &mut Outcome, run: &[Tree], v: bool, what: &str) {
    let e = enc_hs(run);
    let items = bares(run);
    for g in 1..5u8 {
        let r = hi::trees_granularity(&e, g, se_of(v));
        let ans = ans_items(r.clone());
        if let Some(Some(out)) = &r {
            let nout = dec_trees(out).map(|x| x.len()).unwrap_or(0);
            o.count(&format!("trees:granularity {}: {}", GNAMES[g as usize], if nout < run.len() { "fewer trees out than in" } else if nout > run.len() { "more trees out than in" } else if out == &e { "unchanged" } else { "same number, changed" }));
        } else {
            o.count(&format!("trees:granularity {}: panic", GNAMES[g as usize]));
        }
        o.push("corr", "imp.granularity", format!("imp.granularity {} {} {}", st(v), GNAMES[g as usize], litems(&items)), ans, format!("{}: {}", what, run.iter().map(|t| t.text()).collect::<Vec<_>>().join(" ; ")), run.len() >= 2);
    }
    maybe_flush(o);
}

fn part_trees(o: &mut Outcome, rng: &mut Rng, thorough: bool) {
    let small = small_universe();
    let medium = medium_universe();
    o.count_n("trees:small universe", small.len() as u64);
    o.count_n("trees:medium universe", medium.len() as u64);
    // the harness encoding round-trips through the hook's decoder
    for t in &medium {
        o.direct_evals += 1;
        if hi::sort_use_trees(&enc_h(t), StyleEdition::Edition2021).as_deref() != Some(enc_h(t).as_str()) {
            o.direct_failures.push(json!({"sig": "c10:tree-encoding-roundtrip", "what": "tree encoding does not round-trip through the hook", "tree": t.text()}));
        }
    }
    let mut pool_trees = medium.clone();
    for _ in 0..(if thorough { 400 } else { 60 }) {
        let t = rand_tree(rng, 0);
        o.count(&format!("trees:random depth={}", tree_depth(&t)));
        pool_trees.push(t);
    }
    // single trees: normalize, flatten, nest
    for t in &pool_trees {
        let e = enc_h(t);
        let it = litem(&bare(t));
        for v in [false, true] {
            o.push("corr", "imp.normalize", format!("imp.normalize {} {}", st(v), it), ans_item(hi::tree_normalize(&e, se_of(v))), format!("tree {}", t.text()), true);
        }
        for (g, gn) in [(3u8, "item"), (1u8, "crate")] {
            o.push("corr", "imp.flatten", format!("imp.flatten {} {}", gn, it), ans_items(hi::tree_flatten(&e, g, StyleEdition::Edition2021)), format!("tree {}", t.text()), true);
        }
        o.push("corr", "imp.nest", format!("imp.nest {}", it), ans_item(hi::tree_nest(&e, StyleEdition::Edition2021)), format!("tree {}", t.text()), true);
    }
    // pairs: share_prefix, merge
    let pairs_of = if thorough { pool_trees.len() } else { medium.len() };
    for a in pool_trees.iter().take(pairs_of) {
        maybe_flush(o);
        for b in pool_trees.iter().take(pairs_of) {
            let (ea, eb) = (enc_h(a), enc_h(b));
            let (ia, ib) = (litem(&bare(a)), litem(&bare(b)));
            for sp in 0..3u8 {
                let sh = hi::tree_share(&ea, &eb, sp, StyleEdition::Edition2021);
                o.push("corr", "imp.share", format!("imp.share {} {} {}", SPNAMES[sp as usize], ia, ib), match sh { Some(Some(x)) => (x as u8).to_string(), Some(None) => "panic".into(), None => "undecodable".into() }, format!("{} | {}", a.text(), b.text()), true);
                for v in [false, true] {
                    if v && !thorough && sp != 2 {
                        continue;
                    }
                    let m = hi::tree_merge(&ea, &eb, sp, se_of(v));
                    if v == false {
                        o.count(&format!("trees:merge {}: {}", SPNAMES[sp as usize], match &m { Some(None) => "panic", Some(Some(x)) if *x == ea => "self unchanged", _ => "self changed" }));
                    }
                    o.push("corr", "imp.merge", format!("imp.merge {} {} {} {}", st(v), ia, ib, SPNAMES[sp as usize]), ans_item(m), format!("{} | {}", a.text(), b.text()), true);
                }
            }
        }
    }
    // merge_use_trees_inner: (list, tree): every pair of the small universe as list, lists of the medium universe, random
    let mut lists: Vec<Vec<Tree>> = vec![vec![]];
    for a in &small {
        lists.push(vec![a.clone()]);
        for b in &small {
            lists.push(vec![a.clone(), b.clone()]);
        }
    }
    for t in &pool_trees {
        for s in &t.0 {
            if let Seg::List(l) = s {
                lists.push(l.clone());
            }
        }
    }
    let extra: Vec<Tree> = ["c as p", "c", "b::c", "b as q", "self", "self as z", "*", "b::{x, y}", "b::c::d", "@"].iter().map(|s| tr(s)).collect();
    let adds: Vec<Tree> = small.iter().chain(extra.iter()).cloned().collect();
    for l in &lists {
        maybe_flush(o);
        for t in &adds {
            for sp in 0..3u8 {
                let r = hi::tree_merge_inner(&enc_hs(l), &enc_h(t), sp, StyleEdition::Edition2021);
                let ans = match &r {
                    None => "undecodable".to_string(),
                    Some(None) => "panic".to_string(),
                    Some(Some(e)) => ltree(&Tree(vec![Seg::List(dec_trees(e).expect("hook trees"))])),
                };
                if let Some(Some(e)) = &r {
                    let n = dec_trees(e).map(|x| x.len()).unwrap_or(0);
                    o.count(&format!("trees:merge_use_trees_inner {}: {}", SPNAMES[sp as usize], if n > l.len() { "pushed" } else if *e == enc_hs(l) { "dropped (list unchanged)" } else { "merged into an element" }));
                }
                o.push("corr", "imp.mergeinner", format!("imp.mergeinner 2021 {} {} {}", SPNAMES[sp as usize], ltree(&Tree(vec![Seg::List(l.clone())])), ltree(t)), ans, format!("{{{}}} + {}", l.iter().map(|x| x.text()).collect::<Vec<_>>().join(", "), t.text()), true);
            }
        }
    }
    // runs: every run of <= 2 trees of the medium universe, every run of 3 of the small one
    corr_granularity(o, &[], false, "empty run");
    for a in &medium {
        corr_granularity(o, &[a.clone()], false, "all runs of 1");
        for b in &medium {
            corr_granularity(o, &[a.clone(), b.clone()], false, "all runs of 2");
        }
    }
    let three: Vec<Tree> = if thorough { small.clone() } else { small.iter().take(12).cloned().collect() };
    for a in &three {
        for b in &three {
            for c in &three {
                corr_granularity(o, &[a.clone(), b.clone(), c.clone()], false, "all runs of 3");
            }
        }
    }
    o.count_n("trees:runs of 3 over", three.len() as u64);
    // random runs of 1..7 (style 2024 as well: the order of merged lists), group_imports on each
    for k in 0..(if thorough { 100000 } else { 8000 }) {
        let n = rng.range(1, 7);
        let run: Vec<Tree> = (0..n).map(|_| if rng.chance(1, 3) { rng.pick(&medium).clone() } else { rand_tree(rng, 0) }).collect();
        corr_granularity(o, &run, k % 2 == 1, "random run");
        let gr = hi::trees_group(&enc_hs(&run), StyleEdition::Edition2021).expect("hook trees");
        let groups: Vec<Vec<Item>> = gr.iter().map(|g| bares(&dec_trees(g).expect("hook trees"))).collect();
        o.count(&format!("trees:group_imports non-empty groups={}", groups.iter().filter(|g| !g.is_empty()).count()));
        o.push("corr", "imp.group", format!("imp.group {}", litems(&bares(&run))), lgroups(&groups), format!("random run {}", run.iter().map(|t| t.text()).collect::<Vec<_>>().join(" ; ")), n >= 2);
    }
    for t in &medium {
        let gr = hi::trees_group(&enc_h(t), StyleEdition::Edition2021).expect("hook trees");
        let groups: Vec<Vec<Item>> = gr.iter().map(|g| bares(&dec_trees(g).expect("hook trees"))).collect();
        o.push("corr", "imp.group", format!("imp.group {}", litem(&bare(t))), lgroups(&groups), format!("tree {}", t.text()), true);
    }
}

// ------------------------------------------------------------------ 1b. visibilities

const VIS_UNIVERSE: &[&str] = &[
    "", "pub", "pub(crate)", "pub(in crate)", "pub(self)", "pub(in self)", "pub(super)", "pub(in super)", "pub(in a)", "pub(in a::b)", "pub(in a::b::c)",
    "pub(in a::c)", "pub(in b)", "pub(in b::a)", "pub(in crate::a)", "pub(in crate::a::b)", "pub(in crate::b)", "pub(in super::a)", "pub(in super::super)",
    "pub(in super::super::a)", "pub(in self::a)", "pub(in self::a::b)", "pub(in ::a)", "pub(in ::a::b)", "pub(in r#fn)", "pub(in r#fn::a)",
];

/// the visibility as `is_same_visibility` sees it, in the driver's encoding
fn vis_enc(text: &str) -> String {
    match text {
        "" => "I".into(),
        "pub" => "P".into(),
        t => {
            let inner = &t[4..t.len() - 1];
            let (short, path) = match inner.strip_prefix("in ") {
                Some(p) => (0, p),
                None => (1, inner),
            };
            let (path, root) = match path.strip_prefix("::") {
                Some(p) => (p, true),
                None => (path, false),
            };
            let mut names: Vec<String> = if root { vec![enc_str("")] } else { vec![] };
            names.extend(path.split("::").map(enc_str));
            format!("R{}:{}", short, names.join(","))
        }
    }
}

/// `is_same_visibility` and `UseTree::same_visibility` on every ordered pair of a visibility
/// universe (paths that are prefixes of one another, shorthand and `in` forms, global paths,
/// `pub`, private, no visibility at all) against the literal model.
fn part_vis(o: &mut Outcome) {
    let src: String = VIS_UNIVERSE.iter().enumerate().map(|(i, v)| format!("{}{}use x{};\n", v, if v.is_empty() { "" } else { " " }, i)).collect();
    for edition in [rustfmt_nightly::Edition::Edition2015, rustfmt_nightly::Edition::Edition2021] {
        let m = match std::panic::catch_unwind(|| hi::visibilities(&src, edition)) {
            Ok(Ok(m)) => m,
            e => {
                o.direct_failures.push(json!({"sig": "c10:visibilities-hook", "what": format!("{:?}", e.map(|r| r.map(|_| ()))), "src": src}));
                return;
            }
        };
        let n = VIS_UNIVERSE.len();
        let want: Vec<String> = VIS_UNIVERSE.iter().map(|v| vis_enc(v)).collect();
        o.direct_evals += 1;
        if m.items.iter().map(|i| i.enc.clone()).collect::<Vec<_>>() != want {
            o.direct_failures.push(json!({"sig": "c10:vis-tie", "what": "the parser builds other visibilities than the text means", "src": src, "code": m.items.iter().map(|i| i.enc.clone()).collect::<Vec<_>>(), "meant": want}));
            return;
        }
        let mut encs = want.clone();
        encs.push("n".into());
        for i in 0..n {
            o.push("corr", "imp.viskey", format!("imp.viskey {}", encs[i]), format!("k{}", enc_str(&m.items[i].key)), format!("visibility `{}`", VIS_UNIVERSE[i]), true);
        }
        for i in 0..=n {
            for j in 0..=n {
                o.push("corr", "imp.samevis", format!("imp.samevis {} {}", encs[i], encs[j]), (m.tree_same[i][j] as u8).to_string(), format!("`{}` | `{}`", VIS_UNIVERSE.get(i).unwrap_or(&"(none)"), VIS_UNIVERSE.get(j).unwrap_or(&"(none)")), i != j);
                o.count(&format!("vis:same_visibility {}", m.tree_same[i][j]));
                if i < n && j < n {
                    o.direct_evals += 1;
                    if m.same[i][j] != m.tree_same[i][j] {
                        o.direct_failures.push(json!({"sig": "c10:same-visibility-wrapper", "what": "UseTree::same_visibility differs from is_same_visibility on two present visibilities", "a": VIS_UNIVERSE[i], "b": VIS_UNIVERSE[j]}));
                    }
                }
            }
        }
    }
    o.count_n("vis:universe", VIS_UNIVERSE.len() as u64);
}

// ------------------------------------------------------------------ 2. parsed declarations

#[derive(Clone, Debug)]
struct HCfg {
    granularity: usize, // index into GNAMES
    group: usize,       // 0 Preserve, 1 StdExternalCrate, 2 One
    reorder: bool,
    edition: u32,
    style: u32,
    width: usize,
}

const GROUPS: [&str; 3] = ["Preserve", "StdExternalCrate", "One"];
const GROUPS_L: [&str; 3] = ["preserve", "std", "one"];
const GRAN_CFG: [&str; 5] = ["Preserve", "Crate", "Module", "Item", "One"];
const EDITIONS: [u32; 4] = [2015, 2018, 2021, 2024];

impl HCfg {
    fn pairs(&self) -> Vec<(String, String)> {
        vec![
            ("edition".into(), self.edition.to_string()),
            ("style_edition".into(), self.style.to_string()),
            ("imports_granularity".into(), GRAN_CFG[self.granularity].into()),
            ("group_imports".into(), GROUPS[self.group].into()),
            ("reorder_imports".into(), self.reorder.to_string()),
            ("max_width".into(), self.width.to_string()),
        ]
    }
    fn random(rng: &mut Rng) -> HCfg {
        HCfg { granularity: rng.below(5), group: rng.below(3), reorder: rng.chance(2, 3), edition: *rng.pick(&EDITIONS), style: *rng.pick(&EDITIONS), width: *rng.pick(&[100, 100, 60, 40, 25]) }
    }
    fn e2018(&self) -> bool {
        self.edition >= 2018
    }
    fn v2024(&self) -> bool {
        self.style >= 2024
    }
    fn text(&self) -> String {
        crate::gen::cfg_text(&self.pairs())
    }
}

fn stages(src: &str, c: &HCfg, pairs: bool) -> Result<hi::UseStages, String> {
    let cfg = pool::build_config(&c.pairs(), &None).expect("configuration");
    match std::panic::catch_unwind(std::panic::AssertUnwindSafe(|| hi::use_stages(src, &cfg, pairs))) {
        Ok(r) => r,
        Err(_) => Err("panic".into()),
    }
}

/// One run of declarations through the real parser and every stage, compared with the model.
/// `full`: every single-item and pair operation; otherwise only the run-level ones.
fn corr_source(o: &mut Outcome, decls: &[Decl], c: &HCfg, full: bool, what: &str) {
    let src: String = decls.iter().map(|d| d.text() + "\n").collect();
    // the source text is carried by the imp.run case of the run only (every request is replayable by itself)
    let full_desc = format!("{} [{}] {}", what, c.text(), enc_str(&src));
    let desc = what.to_string();
    let s = match stages(&src, c, full) {
        Ok(s) => s,
        Err(e) => {
            o.count(&format!("source:hook-{}", if e == "panic" { "panic" } else { "error" }));
            o.direct_failures.push(json!({"sig": format!("c10:use-stages-{}", if e == "panic" { "panic" } else { "error" }), "what": e, "src": src, "cfg": c.text()}));
            return;
        }
    };
    let v = c.v2024();
    let n = decls.len();
    // from_ast: the tree, visibility key, attribute text and comment flag the generator means
    o.direct_evals += 1;
    o.direct_distinct += 1;
    let raw = of_hooks(&s.raw);
    let want: Vec<Item> = decls.iter().map(|d| d.raw_item(c.e2018())).collect();
    if raw != want {
        o.direct_failures.push(json!({"sig": "c10:from-ast-tie", "what": "UseTree::from_ast built another item than the declaration means (path, aliases, visibility key, attribute text, comment flag)", "src": src, "cfg": c.text(), "code": litems(&raw), "meant": litems(&want)}));
        return;
    }
    let attached = of_hooks(&s.attached);
    if full {
        for i in 0..n {
            let ans = match &s.normalized[i] {
                Some(u) => litem(&of_hook(u)),
                None => "panic".into(),
            };
            if let Some(u) = &s.normalized[i] {
                o.count(if u.tree == s.raw[i].tree { "source:normalize: unchanged" } else if of_hook(u).tree.0.is_empty() { "source:normalize: emptied" } else { "source:normalize: changed" });
                // attaching the comments around an item changes nothing but the comment flag
                o.direct_evals += 1;
                let mut a = attached[i].clone();
                a.comment = u.comment || a.comment;
                let mut b = of_hook(u);
                b.comment = a.comment;
                if a != b || (u.comment && !attached[i].comment) {
                    o.direct_failures.push(json!({"sig": "c10:attach-changed-item", "what": "the item handed to the merging code differs from the normalised item in more than the comment flag", "src": src}));
                }
            }
            o.push("corr", "imp.normalize", format!("imp.normalize {} {}", st(v), litem(&raw[i])), ans, desc.clone(), true);
            let it = litem(&attached[i]);
            o.push("corr", "imp.flatten", format!("imp.flatten item {}", it), litems(&of_hooks(&s.flat_item[i])), desc.clone(), true);
            o.push("corr", "imp.flatten", format!("imp.flatten crate {}", it), litems(&of_hooks(&s.flat_other[i])), desc.clone(), true);
            o.count(&format!("source:flatten pieces={}", s.flat_other[i].len().min(6)));
            o.push("corr", "imp.nest", format!("imp.nest {}", it), litem(&of_hook(&s.nested[i])), desc.clone(), true);
            for j in 0..n {
                let jt = litem(&attached[j]);
                for sp in 0..3 {
                    o.push("corr", "imp.share", format!("imp.share {} {} {}", SPNAMES[sp], it, jt), (s.share[i][j][sp] as u8).to_string(), desc.clone(), true);
                    o.count(&format!("source:share_prefix {}: {}", SPNAMES[sp], s.share[i][j][sp]));
                    // `merge` is only ever called on operands without comments (share_prefix refuses a `self` with one; the loop of
                    // normalize_use_trees_with_granularity sets such items aside; theorem no_merge_across):
                    // the model's comment flag of the result is exact on that domain only
                    if attached[j].comment || attached[i].comment {
                        o.count("source:merge skipped (an operand has a comment: unreachable)");
                        continue;
                    }
                    let ans = match &s.merged[i][j][sp] {
                        Some(u) => litem(&of_hook(u)),
                        None => "panic".into(),
                    };
                    o.push("corr", "imp.merge", format!("imp.merge {} {} {} {}", st(v), it, jt, SPNAMES[sp]), ans, desc.clone(), true);
                }
            }
        }
    }
    for g in 0..5 {
        let ans = match &s.granularity[g] {
            Some(x) => litems(&of_hooks(x)),
            None => "panic".into(),
        };
        if let Some(x) = &s.granularity[g] {
            let pieces: usize = if g == 3 { s.flat_item.iter().map(|f| f.len()).sum() } else { attached.iter().zip(s.flat_other.iter()).map(|(a, f)| if a.comment || a.attrs.is_some() { 1 } else { f.len() }).sum() };
            o.count(&format!("source:granularity {}: {}", GNAMES[g], if g == 0 { "preserve" } else if x.len() < pieces { "merged or deduplicated" } else { "nothing merged" }));
        }
        o.push("corr", "imp.granularity", format!("imp.granularity {} {} {}", st(v), GNAMES[g], litems(&attached)), ans, desc.clone(), n >= 2);
    }
    o.push("corr", "imp.group", format!("imp.group {}", litems(&attached)), lgroups(&s.groups.iter().map(|g| of_hooks(g)).collect::<Vec<_>>()), desc.clone(), n >= 2);
    // the whole arm: the model normalises the raw items itself; the comment flag of an item is the
    // one it has once the comments around it are attached
    let run_in: Vec<Item> = raw.iter().zip(attached.iter()).map(|(r, a)| Item { comment: a.comment, ..r.clone() }).collect();
    o.push("corr", "imp.run", format!("imp.run {} {} {} {} {}", st(v), GNAMES[c.granularity], GROUPS_L[c.group], c.reorder as u8, litems(&run_in)), lgroups(&s.run.iter().map(|g| of_hooks(g)).collect::<Vec<_>>()), full_desc, n >= 2);
    o.count(&format!("source:run granularity={} group={} reorder={}", GNAMES[c.granularity], GROUPS_L[c.group], c.reorder));
    maybe_flush(o);
}

/// The declarations of the exhaustive small domain: one root, every feature once.
fn decl_universe() -> Vec<Decl> {
    let p = |path: &[&str], a: Option<&str>| GTree::plain(path, a);
    let list = |path: &[&str], l: Vec<GTree>| GTree { global: false, path: path.iter().map(|s| s.to_string()).collect(), end: GEnd::List(l), comment: None };
    let glob = |path: &[&str]| GTree { global: false, path: path.iter().map(|s| s.to_string()).collect(), end: GEnd::Glob, comment: None };
    let mut v: Vec<Decl> = vec![
        Decl::of(p(&["a"], None)),
        Decl::of(p(&["a"], Some("x"))),
        Decl::of(p(&["a"], Some("y"))),
        Decl::of(p(&["a"], Some("_"))),
        Decl::of(p(&["b"], None)),
        Decl::of(p(&["a", "b"], None)),
        Decl::of(p(&["a", "b"], Some("x"))),
        Decl::of(p(&["a", "b"], Some("b"))),
        Decl::of(p(&["a", "c"], None)),
        Decl::of(p(&["a", "b", "c"], None)),
        Decl::of(p(&["a", "b", "c"], Some("p"))),
        Decl::of(glob(&["a"])),
        Decl::of(glob(&["a", "b"])),
        Decl::of(p(&["a", "self"], None)),
        Decl::of(p(&["a", "self"], Some("s"))),
        Decl::of(list(&["a"], vec![])),
        Decl::of(list(&["a"], vec![p(&["b"], None)])),
        Decl::of(list(&["a"], vec![p(&["self"], None)])),
        Decl::of(list(&["a"], vec![p(&["self"], Some("s"))])),
        Decl::of(list(&["a"], vec![p(&["c"], None), p(&["b"], None)])),
        Decl::of(list(&["a"], vec![p(&["self"], None), p(&["b"], Some("x"))])),
        Decl::of(list(&["a"], vec![p(&["b"], None), p(&["b"], Some("y"))])),
        Decl::of(list(&["a"], vec![list(&["b"], vec![p(&["c"], None), p(&["d"], None)]), p(&["e"], None)])),
        Decl::of(list(&["a"], vec![list(&["b"], vec![]), p(&["c"], None)])),
        Decl::of(list(&["a"], vec![list(&["b"], vec![list(&["c"], vec![list(&["d"], vec![p(&["e"], None), glob(&[])]), p(&["f"], None)]), p(&["g"], Some("_"))]), p(&["h"], None)])),
        Decl::of(list(&["a", "b"], vec![p(&["self"], None), p(&["d"], None)])),
        Decl::of(list(&[], vec![p(&["a", "b"], None), p(&["c"], None)])),
        Decl::of(p(&["self", "a"], None)),
        Decl::of(p(&["crate", "a", "b"], None)),
        Decl::of(p(&["super", "super", "a"], None)),
        Decl::of(p(&["std", "a"], None)),
        Decl::of(p(&["r#try", "r#as"], Some("r#q"))),
        Decl::of(GTree { global: true, ..p(&["a", "b"], None) }),
        Decl::of(GTree { global: true, ..p(&["a"], None) }),
        Decl::of(GTree { global: true, ..list(&[], vec![p(&["a"], None), p(&["b", "c"], None)]) }),
        Decl::of(GTree { global: true, ..glob(&[]) }),
    ];
    let with = |mut d: Decl, vis: &str, attrs: &[&str]| {
        d.vis = vis.to_string();
        d.attrs = attrs.iter().map(|s| s.to_string()).collect();
        d
    };
    v.push(with(Decl::of(p(&["a", "b"], None)), "pub", &[]));
    v.push(with(Decl::of(p(&["a", "d"], None)), "pub", &[]));
    v.push(with(Decl::of(p(&["a", "d"], None)), "pub(crate)", &[]));
    v.push(with(Decl::of(p(&["a", "d"], None)), "pub(in crate)", &[]));
    v.push(with(Decl::of(p(&["a", "d"], None)), "pub(in a::b)", &[]));
    v.push(with(Decl::of(p(&["a", "d"], None)), "pub(super)", &[]));
    v.push(with(Decl::of(p(&["a", "g"], None)), "pub(in a)", &[]));
    v.push(with(Decl::of(p(&["a", "h"], None)), "pub(in a::b::c)", &[]));
    v.push(with(Decl::of(p(&["a", "i"], None)), "pub(in crate::a)", &[]));
    v.push(with(Decl::of(p(&["a", "j"], None)), "pub(in super::a)", &[]));
    v.push(with(Decl::of(p(&["a", "b"], None)), "", &["#[cfg(k1)]"]));
    v.push(with(Decl::of(p(&["a", "b"], None)), "", &["#[cfg(k2)]"]));
    v.push(with(Decl::of(list(&["a"], vec![p(&["b"], None), p(&["c"], None)])), "", &["/// doc", "#[cfg(k1)]"]));
    v.push(with(Decl::of(list(&["a"], vec![])), "", &["#[cfg(k1)]"]));
    let mut c1 = Decl::of(list(&["a"], vec![p(&["b"], None), GTree { comment: Some((1, "n1".into())), ..p(&["c"], None) }]));
    c1.vis = "pub".into();
    v.push(c1);
    let mut c2 = Decl::of(p(&["a", "e"], None));
    c2.trail = Some("t1".into());
    v.push(c2);
    let mut c3 = Decl::of(p(&["a", "f"], None));
    c3.pre = Some("p1".into());
    v.push(c3);
    v
}

fn part_source(o: &mut Outcome, rng: &mut Rng, thorough: bool) {
    let u = decl_universe();
    o.count_n("source:declaration universe", u.len() as u64);
    let base = |e: u32, s: u32| HCfg { granularity: 1, group: 1, reorder: true, edition: e, style: s, width: 100 };
    // every run of one and of two declarations of the universe: every stage, both editions' readings of `::`
    for (k, a) in u.iter().enumerate() {
        corr_source(o, &[a.clone()], &base(2015, 2021), true, "all runs of 1");
        corr_source(o, &[a.clone()], &base(2021, 2024), true, "all runs of 1");
        for (j, b) in u.iter().enumerate() {
            let c = if (k + j) % 2 == 0 { base(2018, 2021) } else { base(2015, 2024) };
            corr_source(o, &[a.clone(), b.clone()], &c, true, "all runs of 2");
        }
    }
    // every run of three over the first declarations (run-level stages, every granularity; the arm under a rotating configuration)
    let m = if thorough { 22 } else { 13 };
    let mut k = 0usize;
    for a in u.iter().take(m) {
        for b in u.iter().take(m) {
            for c in u.iter().take(m) {
                k += 1;
                let cfg = HCfg { granularity: k % 5, group: (k / 5) % 3, reorder: (k / 15) % 2 == 0, edition: 2018, style: if (k / 30) % 2 == 0 { 2021 } else { 2024 }, width: 100 };
                corr_source(o, &[a.clone(), b.clone(), c.clone()], &cfg, false, "all runs of 3");
            }
        }
    }
    o.count_n("source:runs of 3 over", m as u64);
    // the arm under every granularity x grouping x reordering on fixed runs of the universe
    for k in 0..(if thorough { 1500 } else { 120 }) {
        let n = rng.range(2, 6);
        let run: Vec<Decl> = (0..n).map(|_| rng.pick(&u).clone()).collect();
        for g in 0..5 {
            for gi in 0..3 {
                for r in [false, true] {
                    let cfg = HCfg { granularity: g, group: gi, reorder: r, edition: if k % 2 == 0 { 2015 } else { 2021 }, style: if k % 3 == 0 { 2024 } else { 2015 }, width: 100 };
                    corr_source(o, &run, &cfg, false, "universe run, every configuration");
                }
            }
        }
    }
    // random runs: nesting to depth 4, comments, odd shapes
    let gopts = GenOpts { max_depth: 4, comments: true, odd: true, global: true };
    for k in 0..(if thorough { 40000 } else { 3000 }) {
        let n = rng.range(1, if k % 7 == 0 { 9 } else { 5 });
        let mut run = gen_run(rng, n, &gopts);
        for (i, d) in run.iter_mut().enumerate() {
            if rng.chance(1, 8) {
                d.trail = Some(format!("t{}", i));
            }
            if rng.chance(1, 10) {
                d.pre = Some(format!("p{}", i));
            }
        }
        for d in &run {
            count_decl(o, "source", d);
        }
        o.count(&format!("source:random run of {}", n.min(9)));
        let cfg = HCfg::random(rng);
        corr_source(o, &run, &cfg, n <= 4, "random run");
    }
}

// ------------------------------------------------------------------ 3. the real formatter

#[derive(Clone, Debug)]
enum EKind {
    Use(Decl),
    /// an item that is not an import, or a `use` that is not reorderable (`#[macro_use]`, skipped)
    Barrier(String),
}

#[derive(Clone, Debug)]
struct EProg {
    elems: Vec<(EKind, usize)>, // blank lines before
    has_pre: bool,
}

impl EProg {
    fn text(&self) -> String {
        let mut s = String::new();
        for (k, (e, blank)) in self.elems.iter().enumerate() {
            if k > 0 {
                for _ in 0..*blank {
                    s.push('\n');
                }
            }
            match e {
                EKind::Use(d) => s.push_str(&d.text()),
                EKind::Barrier(t) => s.push_str(t),
            }
            s.push('\n');
        }
        s
    }
    fn decls(&self) -> Vec<&Decl> {
        self.elems.iter().filter_map(|(e, _)| if let EKind::Use(d) = e { Some(d) } else { None }).collect()
    }
}

fn gen_barrier(rng: &mut Rng, tag: usize, _g: &GenOpts) -> String {
    match rng.below(8) {
        0 => format!("fn f{}() {{}}", tag),
        1 => format!("struct S{};", tag),
        2 => format!("const C{}: u8 = 0;", tag),
        3 => format!("mod m{} {{}}", tag),
        4 => format!("extern crate e{};", tag),
        5 => format!("#[rustfmt::skip]\nuse {};", GTree::plain(&["a", &format!("skipped{}", tag)], None).text()),
        6 => format!("#[macro_use]\nuse {};", gen_tree(rng, 0, &GenOpts { max_depth: 1, comments: false, odd: false, global: false }).text()),
        _ => format!("type T{} = u8;", tag),
    }
}

/// A file: one to three segments of `use` declarations (each made of blank-line groups) separated by
/// other items; comments only where the code attaches them to a declaration (probes C10-cmt-*).
fn gen_prog(rng: &mut Rng, g: &GenOpts, with_pre: bool) -> EProg {
    let mut elems: Vec<(EKind, usize)> = vec![];
    let nseg = rng.range(1, 3);
    let mut tag = 0;
    let mut has_pre = false;
    for sgi in 0..nseg {
        if sgi > 0 {
            elems.push((EKind::Barrier(gen_barrier(rng, tag, g)), rng.below(2)));
            tag += 1;
        }
        let big = rng.chance(1, 6);
        let total = rng.range(1, if big { 9 } else { 5 });
        let run = gen_run(rng, total, g);
        let mut first_of_segment = true;
        let mut first_of_group = true;
        for d in run {
            let blank = if first_of_segment { if sgi == 0 { 0 } else { rng.below(2) } } else if rng.chance(1, 6) { 1 } else { 0 };
            if blank > 0 {
                first_of_group = true;
            }
            let mut d = d;
            if g.comments && with_pre && !first_of_segment && rng.chance(1, 8) {
                d.pre = Some(format!("p{}", tag));
                has_pre = true;
            }
            let _ = first_of_group;
            first_of_group = false;
            first_of_segment = false;
            tag += 1;
            elems.push((EKind::Use(d), blank));
        }
    }
    // trailing comments: only when the next line starts another declaration of the same group
    if g.comments {
        for k in 0..elems.len().saturating_sub(1) {
            let next_ok = matches!(&elems[k + 1], (EKind::Use(n), 0) if n.pre.is_none());
            if let (EKind::Use(d), _) = &mut elems[k] {
                if next_ok && rng.chance(1, 7) {
                    d.trail = Some(format!("t{}", k));
                }
            }
        }
    }
    let mut next = 0;
    for (e, _) in elems.iter_mut() {
        if let EKind::Use(d) = e {
            d.tree.retag(&mut next);
        }
    }
    EProg { elems, has_pre }
}

struct Analysed {
    segs: Vec<Vec<PUse>>,
    others: Vec<String>,
}

fn analyse(src: &str) -> Result<Analysed, String> {
    let items = parse_file(src)?;
    let (segs, others) = segments(&items);
    Ok(Analysed { segs, others })
}

/// comment texts -> the tag the generator wrote (`p3`, `t1`, `n12`)
fn tags(u: &PUse) -> Vec<String> {
    u.comments.iter().map(|c| c.trim_start_matches("//").trim_start_matches("/*").trim_end_matches("*/").trim().to_string()).collect()
}

fn part_e2e(o: &mut Outcome, rng: &mut Rng, thorough: bool) {
    let nprog = if thorough { 6000 } else { 700 };
    // in chunks, so that the model requests and the formatter outputs of one chunk are dropped before the next
    for chunk in 0..(nprog / 350) {
        e2e_chunk(o, rng, chunk * 350, 350);
        o.flush(crate::util::jobs());
    }
}

fn e2e_chunk(o: &mut Outcome, rng: &mut Rng, k0: usize, nprog: usize) {
    let gopts = GenOpts { max_depth: 4, comments: true, odd: true, global: true };
    let mut progs: Vec<(EProg, String, Analysed)> = vec![];
    for k in k0..(k0 + nprog) {
        let p = gen_prog(rng, &gopts, k % 2 == 0);
        let src = p.text();
        // the harness parser reads the input as the generator wrote it
        o.direct_evals += 1;
        let a = match analyse(&src) {
            Ok(a) => a,
            Err(e) => {
                o.direct_failures.push(json!({"sig": "c10:harness-parser", "what": format!("the harness parser rejects a generated file: {}", e), "src": src}));
                continue;
            }
        };
        let parsed: Vec<&PUse> = a.segs.iter().flatten().collect();
        let decls = p.decls();
        let same = parsed.len() == decls.len()
            && parsed.iter().zip(decls.iter()).all(|(u, d)| {
                let mut want_c = vec![];
                d.tree.comments(&mut want_c);
                want_c.extend(d.pre.clone());
                want_c.extend(d.trail.clone());
                let mut got_c = tags(u);
                got_c.sort();
                want_c.sort();
                u.tree == d.tree.surface() && u.vis == d.vis_key() && u.attrs.len() == d.attrs.len() && got_c == want_c
            });
        if !same {
            o.direct_failures.push(json!({"sig": "c10:harness-parser", "what": "the harness parser reads other declarations (tree, visibility, attributes, attached comments) than the generator wrote", "src": src, "parsed": format!("{:?}", parsed)}));
            continue;
        }
        for d in &decls {
            count_decl(o, "e2e", d);
        }
        o.count(&format!("e2e:segments={}", a.segs.iter().filter(|s| !s.is_empty()).count()));
        for sgm in &a.segs {
            if !sgm.is_empty() {
                o.count(&format!("e2e:declarations per segment={}", sgm.len().min(9)));
            }
        }
        progs.push((p, src, a));
    }
    o.count_n("e2e:programs", progs.len() as u64);
    // hypotheses of run_leaves_partial, judged by the model: every item well-formed, and the
    // normalised items of every segment safe for the granularity
    let mut reqs: Vec<String> = vec![];
    for (_, _, a) in &progs {
        for e2015 in [true, false] {
            for u in a.segs.iter().flatten() {
                // the hypotheses are about the items as the code represents them
                let mut it = item_of_puse(u, e2015);
                it.tree = glue_root(&it.tree);
                let it = litem(&it);
                reqs.push(format!("imp.wf {}", it));
                reqs.push(format!("imp.normalize 2021 {}", it));
            }
        }
    }
    let ans = run_model(&reqs, crate::util::jobs());
    let mut k = 0;
    let mut reqs2: Vec<String> = vec![];
    let mut wf: Vec<[bool; 2]> = vec![];
    for (_, _, a) in &progs {
        let mut ok = [true, true];
        for (ei, _) in [true, false].iter().enumerate() {
            for sgm in &a.segs {
                let mut norm = vec![];
                for _ in sgm {
                    if ans[k] != "1" {
                        ok[ei] = false;
                    }
                    norm.push(ans[k + 1].clone());
                    k += 2;
                }
                let items = if norm.is_empty() { "_".to_string() } else { norm.join("|") };
                for g in 0..5 {
                    reqs2.push(format!("imp.safe {} {}", GNAMES[g], items));
                }
            }
        }
        wf.push(ok);
    }
    let ans2 = run_model(&reqs2, crate::util::jobs());
    let mut k2 = 0;
    // safe[prog][edition class][granularity]
    let mut safe: Vec<[[bool; 5]; 2]> = vec![];
    for (pi, (_, _, a)) in progs.iter().enumerate() {
        let mut s = [[true; 5]; 2];
        for ei in 0..2 {
            for _ in &a.segs {
                for g in 0..5 {
                    if ans2[k2] != "1" {
                        s[ei][g] = false;
                    }
                    k2 += 1;
                }
            }
            if !wf[pi][ei] {
                s[ei] = [false; 5];
            }
        }
        safe.push(s);
    }
    // jobs: every granularity x grouping x reordering per program, the other options rotating
    let mut jobs: Vec<Job> = vec![];
    let mut meta: Vec<(usize, HCfg)> = vec![];
    for (pi, (p, src, _)) in progs.iter().enumerate() {
        for g in 0..5 {
            for gi in 0..3 {
                for r in [false, true] {
                    let c = HCfg { granularity: g, group: gi, reorder: r, edition: *rng.pick(&EDITIONS), style: *rng.pick(&EDITIONS), width: *rng.pick(&[100, 100, 70, 40, 24]) };
                    if p.has_pre && gi == 0 {
                        o.count("e2e:skipped (comment line between declarations under group_imports=Preserve: probe C10-cmt-first)");
                        continue;
                    }
                    if !safe[pi][if c.e2018() { 1 } else { 0 }][g] && std::env::var("C10_NOGUARD").is_err() {
                        o.count(&format!("e2e:skipped (hypothesis of run_leaves_partial false for {})", GNAMES[g]));
                        continue;
                    }
                    o.count(&format!("e2e:runs granularity={}", GNAMES[g]));
                    o.count(&format!("e2e:runs group_imports={}", GROUPS[gi]));
                    o.count(&format!("e2e:runs reorder_imports={}", r));
                    o.count(&format!("e2e:runs edition={}", c.edition));
                    o.count(&format!("e2e:runs style_edition={}", c.style));
                    o.count(&format!("e2e:runs max_width={}", c.width));
                    jobs.push(Job { src: src.clone(), cfg: c.pairs(), file_lines: None });
                    meta.push((pi, c));
                }
            }
        }
    }
    o.count_n("e2e:formatter-runs", jobs.len() as u64);
    let res = pool::run_jobs(&jobs, crate::util::jobs(), Duration::from_secs(20));
    judge(o, &progs.iter().map(|(_, s, a)| (s.clone(), a)).collect::<Vec<_>>(), &meta, &res, "e2e");
}

/// Leaf sets of input and output, per segment and per commented declaration, by the Lean denotation.
fn judge(o: &mut Outcome, progs: &[(String, &Analysed)], meta: &[(usize, HCfg)], res: &[pool::FmtOut], fam: &str) -> Vec<bool> {
    let mut verdicts = vec![true; meta.len()];
    // 1. what the inputs denote
    let mut reqs: Vec<String> = vec![];
    let mut pending: Vec<(usize, Analysed)> = vec![];
    for (k, ((pi, c), r)) in meta.iter().zip(res.iter()).enumerate() {
        let (src, a) = &progs[*pi];
        let fail = |o: &mut Outcome, sig: &str, what: String, out: &str| {
            o.direct_failures.push(json!({"sig": sig, "what": what, "src": src, "cfg": c.text(), "out": out}));
        };
        match &r.status {
            Status::Ok => {}
            Status::Timeout | Status::Infra(_) => {
                o.count(&format!("{}:inconclusive (timeout or harness)", fam));
                continue;
            }
            s => {
                // a crash or an error is C16's subject, not a lost import
                o.count(&format!("{}:not formatted ({})", fam, format!("{:?}", s).split('(').next().unwrap_or("?")));
                continue;
            }
        }
        if r.flags[1] {
            o.count(&format!("{}:not formatted (parse error reported)", fam));
            continue;
        }
        o.direct_evals += 2;
        let out = match analyse(&r.out) {
            Ok(x) => x,
            Err(e) => {
                verdicts[k] = false;
                fail(o, "c10:output-not-parsed", format!("the harness parser rejects the output: {}", e), &r.out);
                continue;
            }
        };
        if out.others != a.others {
            verdicts[k] = false;
            fail(o, "c10:barrier-changed", "the items that are not reorderable imports changed (text or number): an import crossed one, or one was rewritten".into(), &r.out);
            continue;
        }
        let e2015 = !c.e2018();
        for sgm in a.segs.iter().chain(out.segs.iter()) {
            reqs.push(format!("imp.leaves {}", litems(&sgm.iter().map(|u| item_of_puse(u, e2015)).collect::<Vec<_>>())));
        }
        for u in a.segs.iter().flatten().filter(|u| !u.comments.is_empty()) {
            reqs.push(format!("imp.leaves {}", litem(&item_of_puse(u, e2015))));
        }
        pending.push((k, out));
    }
    let ans = run_model(&reqs, crate::util::jobs());
    let mut q = 0;
    for (k, out) in pending {
        let (pi, c) = &meta[k];
        let (src, a) = &progs[*pi];
        let e2015 = !c.e2018();
        let n = a.segs.len();
        let desc = format!("[{}] {}", c.text(), enc_str(src));
        for s in 0..n {
            let (lin, lout) = (&ans[q + s], &ans[q + n + s]);
            if a.segs[s].is_empty() && out.segs[s].is_empty() {
                continue;
            }
            if lin != lout {
                verdicts[k] = false;
                if std::env::var("C10_DEBUG").is_ok() {
                    eprintln!("LEAVES\t{}\t{}\t{}\t{}\t{}", c.text(), lin, lout, enc_str(src), enc_str(&res[k].out));
                }
            }
            o.count(&format!("{}:segment leaves={}", fam, if lin == "_" { 0 } else { lin.matches('|').count() + 1 }.min(12)));
            // the model computes the denotation of the output; the passing answer is the denotation of the input
            o.push("oracle", "imp.leaves", reqs[q + n + s].clone(), lin.clone(), format!("segment {} {}", s, desc), a.segs[s].len() >= 2);
        }
        q += 2 * n;
        for u in a.segs.iter().flatten().filter(|u| !u.comments.is_empty()) {
            let lin = &ans[q];
            q += 1;
            if lin == "_" {
                // a declaration that imports nothing (`use a::{};`) is removed; where its comment goes is C03's subject
                o.count(&format!("{}:commented declaration without imports", fam));
                continue;
            }
            for tag in tags(u) {
                let holders: Vec<&PUse> = out.segs.iter().flatten().filter(|x| tags(x).contains(&tag)).collect();
                if holders.len() != 1 {
                    // lost or floating comments are C03's subject
                    o.count(&format!("{}:comment not attached to a declaration in the output", fam));
                    if std::env::var("C10_DEBUG").is_ok() {
                        eprintln!("TAG {} holders {} [{}]\n{}=>\n{}", tag, holders.len(), c.text(), src, res[k].out);
                    }
                    continue;
                }
                o.count(&format!("{}:commented declarations followed", fam));
                o.push("oracle", "imp.leaves", format!("imp.leaves {}", litem(&item_of_puse(holders[0], e2015))), lin.clone(), format!("the declaration that carries comment `{}` {}", tag, desc), true);
            }
        }
    }
    verdicts
}

/// Hand-written files around the corners of the merging code that are clean on the pinned tree
/// (an aliased one-segment import BEFORE the longer paths it is a prefix of, `self` entries next
/// to nested lists, one-segment imports under `Crate`, visibility and attribute mixes, duplicates),
/// under every granularity x grouping x reordering and two editions. Seed-independent.
const FIXED: &[&str] = &[
    "use a as x;\nuse a::b;\n",
    "use a as x;\nuse a::{b, c};\nuse a::d::e;\n",
    "use a as x;\nuse a::b;\nuse a::b::c;\nuse a::*;\n",
    "use a::b as x;\nuse a::b::c;\nuse a::b::d as y;\n",
    "use a::{self as s, b};\nuse a::c;\nuse a::c::d;\n",
    "use a::{self, b::{self, c}};\nuse a::b::d;\nuse a::e::{self as f};\n",
    "use a;\nuse a::b;\nuse a::b::c;\nuse a::b::c::d;\n",
    "use a::b::c::d;\nuse a::b::c;\nuse a::b;\nuse a;\n",
    "use a::c;\nuse a::c::b::*;\nuse a::c::d;\nuse a::*;\nuse b as _;\n",
    "use a::b;\nuse a::b;\nuse a::{b, b};\nuse a::b as b;\n",
    "use a::{c::d, e};\nuse a::c;\nuse a::e::f;\nuse a::e;\n",
    "use a::*;\nuse a::b::c::d;\nuse a::b::*;\nuse a::b::c::*;\n",
    "use a::b::c::d;\nuse a::*;\nuse b::*;\nuse b::c::d::e as f;\nuse b::c::*;\n",
    "use a::b::{c::d::e, *};\nuse a::b::c::*;\nuse a::{b::*, *};\n",
    "use a::{b::c, d::e};\nuse a::b;\nuse a::d;\nuse a::d::e::f;\n",
    "pub use a::b;\nuse a::c;\npub(crate) use a::d;\npub(in crate) use a::e;\npub use a::f;\n",
    "pub use a as x;\nuse a::b;\npub use a::c;\n",
    "pub(crate) use crate::store::Index;\npub(in crate::engine) use crate::store::Segment;\npub(in crate::engine) use crate::store::Writer;\npub(in crate::engine::planner) use crate::store::Cursor;\npub(super) use crate::util::clamp;\npub(in super::x) use crate::util::retry;\nuse crate::util::sleep;\n",
    "pub(in a) use a::b;\npub(in a::b) use a::c;\npub(in a::b::c) use a::d;\npub(self) use a::e;\npub(in self::f) use a::g;\npub(in a::b) use a::h;\n",
    "pub(in crate::a::b) use x::y;\npub(in crate::a) use x::z;\npub(in crate) use x::w;\npub use x::v;\nuse x::u;\npub(in crate::a) use x::t::s;\n",
    "#[cfg(k1)]\nuse a::b;\nuse a::c;\n#[cfg(k1)]\nuse a::d;\nuse a::e;\n/// doc\nuse a::f;\n",
    "use a::b; // t1\nuse a::c;\nuse a::{d, /* n1 */ e};\nuse a::f;\n",
    "use self::a::b;\nuse self::a::c;\nuse super::a::b;\nuse crate::a::{b, c};\nuse crate::a::d as e;\nuse std::a;\nuse core::a::b;\nuse alloc::a;\n",
    "use ::a::b;\nuse ::a::c;\nuse a::d;\nuse ::{e, f::g};\n",
    "use a::{b::{c::{d::{e, f}, g}, h}, i};\nuse a::b::c::d::j;\nuse a::b::k;\n",
    "use r#try::r#as;\nuse r#try::{b as r#q, c};\nuse a::b as _;\nuse a::c as _;\n",
    "use a::{};\nuse a::{b};\nuse a::{self};\nuse a::{c::{}};\nuse b::self;\nuse b::c::self as d;\n",
    "use a::b;\n\nuse a::c;\nfn f() {}\nuse a::d;\nuse a::e;\n#[macro_use]\nuse a::f;\nuse a::g;\n",
];

fn part_fixed(o: &mut Outcome) {
    let mut progs: Vec<(String, Analysed)> = vec![];
    for src in FIXED {
        match analyse(src) {
            Ok(a) => progs.push((src.to_string(), a)),
            Err(e) => o.direct_failures.push(json!({"sig": "c10:harness-parser", "what": e, "src": src})),
        }
    }
    let mut jobs = vec![];
    let mut meta = vec![];
    for (pi, (src, _)) in progs.iter().enumerate() {
        for g in 0..5 {
            for gi in 0..3 {
                for r in [false, true] {
                    for (edition, style, width) in [(2015, 2021, 100), (2021, 2024, 30)] {
                        let c = HCfg { granularity: g, group: gi, reorder: r, edition, style, width };
                        jobs.push(Job { src: src.clone(), cfg: c.pairs(), file_lines: None });
                        meta.push((pi, c));
                    }
                }
            }
        }
    }
    o.count_n("fixed:programs", progs.len() as u64);
    o.count_n("fixed:formatter-runs", jobs.len() as u64);
    let res = pool::run_jobs(&jobs, crate::util::jobs(), Duration::from_secs(20));
    judge(o, &progs.iter().map(|(s, a)| (s.clone(), a)).collect::<Vec<_>>(), &meta, &res, "fixed");
}

// ------------------------------------------------------------------ 4. probes

/// The oracle of `judge` on one (input, output) pair, evaluated at once: `Err(why)` when the
/// output does not import what the input imports.
fn verdict(src: &str, out: &str, e2015: bool) -> Result<(), String> {
    let a = analyse(src).map_err(|e| format!("harness parser on the input: {}", e))?;
    let b = analyse(out).map_err(|e| format!("the output is not a sequence of items the harness parser reads (not Rust?): {}", e))?;
    if a.others != b.others {
        return Err("the items that are not reorderable imports changed".into());
    }
    let mut reqs = vec![];
    for sgm in a.segs.iter().chain(b.segs.iter()) {
        reqs.push(format!("imp.leaves {}", litems(&sgm.iter().map(|u| item_of_puse(u, e2015)).collect::<Vec<_>>())));
    }
    let commented: Vec<&PUse> = a.segs.iter().flatten().filter(|u| !u.comments.is_empty()).collect();
    let mut holders = vec![];
    for u in &commented {
        reqs.push(format!("imp.leaves {}", litem(&item_of_puse(u, e2015))));
        for tag in tags(u) {
            let h: Vec<&PUse> = b.segs.iter().flatten().filter(|x| tags(x).contains(&tag)).collect();
            if h.len() == 1 {
                holders.push((tag, reqs.len() - 1, reqs.len() + holders.len()));
            }
        }
    }
    let base = reqs.len();
    for u in &commented {
        for tag in tags(u) {
            let h: Vec<&PUse> = b.segs.iter().flatten().filter(|x| tags(x).contains(&tag)).collect();
            if h.len() == 1 {
                reqs.push(format!("imp.leaves {}", litem(&item_of_puse(h[0], e2015))));
            }
        }
    }
    let ans = run_model(&reqs, 1);
    let n = a.segs.len();
    for k in 0..n {
        if ans[k] != ans[n + k] {
            return Err(format!("segment {}: input denotes {} , output denotes {}", k, ans[k], ans[n + k]));
        }
    }
    for (j, (tag, win, _)) in holders.iter().enumerate() {
        if ans[*win] != "_" && ans[*win] != ans[base + j] {
            return Err(format!("the declaration that carries comment `{}` denotes {} in the input and {} in the output", tag, ans[*win], ans[base + j]));
        }
    }
    Ok(())
}

struct Probe {
    id: &'static str,
    src: &'static str,
    cfg: &'static [(&'static str, &'static str)],
    what: &'static str,
    /// also a failure: this text is gone from the output
    must_keep: Option<&'static str>,
}

const PROBES: &[Probe] = &[
    Probe { id: "F6-module", src: "use a;\nuse a as x;\n", cfg: &[("imports_granularity", "Module")], must_keep: None, what: "imports_granularity=Module: `use a; use a as x;` becomes `use a;`: the import `a as x` is lost (merge_rest returns None when both paths are exhausted by the alias-blind first segment; proved: alias_twin_counterexample)" },
    Probe { id: "F6-one", src: "use a;\nuse a as x;\n", cfg: &[("imports_granularity", "One")], must_keep: None, what: "imports_granularity=One: `use a; use a as x;` becomes `use a;` (alias_twin_counterexample)" },
    Probe { id: "F6-module-aliases", src: "use a as x;\nuse a as y;\n", cfg: &[("imports_granularity", "Module")], must_keep: None, what: "imports_granularity=Module: `use a as x; use a as y;` loses `a as y`" },
    Probe { id: "F6-module-root", src: "use ::a;\nuse ::a as x;\n", cfg: &[("imports_granularity", "Module"), ("edition", "2018")], must_keep: None, what: "imports_granularity=Module, edition >= 2018: `use ::a; use ::a as x;` loses `::a as x` (`::a` is one segment)" },
    Probe { id: "F6-one-nested", src: "use b::{c, d};\nuse b::c as p;\n", cfg: &[("imports_granularity", "One")], must_keep: None, what: "imports_granularity=One: `use b::{c, d}; use b::c as p;` becomes `use b::{c, d};` (merge_use_trees_inner picks `c` as most similar to `c as p` and merge drops it; proved: alias_twin_nested_counterexample)" },
    Probe { id: "F6-one-single", src: "use a::{b, b as x, b as y};\n", cfg: &[("imports_granularity", "One")], must_keep: None, what: "imports_granularity=One: the single declaration `use a::{b, b as x, b as y};` loses `a::b as y` when it is flattened and merged again" },
    Probe { id: "F6-one-fixture-5131", src: "use bar::a;\nuse bar::b;\nuse bar::b::f;\nuse bar::b::f as f2;\nuse bar::b::g;\n", cfg: &[("imports_granularity", "One")], must_keep: None, what: "imports_granularity=One: the repository's own tests/source/5131_one.rs loses `bar::b::f as f2`, and tests/target/5131_one.rs records the lossy output (`b::{self, f, g}`): a repair of the nested twin loss fails the unedited suite" },
    Probe { id: "F6-one-stem", src: "use a::b;\nuse a as x;\n", cfg: &[("imports_granularity", "One")], must_keep: None, what: "imports_granularity=One: `use a::b; use a as x;` becomes `use a as x::{self as x, b};`, which is not Rust (merge_rest takes the head segment from the aliased tree; proved: alias_stem_counterexample)" },
    Probe { id: "C10-item-attrs", src: "#[cfg(unix)]\nuse f::B;\n#[cfg(windows)]\nuse f::B;\n", cfg: &[("imports_granularity", "Item")], must_keep: None, what: "imports_granularity=Item: `#[cfg(unix)] use f::B; #[cfg(windows)] use f::B;` lost the second declaration: unique() compared paths only (repaired in /repo; theorem granularity_item_leaves)" },
    Probe { id: "C10-item-vis", src: "pub use p::q;\nuse p::q;\n", cfg: &[("imports_granularity", "Item")], must_keep: None, what: "imports_granularity=Item: `pub use p::q; use p::q;` lost the private import: unique() compared paths only (repaired in /repo)" },
    Probe { id: "C10-item-dup-comment", src: "use b::c;\nuse b::c; // why\nuse d;\n", cfg: &[("imports_granularity", "Item")], must_keep: Some("why"), what: "imports_granularity=Item: a duplicate import that carries a comment was removed together with its comment: unique() compared paths only (repaired in /repo)" },
    Probe { id: "C10-empty-nested-item", src: "use a::{b::{}, c};\n", cfg: &[("imports_granularity", "Item")], must_keep: None, what: "imports_granularity=Item: `use a::{b::{}, c};` became `use a; use a::c;`: an import of `a` nobody wrote (normalize left a nested tree with an empty path, flatten turned it into the prefix; repaired in /repo, theorem normalize_wf)" },
    Probe { id: "C10-empty-nested-crate", src: "use a::{b::{}, c};\nuse a::d;\n", cfg: &[("imports_granularity", "Crate")], must_keep: None, what: "imports_granularity=Crate: `use a::{b::{}, c}; use a::d;` became `use a::{self, c, d};`: an import of `a` nobody wrote (repaired in /repo)" },
    Probe { id: "C10-bare-self", src: "use self;\nuse a;\n", cfg: &[], must_keep: None, what: "`use self;` (accepted by the parser, rejected by rustc) is deleted by normalize (proved: normalize_bare_self_counterexample)" },
    Probe { id: "C10-cmt-first", src: "use a::b;\n// about c\nuse a::c;\nuse a::d;\n", cfg: &[("imports_granularity", "Crate")], must_keep: None, what: "group_imports=Preserve: a comment line above a declaration ends the run, so the comment lies outside the span of the next run and is not attached: `// about c / use a::c; / use a::d;` is merged into `// about c / use a::{c, d};` across the comment" },
    Probe { id: "C10-cmt-last", src: "use a::b;\nuse a::c; // about c\n", cfg: &[("imports_granularity", "Crate")], must_keep: None, what: "a trailing comment on the last declaration of a run lies outside the span of the run and is not attached: `use a::b; / use a::c; // about c` is merged into `use a::{b, c}; // about c`" },
];

fn part_probes(o: &mut Outcome) {
    let jobs: Vec<Job> = PROBES.iter().map(|p| Job { src: p.src.to_string(), cfg: p.cfg.iter().map(|(k, v)| (k.to_string(), v.to_string())).collect(), file_lines: None }).collect();
    let res = pool::run_jobs(&jobs, crate::util::jobs(), Duration::from_secs(20));
    for (p, r) in PROBES.iter().zip(res.iter()) {
        let e2015 = !p.cfg.iter().any(|(k, v)| *k == "edition" && *v != "2015");
        let (fails, detail) = match &r.status {
            Status::Ok => match verdict(p.src, &r.out, e2015) {
                Err(why) => (true, why),
                Ok(()) => match p.must_keep {
                    Some(t) if !r.out.contains(t) => (true, format!("`{}` is gone from the output", t)),
                    _ => (false, "the output imports what the input imports".to_string()),
                },
            },
            s => (false, format!("not formatted: {:?}", s)),
        };
        o.direct_evals += 1;
        o.direct_distinct += 1;
        o.probes.push(json!({"id": p.id, "fails": fails, "what": p.what, "detail": {"src": p.src, "cfg": p.cfg.iter().map(|(k, v)| format!("{}={}", k, v)).collect::<Vec<_>>().join(","), "out": r.out, "why": detail}}));
    }
}

pub fn run(tier: &str, seed: u64, out: &Path) -> i32 {
    pool::install_panic_hook();
    let mut o = Outcome::new("C10", tier, seed);
    let thorough = tier == "thorough";
    let mut rng = Rng::new(seed ^ 0xc10);
    let only = std::env::var("C10_ONLY").unwrap_or_default();
    let on = |p: &str| only.is_empty() || only.split(',').any(|x| x == p);
    let (mut r1, mut r2, mut r3) = (rng.fork(), rng.fork(), rng.fork());
    if on("trees") {
        part_trees(&mut o, &mut r1, thorough);
    }
    if on("vis") {
        part_vis(&mut o);
    }
    if on("source") {
        part_source(&mut o, &mut r2, thorough);
    }
    if on("e2e") {
        part_e2e(&mut o, &mut r3, thorough);
    }
    if on("fixed") {
        part_fixed(&mut o);
    }
    if on("probes") {
        part_probes(&mut o);
    }
    o.finish(out, crate::util::jobs())
}
