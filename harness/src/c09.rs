//! C09: released style editions are frozen.
//! (a) the working tree gives identical text under style editions 2015, 2018 and 2021;
//! (b) the working tree gives, under every released edition, the text of the frozen binary built from
//!     the audited commit, on inputs that binary formats without error.
use std::path::Path;
use std::process::Command;
use std::time::Duration;

use serde_json::json;

use crate::corpus;
use crate::gen::*;
use crate::pool::{self, Job, Status};
use crate::util::*;

const EDITIONS: [&str; 4] = ["2015", "2018", "2021", "2024"];

fn frozen(src: &str, cfg: &[(String, String)], timeout: Duration) -> CliOut {
    let mut cmd = Command::new("/verif/frozen/rustfmt-pinned");
    cmd.current_dir("/verif/frozen").arg("--config-path").arg("/verif/frozen/empty.toml").arg("--emit").arg("stdout");
    if !cfg.is_empty() {
        cmd.arg("--config").arg(cfg_text(cfg));
    }
    run_cmd(&mut cmd, src.as_bytes(), timeout)
}

/// One comparison job: an element of the fixed universe under one released style edition.
#[derive(Clone)]
struct Elem {
    /// `<universe element id>|se<edition index>`
    id: String,
    /// the element without the edition (for (a))
    base: String,
    edition: usize,
    src: String,
    cfg: Vec<(String, String)>,
}

struct Compared {
    wt: pool::FmtOut,
    /// None: the pinned release reports an error / timed out on this input (outside the quantifier)
    pinned: Option<Vec<u8>>,
}

/// runs the working tree (in-process) and the pinned binary (batched by configuration) on the elements
fn compare_all(elems: &[Elem], out: &Path, timeout: Duration) -> Vec<Compared> {
    let jobs: Vec<Job> = elems.iter().map(|e| Job { src: e.src.clone(), cfg: e.cfg.clone(), file_lines: None }).collect();
    let cur = pool::run_jobs(&jobs, jobs_n(), timeout);
    let mut groups: std::collections::BTreeMap<String, Vec<usize>> = Default::default();
    for (i, e) in elems.iter().enumerate() {
        // a file on disk and a text on standard input differ for CR under newline_style=Auto, and an echoing
        // input (inner skip attribute) goes to the process' stdout: those go one by one on standard input
        let solo = e.src.contains('\r');
        let key = if solo { format!("solo{}", i) } else { cfg_text(&e.cfg) };
        groups.entry(key).or_default().push(i);
    }
    let mut glist: Vec<Vec<usize>> = vec![];
    for (_, v) in groups {
        for ch in v.chunks(400) {
            glist.push(ch.to_vec());
        }
    }
    let scratch = out.join("pinned");
    let idx: Vec<usize> = (0..glist.len()).collect();
    let fro: Vec<Vec<Option<Vec<u8>>>> = par_map(&idx, |gi| {
        let ks = &glist[*gi];
        let cfg = &elems[ks[0]].cfg;
        let one = |k: &usize| {
            let r = frozen(&elems[*k].src, cfg, timeout);
            if r.code == Some(0) && !r.timed_out { Some(r.stdout) } else { None }
        };
        if ks.len() == 1 {
            return vec![one(&ks[0])];
        }
        let srcs: Vec<&str> = ks.iter().map(|k| elems[*k].src.as_str()).collect();
        match frozen_batch(&scratch.join(format!("g{}", gi)), &srcs, cfg, Duration::from_secs(120)) {
            Some(v) => v.into_iter().map(Some).collect(),
            None => ks.iter().map(one).collect(),
        }
    });
    let _ = std::fs::remove_dir_all(&scratch);
    let mut pinned: Vec<Option<Vec<u8>>> = vec![None; elems.len()];
    for (gi, ks) in glist.iter().enumerate() {
        for (n, k) in ks.iter().enumerate() {
            pinned[*k] = fro[gi][n].clone();
        }
    }
    // a difference seen through a batch run (files on disk) is confirmed on standard input, the way the working tree
    // got the text: generated-file markers, module declarations and newline detection behave differently for files
    let redo: Vec<usize> = (0..elems.len()).filter(|i| match &pinned[*i] { Some(p) => !(cur[*i].status == Status::Ok && (if cur[*i].out.is_empty() { elems[*i].src.as_bytes() } else { cur[*i].out.as_bytes() }) == &p[..]), None => false }).collect();
    let again: Vec<Option<Vec<u8>>> = par_map(&redo, |i| {
        let r = frozen(&elems[*i].src, &elems[*i].cfg, timeout);
        if r.code == Some(0) && !r.timed_out { Some(r.stdout) } else { None }
    });
    for (i, a) in redo.iter().zip(again.into_iter()) {
        pinned[*i] = a;
    }
    cur.into_iter().zip(pinned.into_iter()).map(|(wt, pinned)| Compared { wt, pinned }).collect()
}

/// the text the working tree leaves for an element: an echoing input (inner skip attribute, disable_all_formatting) is
/// printed on the process' stdout, not into the session's buffer: the text is the input
fn wt_text<'a>(e: &'a Elem, c: &'a Compared) -> &'a str {
    if c.wt.status == Status::Ok && c.wt.out.is_empty() { &e.src } else { &c.wt.out }
}

fn differs(e: &Elem, c: &Compared) -> Option<bool> {
    let p = c.pinned.as_ref()?;
    if c.wt.status == Status::Timeout || matches!(c.wt.status, Status::Infra(_)) {
        // a case the harness itself could not run is inconclusive, never a verdict
        return None;
    }
    // a batch run leaves an echoing input as it is; on standard input it is echoed: both are the input
    Some(!(c.wt.status == Status::Ok && wt_text(e, c).as_bytes() == &p[..]))
}

/// the fixed universe of C09: the elements of C02's universe (fixtures x {base, 7 widths, every option single, 3 re-layouts})
/// and of the boundary universe B (items x max_width 20..200), each under the four released style editions
fn universe_elems(progs: &[corpus::Program]) -> (Vec<Elem>, Vec<crate::boundary::Item>) {
    let mut progs: Vec<corpus::Program> = progs.to_vec();
    for p in progs.iter_mut() {
        p.cfg.retain(|(k, _)| k != "style_edition" && k != "version");
    }
    let mut v = vec![];
    for c in crate::c02::universe(&progs) {
        let fam = crate::c02::family_of(&c.id);
        if fam == "style_edition" || fam == "version" {
            continue;
        }
        for (k, e) in EDITIONS.iter().enumerate() {
            v.push(Elem { id: format!("{}|se{}", c.id, e), base: c.id.clone(), edition: k, src: c.src.clone(), cfg: merge_cfg(&c.cfg, &[("style_edition".into(), e.to_string())]) });
        }
    }
    let mut its = crate::boundary::items(&progs);
    for it in its.iter_mut() {
        it.cfg.retain(|(k, _)| k != "style_edition" && k != "version");
    }
    (v, its)
}

fn boundary_elems(it: &crate::boundary::Item, w: usize) -> Vec<Elem> {
    let base = crate::boundary::elem_id(it, w);
    EDITIONS.iter().enumerate().map(|(k, e)| Elem { id: format!("{}|se{}", base, e), base: base.clone(), edition: k, src: it.src.clone(), cfg: merge_cfg(&it.cfg, &[("max_width".into(), w.to_string()), ("style_edition".into(), e.to_string())]) }).collect()
}

pub fn run(tier: &str, seed: u64, out: &Path) -> i32 {
    let mut o = Outcome::new("C09", tier, seed);
    let thorough = tier == "thorough";
    let sweep = tier == "sweep" || tier == "sweepb";
    let mut rng = Rng::new(seed ^ 0xc09);
    if !sweep_mode(tier) {
        crate::budgets_corr::cases_c09(&mut o, &mut rng.fork(), tier == "thorough");
    }
    let mut progs = corpus::programs(&["tests/target", "tests/source"]);
    progs.retain(|p| !p.src.trim().is_empty());
    let (uni, its) = universe_elems(&progs);
    let listed = crate::boundary::load_list("c09_fixdiff.txt");
    let slow = crate::boundary::load_list("c02_boundary_dirty.txt");
    let timeout = Duration::from_secs(if thorough || sweep { 30 } else { 10 });
    let plan = crate::boundary::plan(&its, Duration::from_secs(10));
    o.count_n("universe:elements (x 4 editions)", uni.len() as u64);
    if sweep {
        // measurement mode (not a registered check): prints every element on which the working tree differs from the
        // pinned release.  `sweep`: the fixture universe; `sweepb`: the whole boundary universe.
        let mut all: Vec<Elem> = vec![];
        if tier == "sweep" {
            all = uni.clone();
        } else {
            for (it, ws) in its.iter().zip(plan.iter()) {
                if ws.is_empty() || slow.contains(&format!("{}|*", it.id)) {
                    continue;
                }
                for w in 20..=200usize {
                    all.extend(boundary_elems(it, w));
                }
            }
        }
        if let Ok(f) = std::env::var("C09_SWEEP_FILTER") {
            all.retain(|e| e.id.contains(&f) || cfg_text(&e.cfg).contains(&f));
        }
        eprintln!("{} elements", all.len());
        for chunk in all.chunks(200_000) {
            let res = compare_all(chunk, out, timeout);
            for (e, c) in chunk.iter().zip(res.iter()) {
                if differs(e, c) == Some(true) {
                    println!("{}", e.id);
                }
            }
            eprintln!("chunk done");
        }
        return 0;
    }
    // ---- chosen elements
    let mut chosen: Vec<Elem> = vec![];
    let mut probes: Vec<Elem> = vec![];
    {
        let clean: Vec<&Elem> = uni.iter().filter(|e| !listed.contains(&e.id)).collect();
        probes.extend(uni.iter().filter(|e| listed.contains(&e.id)).cloned());
        // every base element; of the others a seeded sample (the whole universe, 570 000 elements, takes half an hour:
        // it is measured in sweep mode, see corpus/c09_fixdiff.txt)
        chosen.extend(clean.iter().filter(|e| e.base.ends_with("|base")).map(|e| (*e).clone()));
        let rest: Vec<&&Elem> = clean.iter().filter(|e| !e.base.ends_with("|base")).collect();
        for _ in 0..(if thorough { 150_000usize } else { 20000 }).min(rest.len()) {
            chosen.push((**rng.pick(&rest)).clone());
        }
        // boundary family: the widths next to the lengths of the lines of the item's own output at max_width 200
        let mut pairs: Vec<(usize, usize)> = vec![];
        for (i, ws) in plan.iter().enumerate() {
            if slow.contains(&format!("{}|*", its[i].id)) {
                continue;
            }
            for w in ws {
                pairs.push((i, *w));
            }
        }
        o.count_n("bw:planned (item, width) pairs", pairs.len() as u64);
        let take: Vec<(usize, usize)> = if thorough { pairs } else { (0..12000usize.min(pairs.len())).map(|_| *rng.pick(&pairs)).collect() };
        for (i, w) in take {
            for e in boundary_elems(&its[i], w) {
                if listed.contains(&e.id) {
                    probes.push(e);
                } else {
                    chosen.push(e);
                }
            }
        }
    }
    o.count_n("cases", chosen.len() as u64);
    let mut distinct = std::collections::HashSet::new();
    let mut nontrivial = 0u64;
    {
        let res = compare_all(&chosen, out, timeout);
        // (a) 2015 = 2018 = 2021 on the working tree, per base element
        let mut by_base: std::collections::BTreeMap<&str, [Option<usize>; 4]> = Default::default();
        for (i, e) in chosen.iter().enumerate() {
            by_base.entry(e.base.as_str()).or_insert([None; 4])[e.edition] = Some(i);
        }
        for (base, ix) in &by_base {
            if let (Some(a), Some(b), Some(c)) = (ix[0], ix[1], ix[2]) {
                let r = [&res[a].wt, &res[b].wt, &res[c].wt];
                if r.iter().any(|x| x.status == Status::Timeout || matches!(x.status, Status::Infra(_))) {
                    o.count("a:timeout");
                    continue;
                }
                o.count("a:compared");
                let same = if r.iter().all(|x| x.status == Status::Ok) { r[0].out == r[1].out && r[1].out == r[2].out } else {
                    let sts: Vec<String> = r.iter().map(|x| format!("{:?}", x.status).chars().take(12).collect()).collect();
                    sts[0] == sts[1] && sts[1] == sts[2]
                };
                if !same {
                    o.direct_failures.push(json!({"sig": "c09:editions-2015-2018-2021-differ", "what": "style editions 2015/2018/2021 give different text on the working tree", "program": base, "config": cfg_text(&chosen[a].cfg), "src": chosen[a].src, "out2015": r[0].out, "out2018": r[1].out, "out2021": r[2].out}));
                }
                if let Some(d) = ix[3] {
                    if res[c].wt.out != res[d].wt.out {
                        nontrivial += 1;
                    }
                }
            }
        }
        // (b) working tree vs pinned release
        for (e, c) in chosen.iter().zip(res.iter()) {
            match differs(e, c) {
                None => o.count(if c.pinned.is_none() { "b:pinned-reports-error" } else { "b:timeout" }),
                Some(d) => {
                    o.count(if e.base.contains("|bw") { "bw:compared" } else { "b:compared" });
                    distinct.insert(e.id.clone());
                    if d {
                        o.direct_failures.push(json!({"sig": "c09:differs-from-pinned-release", "what": format!("style edition {}: the working tree's text differs from the pinned release's", EDITIONS[e.edition]), "program": e.id, "config": cfg_text(&e.cfg), "edition": EDITIONS[e.edition], "src": e.src, "pinned": String::from_utf8_lossy(c.pinned.as_ref().unwrap()), "working_tree": wt_text(e, c), "working_tree_status": format!("{:?}", c.wt.status)}));
                    }
                }
            }
        }
        for (e, _) in chosen.iter().zip(res.iter()).take(3) {
            o.sample(json!({"element": e.id, "config": cfg_text(&e.cfg), "src_bytes": e.src.len()}));
        }
    }
    // ---- the listed elements (differences that follow from the repairs made during this audit): one enumerated probe
    {
        let res = compare_all(&probes, out, timeout);
        let mut bad = 0;
        let mut ex = String::new();
        for (e, c) in probes.iter().zip(res.iter()) {
            if differs(e, c) == Some(true) {
                bad += 1;
                if ex.is_empty() {
                    ex = e.id.clone();
                }
            }
        }
        o.probes.push(json!({"id": "c09-fixdiff", "fails": bad > 0, "what": format!("{} of the {} listed elements reached by this run differ from the pinned release, e.g. {}", bad, probes.len(), ex)}));
    }
    // ---- generated import / mod / extern crate groups over an identifier universe aimed at the ordering code
    {
        let singles: Vec<(String, String)> = option_singles().into_iter().filter(|(k, _)| k != "style_edition").collect();
        let import_opts: Vec<(String, String)> = singles.iter().filter(|(k, _)| k.starts_with("imports_") || k == "group_imports" || k.starts_with("reorder_")).cloned().collect();
        let mut gen: Vec<Elem> = vec![];
        for k in 0..(if thorough { 4000 } else { 600 }) {
            let src = import_program(&mut rng);
            let mut cfg: Vec<(String, String)> = vec![];
            if rng.chance(1, 2) {
                let (a, b) = rng.pick(&import_opts).clone();
                cfg.push((a, b));
            }
            if rng.chance(1, 4) {
                cfg = merge_cfg(&cfg, &[("max_width".into(), rng.pick(WIDTHS_QUICK).to_string())]);
            }
            for (n, e) in EDITIONS.iter().enumerate() {
                gen.push(Elem { id: format!("gen-imports{}|se{}", k, e), base: format!("gen-imports{}", k), edition: n, src: src.clone(), cfg: merge_cfg(&cfg, &[("style_edition".into(), e.to_string())]) });
            }
        }
        let res = compare_all(&gen, out, timeout);
        for (i, (e, c)) in gen.iter().zip(res.iter()).enumerate() {
            if e.edition == 0 {
                let r = [&res[i].wt, &res[i + 1].wt, &res[i + 2].wt];
                if r.iter().all(|x| x.status == Status::Ok) {
                    o.count("a:compared");
                    if !(r[0].out == r[1].out && r[1].out == r[2].out) {
                        o.direct_failures.push(json!({"sig": "c09:editions-2015-2018-2021-differ", "what": "style editions 2015/2018/2021 give different text on the working tree", "program": e.base, "config": cfg_text(&e.cfg), "src": e.src, "out2015": r[0].out, "out2018": r[1].out, "out2021": r[2].out}));
                    }
                    if res[i + 2].wt.out != res[i + 3].wt.out {
                        nontrivial += 1;
                    }
                }
            }
            if let Some(d) = differs(e, c) {
                o.count("b:compared");
                distinct.insert(e.id.clone());
                if d {
                    o.direct_failures.push(json!({"sig": "c09:differs-from-pinned-release", "what": format!("style edition {}: the working tree's text differs from the pinned release's", EDITIONS[e.edition]), "program": e.id, "config": cfg_text(&e.cfg), "edition": EDITIONS[e.edition], "src": e.src, "pinned": String::from_utf8_lossy(c.pinned.as_ref().unwrap()), "working_tree": wt_text(e, c), "working_tree_status": format!("{:?}", c.wt.status)}));
                }
            }
        }
    }
    // ---- which style edition is in force: the command line and configuration-file routes (version / edition /
    //      style_edition in every combination) through the two binaries; the formatting code is not involved, the
    //      resolution of the effective style edition is
    {
        let bin = std::env::var("RUSTFMT_BIN").unwrap_or_else(|_| std::env::current_exe().ok().and_then(|e| Some(e.parent()?.parent()?.parent()?.join("repo-target/debug/rustfmt").display().to_string())).unwrap_or_else(|| "/verif/.build/repo-target/debug/rustfmt".into()));
        if Path::new(&bin).exists() {
            // sources on which 2015 and 2024 differ (so that the edition in force shows in the text)
            let srcs: Vec<String> = vec![
                "use std::{a10, a9, A1, a1};\nfn main() {\n    let x = match y { 1 => { foo() }, _ => bar(), };\n}\n".to_string(),
                "fn f() {\n    a_very_long_function_name_number_one(argument_one, argument_two).another_method_call(|x| { x + 1 }).third_call(some_struct { field_one: 1, field_two: 2 });\n}\nuse b::{B, a2, a10};\n".to_string(),
            ];
            let vals = ["-", "2015", "2018", "2021", "2024"];
            let vers = ["-", "One", "Two"];
            let mut combos: Vec<(usize, &str, &str, &str, usize)> = vec![];
            for (si, _) in srcs.iter().enumerate() {
                for v in vers {
                    for e in vals {
                        for se in vals {
                            for route in 0..3usize {
                                combos.push((si, v, e, se, route));
                            }
                        }
                    }
                }
            }
            let work = out.join("prec");
            let _ = std::fs::create_dir_all(&work);
            let results: Vec<(CliOut, CliOut)> = par_map(&combos, |(si, v, e, se, route)| {
                let run = |exe: &str, tag: &str| -> CliOut {
                    let d = work.join(format!("{}-{}-{}-{}-{}-{}", tag, si, v, e, se, route));
                    let _ = std::fs::create_dir_all(&d);
                    let mut cmd = Command::new(exe);
                    cmd.current_dir(&d).arg("--emit").arg("stdout");
                    let mut kv: Vec<String> = vec![];
                    if *v != "-" { kv.push(format!("version={}", v)); }
                    if *e != "-" { kv.push(format!("edition={}", e)); }
                    if *se != "-" { kv.push(format!("style_edition={}", se)); }
                    match route {
                        0 => {
                            // everything on --config
                            cmd.arg("--config-path").arg("/verif/frozen/empty.toml");
                            if !kv.is_empty() { cmd.arg("--config").arg(kv.join(",")); }
                        }
                        1 => {
                            // everything in a configuration file
                            let toml: String = kv.iter().map(|x| { let (k, val) = x.split_once('=').unwrap(); format!("{} = \"{}\"\n", k, val) }).collect();
                            let _ = std::fs::write(d.join("cfg.toml"), toml);
                            cmd.arg("--config-path").arg(d.join("cfg.toml"));
                        }
                        _ => {
                            // version in a file, the two editions as dedicated flags
                            let toml = if *v != "-" { format!("version = \"{}\"\n", v) } else { String::new() };
                            let _ = std::fs::write(d.join("cfg.toml"), toml);
                            cmd.arg("--config-path").arg(d.join("cfg.toml"));
                            if *e != "-" { cmd.arg("--edition").arg(e); }
                            if *se != "-" { cmd.arg("--style-edition").arg(se); }
                        }
                    }
                    let r = run_cmd(&mut cmd, srcs[*si].as_bytes(), Duration::from_secs(20));
                    let _ = std::fs::remove_dir_all(&d);
                    r
                };
                (run(&bin, "wt"), run("/verif/frozen/rustfmt-pinned", "pin"))
            });
            let _ = std::fs::remove_dir_all(&work);
            for ((si, v, e, se, route), (w, p)) in combos.iter().zip(results.iter()) {
                if p.timed_out || w.timed_out || p.code != Some(0) {
                    o.count("prec:pinned-reports-error");
                    continue;
                }
                o.count("prec:compared");
                distinct.insert(format!("prec|{}|{}|{}|{}|{}", si, v, e, se, route));
                if !(w.code == Some(0) && w.stdout == p.stdout) {
                    o.direct_failures.push(json!({"sig": "c09:differs-from-pinned-release", "what": format!("which style edition is in force: version={} edition={} style_edition={} given {}: the working tree's text differs from the pinned release's", v, e, se, ["on --config", "in a configuration file", "as version in a file and --edition / --style-edition flags"][*route]), "program": format!("precedence-source-{}", si), "config": format!("version={},edition={},style_edition={},route={}", v, e, se, route), "src": srcs[*si], "pinned": String::from_utf8_lossy(&p.stdout), "working_tree": String::from_utf8_lossy(&w.stdout), "working_tree_status": format!("{:?}", w.code)}));
                }
            }
        } else {
            o.notes.push(format!("binary {} not found: precedence family skipped", bin));
        }
    }
    o.count_n("cases_where_2021_and_2024_differ", nontrivial);
    o.notes.push("fixed universe: C02's universe (fixtures x {base, 7 widths, every option single, 3 name-seeded re-layouts}) and the boundary universe (items x max_width 20..200), each element under the four released style editions; the elements on which the working tree differs from the pinned release because of the repairs made during this audit are enumerated in corpus/c09_fixdiff.txt and run as probe c09-fixdiff; quick runs every base element, 20000 seeded other elements and 12000 seeded boundary pairs; thorough every base element, 150000 seeded other elements and every planned boundary pair (about 20000); plus generated import groups".into());
    let evals = o.distribution.get("b:compared").copied().unwrap_or(0) + o.distribution.get("a:compared").copied().unwrap_or(0) + o.distribution.get("bw:compared").copied().unwrap_or(0);
    o.count_n("evaluations_direct", evals);
    o.direct_evals = evals;
    o.direct_distinct = distinct.len() as u64;
    o.finish(out, jobs_n())
}

fn sweep_mode(tier: &str) -> bool {
    tier == "sweep" || tier == "sweepb"
}

fn jobs_n() -> usize {
    jobs()
}

/// the pinned binary on a batch of files that share one configuration: `--emit files` on scratch copies.
/// Returns None for the whole batch when the run did not end with status 0 (the caller then runs them one by one).
fn frozen_batch(dir: &Path, srcs: &[&str], cfg: &[(String, String)], timeout: Duration) -> Option<Vec<Vec<u8>>> {
    let _ = std::fs::remove_dir_all(dir);
    std::fs::create_dir_all(dir).ok()?;
    let mut cmd = Command::new("/verif/frozen/rustfmt-pinned");
    cmd.current_dir(dir).arg("--config-path").arg("/verif/frozen/empty.toml").arg("--emit").arg("files");
    if !cfg.is_empty() {
        cmd.arg("--config").arg(cfg_text(cfg));
    }
    for (i, s) in srcs.iter().enumerate() {
        let f = dir.join(format!("i{}.rs", i));
        std::fs::write(&f, s).ok()?;
        cmd.arg(format!("i{}.rs", i));
    }
    let r = run_cmd(&mut cmd, b"", timeout);
    let res = if r.code == Some(0) && !r.timed_out { (0..srcs.len()).map(|i| std::fs::read(dir.join(format!("i{}.rs", i))).ok()).collect::<Option<Vec<_>>>() } else { None };
    let _ = std::fs::remove_dir_all(dir);
    res
}

