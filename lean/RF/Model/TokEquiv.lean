/-
C01 — the verified translation validator (there is no model of rustfmt code in this file).

`norm cfg ts` normalises one token list (as lexed by `rustc_lexer` in the harness; whitespace and
non-doc comments are never sent) by a pipeline of LOCAL rewrites, one per item of the closed list of
style normalisations in the statement of C01; `equiv cfg a b` decides `norm cfg a == norm cfg b`.
The theorems (RF/Lemmas/TokEquiv.lean, RF/Props/C01.lean) say that an accepted pair cannot hide an
added / dropped / reordered / altered *hard* token.

Pipeline (see `norm`):
  resplit        rule 12   `x.0.0`: a float-shaped literal directly after a single `.` is two tuple indices
  canonTok       rules 10, 11, 13(literals)   per-token spelling: doc comments, strings, hex case, float zero
  docAttr        rule 10   `#[doc = "…"]` → `///…`            (only normalize_doc_attributes)
  regions        rule 4    runs of `use` / `mod x;` / `extern crate` items and runs of `#[derive(..)]`
                           become one bracketed block of (sorted) leaves, made of inert `R…` tokens
  fieldInit      rule 13   `a: a` → `a`                        (only use_field_init_shorthand)
  then the bracket-stack transducer `bpass` with one small rule function each:
  ruleTry        rule 13   `try!(e)` → `e?`                    (only use_try_shorthand)
  ruleVec        rule 9    `vec!(..)`, `vec!{..}` → `vec![..]`
  ruleAbi        rule 7    `extern "C"` → `extern`
  ruleVis        rule 8    `pub(in crate|self|super)` → `pub(crate|self|super)`
  ruleEmpty      rule 3    `<>`, `::<>`, `for<>`, empty `where`, empty bound list
  rulePipe       rule 6    leading `|` of a match arm
  ruleBlock      rules 5,6 `=> { e }` → `=> e,` ; `=> {..}` `,`? → `=> {..},` ; `|..| { e }` → `|..| e`
  semiSep        rules 1,6 empty statements; the `;` of a `return`/`break`/`continue` statement before `}`
  ruleComma      rule 1    `,` directly before a closer (not the `,` of a 1-tuple) or after `}`
  ruleParen      rule 2    `((e))` → `(e)`, `f((e))` → `f(e)`, not `f((a, b))`   (only remove_nested_parens)
-/
namespace RF.Tok

/-- One lexed token: class (`i r l p o c d n u Li Lf Lc Lb Ls LB LC Lr LR Lq`) and text as written. -/
structure Tok where
  cls : List Char
  text : List Char
deriving DecidableEq, Repr, Inhabited

inductive HexCase | upper | lower | preserve
deriving DecidableEq, Repr

/-- The opt-in rewrites of the formatter that the validator has to see through.  A flag that is
`false` switches the corresponding rule OFF (the validator is then stricter). -/
structure Cfg where
  /-- `use_try_shorthand` -/
  useTry : Bool := false
  /-- `use_field_init_shorthand` -/
  fis : Bool := false
  /-- `hex_literal_case` -/
  hex : HexCase := .preserve
  /-- `float_literal_trailing_zero` ≠ Preserve -/
  floatZero : Bool := false
  /-- `merge_derives` -/
  derive : Bool := true
  /-- `reorder_imports` / `reorder_modules` / `imports_granularity` ≠ Preserve / `group_imports` ≠
  Preserve: imports, `mod x;` and `extern crate` items may be reordered / merged inside a run -/
  imports : Bool := true
  /-- `normalize_doc_attributes` -/
  docattr : Bool := false
  /-- `force_explicit_abi` (the rule `extern "C"` ~ `extern` is on for both values: `true` adds the
  ABI, `false` removes it) -/
  abi : Bool := true
  /-- `remove_nested_parens` -/
  parens : Bool := true
  /-- `condense_wildcard_suffixes` -/
  wild : Bool := false
  /-- `format_strings` -/
  strings : Bool := false
  /-- `normalize_comments` / `wrap_comments` / `format_code_in_doc_comments`: doc comment text may be
  re-flowed -/
  reflow : Bool := false
  /-- `format_code_in_doc_comments`: code inside doc comments is re-formatted, so (together with
  `reflow`) the doc text is compared without any white space -/
  doccode : Bool := false
  /-- `trailing_semicolon`, `match_arm_leading_pipes`, `match_block_trailing_comma`,
  `trailing_comma`: every value of these may add or remove the separator, so rules 1 and 6 are on
  for all values; the fields are kept for the record. -/
  trailingSemicolon : Bool := true
  leadingPipes : Bool := true
  matchBlockComma : Bool := false
  trailingComma : Bool := true
deriving Repr

/-! ## Token tests and constructors -/

def Tok.isP (t : Tok) (c : Char) : Bool := t.cls == ['p'] && t.text == [c]
def Tok.isI (t : Tok) (s : List Char) : Bool := t.cls == ['i'] && t.text == s
def Tok.isO (t : Tok) (c : Char) : Bool := t.cls == ['o'] && t.text == [c]
def Tok.isC (t : Tok) (c : Char) : Bool := t.cls == ['c'] && t.text == [c]
def Tok.isOpen (t : Tok) : Bool := t.cls == ['o']
def Tok.isClose (t : Tok) : Bool := t.cls == ['c']
def Tok.isDoc (t : Tok) : Bool := t.cls == ['d']
/-- an outer doc comment (`///`, `/**`): it belongs to the item that follows -/
def Tok.isOuterDoc (t : Tok) : Bool :=
  t.cls == ['d'] && (match t.text with | '/' :: '/' :: '/' :: _ => true | '/' :: '*' :: '*' :: _ => true | _ => false)
/-- identifier-like path segment: ident/keyword or raw ident -/
def Tok.isSeg (t : Tok) : Bool := t.cls == ['i'] || t.cls == ['r']

def mkP (c : Char) : Tok := ⟨['p'], [c]⟩
def mkO (c : Char) : Tok := ⟨['o'], [c]⟩
def mkC (c : Char) : Tok := ⟨['c'], [c]⟩
def mkI (s : List Char) : Tok := ⟨['i'], s⟩
/-- the "no token" context value (start of input) -/
def noTok : Tok := ⟨[], []⟩

def kwUse : List Char := ['u','s','e']
def kwMod : List Char := ['m','o','d']
def kwExtern : List Char := ['e','x','t','e','r','n']
def kwCrate : List Char := ['c','r','a','t','e']
def kwSelf : List Char := ['s','e','l','f']
def kwSuper : List Char := ['s','u','p','e','r']
def kwPub : List Char := ['p','u','b']
def kwIn : List Char := ['i','n']
def kwAs : List Char := ['a','s']
def kwWhere : List Char := ['w','h','e','r','e']
def kwFor : List Char := ['f','o','r']
def kwTry : List Char := ['t','r','y']
def kwVec : List Char := ['v','e','c']
def kwDerive : List Char := ['d','e','r','i','v','e']
def kwDoc : List Char := ['d','o','c']
def kwLoop : List Char := ['l','o','o','p']
def kwWhile : List Char := ['w','h','i','l','e']
def kwReturn : List Char := ['r','e','t','u','r','n']
def kwBreak : List Char := ['b','r','e','a','k']
def kwContinue : List Char := ['c','o','n','t','i','n','u','e']
def kwLet : List Char := ['l','e','t']

/-! ## Rule 12: re-split `x.0.0` -/

def isDigit (c : Char) : Bool := '0' ≤ c && c ≤ '9'

/-- `digits . digits` (both parts non-empty, nothing else) → the two parts -/
def splitTupleIdx (cs : List Char) : Option (List Char × List Char) :=
  let a := cs.takeWhile isDigit
  match cs.dropWhile isDigit with
  | '.' :: b => if !a.isEmpty && !b.isEmpty && b.all isDigit then some (a, b) else none
  | _ => none

/-- `dots` = number of `.` puncts directly before the current token (saturating at 2). -/
def resplitAux : Nat → List Tok → List Tok
  | _, [] => []
  | dots, t :: ts =>
    if t.isP '.' then t :: resplitAux (if dots == 0 then 1 else 2) ts
    else if dots == 1 && t.cls == ['L','f'] then
      match splitTupleIdx t.text with
      | some (a, b) => ⟨['L','i'], a⟩ :: mkP '.' :: ⟨['L','i'], b⟩ :: resplitAux 0 ts
      | none => t :: resplitAux 0 ts
    else t :: resplitAux 0 ts

def resplit (ts : List Tok) : List Tok := resplitAux 0 ts

/-! ## Rules 10, 11, 13 (literals): per-token canonical spelling -/

def isBlank (c : Char) : Bool := c == ' ' || c == '\t' || c == '\r'
def isWs (c : Char) : Bool := c == ' ' || c == '\t' || c == '\r' || c == '\n'

def dropTrailing (p : Char → Bool) (cs : List Char) : List Char :=
  (cs.reverse.dropWhile p).reverse

def trimBlank (cs : List Char) : List Char := dropTrailing isBlank (cs.dropWhile isBlank)

/-- split at `\n` -/
def splitLinesAux : List Char → List Char → List (List Char)
  | [], cur => [cur.reverse]
  | c :: r, cur => if c == '\n' then cur.reverse :: splitLinesAux r [] else splitLinesAux r (c :: cur)

def splitLines (cs : List Char) : List (List Char) := splitLinesAux cs []

def joinLines : List (List Char) → List Char
  | [] => []
  | [l] => l
  | l :: r => l ++ '\n' :: joinLines r

/-- a continuation line of a block doc comment: drop the ` *` decoration (not the closing `*/`) -/
def stripStar (l : List Char) : List Char :=
  match l with
  | '*' :: '/' :: _ => l
  | '*' :: r => r.dropWhile isBlank
  | _ => l

/-- whitespace-separated words; every non-ASCII character is a word of its own -/
def wordsAux : List Char → List Char → List (List Char)
  | [], cur => if cur.isEmpty then [] else [cur.reverse]
  | c :: r, cur =>
    if isWs c then (if cur.isEmpty then wordsAux r [] else cur.reverse :: wordsAux r [])
    else if c.toNat ≥ 128 then
      -- a line may be broken between two non-ASCII characters (CJK text): each is its own word
      (if cur.isEmpty then [c] :: wordsAux r [] else cur.reverse :: [c] :: wordsAux r [])
    else wordsAux r (c :: cur)

def words (cs : List Char) : List (List Char) := wordsAux cs []

def joinWords : List (List Char) → List Char
  | [] => []
  | [w] => w
  | w :: r => w ++ ' ' :: joinWords r

/-- Rule 10 (re-indentation): every line trimmed of blanks; in a block doc comment the leading `*`
decoration of the continuation lines removed. -/
def docTrim (cs : List Char) : List Char :=
  match splitLines cs with
  | [] => []
  | first :: rest =>
    let block := match cs with | '/' :: '*' :: _ => true | _ => false
    joinLines (trimBlank first ::
      rest.map (fun l => let l := trimBlank l; if block then stripStar l else l))

/-- `//!` or `/*!` -/
def docInner (cs : List Char) : Bool :=
  match cs with
  | '/' :: _ :: '!' :: _ => true
  | _ => false

/-- the text of a doc comment without its marker (`///`, `//!`, `/**` … `*/`, `/*!` … `*/`) -/
def docBody (cs : List Char) : List Char :=
  match cs with
  | '/' :: '*' :: _ :: r =>
    (match r.reverse with
     | '/' :: '*' :: m => m.reverse
     | _ => r)
  | '/' :: '/' :: _ :: r => r
  | _ => cs

/-- the markdown block-quote markers `>` at the start of a line (wrapping repeats them on every
continuation line) -/
def stripQuote : List Char → List Char
  | '>' :: r => stripQuote r
  | ' ' :: r => (match r with | '>' :: _ => stripQuote r | _ => ' ' :: r)
  | l => l

/-- Rule 10 (re-flow): the words of a doc comment (marker and ` *` decoration removed). -/
def docWordList (cs : List Char) : List (List Char) :=
  let block := match cs with | '/' :: '*' :: _ => true | _ => false
  let ls := (splitLines (docBody cs)).map fun l =>
    let l := trimBlank l
    stripQuote (if block then stripStar l else l)
  words (joinLines ls)

def concatWords : List (List Char) → List Char
  | [] => []
  | w :: r => w ++ concatWords r

def docMarker (inner : Bool) : List Char := ['/', '/', if inner then '!' else '/']

/-- Rule 1 inside the code of a doc comment (`format_code_in_doc_comments`; the text has no white
space left): a `,` directly before a closing delimiter or `>` is dropped. -/
def dropTrailComma : List Char → List Char
  | [] => []
  | [c] => [c]
  | c :: d :: r =>
    if c == ',' && (d == ')' || d == ']' || d == '}' || d == '>') then dropTrailComma (d :: r)
    else c :: dropTrailComma (d :: r)

/-- the doc token for a run of doc comments of one kind whose words (reversed) are `acc` -/
def docFlush (code inner : Bool) (acc : List (List Char)) : Tok :=
  ⟨['d'], docMarker inner ++ ' ' ::
    (if code then dropTrailComma (concatWords acc.reverse) else joinWords acc.reverse)⟩

/-- Rule 10 (re-flow): a run of doc comments of the same kind (outer / inner) is ONE doc comment
whose text is the sequence of its words (with `code`: its non-blank characters).  `cur`: the run
being collected. -/
def docMergeAux (code : Bool) : Option (Bool × List (List Char)) → List Tok → List Tok
  | none, [] => []
  | some (i, acc), [] => [docFlush code i acc]
  | cur, t :: ts =>
    if t.isDoc then
      let i := docInner t.text
      let ws := docWordList t.text
      match cur with
      | none => docMergeAux code (some (i, ws.reverse)) ts
      | some (j, acc) =>
        if i == j then docMergeAux code (some (j, ws.reverse ++ acc)) ts
        else docFlush code j acc :: docMergeAux code (some (i, ws.reverse)) ts
    else
      match cur with
      | none => t :: docMergeAux code none ts
      | some (j, acc) => docFlush code j acc :: t :: docMergeAux code none ts

def docMerge (code : Bool) (ts : List Tok) : List Tok := docMergeAux code none ts

/-- Rule 11: after every `\`-newline continuation drop the following run of blanks; with
`format_strings` (`value = true`) drop the continuation itself too (and all white space after it,
as the language does), so that the VALUE is compared.  Escapes are consumed pairwise, so `\\` +
newline is not a continuation.  States: 0 plain, 1 after `\`, 2 skipping after a continuation,
3 after `\` CR. -/
def strContAux (value : Bool) : Nat → List Char → List Char
  | 1, [] => ['\\']
  | 3, [] => ['\\', '\r']
  | _, [] => []
  | 1, c :: r =>
    if c == '\n' then (if value then strContAux value 2 r else '\\' :: '\n' :: strContAux value 2 r)
    else if c == '\r' then strContAux value 3 r
    else '\\' :: c :: strContAux value 0 r
  | 3, c :: r =>
    if c == '\n' then (if value then strContAux value 2 r else '\\' :: '\n' :: strContAux value 2 r)
    else if c == '\\' then '\\' :: '\r' :: strContAux value 1 r
    else '\\' :: '\r' :: c :: strContAux value 0 r
  | 2, c :: r =>
    if (if value then isWs c else isBlank c) then strContAux value 2 r
    else if c == '\\' then strContAux value 1 r
    else c :: strContAux value 0 r
  | _, c :: r =>
    if c == '\\' then strContAux value 1 r else c :: strContAux value 0 r

def strCont (value : Bool) (cs : List Char) : List Char := strContAux value 0 cs

/-! ### literal values -/

def isHexDigit (c : Char) : Bool :=
  isDigit c || ('a' ≤ c && c ≤ 'f') || ('A' ≤ c && c ≤ 'F')

def lowerHex (c : Char) : Char := if 'A' ≤ c && c ≤ 'F' then Char.ofNat (c.toNat + 32) else c

/-- `hex_literal_case`: the digits of a `0x` literal in lower case; the suffix (from the first
character that is neither a hex digit nor `_`) untouched.  `rewrite_int_lit` upper/lower-cases
exactly `symbol` without the suffix. -/
def hexCanon (cs : List Char) : List Char :=
  match cs with
  | '0' :: 'x' :: r =>
    let ds := r.takeWhile (fun c => isHexDigit c || c == '_')
    '0' :: 'x' :: ds.map lowerHex ++ r.dropWhile (fun c => isHexDigit c || c == '_')
  | _ => cs

def digitVal (c : Char) : Nat :=
  if isDigit c then c.toNat - 48
  else if 'a' ≤ c && c ≤ 'f' then c.toNat - 87
  else if 'A' ≤ c && c ≤ 'F' then c.toNat - 55
  else 0

/-- value of the digits of an integer literal in base `b` (`_` skipped); stops at the suffix -/
def digitsValue (b : Nat) (cs : List Char) : Nat :=
  ((cs.takeWhile (fun c => (isHexDigit c && digitVal c < b) || c == '_')).filter (· != '_')).foldl
    (fun a c => a * b + digitVal c) 0

/-- The value of an integer literal (`0x`, `0o`, `0b` or decimal; suffix ignored). -/
def intValue (cs : List Char) : Nat :=
  match cs with
  | '0' :: 'x' :: r => digitsValue 16 r
  | '0' :: 'o' :: r => digitsValue 8 r
  | '0' :: 'b' :: r => digitsValue 2 r
  | _ => digitsValue 10 cs

def isDecDigit_ (c : Char) : Bool := isDigit c || c == '_'

/-- `float_literal_trailing_zero`: canonical spelling = integer part, then the fractional part only
if it has a non-zero digit, then exponent and suffix as written (`1.` = `1.0` = `1`; `1.0e5` = `1e5`;
`1.50` stays).  Literals that are not decimal (`0x…`) are left alone. -/
def floatCanon (cs : List Char) : List Char :=
  match cs with
  | '0' :: 'x' :: _ => cs
  | '0' :: 'o' :: _ => cs
  | '0' :: 'b' :: _ => cs
  | _ =>
    let ip := cs.takeWhile isDecDigit_
    match cs.dropWhile isDecDigit_ with
    | '.' :: r =>
      let fp := r.takeWhile isDecDigit_
      let rest := r.dropWhile isDecDigit_
      if fp.all (fun c => c == '0' || c == '_') then ip ++ rest else cs
    | _ => cs

/-- an integer-class literal that is semantically a float: decimal digits then a suffix `f…` -/
def isSemanticFloat (cs : List Char) : Bool :=
  match cs with
  | '0' :: 'x' :: _ => false
  | '0' :: 'o' :: _ => false
  | '0' :: 'b' :: _ => false
  | _ => match cs.dropWhile isDecDigit_ with
    | 'f' :: _ => true
    | _ => false

/-- CR LF → LF, as the compiler's source loader does (`normalize_src`): with
`newline_style = Windows` the line breaks inside multi-line literals and comments change too. -/
def dropCR : List Char → List Char
  | [] => []
  | '\r' :: '\n' :: r => '\n' :: dropCR r
  | c :: r => c :: dropCR r

/-- Per-token canonical spelling (rules 10, 11 and the literal part of 13). -/
def canonTok (cfg : Cfg) (t : Tok) : Tok :=
  if t.cls == ['d'] then (if cfg.reflow then ⟨t.cls, dropCR t.text⟩ else ⟨t.cls, docTrim t.text⟩)
  else if t.cls == ['L','s'] || t.cls == ['L','B'] || t.cls == ['L','C'] then
    ⟨t.cls, strCont cfg.strings (dropCR t.text)⟩
  else if t.cls == ['L','r'] || t.cls == ['L','R'] || t.cls == ['L','q'] then
    ⟨t.cls, dropCR t.text⟩
  else if t.cls == ['L','i'] then
    if cfg.floatZero && isSemanticFloat t.text then ⟨['L','f'], t.text⟩
    else match cfg.hex with
      | .preserve => t
      | _ => ⟨t.cls, hexCanon t.text⟩
  else if t.cls == ['L','f'] then
    if cfg.floatZero then ⟨t.cls, floatCanon t.text⟩ else t
  else t

/-! ## Bracket matching helpers (look-ahead only; all structurally recursive) -/

/-- `ts` begins just after an opener; the tokens after the matching closer (`none`: unbalanced).
`depth` = number of further openers seen. -/
def afterGroup : Nat → List Tok → Option (List Tok)
  | _, [] => none
  | d, t :: ts =>
    if t.isOpen then afterGroup (d + 1) ts
    else if t.isClose then (match d with | 0 => some ts | d' + 1 => afterGroup d' ts)
    else afterGroup d ts

/-- `ts` begins just after an opener; number of tokens up to and including the matching closer. -/
def groupLen : Nat → List Tok → Option Nat
  | _, [] => none
  | d, t :: ts =>
    if t.isOpen then (groupLen (d + 1) ts).map (· + 1)
    else if t.isClose then (match d with | 0 => some 1 | d' + 1 => (groupLen d' ts).map (· + 1))
    else (groupLen d ts).map (· + 1)

/-- `ts` begins just after an opener: is there a `;` at depth 0 before the matching closer? -/
def groupHasSemi : Nat → List Tok → Bool
  | _, [] => false
  | d, t :: ts =>
    if t.isOpen then groupHasSemi (d + 1) ts
    else if t.isClose then (match d with | 0 => false | d' + 1 => groupHasSemi d' ts)
    else if d == 0 && t.isP ';' then true
    else groupHasSemi d ts

/-! ## Rule 10 (attribute form): `#[doc = "text"]` → `///text` -/

/-- value of the hex digits at the head of `cs` (at most `n` of them) and the rest -/
def readHex : Nat → Nat → List Char → Nat × List Char
  | 0, acc, cs => (acc, cs)
  | _, acc, [] => (acc, [])
  | n + 1, acc, c :: r =>
    if isHexDigit c then readHex n (acc * 16 + digitVal c) r else (acc, c :: r)

/-- the characters between the quotes of a string literal with the escapes resolved (`\"` `\\` `\'`
`\n` `\t` `\r` `\0` `\xNN` `\u{N…}`; a literal line break kept); `none` for a line continuation or
a malformed escape, which leaves the attribute alone.  `fuel`: at least the length of the text. -/
def unescapeF : Nat → List Char → Option (List Char)
  | 0, _ => none
  | _ + 1, [] => some []
  | _ + 1, ['\\'] => none
  | f + 1, '\\' :: c :: r =>
    (if c == '"' || c == '\\' || c == '\'' then (unescapeF f r).map (c :: ·)
     else if c == 'n' then (unescapeF f r).map ('\n' :: ·)
     else if c == 't' then (unescapeF f r).map ('\t' :: ·)
     else if c == 'r' then (unescapeF f r).map ('\r' :: ·)
     else if c == '0' then (unescapeF f r).map (Char.ofNat 0 :: ·)
     else if c == 'x' then
       (match r with
        | a :: b :: r' => if isHexDigit a && isHexDigit b then (unescapeF f r').map (Char.ofNat (digitVal a * 16 + digitVal b) :: ·) else none
        | _ => none)
     else if c == 'u' then
       (match r with
        | '{' :: r' =>
          let digits := r'.takeWhile (fun x => isHexDigit x || x == '_')
          let v := (readHex 8 0 (digits.filter (· != '_'))).1
          (match r'.dropWhile (fun x => isHexDigit x || x == '_') with
           | '}' :: r'' => (unescapeF f r'').map (Char.ofNat v :: ·)
           | _ => none)
        | _ => none)
     else none)
  | f + 1, c :: r => if c == '"' then none else (unescapeF f r).map (c :: ·)

def unescape (cs : List Char) : Option (List Char) := unescapeF (cs.length + 1) cs

def plainStrValue (cs : List Char) : Option (List Char) :=
  match cs with
  | '"' :: r =>
    match r.reverse with
    | '"' :: m => unescape m.reverse
    | _ => none
  | _ => none

/-- the text of a raw string literal `r"…"` / `r#"…"#` (nothing is escaped in it) -/
def rawStrValue (cs : List Char) : Option (List Char) :=
  match cs with
  | 'r' :: r =>
    let body := r.dropWhile (· == '#')
    let n := (r.takeWhile (· == '#')).length
    (match body with
     | '"' :: m =>
       (match (m.reverse.dropWhile (· == '#')) with
        | '"' :: inner => if (m.reverse.takeWhile (· == '#')).length == n then some inner.reverse else none
        | _ => none)
     | _ => none)
  | _ => none

/-- `#[doc = "text"]` / `#![doc = "text"]` becomes the doc comments that `DocCommentFormatter`
prints: one `///line` (`//!line`) per line of the value. -/
def docAttrToks (inner : Bool) (o d e s c : Tok) : Option (List Tok) :=
  if o.isO '[' && d.isI kwDoc && e.isP '=' && (s.cls == ['L','s'] || s.cls == ['L','r']) && c.isC ']' then
    (if s.cls == ['L','s'] then plainStrValue s.text else rawStrValue s.text).map fun v =>
      (splitLines v).map fun l => ⟨['d'], '/' :: '/' :: (if inner then '!' else '/') :: l⟩
  else none

/-- at the head of `ts`: the doc comment tokens and the number of FURTHER tokens they replace -/
def docAttrAt : List Tok → Option (List Tok × Nat)
  | h :: o :: d :: e :: s :: c :: r =>
    if h.isP '#' then
      match docAttrToks false o d e s c with
      | some x => some (x, 5)
      | none =>
        if o.isP '!' then
          match r with
          | c' :: _ => (docAttrToks true d e s c c').map (·, 6)
          | [] => none
        else none
    else none
  | _ => none

/-- `skip` = number of tokens still to drop (they were replaced). -/
def docAttrAux : Nat → List Tok → List Tok
  | _, [] => []
  | n + 1, _ :: ts => docAttrAux n ts
  | 0, t :: ts =>
    match docAttrAt (t :: ts) with
    | some (x, n) => x ++ docAttrAux n ts
    | none => t :: docAttrAux 0 ts

def docAttr (ts : List Tok) : List Tok := docAttrAux 0 ts

/-! ## Rule 4: reorder regions

A *region* is a maximal run of `use` items, of `mod x;` items, of `extern crate` items (each with
its attributes, doc comments and visibility), or of `#[derive(..)]` attributes.  It is replaced by
`Ro` leaf `Rs` leaf `Rs` … `Rc` where every token of a leaf is wrapped into class `Rt…`: such tokens
are inert for all later rules.  Leaves are sorted, and for imports de-duplicated (the formatter
drops an import it has already seen: `use a::{self}; use a::self;`); derives keep their order (`format_derive` concatenates, it does not sort). -/

/-- Number of tokens of the run of outer attributes `#[..]` and doc comments at the head.
`st`: 0 between attributes, 1 after `#`, `d+2` inside an attribute at bracket depth `d`;
`done` counts the complete attributes, `pend` the tokens of the one being scanned. -/
def attrsLenAux : Nat → Nat → Nat → List Tok → Nat
  | _, done, _, [] => done
  | 0, done, _, t :: ts =>
    if t.isOuterDoc then attrsLenAux 0 (done + 1) 0 ts
    else if t.isP '#' then attrsLenAux 1 done 1 ts
    else done
  | 1, done, pend, t :: ts =>
    if t.isO '[' then attrsLenAux 2 done (pend + 1) ts else done
  | st + 2, done, pend, t :: ts =>
    if t.isOpen then attrsLenAux (st + 3) done (pend + 1) ts
    else if t.isClose then
      (if st == 0 then attrsLenAux 0 (done + pend + 1) 0 ts else attrsLenAux (st + 1) done (pend + 1) ts)
    else attrsLenAux (st + 2) done (pend + 1) ts

def attrsLen (ts : List Tok) : Nat := attrsLenAux 0 0 0 ts

def isVisWord (t : Tok) : Bool := t.isI kwCrate || t.isI kwSelf || t.isI kwSuper || t.isI kwIn

/-- Number of tokens of the visibility at the head: 0, 1 (`pub`) or `pub(crate|self|super|in …)`. -/
def visLen : List Tok → Nat
  | p :: o :: k :: ts =>
    if p.isI kwPub then
      (if o.isO '(' && isVisWord k then
        match groupLen 0 (k :: ts) with
        | some n => n + 2
        | none => 1
      else 1)
    else 0
  | p :: _ => if p.isI kwPub then 1 else 0
  | [] => 0

/-- `ts` begins after `use`: number of tokens up to and including the `;`, if everything before it
is a well-formed tree of path segments, `::`, `*`, `,` and balanced braces. -/
def useBodyLen : Nat → List Tok → Option Nat
  | _, [] => none
  | d, t :: ts =>
    if t.isO '{' then (useBodyLen (d + 1) ts).map (· + 1)
    else if t.isC '}' then (match d with | 0 => none | d' + 1 => (useBodyLen d' ts).map (· + 1))
    else if t.isP ';' then (if d == 0 then some 1 else none)
    else if t.isSeg || t.isP ':' || t.isP '*' || t.isP ',' then (useBodyLen d ts).map (· + 1)
    else none

/-- item kinds: 0 `use`, 1 `mod x;`, 2 `extern crate`, 3 `#[derive(..)]` -/
abbrev Kind := Nat

/-- `ts` begins after attributes and visibility: kind and number of tokens of the item. -/
def itemBodyLen : List Tok → Option (Kind × Nat)
  | k :: ts =>
    if k.isI kwUse then (useBodyLen 0 ts).map fun n => (0, n + 1)
    else if k.isI kwMod then
      (match ts with
       | n :: s :: _ => if n.isSeg && s.isP ';' then some (1, 3) else none
       | _ => none)
    else if k.isI kwExtern then
      (match ts with
       | c :: n :: s :: r =>
         if c.isI kwCrate && n.isSeg then
           (if s.isP ';' then some (2, 4)
            else match r with
              | a :: s' :: _ => if s.isI kwAs && a.isSeg && s'.isP ';' then some (2, 6) else none
              | _ => none)
         else none
       | _ => none)
    else none
  | [] => none

/-- `#[derive( … )]` at the head: its number of tokens -/
def deriveLen : List Tok → Option Nat
  | h :: o :: d :: p :: ts =>
    if h.isP '#' && o.isO '[' && d.isI kwDerive && p.isO '(' then
      match groupLen 0 ts with
      | some n => (match ts.drop n with
        | c :: _ => if c.isC ']' then some (n + 5) else none
        | [] => none)
      | none => none
    else none
  | _ => none

/-- An item at the head: kind and number of tokens. -/
def itemLen (cfg : Cfg) (ts : List Tok) : Option (Kind × Nat) :=
  let a := attrsLen ts
  let r := ts.drop a
  let v := visLen r
  match itemBodyLen (r.drop v) with
  | some (k, n) => some (k, a + v + n)
  | none =>
    if cfg.derive then (deriveLen ts).map fun n => (3, n) else none

/-- Lengths of the items of the maximal run of kind `k` at the head. `skip`: tokens of the current
item still to pass. -/
def runItemsAux (cfg : Cfg) (k : Kind) : Nat → List Tok → List Nat
  | _, [] => []
  | n + 1, _ :: ts => runItemsAux cfg k n ts
  | 0, t :: ts =>
    match itemLen cfg (t :: ts) with
    | some (k', n) => if k' == k then n :: runItemsAux cfg k (n - 1) ts else []
    | none => []

/-- cut `ts` into pieces of the given lengths -/
def cutItems : List Nat → List Tok → List (List Tok)
  | [], _ => []
  | n :: ns, ts => ts.take n :: cutItems ns (ts.drop n)

/-- `pub(in crate|self|super)` → `pub(crate|self|super)` (rule 8) inside a key -/
def normVis (v : List Tok) : List Tok :=
  match v with
  | [p, o, i, x, c] => if i.isI kwIn && (x.isI kwCrate || x.isI kwSelf || x.isI kwSuper) then [p, o, x, c] else v
  | _ => v

/-- In a flattened path (not at its head) `self` at the end or before `as` is dropped:
`a::{self}` is `a`, `a::{self as b}` is `a as b`. -/
def dropSelf : List Tok → List Tok
  | [] => []
  | [s] => if s.isI kwSelf then [] else [s]
  | s :: a :: r => if s.isI kwSelf && a.isI kwAs then a :: r else s :: dropSelf (a :: r)

/-- a redundant alias `x as x` at the end of a path is `x` (the formatter drops it) -/
def dropSameAlias : List Tok → List Tok
  | [] => []
  | [x, a, y] => if a.isI kwAs && x == y then [x] else [x, a, y]
  | x :: r => x :: dropSameAlias r

def fixSelf : List Tok → List Tok
  | [] => []
  | a :: r => dropSameAlias (a :: dropSelf r)

def topOf (st : List (List Tok)) : List Tok := match st with | [] => [] | p :: _ => p

/-- `use self;` imports nothing (the formatter drops it, like `use a::{};`) -/
def isLoneSelf : List Tok → Bool
  | [s] => s.isI kwSelf
  | _ => false

def emitLeaf (st : List (List Tok)) (cur : List Tok) : List (List Tok) :=
  if cur.isEmpty then [] else
  let l := fixSelf (topOf st ++ cur.reverse)
  if isLoneSelf l then [] else [l]

/-- Flatten a `use` tree (the tokens after `use`, up to and including `;`) into full paths.
`st`: stack of prefixes, `cur`: the reversed segments since the last `{` / `,`.  `::` is not kept
(so a leading `::` is invisible: edition 2015 drops it). -/
def flatUse : List (List Tok) → List Tok → List Tok → List (List Tok)
  | st, cur, [] => emitLeaf st cur
  | st, cur, t :: ts =>
    if t.isO '{' then flatUse ((topOf st ++ cur.reverse) :: st) [] ts
    else if t.isC '}' then emitLeaf st cur ++ flatUse st.tail [] ts
    else if t.isP ',' || t.isP ';' then emitLeaf st cur ++ flatUse st [] ts
    else if t.isP ':' then flatUse st cur ts
    else flatUse st (t :: cur) ts

/-- split at top-level `,` (derive lists); empty pieces dropped -/
def splitCommas : Nat → List Tok → List Tok → List (List Tok)
  | _, cur, [] => if cur.isEmpty then [] else [cur.reverse]
  | d, cur, t :: ts =>
    if d == 0 && t.isP ',' then (if cur.isEmpty then splitCommas d [] ts else cur.reverse :: splitCommas d [] ts)
    else if t.isOpen then splitCommas (d + 1) (t :: cur) ts
    else if t.isClose then splitCommas (d - 1) (t :: cur) ts
    else splitCommas d (t :: cur) ts

/-- The leaves of one item (its raw tokens). -/
def itemLeaves (k : Kind) (item : List Tok) : List (List Tok) :=
  if k == 3 then splitCommas 0 [] ((item.drop 4).take (item.length - 6))
  else
    let a := attrsLen item
    let r := item.drop a
    let v := visLen r
    let key := item.take a ++ normVis (r.take v)
    match r.drop v with
    | [] => []
    | kw :: body =>
      if k == 0 then
        let ls := flatUse [] [] body
        -- an empty import that carries attributes / doc comments is kept by the formatter
        if ls.isEmpty && a != 0 then [key ++ [kw]] else ls.map fun l => key ++ kw :: l
      else [key ++ kw :: body.take (body.length - 1)]

/-! ### a total order on leaves, insertion sort -/

def charsLe : List Char → List Char → Bool
  | [], _ => true
  | _ :: _, [] => false
  | a :: as, b :: bs => if a.toNat < b.toNat then true else if b.toNat < a.toNat then false else charsLe as bs

def tokLe (a b : Tok) : Bool :=
  if a.cls == b.cls then charsLe a.text b.text else charsLe a.cls b.cls

def leafLe : List Tok → List Tok → Bool
  | [], _ => true
  | _ :: _, [] => false
  | a :: as, b :: bs => if a == b then leafLe as bs else tokLe a b

def insertLeaf (x : List Tok) : List (List Tok) → List (List Tok)
  | [] => [x]
  | y :: ys => if leafLe x y then x :: y :: ys else y :: insertLeaf x ys

def sortLeaves : List (List Tok) → List (List Tok)
  | [] => []
  | x :: xs => insertLeaf x (sortLeaves xs)

/-- drop adjacent duplicates -/
def dedupAdj : List (List Tok) → List (List Tok)
  | [] => []
  | [x] => [x]
  | x :: y :: r => if x == y then dedupAdj (y :: r) else x :: dedupAdj (y :: r)

def wrapTok (t : Tok) : Tok := ⟨'R' :: 't' :: t.cls, t.text⟩
/-- the kind is written as `k` stars (so that the block determines it for every `k`) -/
def regOpen (k : Kind) : Tok := ⟨['R', 'o'], List.replicate k '*'⟩
def regSep : Tok := ⟨['R', 's'], []⟩
def regClose : Tok := ⟨['R', 'c'], []⟩

def encLeaf (l : List Tok) : List Tok := l.map wrapTok ++ [regSep]

def encLeaves : List (List Tok) → List Tok
  | [] => []
  | l :: ls => encLeaf l ++ encLeaves ls

/-- the block that replaces a region; a region without leaves disappears (`use a::{};`) -/
def encRegion (k : Kind) (leaves : List (List Tok)) : List Tok :=
  if leaves.isEmpty then [] else regOpen k :: (encLeaves leaves ++ [regClose])

/-- all leaves of a run given by item lengths -/
def runLeaves (k : Kind) (items : List (List Tok)) : List (List Tok) :=
  match items with
  | [] => []
  | it :: r => itemLeaves k it ++ runLeaves k r

/-- canonical order of the leaves of one region -/
def canonLeaves (k : Kind) (ls : List (List Tok)) : List (List Tok) :=
  if k == 3 then ls else
  let s := sortLeaves ls
  if k == 0 then dedupAdj s else s

def sumNat : List Nat → Nat
  | [] => 0
  | n :: ns => n + sumNat ns

/-- The region at the head of `ts`, if any: (number of tokens, replacement). With `imports` off a
region is a single item (its own nested lists are still flattened and sorted: `UseTree::normalize`
does that under every configuration). -/
def regionAt (cfg : Cfg) (ts : List Tok) : Option (Nat × List Tok) :=
  match itemLen cfg ts with
  | none => none
  | some (k, n) =>
    if cfg.imports || k == 3 then
      let lens := runItemsAux cfg k 0 ts
      let total := sumNat lens
      some (total, encRegion k (canonLeaves k (runLeaves k (cutItems lens (ts.take total)))))
    else
      some (n, encRegion k (canonLeaves k (itemLeaves k (ts.take n))))

/-- `skip`: tokens of the current region still to pass. -/
def regionsAux (cfg : Cfg) : Nat → List Tok → List Tok
  | _, [] => []
  | n + 1, _ :: ts => regionsAux cfg n ts
  | 0, t :: ts =>
    match regionAt cfg (t :: ts) with
    | some (n, out) => out ++ regionsAux cfg (n - 1) ts
    | none => t :: regionsAux cfg 0 ts

def regions (cfg : Cfg) (ts : List Tok) : List Tok := regionsAux cfg 0 ts

/-! ## The bracket-stack transducer

One left-to-right pass.  The rule function sees the two previous tokens of the pass's INPUT (`p2`,
`p1`), the current token `t` and the rest (look-ahead), and may replace `t` by a short list; for an
opener it may also say what replaces the matching closer and whether a `,` directly after that
closer is to be dropped.  `none` keeps the token. -/

structure Act where
  /-- replaces the current token -/
  out : List Tok
  /-- for an opener: replaces the matching closer (`none`: the closer is kept) -/
  close : Option (List Tok) := none
  /-- for an opener: after the closer (or its replacement) emit a `,` unless the last emitted token
  is `}` -/
  commaAfter : Bool := false
  /-- for an opener: drop a `,` that directly follows the matching closer -/
  skipComma : Bool := false
  /-- for an opener: a mark that the rule sees again (as `enc`) for the tokens directly inside -/
  tag : Nat := 0

/-- `enc` (tag of the enclosing opener), `lo` (last token emitted), `p2`, `p1`, current token, rest -/
abbrev Rule := Nat → Tok → Tok → Tok → Tok → List Tok → Option Act

structure Frame where
  close : Option (List Tok)
  commaAfter : Bool
  skipComma : Bool
  tag : Nat

def encTag : List Frame → Nat
  | [] => 0
  | fr :: _ => fr.tag

def lastOf : List Tok → Tok → Tok
  | [], lo => lo
  | [x], _ => x
  | _ :: r, lo => lastOf r lo

/-- what a closer `t` with frame `fr` becomes; `lo` = last token emitted so far -/
def closeOut (fr : Frame) (t lo : Tok) : List Tok :=
  let o := match fr.close with | some o => o | none => [t]
  if fr.commaAfter && !(lastOf o lo).isC '}' then o ++ [mkP ','] else o

/-- `p2 p1`: previous two tokens of the input; `lo`: last emitted token; `skip`: drop a `,` now;
`st`: one frame per open bracket. -/
def bpass (f : Rule) : Tok → Tok → Tok → Bool → List Frame → List Tok → List Tok
  | _, _, _, _, _, [] => []
  | p2, p1, lo, skip, st, t :: ts =>
    if skip && t.isP ',' then bpass f p1 t lo false st ts
    else if t.isOpen then
      match f (encTag st) lo p2 p1 t ts with
      | some a => a.out ++ bpass f p1 t (lastOf a.out lo) false (⟨a.close, a.commaAfter, a.skipComma, a.tag⟩ :: st) ts
      | none => t :: bpass f p1 t t false (⟨none, false, false, 0⟩ :: st) ts
    else if t.isClose then
      match st with
      | fr :: st' =>
        let o := closeOut fr t lo
        o ++ bpass f p1 t (lastOf o lo) fr.skipComma st' ts
      | [] => t :: bpass f p1 t t false [] ts
    else
      match f (encTag st) lo p2 p1 t ts with
      | some a => a.out ++ bpass f p1 t (lastOf a.out lo) false st ts
      | none => t :: bpass f p1 t t false st ts

def runRule (f : Rule) (ts : List Tok) : List Tok := bpass f noTok noTok noTok false [] ts

def drop_ : Option Act := some { out := [] }

def headIs (p : Tok → Bool) : List Tok → Bool
  | t :: _ => p t
  | [] => false

/-- `try` or `r#try` -/
def isTryName (t : Tok) : Bool := t.isI kwTry || (t.cls == ['r'] && t.text == 'r' :: '#' :: kwTry)

/-- a keyword that makes the operand of `try!` something other than a postfix chain (block-like
expressions `if .. {} else {}`, `match x {}`, `unsafe {}` take a `?` directly) -/
def isOperandKw (t : Tok) : Bool :=
  t.isI kwAs || t.isI ['m','o','v','e'] || t.isI kwReturn || t.isI kwBreak || t.isI kwContinue ||
  t.isI kwLet || t.isI kwIn || t.isI ['y','i','e','l','d'] || t.isI ['s','t','a','t','i','c']

/-- `ts` begins just after the opener of `try!(`: the operand is a postfix chain — at its top level only
path segments, literals, groups, `.`, `::`, `?`, a `!` after a name, generic arguments after `::<`, and a
`,` directly before the closer — so `operand?` parses as `(operand)?`.  `p`: previous token, `d`: depth,
`a`: depth inside `::<…>`. -/
def simpleOperand : Tok → Nat → Nat → List Tok → Bool
  | _, _, _, [] => false
  | p, d, a, t :: ts =>
    if t.isOpen then simpleOperand t (d + 1) a ts
    else if t.isClose then (match d with | 0 => true | d' + 1 => simpleOperand t d' a ts)
    else if d != 0 then simpleOperand t d a ts
    else if t.isP '<' && (p.isP ':' || a != 0) then simpleOperand t d (a + 1) ts
    else if t.isP '>' && a != 0 then simpleOperand t d (a - 1) ts
    else if a != 0 then simpleOperand t d a ts
    else if (t.cls == ['i'] && !isOperandKw t) || t.cls == ['r'] || (match t.cls with | 'L' :: _ => true | _ => false) then
      simpleOperand t d a ts
    else if t.isP '.' && (p.isP '.' || headIs (·.isP '.') ts) then false
    else if t.isP '.' || t.isP ':' || t.isP '?' then simpleOperand t d a ts
    else if t.isP '!' && (p.cls == ['i'] || p.cls == ['r']) then simpleOperand t d a ts
    else if t.isP ',' && headIs (·.isClose) ts then simpleOperand t d a ts
    else false

/-- Rule 13: `try!(e)` / `try![e]` / `try!{e}` / `r#try!(e)` → `e?` when `e` is a postfix chain, else
`(e)?` (the parentheses the parse requires); a `,` directly before the closer goes.  Tag 5: inside
the macro's delimiters. -/
def ruleTry : Rule := fun enc _ p2 p1 t rest =>
  if isTryName t then
    (match rest with
     | b :: o :: _ => if b.isP '!' && o.isOpen then drop_ else none
     | _ => none)
  else if t.isP '!' && isTryName p1 && headIs (·.isOpen) rest then drop_
  else if t.isOpen && p1.isP '!' && isTryName p2 then
    (if simpleOperand t 0 0 rest then some { out := [], close := some [mkP '?'], tag := 5 }
     else some { out := [mkO '('], close := some [mkC ')', mkP '?'], tag := 5 })
  else if t.isP ',' && enc == 5 && headIs (·.isClose) rest then drop_
  else none

/-- Rule 9: `vec!(..)` / `vec!{..}` → `vec![..]` (`FORCED_BRACKET_MACROS`). -/
def ruleVec : Rule := fun _ _ p2 p1 t _ =>
  if t.isOpen && p1.isP '!' && p2.isI kwVec then some { out := [mkO '['], close := some [mkC ']'] }
  else none

def isAbiC (t : Tok) : Bool := t.cls == ['L','s'] && t.text == ['"', 'C', '"']

/-- Rule 7: the optional `"C"` after `extern`. -/
def ruleAbi : Rule := fun _ _ _ p1 t _ =>
  if isAbiC t && p1.isI kwExtern then drop_ else none

/-- Rule 8: `pub(in crate|self|super)` → `pub(crate|self|super)`. -/
def ruleVis : Rule := fun _ _ p2 p1 t rest =>
  if t.isI kwIn && p1.isO '(' && p2.isI kwPub then
    (match rest with
     | x :: c :: _ => if (x.isI kwCrate || x.isI kwSelf || x.isI kwSuper) && c.isC ')' then drop_ else none
     | _ => none)
  -- `pub(in ::a::b)`: the leading `::` (dropped by the formatter)
  else if t.isP ':' && p1.isI kwIn && p2.isO '(' && headIs (·.isP ':') rest then drop_
  else if t.isP ':' && p1.isP ':' && p2.isI kwIn then drop_
  else none

/-- Rule 3: `<>`, `::<>`, `for<>`, empty `where`, empty bound list; rule 1 for bound lists: a trailing
`+` (`T: 'a +>`). -/
def ruleEmpty : Rule := fun _ _ _ p1 t rest =>
  if t.isP '<' && headIs (·.isP '>') rest then drop_
  else if t.isP '>' && p1.isP '<' then drop_
  else if t.isI kwFor then
    (match rest with
     | a :: b :: _ => if a.isP '<' && b.isP '>' then drop_ else none
     | _ => none)
  else if t.isI kwWhere && headIs (fun x => x.isO '{' || x.isP ';') rest then drop_
  else if t.isP '+' && headIs (fun x => x.isP '>' || x.isP ',' || x.isC ')' || x.isP ';' || x.isI kwWhere) rest then drop_
  else if t.isP ':' then
    (match rest with
     | a :: b :: c :: _ =>
       if a.isP ':' && b.isP '<' && c.isP '>' then drop_          -- first `:` of `::<>`
       else if p1.isP ':' && a.isP '<' && b.isP '>' then drop_    -- second `:` of `::<>`
       else if !p1.isP ':' && (a.isP ',' || a.isP '>' || (a.isP '=' && !b.isP '=')) then drop_
       else none
     | a :: b :: _ =>
       if p1.isP ':' && a.isP '<' && b.isP '>' then drop_
       else if !p1.isP ':' && (a.isP ',' || a.isP '>' || (a.isP '=' && !b.isP '=')) then drop_
       else none
     | a :: _ => if !p1.isP ':' && (a.isP ',' || a.isP '>') then drop_ else none
     | [] => none)
  else none

/-- look-ahead for rule 6: a `=>` at depth 0 before any `,` `;` or closer at depth 0.  `ang`: depth
inside turbofish lists `::<..>` (their commas do not count); `pc`: the previous token is `:`. -/
def armAhead : Nat → Nat → Bool → List Tok → Bool
  | _, _, _, [] => false
  | d, ang, pc, t :: ts =>
    if t.isOpen then armAhead (d + 1) ang false ts
    else if t.isClose then (match d with | 0 => false | d' + 1 => armAhead d' ang false ts)
    else if d == 0 && t.isP ';' then false
    else if d == 0 && ang == 0 && t.isP ',' then false
    else if d == 0 && t.isP '=' && headIs (·.isP '>') ts then true
    else if d == 0 && pc && t.isP '<' then armAhead d (ang + 1) false ts
    else if d == 0 && t.isP '>' then armAhead d (ang - 1) false ts
    else armAhead d ang (t.isP ':') ts


/-- `rest` begins inside a `(`: the matching `)` is followed by a single `=`, a single `:` or `in`
(the parenthesis is a pattern: `let (| A | B) = x`, `fn f((| A | B): E)`, `for (| A | B) in y`) -/
def patGroupAhead (rest : List Tok) : Bool :=
  match afterGroup 0 rest with
  | some (a :: b :: _) => (a.isP '=' && !b.isP '=' && !b.isP '>') || (a.isP ':' && !b.isP ':') || a.isI kwIn
  | some [a] => a.isP '=' || a.isP ':' || a.isI kwIn
  | _ => false

/-- Rule 6: a leading `|` of a match arm, of the pattern of a `let` (`if let | A | B = x`) and of a
parenthesised pattern. -/
def rulePipe : Rule := fun _ _ _ p1 t rest =>
  if t.isP '|' && (p1.isO '{' || p1.isP ',' || p1.isC '}' || p1.isC ']' || p1.isDoc) && armAhead 0 0 false rest then drop_
  else if t.isP '|' && p1.isI kwLet then drop_
  else if t.isP '|' && p1.isO '(' && patGroupAhead rest then drop_
  else none

/-- the group that starts after the current opener holds something and no `;` at its top level -/
def singleExprGroup (rest : List Tok) : Bool :=
  !headIs (·.isClose) rest && !groupHasSemi 0 rest

/-- Rules 5 and 6: `=> { e }` ↔ `=> e,`; `=> { .. }` ↔ `=> { .. },`; `|..| { e }` ↔ `|..| e`;
a block directly inside an unwrapped block is unwrapped too (`|x| {{ x }}` ↔ `|x| x`).
Rule 9 for macro definitions: `macro_rules! m { (..) => (..); }`: the body of a rule is written
with braces (and is not a match arm).
Tag 1 = "this block was unwrapped"; tag 2 = directly inside the body of a macro definition
(`! name {`). -/
def ruleBlock : Rule := fun enc _ p2 p1 t rest =>
  if t.isOpen && p2.isP '!' && p1.cls == ['i'] then some { out := [t], tag := 2 }
  else if enc == 2 then
    (if t.isOpen && p1.isP '>' && p2.isP '=' then some { out := [mkO '{'], close := some [mkC '}'] }
     else none)
  else if t.isO '{' && p1.isP '>' && p2.isP '=' then
    (if singleExprGroup rest then some { out := [], close := some [], commaAfter := true, skipComma := true, tag := 1 }
     else some { out := [t], commaAfter := true, skipComma := true })
  else if t.isO '{' && p1.isP '|' && singleExprGroup rest then some { out := [], close := some [], tag := 1 }
  else if t.isO '{' && p1.isO '{' && enc == 1 && singleExprGroup rest then
    some { out := [], close := some [], tag := 1 }
  else none


/-- `return` / `break` / `continue`: the statements after which `trailing_semicolon` adds or removes `;` -/
def isJumpKw (t : Tok) : Bool := t.isI kwReturn || t.isI kwBreak || t.isI kwContinue

/-- a token that can begin a statement after a `}` (anything but punctuation other than `#`) -/
def isWordTok (t : Tok) : Bool :=
  t.cls == ['i'] || t.cls == ['r'] || t.cls == ['l'] || t.isDoc || t.isP '#' ||
  (match t.cls with | 'L' :: _ => true | _ => false)

def kwMacroRules : List Char := ['m','a','c','r','o','_','r','u','l','e','s']
def kwLazyStatic : List Char := ['l','a','z','y','_','s','t','a','t','i','c']

def isLoopKw (t : Tok) : Bool := t.isI kwLoop || t.isI kwWhile || t.isI kwFor

/-- the per-statement flags of `semiSep`: `cur` the statement began with a jump keyword; `lp` it
began with `loop` / `while` / `for` (possibly labelled) and its body has not been seen yet -/
structure StmtSt where
  cur : Bool := false
  lp : Bool := false

/-- statement-start bookkeeping: `start` 0 inside a statement, 1 at its start (after `{` or `;`),
2 after `}` (punctuation continues the expression, a word begins a new statement), 3 after a label
at the start, 4 after the `:` of that label.  Returns the flags and the next `start` (before
brackets and `;` have their say). -/
def stmtStep (s : StmtSt) (start : Nat) (t : Tok) : StmtSt × Nat :=
  if (start == 1 || start == 2) && t.cls == ['l'] then ({}, 3)
  else if start == 3 then (if t.isP ':' then ({}, 4) else ({}, 0))
  else if start == 1 || start == 4 then ({ cur := isJumpKw t, lp := isLoopKw t }, 0)
  else if start == 2 then
    (if isWordTok t then ({ cur := isJumpKw t, lp := isLoopKw t }, 0) else (s, 0))
  else (s, 0)

/-- Rules 1 and 6 for `;`: an empty statement (`;` directly after `{`, or followed by another `;`),
the `;` that ends a `return` / `break` / `continue` statement directly before `}`
(`trailing_semicolon`), the `;` directly after the body of a `loop` / `while` / `for` STATEMENT
(`semicolon_for_stmt` drops it), and the `;` after the last rule of a `macro_rules!` definition or
the last item of a `lazy_static!` call (the two macro bodies the formatter re-punctuates).  Any other
`;` before `}` is kept: `{ f(); }` and `{ f() }` differ.
`st`: one entry per open bracket (flags of the surroundings, `md` of the surroundings, the bracket
is a loop body); `md`: directly inside the body of a `macro_rules!` definition / `lazy_static!`
call; `al`: the previous token closed a loop body; `pend`: 1 after `macro_rules`, 2 after
`macro_rules !` (and the name); `lo`: last token emitted. -/
def semiSep : List (StmtSt × Bool × Bool) → StmtSt → Bool → Bool → Nat → Nat → Tok → List Tok → List Tok
  | _, _, _, _, _, _, _, [] => []
  | st, s, md, al, start, pend, lo, t :: ts =>
    let (s, start') := stmtStep s start t
    let pend' := if t.isI kwMacroRules || t.isI kwLazyStatic then 1
      else if pend == 1 && t.isP '!' then 2
      else if pend == 2 && (t.isP '$' || t.cls == ['i'] || t.cls == ['r']) then 2
      else 0
    if t.isOpen then
      t :: semiSep ((if t.isO '{' then { s with lp := false } else s, md, t.isO '{' && s.lp) :: st) {} (pend == 2) false
        (if t.isO '{' then 1 else 0) 0 t ts
    else if t.isClose then
      (match st with
       | (s', m, body) :: st' => t :: semiSep st' s' m body (if t.isC '}' then 2 else 0) 0 t ts
       | [] => t :: semiSep [] {} false false (if t.isC '}' then 2 else 0) 0 t ts)
    else if t.isP ';' then
      (if headIs (·.isP ';') ts || lo.isO '{' || al || (s.cur && headIs (·.isC '}') ts) || (md && headIs (·.isClose) ts) then
         semiSep st {} md false 1 0 lo ts
       else t :: semiSep st {} md false 1 0 t ts)
    else t :: semiSep st s md false start' pend' t ts

def isTupleKw (t : Tok) : Bool :=
  t.isI ['l','e','t'] || t.isI kwIn || t.isI kwReturn || t.isI ['m','a','t','c','h'] || t.isI ['i','f'] ||
  t.isI kwWhile || t.isI kwFor || t.isI kwAs || t.isI ['e','l','s','e'] || t.isI kwBreak ||
  t.isI ['y','i','e','l','d'] || t.isI ['m','o','v','e']

/-- a `(` after `p1` is not an argument list (so `(x,)` after it is a 1-tuple): `p1` is an opener, the
start of input, punctuation other than `>` `?` `!`, or a keyword that is followed by an expression /
pattern / type -/
def tupleStart1 (p1 : Tok) : Bool :=
  p1.isOpen || p1.cls == [] || (p1.cls == ['p'] && !p1.isP '>' && !p1.isP '?' && !p1.isP '!') || isTupleKw p1

/-- the same, seeing `=>` and `->` as well -/
def tupleStart (p1 p2 : Tok) : Bool :=
  tupleStart1 p1 || (p1.isP '>' && (p2.isP '=' || p2.isP '-'))

/-- `ts` begins just after `(`: the group's first top-level `,` is directly before the closer, i.e.
the group is `( x , )` -/
def oneTuple : Nat → List Tok → Bool
  | _, [] => false
  | d, t :: ts =>
    if t.isOpen then oneTuple (d + 1) ts
    else if t.isClose then (match d with | 0 => false | d' + 1 => oneTuple d' ts)
    else if d == 0 && t.isP ',' then headIs (·.isClose) ts
    else oneTuple d ts

/-- `( .. , )`: the rest pattern with a trailing comma (the same pattern as `(..)`) -/
def restPat : List Tok → Bool
  | a :: b :: c :: _ => a.isP '.' && b.isP '.' && c.isP ','
  | _ => false

/-- Rule 1 for `,`: directly before a closer or before the `>` of a generic list — except the `,` of
a 1-tuple `(x,)` (tag 3: a parenthesis that is not an argument list and holds exactly that one
top-level comma), which is part of the program.
Rule 6: `,` directly after `}` (block-bodied match arm). -/
def ruleComma : Rule := fun enc _ p2 p1 t rest =>
  if t.isO '(' && tupleStart p1 p2 && oneTuple 0 rest && !restPat rest then some { out := [t], tag := 3 }
  else if t.isP ',' && enc == 3 && headIs (·.isClose) rest then none
  else if t.isP ',' && (headIs (fun x => x.isClose || x.isP '>') rest || p1.isC '}') then drop_ else none

/-- an identifier that cannot end an expression (so a `|` after it starts a closure) -/
def isPrefixKw (t : Tok) : Bool :=
  t.isI ['m','o','v','e'] || t.isI ['r','e','t','u','r','n'] || t.isI ['s','t','a','t','i','c'] ||
  t.isI ['a','s','y','n','c'] || t.isI kwIn || t.isI ['e','l','s','e']

/-- a `|` after `p1` opens a closure parameter list (it is not a binary `|`) -/
def startsClosure (p1 : Tok) : Bool :=
  p1.isOpen || p1.cls == ['p'] || p1.cls == [] || isPrefixKw p1

/-- Rule 1 in closure parameter lists: the `,` directly before the closing `|`.
`m`: 0 outside, 1 inside a parameter list (at bracket depth `d`), 2 directly after a binary `|`. -/
def closureSep : Nat → Nat → Tok → List Tok → List Tok
  | _, _, _, [] => []
  | 1, d, _, t :: ts =>
    if t.isOpen then t :: closureSep 1 (d + 1) t ts
    else if t.isClose then
      (match d with | 0 => t :: closureSep 0 0 t ts | d' + 1 => t :: closureSep 1 d' t ts)
    else if d == 0 && t.isP '|' then t :: closureSep 0 0 t ts
    else if d == 0 && t.isP ',' && headIs (·.isP '|') ts then closureSep 1 0 t ts
    else t :: closureSep 1 d t ts
  | m, _, p1, t :: ts =>
    if t.isP '|' then
      (if m == 2 then t :: closureSep 0 0 t ts
       else if startsClosure p1 then t :: closureSep 1 0 t ts
       else t :: closureSep 2 0 t ts)
    else t :: closureSep 0 0 t ts

/-- Rule 1 in where clauses: the `,` after the last predicate (before `{`, `;` or `=`).
`w`: inside a where clause, at bracket depth `d` relative to it and (at `d = 0`) inside `a` angle
brackets (`Vector<T, { SIZE }>: Tr` — a `{` inside a generic argument list does not end the
clause); `pm`: the previous token is `-` (the `>` of `->` closes nothing). -/
def whereSep : Bool → Nat → Nat → Bool → List Tok → List Tok
  | _, _, _, _, [] => []
  | w, d, a, pm, t :: ts =>
    if t.isI kwWhere then t :: whereSep true 0 0 false ts
    else if w then
      if t.isOpen then
        (if d == 0 && a == 0 && t.isO '{' then t :: whereSep false 0 0 false ts
         else t :: whereSep true (d + 1) a false ts)
      else if t.isClose then
        (match d with | 0 => t :: whereSep false 0 0 false ts | d' + 1 => t :: whereSep true d' a false ts)
      else if d == 0 && t.isP ';' then t :: whereSep false 0 0 false ts
      else if d == 0 && t.isP '<' then t :: whereSep true 0 (a + 1) false ts
      else if d == 0 && t.isP '>' && !pm then t :: whereSep true 0 (a - 1) false ts
      else if d == 0 && a == 0 && t.isP ',' && headIs (fun x => x.isO '{' || x.isP ';' || x.isP '=') ts then
        whereSep true 0 0 false ts
      else t :: whereSep true d a (t.isP '-') ts
    else t :: whereSep false 0 0 false ts

def isWild (t : Tok) : Bool := t.isI ['_']

/-- `ts` = (`,` `_`)* (`,` `.` `.`)? `,`? `)`: the number of tokens before the `,`? `)` -/
def wildTailLen : List Tok → Option Nat
  | [] => none
  | [c] => if c.isC ')' then some 0 else none
  | c :: u :: r =>
    if c.isC ')' then some 0
    else if c.isP ',' && u.isC ')' then some 0
    else if c.isP ',' && isWild u then (wildTailLen r).map (· + 2)
    else if c.isP ',' && u.isP '.' then
      (match r with
       | v :: e :: r' =>
         if v.isP '.' && e.isC ')' then some 3
         else if v.isP '.' && e.isP ',' && headIs (·.isC ')') r' then some 3
         else none
       | _ => none)
    else none

/-- `condense_wildcard_suffixes`: `(a, _, _)` → `(a, ..)`: a `_` after `(` or `,` that starts a
suffix of two or more wildcards (a final `..` counts) becomes `..`.  `skip`: tokens to drop. -/
def wildAux : Nat → Tok → List Tok → List Tok
  | _, _, [] => []
  | n + 1, _, t :: ts => wildAux n t ts
  | 0, p1, t :: ts =>
    if isWild t && (p1.isP ',' || p1.isO '(') then
      match wildTailLen ts with
      | some (n + 1) => mkP '.' :: mkP '.' :: wildAux (n + 1) t ts
      | _ => t :: wildAux 0 t ts
    else t :: wildAux 0 t ts

def wildCondense (ts : List Tok) : List Tok := wildAux 0 noTok ts

/-- Parentheses the formatter inserts where the parse requires them: `|| .. .method()` is printed
`(|| ..).method()`.  `( |..| e ) .` → `|..| e .` when the `(` cannot be a call. -/
def ruleClosureParen : Rule := fun _ _ _ p1 t rest =>
  if t.isO '(' && headIs (·.isP '|') rest && startsClosure p1 then
    (match afterGroup 0 rest with
     | some (d :: _) => if d.isP '.' then some { out := [], close := some [] } else none
     | _ => none)
  else none

def isNumLit (t : Tok) : Bool := t.cls == ['L','f'] || t.cls == ['L','i']

/-- Parentheses the formatter inserts where the parse requires them: `10..method()` (a float
literal ending in `.`) is printed `(10.).method()`, and with `float_literal_trailing_zero`
`1.0.neg()` becomes `(1).neg()`.  `( literal ) .` → `literal .` when the `(` cannot be a call. -/
def ruleLitParen : Rule := fun _ _ _ p1 t rest =>
  if t.isO '(' && startsClosure p1 then
    (match rest with
     | l :: c :: d :: _ => if isNumLit l && c.isC ')' && (d.isP '.' || d.isP '?') then some { out := [], close := some [] } else none
     | _ => none)
  else none

/-- `ts` begins just after an opener: is there a `,` at depth 0 before the matching closer? -/
def groupHasComma : Nat → List Tok → Bool
  | _, [] => false
  | d, t :: ts =>
    if t.isOpen then groupHasComma (d + 1) ts
    else if t.isClose then (match d with | 0 => false | d' + 1 => groupHasComma d' ts)
    else if d == 0 && t.isP ',' then true
    else groupHasComma d ts

/-- `rest` begins just after a `(`: that group holds exactly one parenthesis pair and nothing else -/
def solePair (rest : List Tok) : Bool :=
  match rest with
  | o :: r => o.isO '(' && (match afterGroup 0 r with | some (c :: _) => c.isC ')' | _ => false)
  | [] => false

/-- Rule 2: of a chain of directly nested parenthesis pairs `(((X)))` one pair is kept — except
that the argument list of a call is never one of them: `f((a))` → `f(a)`, but `f((a, b))` and `f(())`
keep the inner pair (a tuple / unit argument).  Tags: 1 the pair is an argument list (`p1` can end an
expression); 2 the pair is a kept plain parenthesis; 3 the pair was dropped, the chain hangs off an
argument list and no pair of it has been kept yet. -/
def ruleParen : Rule := fun enc _ _ p1 t rest =>
  if t.isO '(' then
    (if p1.isO '(' && (match afterGroup 0 rest with | some (c :: _) => c.isC ')' | _ => false) then
      -- this pair is all its parent holds
      (if enc == 2 then some { out := [], close := some [], tag := 2 }
       else if solePair rest then some { out := [], close := some [], tag := 3 }
       else if headIs (·.isClose) rest || groupHasComma 0 rest then some { out := [t], tag := 2 }
       else some { out := [], close := some [] })
     else some { out := [t], tag := if tupleStart1 p1 then 2 else 1 })
  else none

/-- Rule 13: `a: a` → `a` (an ident, `:`, the same ident, then `,` or `}`). -/
def ruleFis : Rule := fun _ _ p2 p1 t rest =>
  if t.isP ':' && (p1.cls == ['i'] || p1.cls == ['r']) then
    (match rest with
     | a :: s :: _ => if a == p1 && (s.isP ',' || s.isC '}') then drop_ else none
     | _ => none)
  else if (t.cls == ['i'] || t.cls == ['r']) && p1.isP ':' && p2 == t && headIs (fun s => s.isP ',' || s.isC '}') rest then drop_
  else none

def onlyIf (b : Bool) (f : List Tok → List Tok) (ts : List Tok) : List Tok := if b then f ts else ts

/-- First half of the normal form: `mid`, the per-token spelling (literals and doc comments are
re-spelled), then `pre`, where every reorder region becomes its block of leaves. -/
def mid (cfg : Cfg) (ts : List Tok) : List Tok :=
  let ts := resplit ts
  let ts := onlyIf cfg.docattr docAttr ts
  let ts := ts.map (canonTok cfg)
  onlyIf cfg.reflow (docMerge cfg.doccode) ts

def pre (cfg : Cfg) (ts : List Tok) : List Tok := regions cfg (mid cfg ts)

/-- Second half: the separator / delimiter rules (they only touch soft tokens, except the two
opt-in rewrites `a: a` → `a` and `_, _` → `..`). -/
def post (cfg : Cfg) (ts : List Tok) : List Tok :=
  let ts := onlyIf cfg.fis (runRule ruleFis) ts
  let ts := onlyIf cfg.useTry (runRule ruleTry) ts
  let ts := onlyIf cfg.wild wildCondense ts
  let ts := runRule ruleVec ts
  let ts := runRule ruleAbi ts
  let ts := runRule ruleVis ts
  let ts := whereSep false 0 0 false ts
  let ts := runRule ruleEmpty ts
  let ts := runRule rulePipe ts
  let ts := closureSep 0 0 noTok ts
  let ts := semiSep [] {} false false 1 0 noTok ts
  let ts := runRule ruleBlock ts
  let ts := runRule ruleComma ts
  let ts := onlyIf cfg.parens (runRule ruleParen) ts
  let ts := runRule ruleLitParen ts
  runRule ruleClosureParen ts

/-- The normal form. -/
def norm (cfg : Cfg) (ts : List Tok) : List Tok := post cfg (pre cfg ts)

/-- The validator: equal normal forms. -/
def equiv (cfg : Cfg) (a b : List Tok) : Bool := norm cfg a == norm cfg b

def firstDiffAux : Nat → List Tok → List Tok → Option (Nat × Option Tok × Option Tok)
  | _, [], [] => none
  | n, [], y :: _ => some (n, none, some y)
  | n, x :: _, [] => some (n, some x, none)
  | n, x :: xs, y :: ys => if x == y then firstDiffAux (n + 1) xs ys else some (n, some x, some y)

/-- Index and tokens of the first difference of the two normal forms (`none` for the end of a
list). -/
def firstDiff (cfg : Cfg) (a b : List Tok) : Option (Nat × Option Tok × Option Tok) :=
  firstDiffAux 0 (norm cfg a) (norm cfg b)

/-! ## Hard and soft tokens

The *soft* tokens are the only ones a rule of the pipeline after `regions` may delete or insert:
all delimiters; the separators `,` `;`; `|` (leading pipe); `<` `>` `:` (empty generic / bound
lists, `::<>`); `+` (trailing in a bound list); the keywords `where`, `for`, `in`; the literal `"C"`; and, only with
`use_try_shorthand`, `try` `!` `?`.  Everything else is *hard*. -/
def soft (cfg : Cfg) (t : Tok) : Bool :=
  t.isOpen || t.isClose ||
  t.isP ',' || t.isP ';' || t.isP '|' || t.isP '<' || t.isP '>' || t.isP ':' || t.isP '+' ||
  t.isI kwWhere || t.isI kwFor || t.isI kwIn || isAbiC t ||
  (cfg.useTry && (isTryName t || t.isP '!' || t.isP '?'))

def hard (cfg : Cfg) (t : Tok) : Bool := !soft cfg t

def hards (cfg : Cfg) (ts : List Tok) : List Tok := ts.filter (hard cfg)

end RF.Tok
