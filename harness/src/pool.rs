//! Pool of worker processes that run the real formatter in-process (`Session::format` under
//! `catch_unwind`) with a wall-clock limit per case.  A case over its limit is killed and recorded
//! as `Timeout` (never a violation); the worker is restarted.  Workers talk over a Unix socket so
//! that whatever rustfmt prints on stdout/stderr cannot corrupt the protocol.
use std::collections::VecDeque;
use std::io::{BufRead, BufReader, Write};
use std::os::unix::net::{UnixListener, UnixStream};
use std::path::PathBuf;
use std::process::{Child, Command, Stdio};
use std::sync::{Arc, Mutex};
use std::time::Duration;

use rustfmt_nightly::verif_hooks::report as hr;
use rustfmt_nightly::{Config, EmitMode, Input, Session, Verbosity};

use crate::util::*;

#[derive(Clone, Debug)]
pub struct Job {
    pub src: String,
    /// `key=value` overrides applied with `Config::override_value` on `Config::default()`
    pub cfg: Vec<(String, String)>,
    /// skipped: file_lines JSON (optional)
    pub file_lines: Option<String>,
}

#[derive(Clone, Debug, PartialEq, Eq)]
pub enum Status {
    /// `Session::format` returned Ok(report)
    Ok,
    /// `Session::format` returned Err(kind)
    Err(String),
    /// a panic escaped `Session::format`: "file:line:col: message"
    Panic(String),
    Timeout,
    /// the worker process died (abort, stack overflow, signal): exit status text
    Died(String),
    /// configuration rejected (invalid key or value)
    BadConfig(String),
    /// the harness itself could not run the case (worker could not be started, protocol error):
    /// inconclusive, never a verdict about rustfmt
    Infra(String),
}

#[derive(Clone, Debug)]
pub struct Entry {
    pub line: usize,
    pub kind: String,
    pub found: usize,
    pub max: usize,
    pub is_comment: bool,
    pub is_string: bool,
}

#[derive(Clone, Debug)]
pub struct FmtOut {
    pub status: Status,
    pub out: String,
    /// operational, parsing, formatting, macro_format_failure, check, diff, unformatted_code
    pub flags: [bool; 7],
    pub entries: Vec<Entry>,
    pub ranges: Vec<(usize, usize)>,
    pub millis: u64,
}

impl FmtOut {
    fn empty(status: Status) -> FmtOut {
        FmtOut { status, out: String::new(), flags: [false; 7], entries: vec![], ranges: vec![], millis: 0 }
    }
    /// formatted without any reported problem
    pub fn clean(&self) -> bool {
        self.status == Status::Ok && !self.flags.iter().any(|b| *b)
    }
    pub fn exit_code_like_cli(&self) -> i32 {
        // bin/main.rs: exit 1 when has_operational_errors || has_parsing_errors || (check && diff) …
        if self.status != Status::Ok || self.flags[0] || self.flags[1] { 1 } else { 0 }
    }
}

pub fn build_config(cfg: &[(String, String)], file_lines: &Option<String>) -> Result<Config, String> {
    let mut config = Config::default();
    // style_edition / version first so that later explicit options win as on the CLI
    for (k, v) in cfg {
        if !Config::is_valid_key_val(k, v) {
            return Err(format!("{}={}", k, v));
        }
    }
    for (k, v) in cfg {
        config.override_value(k, v);
    }
    if let Some(fl) = file_lines {
        match fl.parse::<rustfmt_nightly::FileLines>() {
            Ok(f) => config.set().file_lines(f),
            Err(e) => return Err(format!("file_lines: {}", e)),
        }
    }
    config.set().emit_mode(EmitMode::Stdout);
    config.set().verbose(Verbosity::Quiet);
    Ok(config)
}

thread_local! {
    static LAST_PANIC: std::cell::RefCell<Option<String>> = std::cell::RefCell::new(None);
}

pub fn install_panic_hook() {
    std::panic::set_hook(Box::new(|info| {
        let loc = info.location().map(|l| format!("{}:{}:{}", l.file(), l.line(), l.column())).unwrap_or_default();
        let msg = if let Some(s) = info.payload().downcast_ref::<&str>() {
            s.to_string()
        } else if let Some(s) = info.payload().downcast_ref::<String>() {
            s.clone()
        } else {
            "?".to_string()
        };
        LAST_PANIC.with(|p| *p.borrow_mut() = Some(format!("{}: {}", loc, msg)));
    }));
}

/// Runs the formatter in this process.
pub fn format_here(job: &Job) -> FmtOut {
    let t0 = std::time::Instant::now();
    let config = match build_config(&job.cfg, &job.file_lines) {
        Ok(c) => c,
        Err(e) => return FmtOut::empty(Status::BadConfig(e)),
    };
    LAST_PANIC.with(|p| *p.borrow_mut() = None);
    let src = job.src.clone();
    let res = std::panic::catch_unwind(std::panic::AssertUnwindSafe(move || {
        let mut out: Vec<u8> = Vec::new();
        let (r, flags) = {
            let mut session = Session::new(config, Some(&mut out));
            let r = session.format(Input::Text(src));
            let flags = hr::session_flags(&session);
            (r, flags)
        };
        (out, r, flags)
    }));
    let mut fo = match res {
        Ok((out, Ok(report), flags)) => {
            let entries = hr::entries(&report)
                .into_iter()
                .map(|e| Entry {
                    line: e.line,
                    kind: e.kind.to_string(),
                    found: e.overflow.map(|x| x.0).unwrap_or(0),
                    max: e.overflow.map(|x| x.1).unwrap_or(0),
                    is_comment: e.is_comment,
                    is_string: e.is_string,
                })
                .collect();
            FmtOut {
                status: Status::Ok,
                out: String::from_utf8_lossy(&out).into_owned(),
                flags,
                entries,
                ranges: hr::non_formatted_ranges(&report),
                millis: 0,
            }
        }
        Ok((out, Err(e), flags)) => {
            let mut f = FmtOut::empty(Status::Err(format!("{}", e)));
            f.out = String::from_utf8_lossy(&out).into_owned();
            f.flags = flags;
            f
        }
        Err(_) => {
            let msg = LAST_PANIC.with(|p| p.borrow().clone()).unwrap_or_else(|| "?".into());
            FmtOut::empty(Status::Panic(msg))
        }
    };
    fo.millis = t0.elapsed().as_millis() as u64;
    fo
}

fn enc_job(job: &Job) -> String {
    let cfg: Vec<String> = job.cfg.iter().map(|(k, v)| format!("{}={}", k, v)).collect();
    format!("fmt {} {} {}", enc_str(&job.src), enc_list(&cfg), job.file_lines.as_ref().map(|s| enc_str(s)).unwrap_or_else(|| "_".into()))
}

fn dec_job(line: &str) -> Option<Job> {
    let p: Vec<&str> = line.split_whitespace().collect();
    if p.len() != 4 || p[0] != "fmt" {
        return None;
    }
    let src = dec_str(p[1])?;
    let cfg = dec_list(p[2])?
        .into_iter()
        .filter_map(|kv| kv.split_once('=').map(|(k, v)| (k.to_string(), v.to_string())))
        .collect();
    let file_lines = if p[3] == "_" { None } else { Some(dec_str(p[3])?) };
    Some(Job { src, cfg, file_lines })
}

fn enc_out(o: &FmtOut) -> String {
    let st = match &o.status {
        Status::Ok => "ok -".to_string(),
        Status::Err(e) => format!("err {}", enc_str(e)),
        Status::Panic(e) => format!("panic {}", enc_str(e)),
        Status::Timeout => "timeout -".to_string(),
        Status::Died(e) => format!("died {}", enc_str(e)),
        Status::BadConfig(e) => format!("badconfig {}", enc_str(e)),
        Status::Infra(e) => format!("infra {}", enc_str(e)),
    };
    let flags: String = o.flags.iter().map(|b| if *b { '1' } else { '0' }).collect();
    let entries = if o.entries.is_empty() {
        "_".to_string()
    } else {
        o.entries.iter().map(|e| format!("{}:{}:{}:{}:{}:{}", e.line, e.kind, e.found, e.max, e.is_comment as u8, e.is_string as u8)).collect::<Vec<_>>().join(";")
    };
    let ranges = if o.ranges.is_empty() { "_".to_string() } else { o.ranges.iter().map(|(a, b)| format!("{}-{}", a, b)).collect::<Vec<_>>().join(",") };
    format!("{} {} {} {} {} {}", st, enc_str(&o.out), flags, entries, ranges, o.millis)
}

fn dec_out(line: &str) -> Option<FmtOut> {
    let p: Vec<&str> = line.split_whitespace().collect();
    if p.len() != 7 {
        return None;
    }
    let msg = dec_str(p[1])?;
    let status = match p[0] {
        "ok" => Status::Ok,
        "err" => Status::Err(msg),
        "panic" => Status::Panic(msg),
        "timeout" => Status::Timeout,
        "died" => Status::Died(msg),
        "badconfig" => Status::BadConfig(msg),
        "infra" => Status::Infra(msg),
        _ => return None,
    };
    let out = dec_str(p[2])?;
    let mut flags = [false; 7];
    for (i, c) in p[3].chars().enumerate().take(7) {
        flags[i] = c == '1';
    }
    let entries = if p[4] == "_" {
        vec![]
    } else {
        p[4].split(';')
            .filter_map(|e| {
                let f: Vec<&str> = e.split(':').collect();
                if f.len() != 6 {
                    return None;
                }
                Some(Entry { line: f[0].parse().ok()?, kind: f[1].to_string(), found: f[2].parse().ok()?, max: f[3].parse().ok()?, is_comment: f[4] == "1", is_string: f[5] == "1" })
            })
            .collect()
    };
    let ranges = if p[5] == "_" {
        vec![]
    } else {
        p[5].split(',').filter_map(|r| r.split_once('-').and_then(|(a, b)| Some((a.parse().ok()?, b.parse().ok()?)))).collect()
    };
    Some(FmtOut { status, out, flags, entries, ranges, millis: p[6].parse().unwrap_or(0) })
}

/// `rfverif --worker <socket>`
pub fn worker_main(sock: &str) -> i32 {
    install_panic_hook();
    let stream = match UnixStream::connect(sock) {
        Ok(s) => s,
        Err(_) => return 9,
    };
    let mut w = stream.try_clone().unwrap();
    let r = BufReader::new(stream);
    for line in r.lines() {
        let line = match line {
            Ok(l) => l,
            Err(_) => break,
        };
        let resp = match dec_job(&line) {
            Some(job) => {
                // run on a thread with a large stack so that ordinary nesting cannot overflow it
                // by accident of the harness (rustfmt's own binary runs on the main thread: 8 MiB)
                let h = std::thread::Builder::new().stack_size(8 << 20).spawn(move || {
                    install_panic_hook();
                    format_here(&job)
                });
                match h.map(|h| h.join()) {
                    Ok(Ok(o)) => enc_out(&o),
                    _ => enc_out(&FmtOut::empty(Status::Panic("worker thread failed".into()))),
                }
            }
            None => "bad".to_string(),
        };
        if writeln!(w, "{}", resp).is_err() {
            break;
        }
    }
    0
}

struct Worker {
    child: Child,
    w: UnixStream,
    r: BufReader<UnixStream>,
    path: PathBuf,
}

fn spawn_worker(tag: usize) -> Worker {
    let dir = PathBuf::from("/verif/work/socks");
    std::fs::create_dir_all(&dir).ok();
    let path = dir.join(format!("w-{}-{}-{}", std::process::id(), tag, std::time::SystemTime::now().duration_since(std::time::UNIX_EPOCH).unwrap().as_nanos()));
    let _ = std::fs::remove_file(&path);
    let listener = UnixListener::bind(&path).expect("bind worker socket");
    let exe = std::env::current_exe().unwrap();
    let child = Command::new(exe)
        .arg("--worker")
        .arg(&path)
        .stdin(Stdio::null())
        .stdout(Stdio::null())
        .stderr(Stdio::null())
        .spawn()
        .expect("spawn worker");
    let (stream, _) = listener.accept().expect("worker did not connect");
    let w = stream.try_clone().unwrap();
    Worker { child, w, r: BufReader::new(stream), path }
}

impl Drop for Worker {
    fn drop(&mut self) {
        let _ = self.child.kill();
        let _ = self.child.wait();
        let _ = std::fs::remove_file(&self.path);
    }
}

/// Formats every job; results in job order.
pub fn run_jobs(jobs: &[Job], workers: usize, timeout: Duration) -> Vec<FmtOut> {
    let n = jobs.len();
    let queue: Arc<Mutex<VecDeque<usize>>> = Arc::new(Mutex::new((0..n).collect()));
    let results: Arc<Mutex<Vec<Option<FmtOut>>>> = Arc::new(Mutex::new(vec![None; n]));
    let jobs: Arc<Vec<Job>> = Arc::new(jobs.to_vec());
    let mut handles = vec![];
    for t in 0..workers.max(1).min(n.max(1)) {
        let queue = queue.clone();
        let results = results.clone();
        let jobs = jobs.clone();
        handles.push(std::thread::spawn(move || {
            let mut wk = spawn_worker(t);
            loop {
                let i = match queue.lock().unwrap().pop_front() {
                    Some(i) => i,
                    None => break,
                };
                let line = enc_job(&jobs[i]);
                let mut res: Option<FmtOut> = None;
                if writeln!(wk.w, "{}", line).is_ok() {
                    wk.r.get_ref().set_read_timeout(Some(timeout)).ok();
                    let mut buf = String::new();
                    match wk.r.read_line(&mut buf) {
                        Ok(k) if k > 0 => res = dec_out(buf.trim_end()),
                        Ok(_) => {
                            // EOF: the worker died
                            let st = wk.child.wait().map(|s| format!("{}", s)).unwrap_or_default();
                            res = Some(FmtOut::empty(Status::Died(st)));
                            wk = spawn_worker(t);
                        }
                        Err(_) => {
                            // timeout (or broken socket): kill and restart
                            let died = matches!(wk.child.try_wait(), Ok(Some(_)));
                            let st = if died { wk.child.wait().map(|s| format!("{}", s)).unwrap_or_default() } else { String::new() };
                            res = Some(FmtOut::empty(if died { Status::Died(st) } else { Status::Timeout }));
                            wk = spawn_worker(t);
                        }
                    }
                } else {
                    let st = wk.child.wait().map(|s| format!("{}", s)).unwrap_or_default();
                    res = Some(FmtOut::empty(Status::Died(st)));
                    wk = spawn_worker(t);
                }
                results.lock().unwrap()[i] = Some(res.unwrap_or_else(|| FmtOut::empty(Status::Infra("protocol".into()))));
            }
        }));
    }
    for h in handles {
        let _ = h.join();
    }
    let r = std::mem::take(&mut *results.lock().unwrap());
    r.into_iter().map(|o| o.unwrap_or_else(|| FmtOut::empty(Status::Infra("lost".into())))).collect()
}
