/-
Model of `src/rustfmt_diff.rs` (`make_diff`, `ModifiedLines`: From<Vec<Mismatch>>, Display,
FromStr), of the line numbering done by `src/emitter/json.rs::add_misformatted_file` and
`src/emitter/checkstyle.rs::output_checkstyle_file`, and of `src/emitter/checkstyle/xml.rs`.

The input of `make_diff` is the edit script returned by the external `diff` crate
(`diff::lines`), modelled as a `List (Edit α)`; lines are an arbitrary type `α`.
The `for` loop of `make_diff` is the structural recursion `go`; `results.push(m)` is
"emit `m`".  Line numbers are `u32` in the code and `Nat` here; the subtraction
`line_number - context_queue.len()` is truncated here and proved never to truncate.
Import-free.
-/
namespace RF.Diff

/-- `diff::Result` -/
inductive Edit (α : Type) where
  | left  (s : α)   -- only in the original ("expected" argument of make_diff)
  | right (s : α)   -- only in the formatted text ("actual")
  | both  (s : α)
  deriving Repr, DecidableEq

/-- `DiffLine` -/
inductive DiffLine (α : Type) where
  | context   (s : α)
  | expected  (s : α)   -- a line of the formatted text
  | resulting (s : α)   -- a line of the original text
  deriving Repr, DecidableEq

/-- `Mismatch` -/
structure Mismatch (α : Type) where
  lineNumber     : Nat      -- in the formatted text
  lineNumberOrig : Nat      -- in the original text
  lines          : List (DiffLine α)
  deriving Repr, DecidableEq

def lefts {α} : List (Edit α) → List α
  | [] => []
  | .left s :: ds => s :: lefts ds
  | .right _ :: ds => lefts ds
  | .both s :: ds => s :: lefts ds

def rights {α} : List (Edit α) → List α
  | [] => []
  | .left _ :: ds => rights ds
  | .right s :: ds => s :: rights ds
  | .both s :: ds => s :: rights ds

/-- The loop of `make_diff`.  State: `ln` = line_number, `lno` = line_number_orig,
`q` = context_queue (front first), `since` = lines_since_mismatch, `cur` = mismatch.
The result is every value pushed on `results`, in order, followed by the final `mismatch`. -/
def go {α} (ctx : Nat) : Nat → Nat → List α → Nat → Mismatch α → List (Edit α) → List (Mismatch α)
  | _, _, _, _, cur, [] => [cur]
  | ln, lno, q, since, cur, .left s :: ds =>
    if since ≥ ctx ∧ since > 0 then
      cur :: go ctx ln (lno + 1) [] 0
        ⟨ln - q.length, lno - q.length, q.map .context ++ [.resulting s]⟩ ds
    else
      go ctx ln (lno + 1) [] 0
        { cur with lines := cur.lines ++ q.map .context ++ [.resulting s] } ds
  | ln, lno, q, since, cur, .right s :: ds =>
    if since ≥ ctx ∧ since > 0 then
      cur :: go ctx (ln + 1) lno [] 0
        ⟨ln - q.length, lno - q.length, q.map .context ++ [.expected s]⟩ ds
    else
      go ctx (ln + 1) lno [] 0
        { cur with lines := cur.lines ++ q.map .context ++ [.expected s] } ds
  | ln, lno, q, since, cur, .both s :: ds =>
    let q1 := if q.length ≥ ctx then q.tail else q
    if since < ctx then
      go ctx (ln + 1) (lno + 1) q1 (since + 1)
        { cur with lines := cur.lines ++ [.context s] } ds
    else if ctx > 0 then
      go ctx (ln + 1) (lno + 1) (q1 ++ [s]) (since + 1) cur ds
    else
      go ctx (ln + 1) (lno + 1) q1 (since + 1) cur ds

/-- `make_diff` given the edit script: `results.push(mismatch); results.remove(0)`. -/
def makeDiff {α} (ds : List (Edit α)) (ctx : Nat) : List (Mismatch α) :=
  (go ctx 1 1 [] (ctx + 1) ⟨0, 0, []⟩ ds).tail

/-- `ModifiedChunk` -/
structure Chunk (α : Type) where
  lineNumberOrig : Nat
  linesRemoved   : Nat
  lines          : List α
  deriving Repr, DecidableEq

def numRemoved {α} : List (DiffLine α) → Nat
  | [] => 0
  | .resulting _ :: ls => numRemoved ls + 1
  | _ :: ls => numRemoved ls

def newLines {α} : List (DiffLine α) → List α
  | [] => []
  | .expected s :: ls => s :: newLines ls
  | _ :: ls => newLines ls

def oldLines {α} : List (DiffLine α) → List α
  | [] => []
  | .resulting s :: ls => s :: oldLines ls
  | _ :: ls => oldLines ls

/-- lines of the original text mentioned by a hunk (context and removed), in order -/
def origSide {α} : List (DiffLine α) → List α
  | [] => []
  | .context s :: ls => s :: origSide ls
  | .resulting s :: ls => s :: origSide ls
  | .expected _ :: ls => origSide ls

/-- lines of the formatted text mentioned by a hunk (context and added), in order -/
def newSide {α} : List (DiffLine α) → List α
  | [] => []
  | .context s :: ls => s :: newSide ls
  | .expected s :: ls => s :: newSide ls
  | .resulting _ :: ls => newSide ls

/-- `impl From<Vec<Mismatch>> for ModifiedLines` -/
def toChunk {α} (m : Mismatch α) : Chunk α :=
  ⟨m.lineNumberOrig, numRemoved m.lines, newLines m.lines⟩

def ofMismatches {α} (ms : List (Mismatch α)) : List (Chunk α) := ms.map toChunk

/-- What a consumer of the modified-lines report does: `orig` holds the original lines from
line `pos` (1-based) on; copy up to the chunk's line, emit the new lines, skip the removed. -/
def applyFrom {α} : Nat → List (Chunk α) → List α → List α
  | _, [], rest => rest
  | pos, c :: cs, rest =>
    let k := c.lineNumberOrig - pos
    rest.take k ++ c.lines ++
      applyFrom (c.lineNumberOrig + c.linesRemoved) cs (rest.drop (k + c.linesRemoved))

def apply {α} (cs : List (Chunk α)) (orig : List α) : List α := applyFrom 1 cs orig

/-- Has the script any non-`both` entry? -/
def hasChange {α} : List (Edit α) → Bool
  | [] => false
  | .both _ :: ds => hasChange ds
  | _ :: _ => true

/-! ### json: `add_misformatted_file` -/

structure JsonBlock (α : Type) where
  originalBeginLine : Nat
  originalEndLine   : Nat
  expectedBeginLine : Nat
  expectedEndLine   : Nat
  original : List α      -- each followed by '\n' in the code
  expected : List α
  deriving Repr, DecidableEq

/-- the inner `for line in mismatch.lines` of `add_misformatted_file`:
state (orig_end, exp_end, orig_counter, exp_counter, original, expected) -/
def jsonLoop {α} (ob eb : Nat) :
    Nat → Nat → Nat → Nat → List α → List α → List (DiffLine α) → (Nat × Nat × List α × List α)
  | oe, ee, _, _, o, e, [] => (oe, ee, o, e)
  | oe, _, oc, ec, o, e, .expected s :: ls => jsonLoop ob eb oe (eb + ec) oc (ec + 1) o (e ++ [s]) ls
  | _, ee, oc, ec, o, e, .resulting s :: ls => jsonLoop ob eb (ob + oc) ee (oc + 1) ec (o ++ [s]) e ls
  | oe, ee, oc, ec, o, e, .context _ :: ls => jsonLoop ob eb oe ee oc ec o e ls

def jsonBlock {α} (m : Mismatch α) : JsonBlock α :=
  let (oe, ee, o, e) :=
    jsonLoop m.lineNumberOrig m.lineNumber m.lineNumberOrig m.lineNumber 0 0 [] [] m.lines
  ⟨m.lineNumberOrig, oe, m.lineNumber, ee, o, e⟩

/-! ### checkstyle: `output_checkstyle_file` -/

/-- (line, message) of every `<error …>` element of one mismatch -/
def checkstyleLoop {α} (begin : Nat) : Nat → List (DiffLine α) → List (Nat × α)
  | _, [] => []
  | c, .expected s :: ls => (begin + c, s) :: checkstyleLoop begin (c + 1) ls
  | c, _ :: ls => checkstyleLoop begin c ls

def checkstyleErrors {α} (ms : List (Mismatch α)) : List (Nat × α) :=
  ms.flatMap (fun m => checkstyleLoop m.lineNumber 0 m.lines)

/-! ### `XmlEscaped` -/

def xmlEscapeChar (c : Char) : List Char :=
  if c = '<' then "&lt;".toList
  else if c = '>' then "&gt;".toList
  else if c = '"' then "&quot;".toList
  else if c = '\'' then "&apos;".toList
  else if c = '&' then "&amp;".toList
  else [c]

def xmlEscape (s : List Char) : List Char := s.flatMap xmlEscapeChar

/-- the inverse a conforming XML reader applies to attribute text (only the five named
entities that `XmlEscaped` can produce; anything else is rejected) -/
def xmlUnescape : List Char → Option (List Char)
  | [] => some []
  | '&' :: 'l' :: 't' :: ';' :: r => (xmlUnescape r).map ('<' :: ·)
  | '&' :: 'g' :: 't' :: ';' :: r => (xmlUnescape r).map ('>' :: ·)
  | '&' :: 'q' :: 'u' :: 'o' :: 't' :: ';' :: r => (xmlUnescape r).map ('"' :: ·)
  | '&' :: 'a' :: 'p' :: 'o' :: 's' :: ';' :: r => (xmlUnescape r).map ('\'' :: ·)
  | '&' :: 'a' :: 'm' :: 'p' :: ';' :: r => (xmlUnescape r).map ('&' :: ·)
  | '&' :: _ => none
  | '<' :: _ => none
  | c :: r => (xmlUnescape r).map (c :: ·)

/-! ### `Display` / `FromStr` of `ModifiedLines`, on lines

`Display` writes, per chunk, the header `"{orig} {removed} {added}"` and then the lines; `FromStr`
reads with `str::lines`.  The model works on the list of lines of the printed text, with the header
fields kept symbolic (`Sum.inl (a, b, c)` a header line, `Sum.inr s` a text line); the driver does
the decimal rendering/parsing (`Nat.repr` / `String.toNat?`, which the correspondence ties to Rust's
`u32` formatting).  Text lines must not contain `'\n'` — they come from `diff::lines`. -/

def printChunks {α} : List (Chunk α) → List (Sum (Nat × Nat × Nat) α)
  | [] => []
  | c :: cs => Sum.inl (c.lineNumberOrig, c.linesRemoved, c.lines.length) ::
      (c.lines.map Sum.inr ++ printChunks cs)

/-- `lines.by_ref().take(n)` then the length test.  A line that is read as text may itself look
like a header (`Sum.inl`): `asText` gives its text, supplied by the caller. -/
def takeLines {α β} (asText : β → α) : Nat → List β → Option (List α × List β)
  | 0, rest => some ([], rest)
  | _ + 1, [] => none
  | n + 1, l :: rest =>
    match takeLines asText n rest with
    | some (ls, rest') => some (asText l :: ls, rest')
    | none => none

theorem takeLines_length_le {α β} (asText : β → α) :
    ∀ (n : Nat) (l : List β) ls rest, takeLines asText n l = some (ls, rest) →
      rest.length ≤ l.length
  | 0, l, ls, rest, h => by simp [takeLines] at h; obtain ⟨_, rfl⟩ := h; omega
  | n + 1, [], ls, rest, h => by simp [takeLines] at h
  | n + 1, x :: l, ls, rest, h => by
    simp only [takeLines] at h
    split at h
    · next ls' rest' heq =>
      have := takeLines_length_le asText n l ls' rest' heq
      simp at h; obtain ⟨_, rfl⟩ := h; simp; omega
    · simp at h

/-- `FromStr`: `header l` is the parse of a line as a header (`none` = `Err(())`). -/
def parseChunks {α β} (header : β → Option (Nat × Nat × Nat)) (asText : β → α) :
    List β → Option (List (Chunk α))
  | [] => some []
  | l :: rest =>
    match header l with
    | none => none
    | some (o, r, n) =>
      match h : takeLines asText n rest with
      | none => none
      | some (ls, rest') =>
        have : rest'.length < (l :: rest).length := by
          have := takeLines_length_le asText n rest ls rest' h; simp; omega
        match parseChunks header asText rest' with
        | none => none
        | some cs => some (⟨o, r, ls⟩ :: cs)
termination_by l => l.length

end RF.Diff

namespace RF.Diff

/-- decidable form of "hunk `m` matches both texts at its stated line numbers" -/
def consistentB {α} [DecidableEq α] (m : Mismatch α) (orig new : List α) : Bool :=
  decide (1 ≤ m.lineNumberOrig) && decide (1 ≤ m.lineNumber) &&
  decide (m.lineNumberOrig - 1 + (origSide m.lines).length ≤ orig.length) &&
  decide (m.lineNumber - 1 + (newSide m.lines).length ≤ new.length) &&
  decide ((orig.drop (m.lineNumberOrig - 1)).take (origSide m.lines).length = origSide m.lines) &&
  decide ((new.drop (m.lineNumber - 1)).take (newSide m.lines).length = newSide m.lines)

end RF.Diff
