import RF.Lemmas.Literal
/-!
# C01 (mechanism): the literal-spelling rewrites keep the value of the literal

`rewrite_float_lit` (`float_literal_trailing_zero`) and `rewrite_int_lit` (`hex_literal_case`) are the only places where
rustfmt synthesises the text of a literal instead of copying it from the source.  The theorems are about
`RF.Lit.rewriteFloatLit` / `rewriteIntLit` (`RF/Model/Literal.lean`), for EVERY symbol and suffix (not only well-formed
ones) and every value of the two options; the model is tied to the code by the correspondence `lit.float` / `lit.int`
of the C01 check (the real formatter is run on `let _ = <literal>;` and on literals inside macro calls).

"Same value": the output, re-read by the same parser, has the same *denotation* `FloatDen` — integer digits, fractional
digits without trailing zeros, exponent, all without `_` — and the same suffix.
-/
namespace RF.Props.C01lit
open RF.Lit RF.Lemmas.Literal

/-- the fractional digits the rewriter prints and whether it prints the point -/
private def choice (mode : TrailingZero) (p : FloatParts) (suffix : List Char) : Bool × Bool :=
  let hasPostfix := p.exponent.isSome || !suffix.isEmpty
  let nonzero := !p.isFractionalPartZero
  match mode with
  | .always => (true, true)
  | .ifNoPostfix => (nonzero || !hasPostfix, nonzero || !hasPostfix)
  | _ => (nonzero || !hasPostfix, nonzero)

theorem rewrite_eq (mode : TrailingZero) (hm : mode ≠ .preserve) (symbol suffix : List Char) (p : FloatParts)
    (hp : parseFloatSymbol symbol = some p) :
    rewriteFloatLit mode symbol suffix =
      some (p.integerPart ++ (if (choice mode p suffix).1 then ['.'] else []) ++
        (if (choice mode p suffix).2 then p.fractionalPart.getD ['0'] else []) ++ p.exponent.getD [] ++ suffix) := by
  cases mode <;> first | exact absurd rfl hm | simp [rewriteFloatLit, hp, choice]

theorem frac_implies_point (mode : TrailingZero) (p : FloatParts) (suffix : List Char) :
    (choice mode p suffix).1 = false → (choice mode p suffix).2 = false := by
  cases mode <;> simp [choice] <;> intros <;> simp_all

/-- **The rewritten float literal denotes the same number.**  Whenever `rewrite_float_lit` synthesises a spelling
(`some out`), the symbol was a float symbol `p`, `out` is a body followed by the untouched suffix, and the body re-parses
to parts with the same denotation as `p`. -/
theorem rewriteFloat_value (mode : TrailingZero) (symbol suffix out : List Char)
    (h : rewriteFloatLit mode symbol suffix = some out) :
    ∃ p body p', parseFloatSymbol symbol = some p ∧ out = body ++ suffix ∧
      parseFloatSymbol body = some p' ∧ p'.den = p.den := by
  have hm : mode ≠ .preserve := by intro hm; subst hm; simp [rewriteFloatLit] at h
  cases hp : parseFloatSymbol symbol with
  | none => cases mode <;> simp [rewriteFloatLit, hp] at h
  | some p =>
    have wf := parse_wf hp
    rw [rewrite_eq mode hm symbol suffix p hp] at h
    simp only [Option.some.injEq] at h
    generalize hc : choice mode p suffix = ch at h
    have hpt := frac_implies_point mode p suffix
    rw [hc] at hpt
    obtain ⟨point, inc⟩ := ch
    simp only at h hpt
    let frac : List Char := if inc then p.fractionalPart.getD ['0'] else []
    have hfr : frac.all isDigU = true := by
      show (if inc then p.fractionalPart.getD ['0'] else []).all isDigU = true
      split
      · cases hf : p.fractionalPart with
        | none => decide
        | some f => simpa using (wf.fp_ok f hf).1
      · rfl
    have hpf : point = false → frac = [] := by
      intro hpnt
      show (if inc then p.fractionalPart.getD ['0'] else []) = []
      rw [hpt hpnt]; rfl
    have hrender := parse_render p.integerPart frac point p.exponent wf.ip_all wf.ip_ne hfr hpf wf.ex_ok
    refine ⟨p, p.integerPart ++ (if point then '.' :: frac else []) ++ p.exponent.getD [], _, rfl, ?_, hrender, ?_⟩
    · rw [← h]
      cases point with
      | true => simp [frac]
      | false => simp [frac, hpt rfl]
    · -- denotations
      show FloatDen.mk _ _ _ = FloatDen.mk _ _ _
      congr 1
      show dropTrailingZeros (stripUnderscores ((if frac.isEmpty then none else some frac).getD [])) =
        dropTrailingZeros (stripUnderscores (p.fractionalPart.getD []))
      have hget : (if frac.isEmpty then none else some frac).getD [] = frac := by
        cases hfe : frac with
        | nil => rfl
        | cons x xs => rfl
      rw [hget]
      cases inc with
      | true =>
        show dropTrailingZeros (stripUnderscores (p.fractionalPart.getD ['0'])) = _
        cases p.fractionalPart with
        | none => decide
        | some f => rfl
      | false =>
        show dropTrailingZeros (stripUnderscores []) = _
        -- the fractional part that is dropped is zero
        have hz : p.isFractionalPartZero = true := by
          have h2 : (choice mode p suffix).2 = false := by rw [hc]
          cases mode with
          | preserve => exact absurd rfl hm
          | always => simp [choice] at h2
          | ifNoPostfix => simp [choice] at h2; exact h2.1
          | never => simpa [choice] using h2
        unfold FloatParts.isFractionalPartZero at hz
        cases hf : p.fractionalPart with
        | none => rfl
        | some f =>
          rw [hf] at hz
          simp only [Bool.and_eq_true] at hz
          rw [Option.getD_some, zeros_den f hz.2]
          rfl

/-- **The rewritten literal is still a float literal**: it keeps a point, an exponent or a suffix (so `1.0` never
becomes the integer literal `1`). -/
theorem rewriteFloat_stays_float (mode : TrailingZero) (symbol suffix out : List Char) (p : FloatParts)
    (hp : parseFloatSymbol symbol = some p) (h : rewriteFloatLit mode symbol suffix = some out) :
    (∃ a b, out = a ++ '.' :: b) ∨ p.exponent.isSome = true ∨ suffix ≠ [] := by
  have hm : mode ≠ .preserve := by intro hm; subst hm; simp [rewriteFloatLit] at h
  rw [rewrite_eq mode hm symbol suffix p hp] at h
  simp only [Option.some.injEq] at h
  by_cases hpt : (choice mode p suffix).1 = true
  · left
    rw [hpt] at h
    refine ⟨p.integerPart, (if (choice mode p suffix).2 then p.fractionalPart.getD ['0'] else []) ++
      p.exponent.getD [] ++ suffix, ?_⟩
    rw [← h]; simp
  · right
    have : (choice mode p suffix).1 = false := by simpa using hpt
    cases mode <;> simp [choice] at this
    · exact absurd rfl hm
    all_goals
      obtain ⟨-, h2⟩ := this
      cases he : p.exponent with
      | some e => left; rfl
      | none => right; exact h2 he

/-- Non-vacuity, and the three modes on the same literals (`1.0`, `1.0e5`, `1.50_f32` spelt `1.50_` + `f32`, `1.`). -/
example : rewriteFloatLit .never "1.0".toList [] = some "1.".toList ∧
    rewriteFloatLit .never "1.0e5".toList [] = some "1e5".toList ∧
    rewriteFloatLit .ifNoPostfix "1.0".toList "f32".toList = some "1f32".toList ∧
    rewriteFloatLit .always "1e5".toList [] = some "1.0e5".toList ∧
    rewriteFloatLit .always "1.".toList [] = some "1.0".toList ∧
    rewriteFloatLit .never "1.50_".toList "f32".toList = some "1.50_f32".toList ∧
    rewriteFloatLit .never "3.0_".toList "f32".toList = some "3f32".toList ∧
    rewriteFloatLit .always "0b1".toList "f32".toList = none ∧
    rewriteFloatLit .preserve "1.0".toList [] = none := by decide

/-- the judge is not vacuous: a spelling with another value has another denotation -/
example : (⟨"1".toList, some "50".toList, none⟩ : FloatParts).den ≠ (⟨"1".toList, some "05".toList, none⟩ : FloatParts).den ∧
    (⟨"1".toList, some "50".toList, none⟩ : FloatParts).den = (⟨"1".toList, some "5_000".toList, none⟩ : FloatParts).den := by
  decide

/-! ## hex_literal_case -/

theorem hexDigitVal_upper (c : Char) : hexDigitVal (upperAscii c) = hexDigitVal c := by
  unfold upperAscii
  split <;> first | rfl | decide

theorem hexDigitVal_lower (c : Char) : hexDigitVal (lowerAscii c) = hexDigitVal c := by
  unfold lowerAscii
  split <;> first | rfl | decide

theorem upper_underscore (c : Char) : (upperAscii c != '_') = (c != '_') := by
  unfold upperAscii
  split <;> first | rfl | decide

theorem lower_underscore (c : Char) : (lowerAscii c != '_') = (c != '_') := by
  unfold lowerAscii
  split <;> first | rfl | decide

theorem hexValue_map (f : Char → Char) (hv : ∀ c, hexDigitVal (f c) = hexDigitVal c)
    (hu : ∀ c, (f c != '_') = (c != '_')) (r : List Char) : hexValue (r.map f) = hexValue r := by
  unfold hexValue stripUnderscores
  have : ∀ (a : Nat), ((r.map f).filter (· != '_')).foldl (fun a c => a * 16 + hexDigitVal c) a =
      (r.filter (· != '_')).foldl (fun a c => a * 16 + hexDigitVal c) a := by
    induction r with
    | nil => intro a; rfl
    | cons x xs ih =>
      intro a
      simp only [List.map_cons, List.filter_cons, hu x]
      split
      · simp only [List.foldl_cons, hv x]; exact ih _
      · exact ih a
  exact this 0

/-- **`hex_literal_case` keeps the value**: whenever `rewrite_int_lit` synthesises a spelling of a literal that is not a
float, the symbol was `0x…`, the output is `0x` + the re-cased digits + the untouched suffix, and the digits have the
same value (for every symbol, hex digits or not). -/
theorem rewriteInt_hex_value (hex : HexCase) (fz : TrailingZero) (symbol suffix out : List Char)
    (hs : isSemanticFloatSuffix suffix = false) (h : rewriteIntLit hex fz symbol suffix = some out) :
    ∃ r r', symbol = '0' :: 'x' :: r ∧ out = '0' :: 'x' :: r' ++ suffix ∧ r'.length = r.length ∧
      hexValue r' = hexValue r := by
  unfold rewriteIntLit at h
  simp only [hs, Bool.false_eq_true, if_false] at h
  split at h
  · rename_i r
    cases hex with
    | preserve => simp at h
    | upper =>
      simp only [Option.some.injEq] at h
      exact ⟨r, r.map upperAscii, rfl, h.symm, by simp, hexValue_map _ hexDigitVal_upper upper_underscore r⟩
    | lower =>
      simp only [Option.some.injEq] at h
      exact ⟨r, r.map lowerAscii, rfl, h.symm, by simp, hexValue_map _ hexDigitVal_lower lower_underscore r⟩
  · simp at h

/-- an `Integer` token with a float suffix goes through the float rewriter (`1f32` → `1.0f32` under Always) -/
theorem rewriteInt_semantic_float (hex : HexCase) (fz : TrailingZero) (symbol suffix : List Char)
    (hs : isSemanticFloatSuffix suffix = true) :
    rewriteIntLit hex fz symbol suffix = rewriteFloatLit fz symbol suffix := by
  simp [rewriteIntLit, hs]

example : rewriteIntLit .upper .preserve "0xdead_beef".toList "u32".toList = some "0xDEAD_BEEFu32".toList ∧
    rewriteIntLit .lower .preserve "0xDEADbeef".toList [] = some "0xdeadbeef".toList ∧
    rewriteIntLit .upper .preserve "0b1010".toList [] = none ∧
    rewriteIntLit .upper .always "1".toList "f32".toList = some "1.0f32".toList ∧
    hexValue "DEAD_beef".toList = 3735928559 := by decide

end RF.Props.C01lit
