#!/usr/bin/env python3
"""translator:c04_skipsites — who records a skipped range, with which spans, and who reads it -> RF/Gen/SkipSites.lean.

`FmtVisitor::push_skipped_with_span(attrs, item_span, main_span)` copies `item_span` as it is written and records the
range of output lines the copy takes; the range starts `min(last attribute line + 1, line of main_span.lo) - line of
item_span.lo` lines below the first line of the copy.  The range is not only used for line diagnostics:
`MacroBranch::rewrite` (src/macros.rs) adds the body indentation to every line of a formatted `macro_rules!` body EXCEPT
the lines inside a recorded range.  So for a node whose attributes are part of the copy, the range covers the copy only
when `main_span` starts where `item_span` starts.  This translator lists every call of `push_skipped_with_span` with its
argument expressions (white space removed; a plain local is resolved through its one `let`), checks that `item.span()`
(trait `Spanned` for `ast::Item`) is the span that starts at the first outer attribute, and extracts the condition under
which `MacroBranch::rewrite` indents a line and the predicate `FormattedSnippet::is_line_non_formatted`.  The theorems
`skip_sites_cover_attributes`, `skip_sites_item_range_whole`, `reindent_guard_is_the_modelled_one` (RF/Props/C04.lean)
are about the generated definitions."""
import os, re, sys
sys.path.insert(0, os.path.dirname(os.path.abspath(__file__)))
from common import *

NAME = "c04_skipsites"
CALL = "push_skipped_with_span"


def cut_hooks(s):
    m = re.search(r"#\[cfg\(feature\s*=\s*\"verif-hooks\"\)\]\s*pub\(crate\)\s*mod\s+verif_local\w*\s*\{", s)
    return s[:m.start()] if m else s


def clean(repo, rel):
    return mask_literals(strip_rust_comments(cut_hooks(cut_tests(read(repo, rel, NAME)))))


def split_args(s, start):
    """s[start] is the '(' of a call: returns (list of top-level arguments, index after the ')')"""
    assert s[start] == "("
    d = 0
    cur = []
    args = []
    i = start
    while i < len(s):
        c = s[i]
        if c in "([{":
            d += 1
            if d > 1:
                cur.append(c)
        elif c in ")]}":
            d -= 1
            if d == 0:
                a = "".join(cur).strip()
                if a:
                    args.append(a)
                return args, i + 1
            cur.append(c)
        elif c == "," and d == 1:
            args.append("".join(cur).strip())
            cur = []
        else:
            cur.append(c)
        i += 1
    refuse(NAME, "unbalanced parentheses in a call of " + CALL)


def squash(e):
    return re.sub(r"\s+", "", e)


def enclosing_fn(src, pos):
    best = None
    for m in re.finditer(r"\bfn\s+([A-Za-z_][A-Za-z0-9_]*)\s*(?:<[^>{}]*>)?\s*\(", src[:pos]):
        best = m
    if best is None:
        refuse(NAME, "a call of " + CALL + " outside any fn")
    return best.group(1), best.start()


def resolve(src, fn_start, pos, expr):
    """a plain identifier bound by exactly one `let` between the start of the fn and the call -> its initialiser"""
    if not re.fullmatch(r"[a-z_][a-z0-9_]*", expr):
        return expr
    lets = re.findall(r"\blet\s+(?:mut\s+)?" + re.escape(expr) + r"\s*(?::[^=;]+)?=\s*([^;]+);", src[fn_start:pos])
    if len(lets) == 0:
        return expr          # a parameter
    if len(lets) > 1:
        refuse(NAME, f"`{expr}` is bound by {len(lets)} lets before the call: not understood")
    return squash(lets[0])


def lean_str(s):
    return '"' + s.replace("\\", "\\\\").replace('"', '\\"') + '"'


def main():
    a = args()
    src_dir = os.path.join(a.repo, "src")
    if not os.path.isdir(src_dir):
        refuse(NAME, "src/ does not exist")
    rels = []
    for root, _, files in os.walk(src_dir):
        for f in sorted(files):
            if f.endswith(".rs"):
                rel = os.path.relpath(os.path.join(root, f), a.repo)
                if rel in ("src/verif_hooks.rs",) or rel.startswith("src/verif_hooks/") or rel.startswith("src/test/"):
                    continue
                rels.append(rel)
    rels.sort()
    sites = []
    definition = None
    for rel in rels:
        src = clean(a.repo, rel)
        for m in re.finditer(r"\b" + CALL + r"\s*\(", src):
            before = src[max(0, m.start() - 12):m.start()]
            if re.search(r"\bfn\s+$", before):
                params, _ = split_args(src, m.end() - 1)
                definition = (rel, [squash(p) for p in params])
                continue
            argv, _ = split_args(src, m.end() - 1)
            if len(argv) != 3:
                refuse(NAME, f"{rel}: a call of {CALL} with {len(argv)} arguments (3 expected)")
            fn, fn_start = enclosing_fn(src, m.start())
            argv = [squash(x) for x in argv]
            res = [resolve(src, fn_start, m.start(), x) for x in argv]
            sites.append((rel, fn, res[0], res[1], res[2]))
    if definition is None:
        refuse(NAME, "the definition of " + CALL + " was not found")
    if definition[1] != ["&mutself", "attrs:&[ast::Attribute]", "item_span:Span", "main_span:Span"]:
        refuse(NAME, f"{definition[0]}: the parameters of {CALL} are {definition[1]}, not (&mut self, attrs, item_span, main_span)")
    if not any(s[0] == "src/visitor.rs" and s[1] == "visit_item" for s in sites):
        refuse(NAME, "no call of " + CALL + " inside visit_item (src/visitor.rs)")

    # `item.span()`: trait Spanned for ast::Item starts at the first outer attribute
    sp = clean(a.repo, "src/spanned.rs")
    sp1 = squash(sp)
    with_attrs = ("implement_spanned!(ast::Item);" in sp1
                  and "macro_rules!implement_spanned{($this:ty)=>{implSpannedfor$this{fnspan(&self)->Span{span_with_attrs!(self)}}};}" in sp1
                  and "macro_rules!span_with_attrs{($this:ident)=>{span_with_attrs_lo_hi!($this,$this.span.lo(),$this.span.hi())};}" in sp1
                  and "letattrs=outer_attributes(&$this.attrs);ifattrs.is_empty(){mk_sp($lo,$hi)}else{mk_sp(attrs[0].span.lo(),$hi)}" in sp1)
    stmt_with_attrs = "ast::StmtKind::Item(refitem)=>mk_sp(item.span().lo(),self.span.hi())" in sp1

    # the consumer: the fold of MacroBranch::rewrite
    mc = clean(a.repo, "src/macros.rs")
    m = re.search(r"LineClasses::new\(new_body_snippet\.snippet\.trim_end\(\)\)\s*\.enumerate\(\)\s*\.fold\(", mc)
    if not m:
        refuse(NAME, "src/macros.rs: the fold over LineClasses::new(new_body_snippet.snippet.trim_end()) was not found")
    fold_args, _ = split_args(mc, m.end() - 1)
    if len(fold_args) < 2:
        refuse(NAME, "src/macros.rs: the fold has an unexpected shape")
    closure = ",".join(fold_args[1:])     # the closure's parameter list has a top-level comma
    mi = re.search(r"\bif\b(.*?)\{\s*s\s*\+=\s*&indent_str\s*;\s*\}", closure, re.S)
    if not mi:
        refuse(NAME, "src/macros.rs: `if <cond> { s += &indent_str; }` not found in the fold")
    guard = [squash(c) for c in mi.group(1).split("&&")]
    tail = squash(closure[mi.end():])
    if not tail.startswith("(s+l+\"\",indent_next_line(kind,l,&config))"):
        refuse(NAME, "src/macros.rs: the fold no longer returns (s + l + \"\\n\", indent_next_line(kind, l, &config)): " + tail[:80])
    init = squash(fold_args[0])
    if init != "(String::new(),true)":
        refuse(NAME, "src/macros.rs: the fold no longer starts from (String::new(), true)")
    lb = clean(a.repo, "src/lib.rs")
    mp = re.search(r"fn\s+is_line_non_formatted\s*\(\s*&self\s*,\s*n\s*:\s*usize\s*\)\s*->\s*bool\s*\{", lb)
    if not mp:
        refuse(NAME, "src/lib.rs: FormattedSnippet::is_line_non_formatted(&self, n: usize) -> bool not found")
    body, _ = block_after(lb, mp.end() - 1)
    pred = squash(body)

    # lib.rs: the wrapper of format_code_block indents which lines?
    me = re.search(r"fn\s+enclose_in_main_block\s*\(", lb)
    if not me:
        refuse(NAME, "src/lib.rs: fn enclose_in_main_block not found")
    ebody, _ = block_after(lb, me.end())
    mg = re.search(r"\bif\b(.*?)\{\s*result\.push_str\(&indent\.to_string\(config\)\)\s*;\s*\}", ebody, re.S)
    if not mg:
        refuse(NAME, "src/lib.rs: `if <cond> { result.push_str(&indent.to_string(config)); }` not found in enclose_in_main_block")
    eguard = [squash(c) for c in mg.group(1).split("&&")]
    if eguard not in (["need_indent"], ["need_indent", "!line.is_empty()"]):
        refuse(NAME, f"src/lib.rs: enclose_in_main_block indents a line under {eguard}: not understood")
    raw = squash(strip_rust_comments(read(a.repo, "src/lib.rs", NAME)))
    if 'constFN_MAIN_PREFIX:&str="fnmain(){\\n";' not in raw or "result.push_str(FN_MAIN_PREFIX);" not in squash(ebody) or "result.push('}');result}" not in raw:
        refuse(NAME, "src/lib.rs: enclose_in_main_block no longer wraps in FN_MAIN_PREFIX ... '}'")

    L = ["/- GENERATED by translate/c04_skipsites.py from src/visitor.rs (and every other file under src/), src/spanned.rs,",
         "src/macros.rs, src/lib.rs.  Do not edit. -/",
         "namespace RF.Gen.SkipSites\n",
         "/-- One call of `push_skipped_with_span`: the file, the enclosing fn and the three argument expressions (white space",
         "removed; a plain local is replaced by the initialiser of its `let`). -/",
         "structure Site where",
         "  file : String",
         "  fn : String",
         "  attrs : String",
         "  itemSpan : String",
         "  mainSpan : String",
         "  deriving DecidableEq, Repr\n",
         "/-- every call, in the order of the sorted file names and of the source text (no line numbers: moving code does not",
         "change the table) -/",
         "def sites : List Site :=",
         "  [" + ",\n   ".join("⟨" + ", ".join(lean_str(x) for x in s) + "⟩" for s in sites) + "]\n",
         "/-- `impl Spanned for ast::Item` is `span_with_attrs!`: from the first outer attribute to the end of the item -/",
         f"def itemSpanStartsAtFirstAttr : Bool := {'true' if with_attrs else 'false'}\n",
         "/-- `Spanned for ast::Stmt`, `StmtKind::Item`: starts where `item.span()` starts -/",
         f"def stmtItemSpanStartsAtFirstAttr : Bool := {'true' if stmt_with_attrs else 'false'}\n",
         "/-- the conjuncts of the condition under which `MacroBranch::rewrite` puts the body indentation in front of a line -/",
         "def reindentGuard : List String := [" + ", ".join(lean_str(g) for g in guard) + "]\n",
         "/-- the body of `FormattedSnippet::is_line_non_formatted(&self, n)` -/",
         f"def nonFormattedPredicate : String := {lean_str(pred)}\n",
         "/-- the conjuncts of the condition under which `enclose_in_main_block` (lib.rs, `format_code_block`) indents a line -/",
         "def encloseGuard : List String := [" + ", ".join(lean_str(g) for g in eguard) + "]\n",
         "/-- empty lines are left empty by the wrapper -/",
         f"def encloseSkipsEmptyLines : Bool := {'true' if len(eguard) == 2 else 'false'}\n",
         "end RF.Gen.SkipSites\n"]
    changed = write_if_changed(os.path.join(a.out, "SkipSites.lean"), "\n".join(L))
    print(f"c04_skipsites: ok ({'rewritten' if changed else 'unchanged'}); {len(sites)} calls of {CALL}: "
          + "; ".join(f"{s[1]}({s[3]} | {s[4]})" for s in sites) + f"; guard {guard}")


if __name__ == "__main__":
    main()
