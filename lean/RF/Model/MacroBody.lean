import RF.Model.CharClasses
import RF.Model.Skip
/-!
# Model of the re-indentation of a formatted `macro_rules!` body (`/repo/src/macros.rs`, `MacroBranch::rewrite`)

A macro arm's body is formatted on its own (`format_snippet` as items, else `format_code_block` as
statements) by a nested formatter that starts at indentation 0; the result is a
`FormattedSnippet { snippet, non_formatted_ranges }` where `non_formatted_ranges` is the nested
top-level visitor's `skipped_range` (1-based inclusive lines of `snippet`; `lib.rs`
`format_snippet`/`format_code_block`, shifted by `unwrap_code_block` for a wrapped block).
`MacroBranch::rewrite` then puts the arm's body indentation in front of every line

    LineClasses::new(new_body_snippet.snippet.trim_end()).enumerate().fold((String::new(), true),
        |(mut s, need_indent), (i, (kind, ref l))| {
            if !is_empty_line(l) && need_indent && !new_body_snippet.is_line_non_formatted(i + 1) {
                s += &indent_str;
            }
            (s + l + "\n", indent_next_line(kind, l, &config))
        }).0

i.e. every line EXCEPT blank lines, the lines after a line that ends inside a string literal, and
the lines of a recorded skipped range.  Then the macro variables are put back
(`new_body.replace(new, old)` for every substitution) and the arm is assembled.

This is the second reader of `FmtVisitor::skipped_range` (the first is `FormatLines`, C07): if the
recorded range of a skipped node does not cover all the lines of its verbatim copy, the uncovered
lines get the body indentation added to the indentation they were copied with — the skipped node's
bytes change, and change again on the next run.
-/
namespace RF.MacroBody
open RF.CharClasses

/-- `FormattedSnippet::is_line_non_formatted(n)` (`lib.rs`): `any(|(low, high)| low <= n && n <= high)`. -/
def isLineNonFormatted (ranges : List (Nat × Nat)) (n : Nat) : Bool :=
  ranges.any (fun r => decide (r.1 ≤ n) && decide (n ≤ r.2))

/-- `FormattedSnippet::unwrap_code_block(header_lines)` (`lib.rs`): both ends `saturating_sub`. -/
def unwrapCodeBlock (headerLines : Nat) (ranges : List (Nat × Nat)) : List (Nat × Nat) :=
  ranges.map (fun r => (r.1 - headerLines, r.2 - headerLines))

/-- `utils::is_empty_line`: empty or all `char::is_whitespace`. -/
def isEmptyLine (s : List Char) : Bool := s.all RF.Skip.isWhitespace

/-- `str::ends_with('\\')` -/
def endsWithBackslash (s : List Char) : Bool := s.getLast? == some '\\'

/-- The two options `indent_next_line` reads. -/
structure Cfg where
  formatStrings : Bool      -- `config.format_strings()`
  ed2024 : Bool             -- `config.style_edition() >= StyleEdition::Edition2024`
  deriving DecidableEq, Repr

/-- `utils::indent_next_line(kind, line, config)` (`utils.rs:655-668`). -/
def indentNextLine (c : Cfg) (kind : Kind) (line : List Char) : Bool :=
  if kind.isString then c.formatStrings && endsWithBackslash line
  else if c.ed2024 then !kind.isCommentedString
  else true

/-- The fold, line by line: `i` = 0-based index of the head of the list, `need` = `need_indent`. -/
def reindentLines (ind : List Char) (ranges : List (Nat × Nat)) (c : Cfg) :
    Nat → Bool → List (Kind × List Char) → List (List Char)
  | _, _, [] => []
  | i, need, (kind, l) :: rest =>
    (if !isEmptyLine l && need && !isLineNonFormatted ranges (i + 1) then ind ++ l else l) ::
      reindentLines ind ranges c (i + 1) (indentNextLine c kind l) rest

/-- Each line followed by `"\n"`. -/
def joinLines : List (List Char) → List Char
  | [] => []
  | l :: r => l ++ '\n' :: joinLines r

/-- `new_body` before the macro variables are put back. -/
def reindent (ind : List Char) (ranges : List (Nat × Nat)) (c : Cfg) (snippet : List Char) :
    List Char :=
  joinLines (reindentLines ind ranges c 0 true (lineClasses (RF.Skip.trimEnd snippet)))

/-- `str::replace(pat, rep)`: non-overlapping matches from the left (an empty pattern never occurs
here: a substitution's new name is `z` + the variable's name). -/
def replaceAll (pat rep : List Char) : List Char → List Char
  | [] => []
  | c :: r =>
    match pat with
    | [] => c :: r
    | p :: ps =>
      if (p :: ps).isPrefixOf (c :: r) then rep ++ replaceAll (p :: ps) rep (r.drop ps.length)
      else c :: replaceAll (p :: ps) rep r
termination_by s => s.length
decreasing_by
  all_goals simp only [List.length_cons, List.length_drop]
  all_goals omega

/-- `for (old, new) in &substs { new_body = new_body.replace(new, old) }` -/
def undoSubsts : List (List Char × List Char) → List Char → List Char
  | [], s => s
  | (old, new) :: r, s => undoSubsts r (replaceAll new old s)

/-- The end of `MacroBranch::rewrite`, from `result += " {"` on: `prefix` is what `result` holds
before (`format_macro_args` and `" =>"`), `armIndent` is `shape.indent.to_string(config)`.
`has_block_body` (`=> {{ … }}`): `result += new_body.trim()`; otherwise a non-empty body goes on
its own lines. -/
def assembleArm (pre armIndent : List Char) (hasBlockBody : Bool) (newBody : List Char) :
    List Char :=
  let r := pre ++ [' ', '{']
  let r :=
    if hasBlockBody then r ++ RF.Skip.trim newBody
    else if !newBody.isEmpty then r ++ ['\n'] ++ newBody ++ armIndent
    else r
  r ++ ['}']

/-- The whole tail of `MacroBranch::rewrite` after the body was formatted. -/
def rewriteTail (pre armIndent bodyIndent : List Char) (hasBlockBody : Bool) (c : Cfg)
    (substs : List (List Char × List Char)) (ranges : List (Nat × Nat)) (snippet : List Char) :
    List Char :=
  assembleArm pre armIndent hasBlockBody (undoSubsts substs (reindent bodyIndent ranges c snippet))

end RF.MacroBody
