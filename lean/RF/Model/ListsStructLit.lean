import RF.Model.Lists
/-
Model of the four struct-literal helpers at the end of `src/lists.rs`: `struct_lit_shape` (:863-891),
`struct_lit_tactic` (:894-909), `shape_for_tactic` (:913-922) and `struct_lit_formatting` (:926-950), used
by struct literals (expr.rs) and struct patterns (patterns.rs).  The `RewriteContext` is reduced to the
options they read; `Span` arguments only travel into the error value and are dropped;
`context.budget(w)` is `max_width.saturating_sub(w)`.
-/
namespace RF.Lists
open RF.Shape

inductive IndentStyle where
  | visual | block
  deriving Repr, DecidableEq

/-- The options the helpers read. -/
structure StructLitConfig where
  indentStyle : IndentStyle
  tabSpaces : Nat
  maxWidth : Nat
  structLitWidth : Nat
  structLitSingleLine : Bool
  trailingComma : SeparatorTactic
  deriving Repr, DecidableEq

/-- `struct_lit_shape`: `(h_shape, v_shape)` or `Err(ExceedsMaxWidthError)`. -/
def structLitShape (shape : Shape) (c : StructLitConfig) (prefixWidth suffixWidth : Nat) :
    Except ExceedsMaxWidthError (Option Shape × Shape) :=
  let vShape : Except ExceedsMaxWidthError Shape :=
    match c.indentStyle with
    | .visual =>
      match (shape.visual_indent 0).shrink_left prefixWidth with
      | .error e => .error e
      | .ok s => s.sub_width suffixWidth
    | .block =>
      let shape := shape.block_indent c.tabSpaces
      .ok { shape with width := c.maxWidth - shape.indent.width }
  match vShape with
  | .error e => .error e
  | .ok vShape =>
    let hShape := (checkedSub shape.width (prefixWidth + suffixWidth)).map fun w =>
      Shape.legacy (min w c.structLitWidth) shape.indent
    .ok (hShape, vShape)

/-- `struct_lit_tactic` -/
def structLitTactic (hShape : Option Shape) (c : StructLitConfig) (items : List ListItem) :
    DefinitiveListTactic :=
  match hShape with
  | some hShape =>
    let prelimTactic :=
      if c.indentStyle = .visual ∧ items.length = 1 then ListTactic.horizontalVertical
      else if c.structLitSingleLine then ListTactic.horizontalVertical
      else ListTactic.vertical
    definitiveTactic items prelimTactic .comma hShape.width
  | none => .vertical

/-- `shape_for_tactic`; `none` = `h_shape.unwrap()` panics. -/
def shapeForTactic (tactic : DefinitiveListTactic) (hShape : Option Shape) (vShape : Shape) :
    Option Shape :=
  match tactic with
  | .horizontal => hShape
  | _ => some vShape

/-- `struct_lit_formatting` (the `config` fields of the result are the caller's). -/
def structLitFormatting (shape : Shape) (tactic : DefinitiveListTactic) (c : StructLitConfig)
    (forceNoTrailingComma : Bool) (config : Config) (normalizeComments : Bool) : ListFormatting :=
  { tactic := tactic
    separator := [',']
    trailingSeparator := if forceNoTrailingComma then .never else c.trailingComma
    separatorPlace := .back
    shape := shape
    endsWithNewline := c.indentStyle != .visual && tactic == .vertical
    preserveNewline := true
    nested := false
    alignComments := true
    config := config
    normalizeComments := normalizeComments }

end RF.Lists
