import RF.Model.Shape
/-!
Model of the WIDTH-BUDGET ARITHMETIC of function signatures and of a few other one-line-or-not
decisions: pure integer functions of `Shape`, `Indent`, a handful of configuration values and a few
MEASURED widths (byte lengths / display widths of already rendered pieces).

Sources (pinned tree + the repairs on it):
* `src/rewrite.rs`  `RewriteContext::budget`
* `src/utils.rs`    `last_line_used_width` (on a measured string: its width, whether it has a line break)
* `src/items.rs`    `compute_budgets_for_params`, `newline_for_brace`, `generics_shape_from_config`,
                    the decisions of `rewrite_fn_base` (`put_params_in_block`, `ret_should_indent` with its
                    `sig_length` accounting, the closing-parenthesis overflow test), `rewrite_params`' tactic,
                    `rewrite_fn_before_block`'s brace test, `rewrite_where_clause` (visual style: `budget`,
                    the same-line test, `end_length`), `rewrite_where_clause_rfc_style` (`clause_shape`, the
                    single-line test), the where-clause indentation of `format_trait` and `format_tuple_struct`
* `src/expr.rs`     `ControlFlow::rewrite_cond` (`constr_shape`, `one_line_budget`, `force_newline_brace`,
                    `used_width`) with `rewrite_pat_expr` for a condition without pattern,
                    `rewrite_assign_rhs_expr` (`orig_shape`), `shape_from_rhs_tactic`, `choose_rhs`

Unchecked `-` is `usub` (panics exactly where the dev profile does), `saturating_sub` is `Nat` subtraction,
`checked_sub` / `Result` are `Option` / `Except ExceedsMaxWidthError`.  Three subtractions of the pinned tree
were unchecked and reachable (`…_pinned` below keep them, with the program that reaches each); the current
tree saturates.

What is MEASURED from already rendered text (never from the layout of the source): `prefix` (the
signature up to and excluding `(`), the one-line widths of the parameters, `ret` (the return type with
its arrow), the number of where predicates, the width of the rendered predicates, the width of the
rendered condition.  What does depend on the source layout is listed in `RF/Props/Budgets.lean`
(`budget_layout_independent` and its `_counterexample`).
-/
namespace RF.Budgets
open RF.Shape

inductive IndentStyle where
  | visual | block
  deriving Repr, DecidableEq

inductive BraceStyle where
  | alwaysNextLine | preferSameLine | sameLineWhere
  deriving Repr, DecidableEq

inductive ControlBraceStyle where
  | alwaysSameLine | closingNextLine | alwaysNextLine
  deriving Repr, DecidableEq

/-- items.rs `FnBraceStyle` -/
inductive FnBraceStyle where
  | sameLine | nextLine | none
  deriving Repr, DecidableEq

/-- `fn_params_layout` -/
inductive Density where
  | compressed | tall | vertical
  deriving Repr, DecidableEq

inductive RhsTactics where
  | default | forceNextLineWithoutIndent | allowOverflow
  deriving Repr, DecidableEq

/-- lists.rs `DefinitiveListTactic` without `SpecialMacro` -/
inductive Tactic where
  | vertical | horizontal | mixed
  deriving Repr, DecidableEq

/-- The configuration values read by the modelled code. -/
structure Cfg where
  max_width : Nat
  tab_spaces : Nat
  comment_width : Nat := 80
  indent_style : IndentStyle := .block
  brace_style : BraceStyle := .sameLineWhere
  control_brace_style : ControlBraceStyle := .alwaysSameLine
  fn_params_layout : Density := .tall
  where_single_line : Bool := false
  /-- `style_edition() >= Edition2024` -/
  edition2024 : Bool := true
  deriving Repr, DecidableEq

/-- the part shape.rs reads (`hard_tabs` only matters for rendering an indent, not for its width) -/
def Cfg.shape (c : Cfg) : Config := ⟨false, c.tab_spaces, c.max_width, c.comment_width⟩

/-- rewrite.rs:155 `RewriteContext::budget` -/
def budget (c : Cfg) (used_width : Nat) : Nat := saturatingSub c.max_width used_width

/-- utils.rs:213 `last_line_used_width(s, offset)` on the measures of `s`: the width of its last line
and whether it holds a line break (for a one-line `s` the two widths coincide). -/
def last_line_used_width (last_line_width : Nat) (multiline : Bool) (offset : Nat) : Nat :=
  if multiline then last_line_width else offset + last_line_width

/-! ## `compute_budgets_for_params` (items.rs:2891) -/

/-- the tail of the function: vertical layout forced, parameters on a new line -/
def forced_vertical_budgets (c : Cfg) (indent : Indent) (ret_str_len : Nat) : Nat × Nat × Indent :=
  let new_indent := indent.blockIndent c.shape
  let used_space := match c.indent_style with
    | .block => new_indent.width + 1
    | .visual => new_indent.width + (if ret_str_len = 0 then 1 else 3)
  (0, budget c used_space, new_indent)

/-- the space taken on the signature line by everything but the parameters -/
def params_used_space (indent : Indent) (result_len ret_str_len : Nat) (brace : FnBraceStyle) : Nat :=
  let overhead := if ret_str_len = 0 then 2 else 3
  let used_space := indent.width + result_len + ret_str_len + overhead
  match brace with
  | .none => used_space + 1
  | .sameLine => used_space + 2
  | .nextLine => used_space

/-- `(one_line_budget, multi_line_budget, param_indent)`.  `result_len` / `result_newline`: byte
length of the signature so far and whether it holds a line break. -/
def compute_budgets_for_params (c : Cfg) (result_len : Nat) (result_newline : Bool) (indent : Indent)
    (ret_str_len : Nat) (brace : FnBraceStyle) (force_vertical_layout : Bool) : Nat × Nat × Indent :=
  if !result_newline && !force_vertical_layout then
    let one_line_budget := budget c (params_used_space indent result_len ret_str_len brace)
    if one_line_budget > 0 then
      match c.indent_style with
      | .block =>
        let ind := indent.blockIndent c.shape
        (one_line_budget, budget c (ind.width + 1), ind)
      | .visual =>
        let ind := indent.add_usize (result_len + 1)
        let multi_line_overhead := (match brace with | .sameLine => 4 | _ => 2) + ind.width
        (one_line_budget, budget c multi_line_overhead, ind)
    else forced_vertical_budgets c indent ret_str_len
  else forced_vertical_budgets c indent ret_str_len

/-- items.rs:2950 `newline_for_brace` on the number of where predicates -/
def newline_for_brace (c : Cfg) (predicate_count : Nat) : FnBraceStyle :=
  if c.where_single_line && predicate_count == 1 then .sameLine
  else if c.brace_style = .alwaysNextLine || (c.brace_style = .sameLineWhere && predicate_count > 0) then
    .nextLine
  else .sameLine

/-- items.rs:2984 `generics_shape_from_config` -/
def generics_shape_from_config (c : Cfg) (shape : Shape) (offset : Nat) :
    Except ExceedsMaxWidthError Shape :=
  match c.indent_style with
  | .visual => (shape.visual_indent (1 + offset)).sub_width (offset + 2)
  | .block => (((shape.block).block_indent c.tab_spaces).with_max_width c.shape).sub_width 1

/-- the shape `rewrite_fn_base` hands to `rewrite_generics` (items.rs:2463-2477) -/
def fn_generics_shape (c : Cfg) (indent : Indent) (result_last_line_width : Nat) (result_multiline : Bool)
    (brace : FnBraceStyle) : Shape :=
  let overhead := match brace with | .sameLine => 4 | _ => 2
  let used_width := last_line_used_width result_last_line_width result_multiline indent.width
  ⟨budget c (used_width + overhead), indent, used_width⟩

/-! ## `rewrite_params`' tactic (items.rs:2860-2872) for parameters without comments, each rendered on
one line: `calculate_width` is the sum of the widths, the separator `", "` counts 2 between items. -/

def params_total (params : List Nat) : Nat := params.sum + 2 * (params.length - 1)

/-- `definitive_tactic(items, fn_params_layout.to_list_tactic(len), Separator::Comma, one_line_budget)` -/
def params_tactic (c : Cfg) (params : List Nat) (one_line_budget : Nat) : Tactic :=
  match c.fn_params_layout with
  | .vertical => if params.length = 1 then .horizontal else .vertical
  | .tall => if params_total params ≤ one_line_budget then .horizontal else .vertical
  | .compressed => if params_total params ≤ one_line_budget then .horizontal else .mixed

/-! ## the decisions of `rewrite_fn_base` (items.rs:2445) on a signature whose pieces render on one line -/

/-- The measures of a signature.  Assumed: name and generics together are wider than one column (a
one-column name makes `snuggle_angle_bracket` true in `rewrite_fn_base`, which suppresses the forced line
break of the visual style; not modelled). -/
structure Sig where
  indent : Indent
  /-- width of `result` when the parameters are computed: qualifiers, `fn`, name, generics -/
  prefix_len : Nat
  /-- one-line widths of the parameters, in order -/
  params : List Nat
  /-- `ret_str.len()`: `-> T`, 0 without return type -/
  ret : Nat
  /-- number of where predicates -/
  preds : Nat
  brace : FnBraceStyle
  deriving Repr, DecidableEq

/-- What `rewrite_fn_base` decided. -/
structure SigLayout where
  one_line_budget : Nat
  tactic : Tactic
  /-- parameters between `(` + line break and line break + `)` (block style) -/
  params_in_block : Bool
  /-- `result` holds a line break when the return type is looked at -/
  multiline_before_ret : Bool
  /-- the return type moves to a line of its own -/
  ret_should_indent : Bool
  /-- the closing parenthesis of an empty list moves to the next line -/
  closing_paren_overflow : Bool
  /-- `force_new_line_for_brace` as far as it comes from the arithmetic: a return type on its own line
  behind an empty parameter list -/
  force_newline_brace : Bool
  deriving Repr, DecidableEq

/-- `sig_length > max_width` (items.rs:2611-2622): the one-line signature up to the return type, plus 2
when there is no where clause -- for ` {` and, as the code stands, also for the single `;` of a
function without body. -/
def sig_length (s : Sig) (result_len : Nat) : Nat :=
  result_len + s.indent.width + s.ret + 1 + (if s.preds = 0 then 2 else 0)

/-- The width of the text of horizontal parameters / an upper bound that exceeds every budget else. -/
def param_str_len (params : List Nat) : Nat := params_total params

def sig_layout (c : Cfg) (s : Sig) : SigLayout :=
  let (one_line_budget, _, _) :=
    compute_budgets_for_params c s.prefix_len false s.indent s.ret s.brace false
  let tactic := if s.params.isEmpty then Tactic.horizontal else params_tactic c s.params one_line_budget
  let horizontal_fits := tactic = .horizontal && param_str_len s.params ≤ one_line_budget
  -- `param_str.contains('\n') || param_str.len() > one_line_budget` (a non-horizontal list either
  -- holds a line break or is longer than the budget that refused it)
  let params_in_block := c.indent_style = .block && !s.params.isEmpty && !horizontal_fits
  -- visual style: the forced line break in front of the parameters, or a vertical list of two or more
  let visual_newline := c.indent_style = .visual &&
    ((one_line_budget = 0) || (!s.params.isEmpty && tactic ≠ .horizontal && s.params.length ≥ 2))
  let result_len := s.prefix_len + 1 + param_str_len s.params + 1
  let used_width := s.indent.width + s.prefix_len + 1 + param_str_len s.params + s.ret
  let closing := !params_in_block && s.params.isEmpty && !visual_newline &&
    decide (used_width + 1 > c.max_width)
  let multiline := params_in_block || visual_newline || closing
  let ret_should_indent :=
    if s.ret = 0 then false
    else if c.indent_style = .block && (params_in_block || s.params.isEmpty) then false
    else if multiline then true
    else decide (sig_length s result_len > c.max_width)
  ⟨one_line_budget, tactic, params_in_block, multiline, ret_should_indent, closing,
   ret_should_indent && s.params.isEmpty⟩

/-- The line of `fn` ends with `(`: parameters in a block, the forced line break of the visual style,
or the closing parenthesis of an empty list moved down. -/
def SigLayout.paren_break (c : Cfg) (l : SigLayout) : Bool :=
  l.params_in_block || (c.indent_style = .visual && l.one_line_budget = 0) || l.closing_paren_overflow

/-- The whole signature up to and excluding ` {` / `;` is one line. -/
def sig_one_line (c : Cfg) (s : Sig) : Bool :=
  let l := sig_layout c s
  !l.multiline_before_ret && !l.ret_should_indent && s.preds = 0

/-- the width of that line without the indentation -/
def sig_one_line_width (s : Sig) : Nat :=
  s.prefix_len + 1 + params_total s.params + 1 + (if s.ret = 0 then 0 else 1 + s.ret)

/-- `last_line_width(&result)` of the finished signature where the model knows it: one line (the
text without its indentation), or parameters in a block (the last line `) -> T` WITH its
indentation: `last_line_width` of a multi-line text). -/
def sig_last_line_width (c : Cfg) (s : Sig) : Option Nat :=
  let l := sig_layout c s
  if s.preds ≠ 0 || l.ret_should_indent then none
  else if l.params_in_block then some (s.indent.width + 1 + (if s.ret = 0 then 0 else 1 + s.ret))
  else if l.multiline_before_ret then none
  else some (sig_one_line_width s)

/-- `rewrite_fn_before_block` (items.rs:421-440): the opening brace goes to the next line.
`last_line_width` is that of the signature (without indentation when it is one line),
`shape_width` the width of the visitor's shape. -/
def brace_on_next_line (c : Cfg) (preds : Nat) (force_newline_brace : Bool) (last_line_width shape_width : Nat) :
    Bool :=
  c.brace_style = .alwaysNextLine || force_newline_brace || decide (last_line_width + 2 > shape_width) ||
    newline_for_brace c preds = .nextLine

/-! ## where clauses -/

/-- `rewrite_where_clause` (items.rs:3177-3192), visual style, AS PINNED: `max_width - offset.width()`
unchecked. -/
def where_visual_budget_pinned (c : Cfg) (shape : Shape) : Except Panic Nat :=
  let extra_indent := Indent.new c.tab_spaces 0
  let offset := (shape.indent.add extra_indent).add_usize 6
  usub c.max_width offset.width

/-- the same on the current tree (`context.budget(offset.width())`) -/
def where_visual_budget (c : Cfg) (shape : Shape) : Nat :=
  let extra_indent := Indent.new c.tab_spaces 0
  let offset := (shape.indent.add extra_indent).add_usize 6
  budget c offset.width

/-- `end_length` (items.rs:3229-3241); `terminator`: 0 = `{`, 1 = `=`, else its length (`;` is 1) -/
def where_end_length (c : Cfg) (terminator : Nat) (terminator_len : Nat) : Nat :=
  if terminator = 0 then
    match c.brace_style with
    | .alwaysNextLine | .sameLineWhere => 0
    | .preferSameLine => 2
  else if terminator = 1 then 2
  else terminator_len

/-- the visual-style where clause goes on a new line (items.rs:3242-3245) -/
def where_visual_on_new_line (shape : Shape) (on_new_line preds_multiline : Bool) (preds_len end_length : Nat) :
    Bool :=
  on_new_line || preds_multiline || decide (shape.indent.width + 7 + preds_len + end_length > shape.width)

/-- `clause_shape` of `rewrite_where_clause_rfc_style` / `rewrite_where_keyword` (items.rs:3024, 3065) -/
def where_clause_shape (c : Cfg) (shape : Shape) : Except ExceedsMaxWidthError Shape :=
  match ((shape.block).with_max_width c.shape).block_left c.tab_spaces with
  | .error e => .error e
  | .ok s => s.sub_width 1

/-- block style: predicates behind `where` on its line (items.rs:3043-3050) -/
def where_rfc_single_line (shape : Shape) (allow_single_line force_single_line preds_multiline : Bool)
    (preds_len : Nat) : Bool :=
  (allow_single_line && !preds_multiline && decide (6 + preds_len ≤ shape.width)) || force_single_line

/-- `format_trait` (items.rs:1240) AS PINNED: `offset.block_indent + tab_spaces - 1` -/
def trait_where_width_pinned (c : Cfg) (offset : Indent) : Except Panic Nat :=
  usub (offset.block_indent + c.tab_spaces) 1

def trait_where_width (c : Cfg) (offset : Indent) : Nat :=
  saturatingSub (offset.block_indent + c.tab_spaces) 1

/-- `format_tuple_struct` (items.rs:1670) AS PINNED: `offset.block_only() + (tab_spaces - 1)` -/
def tuple_struct_where_indent_pinned (c : Cfg) (offset : Indent) : Except Panic Indent :=
  match usub c.tab_spaces 1 with
  | .error e => .error e
  | .ok d => .ok (offset.block_only.add_usize d)

def tuple_struct_where_indent (c : Cfg) (offset : Indent) : Indent :=
  offset.block_only.add_usize (saturatingSub c.tab_spaces 1)

/-! ## `ControlFlow::rewrite_cond` (expr.rs:969) for a condition without pattern that is one identifier -/

structure CondBudget where
  constr_shape : Shape
  /-- keyword, label and one blank -/
  offset : Nat
  one_line_budget : Nat
  deriving Repr, DecidableEq

/-- `constr_shape`, `offset`, `one_line_budget` (expr.rs:975-1006).  `keyword_len`: 2 `if`, 5 `while`,
3 `for`; `label_len`: width of `'a: ` or 0. -/
def cond_budget (c : Cfg) (shape : Shape) (nested_if : Bool) (keyword_len label_len : Nat) :
    Except ExceedsMaxWidthError CondBudget :=
  let new_width := budget c shape.used_width
  let fresh_shape : Shape := { shape with width := new_width }
  let constr := if nested_if then fresh_shape.offset_left 7 else .ok fresh_shape
  match constr with
  | .error e => .error e
  | .ok constr_shape =>
    let offset := keyword_len + label_len + 1
    let brace_overhead := if c.control_brace_style ≠ .alwaysNextLine then 2 else 0
    .ok ⟨constr_shape, offset,
         saturatingSub c.max_width (constr_shape.used_width + offset + brace_overhead)⟩

/-- the same with the subtraction unchecked (what a careless edit would write): only used to state
what the saturation buys -/
def cond_one_line_budget_unchecked (c : Cfg) (b : CondBudget) : Except Panic Nat :=
  let brace_overhead := if c.control_brace_style ≠ .alwaysNextLine then 2 else 0
  usub c.max_width (b.constr_shape.used_width + b.offset + brace_overhead)

/-- A single identifier of width `w` under `shape` (types.rs `rewrite_segment`: `offset_left` /
`shrink_left` by the identifier): fits or `Err`. -/
def ident_fits (w : Nat) (shape : Shape) : Bool := decide (w ≤ shape.width)

structure CondOut where
  /-- the condition went to the next line (only behind `while`) -/
  cond_on_next_line : Bool
  /-- the separator in front of the block is the alternative one (brace on its own line) -/
  newline_brace : Bool
  used_width : Nat
  deriving Repr, DecidableEq

/-- `rewrite_cond` for `if x` (`is_if`) / `while x`, `x` an identifier of width `cond_len`, no label,
no comments; `none` is `Err`. -/
def rewrite_cond (c : Cfg) (shape : Shape) (nested_if is_if : Bool) (cond_len : Nat) : Option CondOut :=
  let keyword_len := if is_if then 2 else 5
  match cond_budget c shape nested_if keyword_len 0 with
  | .error _ => none
  | .ok b =>
    let always_next := c.control_brace_style = .alwaysNextLine
    let same_line : Option CondOut :=
      some ⟨false, always_next || decide (cond_len > b.one_line_budget), keyword_len + cond_len + 2⟩
    match b.constr_shape.offset_left_opt b.offset with
    | none => none
    | some cond_shape =>
      if ident_fits cond_len cond_shape then same_line
      else if is_if then none
      else
        let nested_shape := (b.constr_shape.block_indent c.tab_spaces).with_max_width c.shape
        if ident_fits cond_len nested_shape then
          -- "\n" + indent + identifier: multi-line, its last line is not extendable
          some ⟨true, true, nested_shape.indent.width + cond_len⟩
        else none

/-! ## `rewrite_assign_rhs_expr` / `choose_rhs` (expr.rs:2196, 2274) -/

/-- `orig_shape`: `lhs_last_line_width` is `last_line_width(lhs)`, `lhs_multiline` whether `lhs` holds
a line break. -/
def rhs_orig_shape (shape : Shape) (lhs_last_line_width : Nat) (lhs_multiline : Bool) : Shape :=
  let llw := saturatingSub lhs_last_line_width (if lhs_multiline then shape.indent.width else 0)
  (shape.offset_left_opt (llw + 1)).getD { shape with width := 0, offset := shape.offset + llw + 1 }

/-- expr.rs:2330 -/
def shape_from_rhs_tactic (c : Cfg) (shape : Shape) (t : RhsTactics) : Option Shape :=
  match t with
  | .forceNextLineWithoutIndent => (shape.with_max_width c.shape).sub_width_opt shape.indent.width
  | .default | .allowOverflow =>
    (Shape.indented (shape.indent.blockIndent c.shape) c.shape).sub_width_opt (shape.rhs_overhead c.shape)

inductive RhsPlace where
  | empty | sameLine | nextLine | overflow | err
  deriving Repr, DecidableEq

/-- `choose_rhs` when every answer of the right-hand side is one line without comments: `orig` /
`new` are the widths it renders to under `shape` / the next-line shape (`none`: `Err`);
`has_inf`: the rewrite under `infinite_width` succeeds. -/
def choose_rhs (c : Cfg) (shape : Shape) (t : RhsTactics) (orig new : Option Nat) (has_inf : Bool) :
    RhsPlace :=
  match orig with
  | some 0 => .empty
  | _ =>
    if (match orig with | some w => decide (w ≤ shape.width) | none => false) then .sameLine
    else
      match shape_from_rhs_tactic c shape t with
      | none => .err
      | some new_shape =>
        match orig, new with
        | some _, some n =>
          -- `filtered_str_fits` of a one-line text: its width against `new_shape.width`;
          -- `prefer_next_line`: a one-line `new_rhs` is always preferred
          if !(n = 0) && decide (n > new_shape.width) then .sameLine else .nextLine
        | none, some _ => .nextLine
        | none, none => if t = .allowOverflow then (if has_inf then .overflow else .err) else .err
        | some _, none => .sameLine

end RF.Budgets
