import RF.Lemmas.TokEquiv
namespace RF.Tok

/-! ## literal spelling keeps the value -/

theorem upperAF {c : Char} (h : ('A' ≤ c && c ≤ 'F') = true) :
    c = 'A' ∨ c = 'B' ∨ c = 'C' ∨ c = 'D' ∨ c = 'E' ∨ c = 'F' := by
  simp only [Bool.and_eq_true, decide_eq_true_eq] at h
  have h1 : 65 ≤ c.toNat := h.1
  have h2 : c.toNat ≤ 70 := h.2
  have hc : c = Char.ofNat c.toNat := (Char.ofNat_toNat c).symm
  have : c.toNat = 65 ∨ c.toNat = 66 ∨ c.toNat = 67 ∨ c.toNat = 68 ∨ c.toNat = 69 ∨ c.toNat = 70 := by omega
  rcases this with h | h | h | h | h | h <;> rw [h] at hc <;> simp [hc]

/-- what `lowerHex` keeps: the digit value, being a hex digit, being `_` -/
theorem lowerHex_keeps (c : Char) :
    digitVal (lowerHex c) = digitVal c ∧ isHexDigit (lowerHex c) = isHexDigit c ∧ (lowerHex c == '_') = (c == '_') := by
  unfold lowerHex
  split
  · rename_i h
    rcases upperAF h with rfl | rfl | rfl | rfl | rfl | rfl <;> decide
  · exact ⟨rfl, rfl, rfl⟩

def hexP (c : Char) : Bool := (isHexDigit c && digitVal c < 16) || c == '_'

theorem hexP_lower (c : Char) : hexP (lowerHex c) = hexP c := by
  obtain ⟨h1, h2, h3⟩ := lowerHex_keeps c
  simp [hexP, h1, h2, h3]

theorem isDigit_bounds {c : Char} (h : isDigit c = true) : 48 ≤ c.toNat ∧ c.toNat ≤ 57 := by
  simp only [isDigit, Bool.and_eq_true, decide_eq_true_eq] at h
  exact ⟨h.1, h.2⟩

theorem hexDigit_lt16 (c : Char) (h : isHexDigit c = true) : digitVal c < 16 := by
  unfold isHexDigit at h
  unfold digitVal
  by_cases hd : isDigit c = true
  · have := isDigit_bounds hd
    simp only [hd, if_true]; omega
  · simp only [hd, Bool.false_eq_true, if_false]
    by_cases hl : ('a' ≤ c && c ≤ 'f') = true
    · simp only [hl, if_true]
      simp only [Bool.and_eq_true, decide_eq_true_eq] at hl
      have h1 : 97 ≤ c.toNat := hl.1
      have h2 : c.toNat ≤ 102 := hl.2
      omega
    · simp only [hl, Bool.false_eq_true, if_false]
      by_cases hu : ('A' ≤ c && c ≤ 'F') = true
      · simp only [hu, if_true]
        simp only [Bool.and_eq_true, decide_eq_true_eq] at hu
        have h1 : 65 ≤ c.toNat := hu.1
        have h2 : c.toNat ≤ 70 := hu.2
        omega
      · simp [hd, hl, hu] at h

theorem hexP_eq : hexP = (fun c => isHexDigit c || c == '_') := by
  funext c
  unfold hexP
  by_cases h : isHexDigit c = true
  · simp [h, hexDigit_lt16 c h]
  · simp [h]

theorem takeWhile_canon (r : List Char) :
    ((r.takeWhile hexP).map lowerHex ++ r.dropWhile hexP).takeWhile hexP = (r.takeWhile hexP).map lowerHex := by
  induction r with
  | nil => rfl
  | cons c r ih =>
    by_cases h : hexP c = true
    · simp only [List.takeWhile_cons, List.dropWhile_cons, h, if_true, List.map_cons, List.cons_append, hexP_lower, ih]
    · have h' : hexP c = false := by simpa using h
      simp [h']

theorem foldl_lower (r : List Char) : ∀ a : Nat,
    ((r.map lowerHex).filter (· != '_')).foldl (fun a c => a * 16 + digitVal c) a =
      (r.filter (· != '_')).foldl (fun a c => a * 16 + digitVal c) a := by
  induction r with
  | nil => intro a; rfl
  | cons x xs ih =>
    intro a
    obtain ⟨h1, _, h3⟩ := lowerHex_keeps x
    have hne : (lowerHex x != '_') = (x != '_') := by simp [bne, h3]
    simp only [List.map_cons, List.filter_cons, hne]
    split
    · simp only [List.foldl_cons, h1]; exact ih _
    · exact ih a

/-- `hex_literal_case` in the validator: the canonical spelling has the same value (and, the rest of
the text being copied, the same suffix), so two literals with equal canonical spellings have equal
values. -/
theorem intValue_hexCanon (cs : List Char) : intValue (hexCanon cs) = intValue cs := by
  unfold hexCanon
  split
  · rename_i r
    simp only [List.cons_append, intValue, digitsValue]
    have e : (fun c => (isHexDigit c && decide (digitVal c < 16)) || c == '_') = hexP := rfl
    rw [e]
    have e2 : (fun c => isHexDigit c || c == '_') = hexP := hexP_eq.symm
    rw [e2, takeWhile_canon, foldl_lower]
  · rfl

theorem hexCanon_eq_value {a b : List Char} (h : hexCanon a = hexCanon b) : intValue a = intValue b := by
  rw [← intValue_hexCanon a, ← intValue_hexCanon b, h]

/-- `float_literal_trailing_zero` in the validator: the canonical spelling is the text itself, or the
text without a fractional part `.000` that holds no other digit than `0` (`1.0e5` ~ `1e5`, `1.` ~ `1`). -/
theorem floatCanon_shape (cs : List Char) :
    floatCanon cs = cs ∨
    ∃ ip fp rest, cs = ip ++ '.' :: (fp ++ rest) ∧ fp.all (fun c => c == '0' || c == '_') = true ∧
      floatCanon cs = ip ++ rest := by
  unfold floatCanon
  split
  · exact Or.inl rfl
  · exact Or.inl rfl
  · exact Or.inl rfl
  · simp only []
    split
    · rename_i r hr
      split
      · rename_i hz
        refine Or.inr ⟨cs.takeWhile isDecDigit_, r.takeWhile isDecDigit_, r.dropWhile isDecDigit_, ?_, hz, rfl⟩
        rw [List.takeWhile_append_dropWhile, ← hr, List.takeWhile_append_dropWhile]
      · exact Or.inl rfl
    · exact Or.inl rfl

end RF.Tok
