import RF.Model.Modules
/-!
# Macro-based module discovery (`cfg_if!` / `cfg_match!`) inside the C13 model

`src/modules.rs` finds `mod` items that the parser never sees as items, because they sit in the token
stream of a `cfg_if! { .. }` / `cfg_match! { .. }` call:

* `is_cfg_if` / `is_cfg_match` (modules.rs:597-625) pick the macro calls out of an item list
  (`visit_mod_from_ast`, `visit_mod_outside_ast`);
* `CfgIfVisitor` / `CfgMatchVisitor` (modules/visitor.rs) hand the call to
  `parse_cfg_if` / `parse_cfg_match` (parse/macros/cfg_if.rs, cfg_match.rs), which walk the
  `if #[cfg(..)] { .. } else if #[cfg(..)] { .. } else { .. }` chain (resp. the `cfg(..) => { .. }` arms),
  parse the content of **every** block with `parse_item` and keep the items whose kind is
  `ItemKind::Mod`; every other item — a nested `cfg_if!` call included — is dropped; the first block
  whose content does not parse, or the first deviation from the chain syntax, makes the function
  return `Err`, and **everything collected so far is discarded** (the visitor only logs the error);
* `visit_cfg_if` / `visit_cfg_match` (modules.rs:151-187) call `visit_sub_mod` on each collected item
  under the *current* directory; `peek_sub_mod` looks at the item's own attributes (`#[path]`,
  `#[rustfmt::skip]`), so those are honoured exactly as on a sibling of the macro call; an inline
  `mod y { .. }` found in a block is walked by `visit_mod_outside_ast`, which looks for macro calls again.

This file has the surface syntax (`SItem`: declarations, macro calls, other items, unparsable tokens),
the code's discovery as a literal walk (`visitItemsS` …) and as a list (`discItems`), and the
**specification** `expItems`: what rustc sees after macro expansion, taken over all `cfg` valuations.

## The specification used, and why

rustc never resolves a `mod x;` inside `cfg_if!` *before* expansion; after expansion the items of
the branch selected by the active `cfg`s are ordinary items of the enclosing module (same file, same
module directory), so `mod x;` in a branch resolves exactly like a sibling of the macro call, and a
nested `cfg_if!` is expanded in turn.  The unselected branches are never parsed as items (the macro
matches them as token trees).  A formatter does not know the `cfg` valuation, so the files of the
crate are the union over the branches: `expItems` lists, for a call whose chain is well formed for
the macro (`MacShape.chain`), the `mod` items of every branch whose tokens parse as items, nested
calls expanded recursively.  A branch that does not parse contributes nothing (selecting it is a
compile error: no crate), and does not take the other branches with it.
-/
namespace RF.Modules

/-- The `if / else if / else` skeleton of a `cfg_if!` body (the arm skeleton of a `cfg_match!` body).
`chain`: well formed for the macro itself and accepted by rustfmt's parser;
`loose`: accepted by `parse_cfg_if_inner` but not by the macro (e.g. `.. else { } else { }`: after an
`else` without `if` the parser simply expects another block; for `cfg_match!`: a `_` arm that is
not the last one);
`broken`: rejected by rustfmt's parser (`Expected \`if\``, `Failed to parse attributes`, `Expected an
opening brace`, `Expected a fat arrow`, expression-position `cfg_match! {{ .. }}`). -/
inductive MacShape where
  | chain | loose | broken
  deriving DecidableEq, Repr

/-- An item as the resolver meets it in a file, in an inline module or in a block of a macro body. -/
inductive SItem where
  /-- `mod name;` -/
  | ext (name : Comp) (attrs : List Attr)
  /-- `mod name { items }` -/
  | inline (name : Comp) (attrs : List Attr) (items : List SItem)
  /-- `cfg_if! { if #[cfg(..)] { b₀ } else if #[cfg(..)] { b₁ } .. else { bₙ } }` (also `cfg_if::cfg_if!`) -/
  | cfgIf (shape : MacShape) (branches : List (List SItem))
  /-- `cfg_match! { cfg(..) => { a₀ } .. _ => { aₙ } }` (also `std::cfg_match!`) -/
  | cfgMatch (shape : MacShape) (arms : List (List SItem))
  /-- any other item (`fn`, `use`, another macro call, ..): parses, is not a module -/
  | other
  /-- tokens `parse_item` rejects (`Err`); only meaningful inside a macro block -/
  | junk

/-! ## `parse_item` on the content of a block -/

mutual
/-- Does `parse_item` accept the item?  A macro call always does (its body is a token tree); an inline
module does iff its content does. -/
def itemParses : SItem → Bool
  | .ext _ _ => true
  | .inline _ _ items => itemsParse items
  | .cfgIf _ _ => true
  | .cfgMatch _ _ => true
  | .other => true
  | .junk => false
def itemsParse : List SItem → Bool
  | [] => true
  | it :: rest => itemParses it && itemsParse rest
end

def branchesParse : List (List SItem) → Bool
  | [] => true
  | b :: bs => itemsParse b && branchesParse bs

/-- `if let ast::ItemKind::Mod(..) = item.kind` -/
def isModItem : SItem → Bool
  | .ext _ _ => true
  | .inline _ _ _ => true
  | _ => false

/-- Is the macro call accepted by `parse_cfg_if_inner` / `parse_cfg_match_inner` (result `Ok`)? -/
def macroAccepted (shape : MacShape) (branches : List (List SItem)) : Bool :=
  decide (shape ≠ .broken) && branchesParse branches

/-- parse/macros/cfg_if.rs:22-97 `parse_cfg_if_inner` and cfg_match.rs:22-80 `parse_cfg_match_inner`:
`Ok(items)` with the `mod` items of all blocks in source order, or `Err` (nothing). -/
def parseMacroBody (shape : MacShape) (branches : List (List SItem)) : Option (List SItem) :=
  if macroAccepted shape branches then some (branches.flatten.filter isModItem) else none

/-! ## The walk of the code over surface items -/

mutual
/-- modules.rs:190-249 the item loop of `visit_mod_from_ast` / `visit_mod_outside_ast`. -/
def visitItemsS (fs : FS) (rec : RecFn) (cur : FileName) : St → List SItem → Except ErrKind St
  | st, [] => .ok st
  | st, it :: rest =>
    match visitItemS fs rec cur st it with
    | .error e => .error e
    | .ok st' => visitItemsS fs rec cur st' rest

/-- One item: a `mod` goes to `visit_sub_mod` (its inline form walks its items with this very loop:
`visit_sub_mod_after_directory_update` → `visit_mod_outside_ast` / `visit_mod_from_ast`), a
`cfg_if!` / `cfg_match!` call to `visit_cfg_if` / `visit_cfg_match`, anything else is passed over. -/
def visitItemS (fs : FS) (rec : RecFn) (cur : FileName) : St → SItem → Except ErrKind St
  | st, .ext name attrs => visitSubModW fs rec cur st (.ext name attrs)
  | st, .inline name attrs items =>
    let oldDirectory := st.dir
    if hasSkip attrs then .ok st
    else
      match visitItemsS fs rec cur
          { st with dir := pushInlineModDirectory true fs st.dir name attrs } items with
      | .error e => .error e
      | .ok st2 => .ok { st2 with dir := oldDirectory }
  | st, .cfgIf shape branches =>
    -- `visitor.visit_item(&item)`; on `Err` the visitor has no mods
    if macroAccepted shape branches then visitBranchesS fs rec cur st branches else .ok st
  | st, .cfgMatch shape arms =>
    if macroAccepted shape arms then visitBranchesS fs rec cur st arms else .ok st
  | st, .other => .ok st
  | st, .junk => .ok st

/-- modules.rs:151-168 the loop `for module_item in visitor.mods()` of `visit_cfg_if`, block by block. -/
def visitBranchesS (fs : FS) (rec : RecFn) (cur : FileName) :
    St → List (List SItem) → Except ErrKind St
  | st, [] => .ok st
  | st, b :: bs =>
    match visitBranchItemsS fs rec cur st b with
    | .error e => .error e
    | .ok st' => visitBranchesS fs rec cur st' bs

/-- The items of one block: only those of kind `Mod` were kept by the parser; each is visited by
`visit_sub_mod` under the directory of the macro call. -/
def visitBranchItemsS (fs : FS) (rec : RecFn) (cur : FileName) :
    St → List SItem → Except ErrKind St
  | st, [] => .ok st
  | st, it :: rest =>
    if isModItem it then
      match visitItemS fs rec cur st it with
      | .error e => .error e
      | .ok st' => visitBranchItemsS fs rec cur st' rest
    else visitBranchItemsS fs rec cur st rest
end

/-! ## The same as a list: what the code discovers -/

mutual
/-- The `mod` items the resolver visits for an item list, macro calls replaced by what
`parse_cfg_if` / `parse_cfg_match` collect from them. -/
def discItems : List SItem → List Decl
  | [] => []
  | it :: rest => discItem it ++ discItems rest

def discItem : SItem → List Decl
  | .ext name attrs => [.ext name attrs]
  | .inline name attrs items => [.inline name attrs (discItems items)]
  | .cfgIf shape branches => if macroAccepted shape branches then discBranches branches else []
  | .cfgMatch shape arms => if macroAccepted shape arms then discBranches arms else []
  | .other => []
  | .junk => []

def discBranches : List (List SItem) → List Decl
  | [] => []
  | b :: bs => discBranchItems b ++ discBranches bs

/-- Only `ItemKind::Mod` survives `parse_cfg_if`: a nested macro call is dropped with the rest. -/
def discBranchItems : List SItem → List Decl
  | [] => []
  | it :: rest => (if isModItem it then discItem it else []) ++ discBranchItems rest
end

/-! ## Specification: rustc after expansion, over all `cfg` valuations -/

mutual
def expItems : List SItem → List Decl
  | [] => []
  | it :: rest => expItem it ++ expItems rest

def expItem : SItem → List Decl
  | .ext name attrs => [.ext name attrs]
  | .inline name attrs items => [.inline name attrs (expItems items)]
  | .cfgIf shape branches => if shape = .chain then expBranches branches else []
  | .cfgMatch shape arms => if shape = .chain then expBranches arms else []
  | .other => []
  | .junk => []

/-- A branch whose tokens parse as items contributes its items (nested calls expanded in turn);
one that does not parse contributes nothing and leaves the others alone. -/
def expBranches : List (List SItem) → List Decl
  | [] => []
  | b :: bs => (if itemsParse b then expItems b else []) ++ expBranches bs
end

/-! ## The fragment in which code and specification coincide -/

def isMacroItem : SItem → Bool
  | .cfgIf _ _ => true
  | .cfgMatch _ _ => true
  | _ => false

/-- No macro call directly among the items (those of a block: a *nested* call). -/
def noMacroItems : List SItem → Bool
  | [] => true
  | it :: rest => !isMacroItem it && noMacroItems rest

mutual
/-- Every macro call is a well-formed chain, every block parses, no block contains a macro call
directly (inside an inline module of a block it may). -/
def tameItems : List SItem → Bool
  | [] => true
  | it :: rest => tameItem it && tameItems rest

def tameItem : SItem → Bool
  | .ext _ _ => true
  | .inline _ _ items => tameItems items
  | .cfgIf shape branches => decide (shape = .chain) && tameBranches branches
  | .cfgMatch shape arms => decide (shape = .chain) && tameBranches arms
  | .other => true
  | .junk => true

def tameBranches : List (List SItem) → Bool
  | [] => true
  | b :: bs => (itemsParse b && noMacroItems b && tameItems b) && tameBranches bs
end

/-! ## Trees on disk with surface items -/

inductive SNode where
  | file (skip generated : Bool) (items : List SItem)
  | dir

abbrev SFS := List (Path × SNode)

def lowerNode (f : List SItem → List Decl) : SNode → Node
  | .file s g items => .file s g (f items)
  | .dir => .dir

/-- The tree as the resolver sees it: each file with the `mod` items the code discovers in it
(discovery depends on the file's text only, so it can be done when the file is parsed;
`visitItemsS_eq` shows that the interleaved walk of the code is the walk of this list). -/
def codeFS (sfs : SFS) : FS := sfs.map fun e => (e.1, lowerNode discItems e.2)

/-- The tree as rustc sees it after expansion (union over the `cfg` valuations). -/
def specFS (sfs : SFS) : FS := sfs.map fun e => (e.1, lowerNode expItems e.2)

def nodeTame : SNode → Bool
  | .file _ _ items => tameItems items
  | .dir => true

def sfsTame (sfs : SFS) : Bool := sfs.all fun e => nodeTame e.2

/-- modules.rs:121-148 `visit_crate` on a root file with surface items: the literal item loop
(`visitItemsS`) on the root, `visitFile` on the discovered lists of the files it loads. -/
def visitCrateS (sfs : SFS) (fuel : Nat) (rootName : FileName) (rootSkip : Bool)
    (rootItems : List SItem) (ownership : Ownership) (recursive : Bool) :
    Except ErrKind (List (FileName × Mod)) :=
  let fs := codeFS sfs
  let dirPath : Path := match rootName with
    | .real p => (parent p).getD []
    | .stdin => []
  let parsed0 : List Path := match rootName with
    | .real p => [p]
    | .stdin => []
  let st0 : St := ⟨⟨dirPath, ownership⟩, parsed0, []⟩
  let walked : Except ErrKind St :=
    if recursive then visitItemsS fs (visitFile fs fuel) rootName st0 rootItems else .ok st0
  match walked with
  | .error e => .error e
  | .ok st => .ok (insertReplace st.fileMap rootName ⟨discItems rootItems, rootSkip, rootName⟩)

end RF.Modules
