import RF.Lemmas.TokEquiv
namespace RF.Tok

theorem outside_outside (S S' : Tok → Bool) (h : ∀ t, S t = true → S' t = true) (ts : List Tok) :
    outside S' (outside S ts) = outside S' ts := by
  unfold outside
  rw [List.filter_filter]
  congr 1
  funext t
  cases hs : S t <;> cases hs' : S' t <;> simp_all

theorem outside_mono {S S' : Tok → Bool} (h : ∀ t, S t = true → S' t = true) {a b : List Tok}
    (hab : outside S a = outside S b) : outside S' a = outside S' b := by
  rw [← outside_outside S S' h a, ← outside_outside S S' h b, hab]

theorem hards_eq_outside (cfg : Cfg) (ts : List Tok) : hards cfg ts = outside (soft cfg) ts := rfl

theorem clsDelim_soft (cfg) (t) (h : clsDelim t = true) : soft cfg t = true := by
  simp only [clsDelim, Bool.or_eq_true] at h
  unfold soft; rcases h with h | h <;> simp [h]
theorem clsAbi_soft (cfg) (t) (h : clsAbi t = true) : soft cfg t = true := by
  simp only [clsAbi] at h; unfold soft; simp [h]
theorem clsVis_soft (cfg) (t) (h : clsVis t = true) : soft cfg t = true := by
  simp only [clsVis, Bool.or_eq_true] at h
  unfold soft; rcases h with h | h <;> simp [h]
theorem clsEmpty_soft (cfg) (t) (h : clsEmpty t = true) : soft cfg t = true := by
  simp only [clsEmpty, Bool.or_eq_true] at h
  unfold soft; rcases h with (((h | h) | h) | h) | h <;> simp [h]
theorem clsPipe_soft (cfg) (t) (h : clsPipe t = true) : soft cfg t = true := by
  simp only [clsPipe] at h; unfold soft; simp [h]
theorem clsSemi_soft (cfg) (t) (h : clsSemi t = true) : soft cfg t = true := by
  simp only [clsSemi] at h; unfold soft; simp [h]
theorem clsComma_soft (cfg) (t) (h : clsComma t = true) : soft cfg t = true := by
  simp only [clsComma] at h; unfold soft; simp [h]
theorem clsBlock_soft (cfg) (t) (h : clsBlock t = true) : soft cfg t = true := by
  simp only [clsBlock, Bool.or_eq_true] at h
  rcases h with h | h
  · exact clsDelim_soft cfg t h
  · unfold soft; simp [h]
theorem clsTry_soft (cfg : Cfg) (hc : cfg.useTry = true) (t) (h : clsTry t = true) : soft cfg t = true := by
  simp only [clsTry, Bool.or_eq_true] at h
  rcases h with ((h | h) | h) | h
  · unfold soft; simp [h, hc]
  · unfold soft; simp [h, hc]
  · unfold soft; simp [h, hc]
  · exact clsDelim_soft cfg t h

/-- the soft rules of `post` (everything but the two opt-in hard rewrites) -/
def postSoft (cfg : Cfg) (ts : List Tok) : List Tok :=
  let ts := runRule ruleVec ts
  let ts := runRule ruleAbi ts
  let ts := runRule ruleVis ts
  let ts := whereSep false 0 ts
  let ts := runRule ruleEmpty ts
  let ts := runRule rulePipe ts
  let ts := closureSep 0 0 noTok ts
  let ts := runRule ruleSemi ts
  let ts := runRule ruleBlock ts
  let ts := runRule ruleComma ts
  let ts := onlyIf cfg.parens (runRule ruleParen) ts
  let ts := runRule ruleLitParen ts
  runRule ruleClosureParen ts

theorem post_eq (cfg : Cfg) (ts : List Tok) :
    post cfg ts = postSoft cfg (onlyIf cfg.wild wildCondense
      (onlyIf cfg.useTry (runRule ruleTry) (onlyIf cfg.fis (runRule ruleFis) ts))) := rfl

theorem runRule_hards (cfg : Cfg) {S : Tok → Bool} {f : Rule} (hf : RuleLocal S f)
    (hS : ∀ t, S t = true → soft cfg t = true) (ts : List Tok) :
    hards cfg (runRule f ts) = hards cfg ts :=
  outside_mono hS (runRule_outside S f hf ts)

theorem postSoft_hards (cfg : Cfg) (ts : List Tok) : hards cfg (postSoft cfg ts) = hards cfg ts := by
  unfold postSoft
  simp only []
  rw [runRule_hards cfg ruleClosureParen_local (clsDelim_soft cfg),
      runRule_hards cfg ruleLitParen_local (clsDelim_soft cfg)]
  have hp : ∀ x, hards cfg (onlyIf cfg.parens (runRule ruleParen) x) = hards cfg x := by
    intro x; unfold onlyIf; split
    · exact runRule_hards cfg ruleParen_local (clsDelim_soft cfg) x
    · rfl
  rw [hp, runRule_hards cfg ruleComma_local (clsComma_soft cfg),
      runRule_hards cfg ruleBlock_local (clsBlock_soft cfg),
      runRule_hards cfg ruleSemi_local (clsSemi_soft cfg),
      hards_eq_outside, outside_mono (clsComma_soft cfg) (closureSep_local _ 0 0 noTok), ← hards_eq_outside,
      runRule_hards cfg rulePipe_local (clsPipe_soft cfg),
      runRule_hards cfg ruleEmpty_local (clsEmpty_soft cfg),
      hards_eq_outside, outside_mono (clsComma_soft cfg) (whereSep_local _ false 0), ← hards_eq_outside,
      runRule_hards cfg ruleVis_local (clsVis_soft cfg),
      runRule_hards cfg ruleAbi_local (clsAbi_soft cfg),
      runRule_hards cfg ruleVec_local (clsDelim_soft cfg)]

theorem tryRule_hards (cfg : Cfg) (ts : List Tok) :
    hards cfg (onlyIf cfg.useTry (runRule ruleTry) ts) = hards cfg ts := by
  unfold onlyIf; split
  · rename_i h; exact runRule_hards cfg ruleTry_local (clsTry_soft cfg h) ts
  · rfl

/-- the two opt-in rewrites of hard tokens -/
def hardRw (cfg : Cfg) (ts : List Tok) : List Tok :=
  onlyIf cfg.wild wildCondense (onlyIf cfg.fis (runRule ruleFis) ts)

end RF.Tok
