/-!
# Model of `CharClasses` / `LineClasses` (`/repo/src/comment.rs:1189-1568`)

`CharClasses` is an iterator adaptor that tags every character of a text with a
`FullCodeCharKind` (code / comment / string …).  It is a state machine over `CharClassesStatus`
with look-ahead through `itertools::MultiPeek` (0.12.1):

  * `next()` resets the peek cursor to 0 and pops one item;
  * `peek()` returns the item under the cursor and advances the cursor **only when an item was
    there** (`None => return None` happens before `self.index += 1`).

So after the `next()` at the top of `CharClasses::next`, the k-th successful `peek()` looks at the
k-th character of the *remaining* input; in the model the look-ahead is simply the remaining list
`rest`.  Only the `'` arm peeks twice (second peek = `rest[1]`), and `is_raw_string_suffix` peeks
`count` times.

The model is literal, including the arms the source marks "Unreachable" (raw identifiers such as
`r#type` reach the one in `RawStringPrefix`).  Where the Rust code would panic
(`assert_ne!`/`assert_eq!`, or a `u32` subtraction below zero in a build with overflow checks)
`step?` returns `none`; `RF/Lemmas/CharClasses.lean` proves that this never happens when the
machine is started in `Status.normal`, which justifies the total functions `step`/`run`/`classes`
that the rest of the development uses.

Not modelled: `u32` wrap-around of `sharps + 1` / `deepness + 1` (needs 2^32 consecutive `#`
resp. nested `/*`); the counters are `Nat`.

Import-free on purpose (linked into the native driver).
-/
namespace RF.CharClasses

/-- `FullCodeCharKind` (`comment.rs:1252-1274`). -/
inductive Kind where
  | normal
  | startComment
  | inComment
  | endComment
  | startStringCommented
  | endStringCommented
  | inStringCommented
  | startString
  | endString
  | inString
  deriving DecidableEq, Repr, Inhabited

namespace Kind

/-- `FullCodeCharKind::is_comment` (`comment.rs:1277-1287`). -/
def isComment : Kind → Bool
  | startComment | inComment | endComment
  | startStringCommented | inStringCommented | endStringCommented => true
  | _ => false

/-- `FullCodeCharKind::inside_comment` (`comment.rs:1290-1298`). -/
def insideComment : Kind → Bool
  | inComment | startStringCommented | inStringCommented | endStringCommented => true
  | _ => false

/-- `FullCodeCharKind::is_string` (`comment.rs:1300-1302`). -/
def isString : Kind → Bool
  | inString | startString => true
  | _ => false

/-- `FullCodeCharKind::is_commented_string` (`comment.rs:1305-1308`). -/
def isCommentedString : Kind → Bool
  | inStringCommented | startStringCommented => true
  | _ => false

end Kind

/-- `CodeCharKind` (`comment.rs:1244-1247`). -/
inductive CodeCharKind where
  | normal
  | comment
  deriving DecidableEq, Repr, Inhabited

/-- `FullCodeCharKind::to_codecharkind` (`comment.rs:1310-1316`). -/
def Kind.toCodeCharKind (k : Kind) : CodeCharKind :=
  if k.isComment then .comment else .normal

/-- `CharClassesStatus` (`comment.rs:1215-1240`). -/
inductive Status where
  | normal
  | litString
  | litStringEscape
  | litRawString (sharps : Nat)
  | rawStringPrefix (sharps : Nat)
  | rawStringSuffix (sharps : Nat)
  | litChar
  | litCharEscape
  | blockComment (deepness : Nat)
  | stringInBlockComment (deepness : Nat)
  | blockCommentOpening (deepness : Nat)
  | blockCommentClosing (deepness : Nat)
  | lineComment
  deriving DecidableEq, Repr, Inhabited

/-- `is_raw_string_suffix` (`comment.rs:1332-1344`): the next `count` characters are all `#`.
It is called right after `next()`, so the peek cursor starts at the head of `rest`. -/
def isRawStringSuffix : List Char → Nat → Bool
  | _, 0 => true
  | c :: rest, n + 1 => if c = '#' then isRawStringSuffix rest n else false
  | [], _ + 1 => false

/-- One call of `CharClasses::next` (`comment.rs:1353-1505`) after `self.base.next()` returned
`chr`; `rest` is what is still in `self.base`.  Result: new status and the kind given to `chr`;
`none` = the Rust code panics (assertion, or `u32` subtraction overflow in a dev build). -/
def step? (st : Status) (chr : Char) (rest : List Char) : Option (Status × Kind) :=
  match st with
  -- 1358-1373
  | .litRawString sharps =>
    if chr = '"' then
      if sharps = 0 then some (.normal, .normal)
      else if isRawStringSuffix rest sharps then some (.rawStringSuffix sharps, .inString)
      else some (.litRawString sharps, .inString)
    else some (.litRawString sharps, .inString)
  -- 1374-1381
  | .rawStringPrefix sharps =>
    if chr = '#' then some (.rawStringPrefix (sharps + 1), .inString)
    else if chr = '"' then some (.litRawString sharps, .inString)
    else some (.normal, .inString) -- "Unreachable." (reached by `r#ident`)
  -- 1382-1394
  | .rawStringSuffix sharps =>
    if chr = '#' then
      if sharps = 1 then some (.normal, .normal)
      else if sharps = 0 then none -- `sharps - 1` on a `u32` 0
      else some (.rawStringSuffix (sharps - 1), .inString)
    else some (.normal, .normal) -- "Unreachable"
  -- 1395-1402
  | .litString =>
    if chr = '"' then some (.normal, .inString)
    else if chr = '\\' then some (.litStringEscape, .inString)
    else some (.litString, .inString)
  -- 1403-1406
  | .litStringEscape => some (.litString, .inString)
  -- 1407-1411
  | .litChar =>
    if chr = '\\' then some (.litCharEscape, .normal)
    else if chr = '\'' then some (.normal, .normal)
    else some (.litChar, .normal)
  -- 1412
  | .litCharEscape => some (.litChar, .normal)
  -- 1413-1452
  | .normal =>
    if chr = 'r' then
      match rest with
      | '#' :: _ => some (.rawStringPrefix 0, .inString)
      | '"' :: _ => some (.rawStringPrefix 0, .inString)
      | _ => some (.normal, .normal)
    else if chr = '"' then some (.litString, .inString)
    else if chr = '\'' then
      -- first peek: `rest[0]`; second peek: `rest[1]` (only exists if the first peek succeeded)
      match rest with
      | c1 :: rest1 =>
        if c1 = '\\' then some (.litChar, .normal)
        else match rest1 with
          | c2 :: _ => if c2 = '\'' then some (.litChar, .normal) else some (.normal, .normal)
          | [] => some (.normal, .normal)
      | [] => some (.normal, .normal)
    else if chr = '/' then
      match rest with
      | '*' :: _ => some (.blockCommentOpening 1, .startComment)
      | '/' :: _ => some (.lineComment, .startComment)
      | _ => some (.normal, .normal)
    else some (.normal, .normal)
  -- 1453-1463
  | .stringInBlockComment deepness =>
    if chr = '"' then some (.blockComment deepness, .inStringCommented)
    else if chr = '*' && rest.head? = some '/' then
      if deepness = 0 then none -- `deepness - 1` on a `u32` 0
      else some (.blockCommentClosing (deepness - 1), .inComment)
    else some (.stringInBlockComment deepness, .inStringCommented)
  -- 1464-1477
  | .blockComment deepness =>
    if deepness = 0 then none -- assert_ne!(deepness, 0)
    else
      match rest with
      | next :: _ =>
        if next = '/' && chr = '*' then some (.blockCommentClosing (deepness - 1), .inComment)
        else if next = '*' && chr = '/' then some (.blockCommentOpening (deepness + 1), .inComment)
        else if chr = '"' then some (.stringInBlockComment deepness, .inComment)
        else some (.blockComment deepness, .inComment)
      | [] =>
        if chr = '"' then some (.stringInBlockComment deepness, .inComment)
        else some (.blockComment deepness, .inComment)
  -- 1478-1482
  | .blockCommentOpening deepness =>
    if chr = '*' then some (.blockComment deepness, .inComment)
    else none -- assert_eq!(chr, '*')
  -- 1483-1492
  | .blockCommentClosing deepness =>
    if chr = '/' then
      if deepness = 0 then some (.normal, .endComment)
      else some (.blockComment deepness, .inComment)
    else none -- assert_eq!(chr, '/')
  -- 1493-1502
  | .lineComment =>
    if chr = '\n' then some (.normal, .endComment)
    else some (.lineComment, .inComment)

/-- The whole iterator run from status `st`, with panics: tagged characters and final status. -/
def run? : Status → List Char → Option (List (Kind × Char) × Status)
  | st, [] => some ([], st)
  | st, c :: rest =>
    match step? st c rest with
    | none => none
    | some (st', k) =>
      match run? st' rest with
      | none => none
      | some (out, fin) => some ((k, c) :: out, fin)

/-- `CharClasses::new(s.chars()).collect()`, `none` on panic. -/
def classes? (s : List Char) : Option (List (Kind × Char)) :=
  (run? .normal s).map (·.1)

/-- Total version of `step?`; the value on the panic arms is irrelevant
(`RF.Lemmas.CharClasses.run?_normal`: they are not reached from `Status.normal`). -/
def step (st : Status) (chr : Char) (rest : List Char) : Status × Kind :=
  (step? st chr rest).getD (.normal, .normal)

/-- Tagged characters from status `st`. -/
def run : Status → List Char → List (Kind × Char)
  | _, [] => []
  | st, c :: rest => ((step st c rest).2, c) :: run (step st c rest).1 rest

/-- Status after the whole input (`iter.status` once the iterator is exhausted;
`find_comment_end` reads it, `comment.rs:1177`). -/
def endStatus : Status → List Char → Status
  | st, [] => st
  | st, c :: rest => endStatus (step st c rest).1 rest

/-- `CharClasses::new(s.chars())` collected. -/
def classes (s : List Char) : List (Kind × Char) := run .normal s

/-! ## `LineClasses` (`comment.rs:1510-1568`)

Defined over an already tagged list, so it can be used with any classifier. -/

/-- The `match (start_kind, kind)` at the `'\n'` of a line (`comment.rs:1541-1555`). -/
def lineEndKind (startKind kind : Kind) : Kind :=
  match startKind, kind with
  | .normal, .inString => .startString
  | .inString, .normal => .endString
  | .inComment, .inStringCommented => .startStringCommented
  | .inStringCommented, .inComment => .endStringCommented
  | _, _ => kind

/-- "Workaround for CRLF newline" (`comment.rs:1562-1564`): drop one trailing `\r`. -/
def popCr (line : List Char) : List Char :=
  if line.getLast? = some '\r' then line.dropLast else line

/-- Body of `LineClasses::next`, continued over the following calls.  `start` is `start_kind`,
`acc` the `line` string so far, `last` the current `self.kind`. -/
def linesGo (start : Kind) : List Char → Kind → List (Kind × Char) → List (Kind × List Char)
  | acc, last, [] => [(last, popCr acc)]
  | acc, _, (k, c) :: rest =>
    if c = '\n' then
      (lineEndKind start k, popCr acc) ::
        (match rest with
         | [] => []
         | (k', _) :: _ => linesGo k' [] k' rest)
    else linesGo start (acc ++ [c]) k rest

/-- `LineClasses` over a tagged text: each line (without its `\n` and one `\r` before it) with
the kind of its last character (combined with the kind of its first at a `\n`).  A final `\n`
does not open another line. -/
def lineClassesOf : List (Kind × Char) → List (Kind × List Char)
  | [] => []
  | (k, c) :: rest => linesGo k [] k ((k, c) :: rest)

/-- `LineClasses::new(s).collect()`. -/
def lineClasses (s : List Char) : List (Kind × List Char) := lineClassesOf (classes s)

end RF.CharClasses
