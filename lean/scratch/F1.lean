import RF.Lemmas.TokEquiv
namespace RF.Tok

/-! ## `use_field_init_shorthand`: the precise invariant of `ruleFis` -/

/-- drop an identifier that repeats the token before it (`prev`: that token) -/
def squash : Tok → List Tok → List Tok
  | _, [] => []
  | p, t :: ts => if t.cls == ['i'] && t == p then squash p ts else t :: squash t ts

def FramePlain (fr : Frame) : Prop := fr.close = none ∧ fr.commaAfter = false ∧ fr.skipComma = false

/-- `ruleFis` fires on the current token (it does not look at `enc` / `lo`) -/
def fisDrops (p2 p1 t : Tok) (rest : List Tok) : Bool := (ruleFis 0 noTok p2 p1 t rest).isSome

theorem ruleFis_indep (enc : Nat) (lo p2 p1 t : Tok) (rest : List Tok) :
    ruleFis enc lo p2 p1 t rest = ruleFis 0 noTok p2 p1 t rest := rfl

theorem ruleFis_some {p2 p1 t : Tok} {rest : List Tok} {a : Act} (h : ruleFis 0 noTok p2 p1 t rest = some a) :
    a = { out := [] } ∧ (t.isP ':' = true ∨ (t.cls = ['i'] ∧ p1.isP ':' = true ∧ p2 = t)) := by
  unfold ruleFis at h
  rule_cases h
  all_goals (simp only [drop_, Option.some.injEq] at h; subst h; refine ⟨rfl, ?_⟩; simp_all)

theorem ruleFis_delim {p2 p1 t : Tok} {rest : List Tok} (h : t.isOpen = true ∨ t.isClose = true) :
    ruleFis 0 noTok p2 p1 t rest = none := by
  cases hr : ruleFis 0 noTok p2 p1 t rest with
  | none => rfl
  | some a =>
    obtain ⟨_, h2⟩ := ruleFis_some hr
    obtain ⟨cls, text⟩ := t
    simp only [Tok.isOpen, Tok.isClose, Tok.isP, beq_iff_eq, Bool.and_eq_true] at h h2
    rcases h with h | h <;> rcases h2 with h2 | h2 <;> simp_all

theorem bpass_fis_step (p2 p1 lo t : Tok) (st : List Frame) (ts : List Tok) (hst : ∀ fr ∈ st, FramePlain fr) :
    ∃ lo' st', (∀ fr ∈ st', FramePlain fr) ∧
      bpass ruleFis p2 p1 lo false st (t :: ts) =
        (if fisDrops p2 p1 t ts then [] else [t]) ++ bpass ruleFis p1 t lo' false st' ts := by
  conv => enter [1, lo', 1, st', 2, 1]; unfold bpass
  simp only [Bool.false_and, Bool.false_eq_true, if_false]
  by_cases ho : t.isOpen = true
  · simp only [ho, if_true, ruleFis_indep, ruleFis_delim (Or.inl ho), fisDrops, Option.isSome_none, Bool.false_eq_true, if_false]
    refine ⟨t, _ :: st, ?_, rfl⟩
    intro fr hfr
    simp only [List.mem_cons] at hfr
    rcases hfr with rfl | hfr
    · exact ⟨rfl, rfl, rfl⟩
    · exact hst fr hfr
  · simp only [ho, Bool.false_eq_true, if_false]
    by_cases hc : t.isClose = true
    · simp only [hc, if_true, fisDrops, ruleFis_delim (Or.inr hc), Option.isSome_none, Bool.false_eq_true, if_false]
      cases st with
      | nil => exact ⟨t, [], by simp, rfl⟩
      | cons fr st' =>
        obtain ⟨h1, h2, h3⟩ := hst fr (List.mem_cons_self)
        refine ⟨t, st', fun fr' h => hst fr' (List.mem_cons_of_mem _ h), ?_⟩
        simp [closeOut, h1, h2, h3, lastOf]
    · simp only [hc, Bool.false_eq_true, if_false, ruleFis_indep]
      cases hfd : fisDrops p2 p1 t ts
      · have hr : ruleFis 0 noTok p2 p1 t ts = none := by
          unfold fisDrops at hfd
          cases h : ruleFis 0 noTok p2 p1 t ts with
          | none => rfl
          | some a => rw [h] at hfd; cases hfd
        simp only [hr, Bool.false_eq_true, if_false]
        exact ⟨t, st, hst, by simp⟩
      · obtain ⟨a, hr⟩ : ∃ a, ruleFis 0 noTok p2 p1 t ts = some a := by
          unfold fisDrops at hfd
          exact Option.isSome_iff_exists.1 hfd
        obtain ⟨ha, _⟩ := ruleFis_some hr
        subst ha
        simp only [hr, if_true]
        exact ⟨lo, st, hst, by simp [lastOf]⟩

/-- the squash state `q` is the last token outside `S` seen so far, as far as `p1` / `p2` tell -/
structure FisInv (S : Tok → Bool) (q p2 p1 : Tok) : Prop where
  left : S p1 = false → q = p1
  right : S p1 = true → S p2 = false → q = p2

theorem bpass_fis_squash (S : Tok → Bool) (hS : ∀ t : Tok, t.isP ':' = true → S t = true) :
    ∀ (ts : List Tok) (p2 p1 lo : Tok) (st : List Frame) (q : Tok),
      (∀ fr ∈ st, FramePlain fr) → FisInv S q p2 p1 →
      squash q (outside S (bpass ruleFis p2 p1 lo false st ts)) = squash q (outside S ts) := by
  intro ts
  induction ts with
  | nil => intros; simp [bpass]
  | cons t ts ih =>
    intro p2 p1 lo st q hst hinv
    obtain ⟨lo', st', hst', heq⟩ := bpass_fis_step p2 p1 lo t st ts hst
    rw [heq, outside_append]
    by_cases hSt : S t = true
    · -- `t` is filtered on both sides
      have h1 : outside S (if fisDrops p2 p1 t ts then [] else [t]) = [] := by
        split <;> simp [outside_cons, hSt]
      rw [h1, List.nil_append, outside_cons, hSt, if_pos rfl]
      apply ih _ _ _ _ _ hst'
      refine ⟨fun h => (by rw [hSt] at h; cases h), fun _ h2 => ?_⟩
      exact hinv.left h2
    · have hSt' : S t = false := by simpa using hSt
      have hinv' : ∀ q', q' = t → FisInv S q' p1 t := fun q' hq => ⟨fun _ => hq, fun h => (by rw [hSt'] at h; cases h)⟩
      by_cases hd : fisDrops p2 p1 t ts = true
      · -- the rule drops the identifier `t`: it repeats `p2`, which is the squash state
        unfold fisDrops at hd
        cases hr : ruleFis 0 noTok p2 p1 t ts with
        | none => rw [hr] at hd; cases hd
        | some a =>
          obtain ⟨_, h2⟩ := ruleFis_some hr
          rcases h2 with h2 | ⟨hi, hp1, hp2⟩
          · rw [hS t h2] at hSt'; cases hSt'
          · have hq : q = t := by
              have := hinv.right (hS p1 hp1) (by rw [hp2]; exact hSt')
              rw [this, hp2]
            have hdd : fisDrops p2 p1 t ts = true := by unfold fisDrops; rw [hr]; rfl
            simp only [hdd, if_true, outside_nil, List.nil_append, outside_cons, hSt', Bool.false_eq_true, if_false]
            have : squash q (t :: outside S ts) = squash q (outside S ts) := by
              rw [squash]; simp [hi, hq]
            rw [this]
            exact ih _ _ _ _ _ hst' (hinv' q hq)
      · have hd' : fisDrops p2 p1 t ts = false := by simpa using hd
        simp only [hd', Bool.false_eq_true, if_false, outside_cons, hSt', List.cons_append]
        rw [squash, squash]
        by_cases hsq : (t.cls == ['i'] && t == q) = true
        · simp only [hsq, if_true, outside_nil, List.nil_append]
          have hq : q = t := by
            simp only [Bool.and_eq_true, beq_iff_eq] at hsq; exact hsq.2.symm
          exact ih _ _ _ _ _ hst' (hinv' q hq)
        · simp only [hsq]
          simp only [Bool.false_eq_true, if_false, outside_nil, List.nil_append]
          rw [ih _ _ _ _ _ hst' (hinv' t rfl)]

theorem runRule_fis_squash (S : Tok → Bool) (hS : ∀ t : Tok, t.isP ':' = true → S t = true) (ts : List Tok) :
    squash noTok (outside S (runRule ruleFis ts)) = squash noTok (outside S ts) := by
  apply bpass_fis_squash S hS ts noTok noTok noTok [] noTok (by simp)
  exact ⟨fun _ => rfl, fun _ _ => rfl⟩

end RF.Tok
