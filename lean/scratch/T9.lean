import RF.Lemmas.TokEquiv
namespace RF.Tok

/-! ## canonical leaves -/

theorem insertLeaf_perm (x : List Tok) : ∀ l : List (List Tok), (insertLeaf x l).Perm (x :: l) := by
  intro l
  induction l with
  | nil => exact List.Perm.refl _
  | cons y ys ih =>
    unfold insertLeaf
    split
    · exact List.Perm.refl _
    · exact (List.Perm.cons y ih).trans (List.Perm.swap x y ys)

theorem sortLeaves_perm : ∀ l : List (List Tok), (sortLeaves l).Perm l := by
  intro l
  induction l with
  | nil => exact List.Perm.refl _
  | cons x xs ih =>
    unfold sortLeaves
    exact (insertLeaf_perm x _).trans (List.Perm.cons x ih)

theorem dedupAdj_mem (x : List Tok) : ∀ l : List (List Tok), x ∈ dedupAdj l ↔ x ∈ l := by
  intro l
  induction l with
  | nil => simp [dedupAdj]
  | cons a l ih =>
    cases l with
    | nil => simp [dedupAdj]
    | cons b r =>
      unfold dedupAdj
      split
      · rename_i h
        have : a = b := by simpa using h
        subst this
        rw [ih]; simp
      · simp only [List.mem_cons] at ih ⊢
        rw [ih]

/-- What equal canonical leaf lists say about the raw leaf lists of two regions: derives keep their
list; `mod` / `extern crate` runs are permutations of each other; `use` runs import the same set of
paths (the formatter drops a repeated import). -/
theorem canonLeaves_sound (k : Kind) (l1 l2 : List (List Tok)) (h : canonLeaves k l1 = canonLeaves k l2) :
    (k = 3 → l1 = l2) ∧ (k ≠ 3 → k ≠ 0 → l1.Perm l2) ∧ (k = 0 → ∀ x, x ∈ l1 ↔ x ∈ l2) := by
  refine ⟨?_, ?_, ?_⟩
  · intro hk; subst hk; simpa [canonLeaves] using h
  · intro h3 h0
    have e : ∀ l, canonLeaves k l = sortLeaves l := by
      intro l; unfold canonLeaves; simp [h3, h0]
    rw [e, e] at h
    exact (sortLeaves_perm l1).symm.trans (h ▸ sortLeaves_perm l2)
  · intro hk x; subst hk
    have e : ∀ l, canonLeaves 0 l = dedupAdj (sortLeaves l) := by intro l; rfl
    rw [e, e] at h
    rw [← (sortLeaves_perm l1).mem_iff, ← (sortLeaves_perm l2).mem_iff, ← dedupAdj_mem x (sortLeaves l1), h, dedupAdj_mem]

/-! ## the two opt-in rewrites of hard tokens (coarse locality) -/

def clsFis (t : Tok) : Bool := t.isP ':' || t.cls == ['i']

theorem ruleFis_local : RuleLocal clsFis ruleFis := by
  intro enc lo p2 p1 t rest a h
  unfold ruleFis at h
  rule_cases h
  all_goals (simp only [drop_, Option.some.injEq] at h; subst h; apply actLocal_drop; simp_all [clsFis])

def clsWild (t : Tok) : Bool := isWild t || t.isP ',' || t.isP '.'

theorem wildTailLen_take : ∀ (ts : List Tok) (n : Nat), wildTailLen ts = some n →
    ∀ t ∈ ts.take n, clsWild t = true := by
  intro ts
  fun_induction wildTailLen ts <;> intro n h
  all_goals (try (cases h; done))
  all_goals (try (cases h; simp; done))
  · rename_i c u r hc1 hc2 hc ih
    simp only [Option.map_eq_some_iff] at h
    obtain ⟨m, hm, rfl⟩ := h
    intro t ht
    simp only [List.take_succ_cons, List.mem_cons] at ht
    simp only [Bool.and_eq_true] at hc
    rcases ht with rfl | rfl | ht
    · simp [clsWild, hc.1]
    · simp [clsWild, hc.2]
    · exact ih m hm t ht
  all_goals
    cases h
    intro t ht
    simp only [List.take_succ_cons, List.take_zero, List.mem_cons, List.not_mem_nil, or_false] at ht
    simp only [Bool.and_eq_true] at *
    rcases ht with rfl | rfl | rfl <;> simp_all [clsWild]

theorem outside_eq_nil_of_all (S : Tok → Bool) (ts : List Tok) (h : ∀ t ∈ ts, S t = true) : outside S ts = [] := by
  unfold outside
  rw [List.filter_eq_nil_iff]
  intro t ht; simp [h t ht]

theorem wildAux_local : ∀ (ts : List Tok) (n : Nat) (p1 : Tok), (∀ t ∈ ts.take n, clsWild t = true) →
    outside clsWild (wildAux n p1 ts) = outside clsWild (ts.drop n) := by
  intro ts
  induction ts with
  | nil => intro n p1 _; simp [wildAux]
  | cons t ts ih =>
    intro n p1 h
    cases n with
    | succ n =>
      simp only [wildAux, List.drop_succ_cons]
      exact ih n t (fun u hu => h u (by simp [List.take_succ_cons, hu]))
    | zero =>
      simp only [wildAux, List.drop_zero]
      split
      · rename_i hc
        simp only [Bool.and_eq_true] at hc
        split
        · rename_i n hn
          have hall := wildTailLen_take ts (n + 1) hn
          have hdot : clsWild (mkP '.') = true := by decide
          rw [outside_cons, outside_cons, hdot, ih (n + 1) t hall, outside_cons]
          have ht : clsWild t = true := by simp [clsWild, hc.1]
          simp only [ht, if_true]
          conv => rhs; rw [← List.take_append_drop (n + 1) ts, outside_append, outside_eq_nil_of_all _ _ hall]
          simp
        · rw [outside_cons, outside_cons, ih 0 t (by simp)]; simp
      · rw [outside_cons, outside_cons, ih 0 t (by simp)]; simp

theorem wildCondense_local (ts : List Tok) : outside clsWild (wildCondense ts) = outside clsWild ts := by
  have := wildAux_local ts 0 noTok (by simp)
  simpa [wildCondense] using this

/-- the tokens outside the soft class and outside the classes of the ENABLED opt-in rewrites -/
def softX (cfg : Cfg) (t : Tok) : Bool :=
  soft cfg t || (cfg.fis && clsFis t) || (cfg.wild && clsWild t)

theorem soft_softX (cfg : Cfg) (t : Tok) (h : soft cfg t = true) : softX cfg t = true := by
  simp [softX, h]

theorem softX_eq_soft (cfg : Cfg) (hf : cfg.fis = false) (hw : cfg.wild = false) : softX cfg = soft cfg := by
  funext t; simp [softX, hf, hw]

theorem post_outside_softX (cfg : Cfg) (ts : List Tok) :
    outside (softX cfg) (post cfg ts) = outside (softX cfg) ts := by
  rw [post_eq]
  have h1 := postSoft_hards cfg (onlyIf cfg.wild wildCondense
      (onlyIf cfg.useTry (runRule ruleTry) (onlyIf cfg.fis (runRule ruleFis) ts)))
  rw [hards_eq_outside, hards_eq_outside] at h1
  rw [outside_mono (soft_softX cfg) h1]
  have h2 : ∀ x, outside (softX cfg) (onlyIf cfg.wild wildCondense x) = outside (softX cfg) x := by
    intro x; unfold onlyIf; split
    · rename_i h
      exact outside_mono (fun t ht => by simp [softX, h, ht]) (wildCondense_local x)
    · rfl
  rw [h2]
  have h3 := tryRule_hards cfg (onlyIf cfg.fis (runRule ruleFis) ts)
  rw [hards_eq_outside, hards_eq_outside] at h3
  rw [outside_mono (soft_softX cfg) h3]
  unfold onlyIf; split
  · rename_i h
    exact outside_mono (fun t ht => by simp [softX, h, ht]) (runRule_outside clsFis ruleFis ruleFis_local ts)
  · rfl

theorem post_hards (cfg : Cfg) (hf : cfg.fis = false) (hw : cfg.wild = false) (ts : List Tok) :
    hards cfg (post cfg ts) = hards cfg ts := by
  have := post_outside_softX cfg ts
  rw [softX_eq_soft cfg hf hw] at this
  exact this

end RF.Tok
