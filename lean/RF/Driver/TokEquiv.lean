import RF.Model.Proto
import RF.Model.TokEquiv
/-!
Line-protocol operations of the C01 validator (`RF.Tok`).

  tok.equiv <cfg> <toksA> <toksB>  -> ok | diff:<index>:<tokA>:<tokB>
        first differing token of the two NORMAL FORMS (`-` for the end of a list)
  tok.norm <cfg> <toks>            -> toks        (`norm cfg`)
  tok.hard <cfg> <toks>            -> toks        (the hard subsequence, `hards cfg`)
  tok.hard <toks>                  -> toks        (same with the default configuration)

toks   `_` when empty, else items joined by `,`; item = `<class>:<hex of the UTF-8 text>` (`-` for an
       empty text), classes as sent by `rfverif tokens` (`i r l p o c d n u Li Lf Lc Lb Ls LB LC Lr
       LR Lq`); normal forms also contain the synthetic classes `Ro` `Rs` `Rc` and `Rt<class>` (a
       reorder region and its wrapped leaf tokens).
cfg    `-` (all defaults) or a blank-free `,`-joined list of `key=value`; unknown keys are an error
       (`?`), missing keys take rustfmt's default:
         try=0|1      use_try_shorthand                     (default 0)
         fis=0|1      use_field_init_shorthand              (0)
         hex=U|L|P    hex_literal_case                      (P)
         fz=P|A|I|N   float_literal_trailing_zero; anything but P switches value comparison on (P)
         imports=0|1  reorder_imports / reorder_modules / group_imports≠Preserve /
                      imports_granularity≠Preserve: items of a run may be reordered (1)
         derive=0|1   merge_derives                         (1)
         docattr=0|1  normalize_doc_attributes              (0)
         abi=0|1      force_explicit_abi (rule on for both) (1)
         parens=0|1   remove_nested_parens                  (1)
         wild=0|1     condense_wildcard_suffixes            (0)
         strings=0|1  format_strings                        (0)
         reflow=0|1   normalize_comments / wrap_comments / format_code_in_doc_comments (0)
         doccode=0|1  format_code_in_doc_comments: with reflow=1, doc text is compared without any
                      white space (code inside doc comments is re-formatted)  (0)
         semi=0|1, pipes=0|1, mbcomma=0|1, tcomma=0|1   trailing_semicolon, match_arm_leading_pipes,
                      match_block_trailing_comma, trailing_comma: recorded only (rules 1 and 6 are
                      on for every value)
-/
namespace RF.Driver.TokEquiv
open RF.Proto RF.Tok

def decTok (s : String) : Option Tok :=
  match s.splitOn ":" with
  | [c, h] => do
    let t ← decChars h
    pure ⟨c.toList, t⟩
  | _ => none

def decToks (s : String) : Option (List Tok) :=
  if s == "_" then some [] else (s.splitOn ",").mapM decTok

def encTok (t : Tok) : String := String.ofList t.cls ++ ":" ++ encChars t.text

def encToks (ts : List Tok) : String :=
  if ts.isEmpty then "_" else String.intercalate "," (ts.map encTok)

def decBool (s : String) : Option Bool :=
  if s == "1" then some true else if s == "0" then some false else none

def setKey (c : Cfg) (k v : String) : Option Cfg :=
  match k with
  | "try" => (decBool v).map fun b => { c with useTry := b }
  | "fis" => (decBool v).map fun b => { c with fis := b }
  | "hex" => if v == "U" then some { c with hex := .upper } else if v == "L" then some { c with hex := .lower }
             else if v == "P" then some { c with hex := .preserve } else none
  | "fz" => if v == "P" then some { c with floatZero := false }
            else if v == "A" || v == "I" || v == "N" then some { c with floatZero := true } else none
  | "imports" => (decBool v).map fun b => { c with imports := b }
  | "doccode" => (decBool v).map fun b => { c with doccode := b }
  | "derive" => (decBool v).map fun b => { c with derive := b }
  | "docattr" => (decBool v).map fun b => { c with docattr := b }
  | "abi" => (decBool v).map fun b => { c with abi := b }
  | "parens" => (decBool v).map fun b => { c with parens := b }
  | "wild" => (decBool v).map fun b => { c with wild := b }
  | "strings" => (decBool v).map fun b => { c with strings := b }
  | "reflow" => (decBool v).map fun b => { c with reflow := b }
  | "semi" => (decBool v).map fun b => { c with trailingSemicolon := b }
  | "pipes" => (decBool v).map fun b => { c with leadingPipes := b }
  | "mbcomma" => (decBool v).map fun b => { c with matchBlockComma := b }
  | "tcomma" => (decBool v).map fun b => { c with trailingComma := b }
  | _ => none

def decCfg (s : String) : Option Cfg :=
  if s == "-" then some {} else do
    let kvs ← (s.splitOn ",").mapM fun kv =>
      match kv.splitOn "=" with
      | [k, v] => some (k, v)
      | _ => none
    kvs.foldlM (fun c (k, v) => setKey c k v) ({} : Cfg)

def encOptTok : Option Tok → String
  | some t => encTok t
  | none => "-"

def handle (op : String) (args : List String) : Option String :=
  match op, args with
  | "tok.equiv", [c, a, b] => do
    let c ← decCfg c
    let a ← decToks a
    let b ← decToks b
    match firstDiff c a b with
    | none => pure "ok"
    | some (i, x, y) => pure s!"diff:{i}:{encOptTok x}:{encOptTok y}"
  | "tok.norm", [c, a] => do
    let c ← decCfg c
    let a ← decToks a
    pure (encToks (norm c a))
  | "tok.hard", [a] => do
    let a ← decToks a
    pure (encToks (hards {} a))
  | "tok.hard", [c, a] => do
    let c ← decCfg c
    let a ← decToks a
    pure (encToks (hards c a))
  | _, _ => none

end RF.Driver.TokEquiv
