//! C07: line-width and trailing-whitespace diagnostics are exact.
//! Correspondence of CharClasses / LineClasses / format_lines with the Lean model, the Lean
//! specification evaluated on real formatter output, and the search for skipped-range bookkeeping
//! errors (the glue the scanner depends on).
use std::path::Path;
use std::time::Duration;

use rustfmt_nightly::verif_hooks::{comment as hc, report as hr};
use rustfmt_nightly::Config;
use serde_json::json;

use crate::corpus;
use crate::gen::*;
use crate::pool::{self, Job, Status};
use crate::util::*;

fn enc_entries(es: &[hr::Entry]) -> String {
    if es.is_empty() {
        return "_".into();
    }
    es.iter()
        .map(|e| match e.overflow {
            Some((f, m)) => format!("{}:O:{}:{}:{}:{}", e.line, f, m, e.is_comment as u8, e.is_string as u8),
            None => format!("{}:{}:0:0:{}:{}", e.line, if e.kind == "TrailingWhitespace" { "T" } else { "X" }, e.is_comment as u8, e.is_string as u8),
        })
        .collect::<Vec<_>>()
        .join(";")
}

fn enc_pool_entries(es: &[pool::Entry]) -> String {
    let v: Vec<String> = es
        .iter()
        .filter(|e| e.kind == "LineOverflow" || e.kind == "TrailingWhitespace")
        .map(|e| if e.kind == "LineOverflow" { format!("{}:O:{}:{}:{}:{}", e.line, e.found, e.max, e.is_comment as u8, e.is_string as u8) } else { format!("{}:T:0:0:{}:{}", e.line, e.is_comment as u8, e.is_string as u8) })
        .collect();
    if v.is_empty() { "_".into() } else { v.join(";") }
}

fn enc_ranges(r: &[(usize, usize)]) -> String {
    if r.is_empty() { "_".into() } else { r.iter().map(|(a, b)| format!("{}-{}", a, b)).collect::<Vec<_>>().join(",") }
}

const ALPHA: &[char] = &['/', '*', '"', '\'', '\\', 'r', '#', '\n', 'a'];

fn all_strings(alpha: &[char], maxlen: usize) -> Vec<String> {
    let mut all = vec![String::new()];
    let mut frontier = vec![String::new()];
    for _ in 0..maxlen {
        let mut next = vec![];
        for s in &frontier {
            for c in alpha {
                let mut t = s.clone();
                t.push(*c);
                next.push(t);
            }
        }
        all.extend(next.iter().cloned());
        frontier = next;
    }
    all
}

const PIECES: &[&str] = &["/*", "*/", "//", "\"", "'", "\\", "r#\"", "\"#", "r\"", "#", "\n", "\r\n", " ", "\t", "a", "bc", "'a'", "'\\''", "b'x'", "r#type", "/**/", "\u{a0}", "\u{3000}", "é", "\r", "x ", "  ", "\u{2003}", "中", "fn f() {}", "let s = \"long string literal\";", "// comment "];

fn random_text(rng: &mut Rng, n: usize) -> String {
    let mut s = String::new();
    for _ in 0..n {
        s.push_str(*rng.pick(PIECES));
    }
    if rng.chance(3, 4) {
        s.push('\n');
    }
    s
}

fn scan_case(o: &mut Outcome, text: &str, mw: usize, ts: usize, ov: bool, un: bool, skipped: &[(usize, usize)], selected: &Option<Vec<(usize, usize)>>, desc: &str) {
    let mut config = Config::default();
    config.set().max_width(mw);
    config.set().tab_spaces(ts);
    config.set().error_on_line_overflow(ov);
    config.set().error_on_unformatted(un);
    if let Some(sel) = selected {
        let js = format!("[{}]", sel.iter().map(|(a, b)| format!("{{\"file\":\"stdin\",\"range\":[{},{}]}}", a, b)).collect::<Vec<_>>().join(","));
        match js.parse::<rustfmt_nightly::FileLines>() {
            Ok(fl) => config.set().file_lines(fl),
            Err(_) => return,
        }
    }
    let text_owned = text.to_string();
    let skipped_v = skipped.to_vec();
    let res = std::panic::catch_unwind(std::panic::AssertUnwindSafe(|| hr::format_lines(&text_owned, &skipped_v, &config)));
    let sel_enc = match selected { None => "all".to_string(), Some(s) => enc_ranges(s) };
    let req_tail = format!("{} {} {} {} {} {} {}", mw, ts, ov as u8, un as u8, enc_ranges(skipped), sel_enc, enc_str(text));
    match res {
        Ok((t, entries, flags)) => {
            let expect = format!("{} {}", enc_entries(&entries), enc_str(&t));
            let nontrivial = !entries.is_empty() || t.len() != text.len();
            o.push("corr", "fl.scan", format!("fl.scan {}", req_tail), expect.clone(), desc.into(), nontrivial);
            // the specification must agree with the implementation too (oracle on the code's output)
            o.push("oracle", "fl.spec", format!("fl.spec {}", req_tail), expect, desc.into(), nontrivial);
            let kinds: String = entries.iter().map(|e| if e.overflow.is_some() { 'O' } else { 'T' }).collect();
            let fl: String = flags.iter().map(|b| if *b { '1' } else { '0' }).collect();
            o.push("corr", "fl.track", format!("fl.track 0000000 {}", if kinds.is_empty() { "_".to_string() } else { kinds }), fl, desc.into(), nontrivial);
            o.count(if entries.is_empty() { "scan:no-entry" } else { "scan:entries" });
        }
        Err(_) => {
            o.push("corr", "fl.scan", format!("fl.scan {}", req_tail), "panic".into(), desc.into(), true);
            o.count("scan:panic");
        }
    }
}

pub fn run(tier: &str, seed: u64, out: &Path) -> i32 {
    pool::install_panic_hook();
    let mut o = Outcome::new("C07", tier, seed);
    let thorough = tier == "thorough";
    let mut rng = Rng::new(seed ^ 0xc07);
    // 1. CharClasses / LineClasses: exhaustive over a hostile alphabet, then random, then real files
    let texts = all_strings(ALPHA, if thorough { 6 } else { 5 });
    for t in &texts {
        let k = hc::char_classes(t);
        o.push("corr", "cc.classes", format!("cc.classes {}", enc_str(t)), if k.is_empty() { "-".into() } else { k }, "exhaustive".into(), t.len() > 1);
    }
    for t in texts.iter().filter(|t| t.len() <= 4) {
        let l = hc::line_classes(t);
        let e = if l.is_empty() { "_".to_string() } else { l.iter().map(|(k, s)| format!("{}:{}", k, enc_str(s))).collect::<Vec<_>>().join(";") };
        o.push("corr", "cc.lines", format!("cc.lines {}", enc_str(t)), e, "exhaustive".into(), t.len() > 1);
    }
    for _ in 0..(if thorough { 40000 } else { 4000 }) {
        let n = rng.range(1, 14);
        let t = random_text(&mut rng, n);
        let k = hc::char_classes(&t);
        o.push("corr", "cc.classes", format!("cc.classes {}", enc_str(&t)), if k.is_empty() { "-".into() } else { k }, "random".into(), true);
        let l = hc::line_classes(&t);
        let e = if l.is_empty() { "_".to_string() } else { l.iter().map(|(k, s)| format!("{}:{}", k, enc_str(s))).collect::<Vec<_>>().join(";") };
        o.push("corr", "cc.lines", format!("cc.lines {}", enc_str(&t)), e, "random".into(), true);
    }
    let progs = corpus::programs(&["tests/target", "tests/source"]);
    for p in progs.iter().filter(|p| p.src.len() < 20000).take(if thorough { 2000 } else { 150 }) {
        let k = hc::char_classes(&p.src);
        o.push("corr", "cc.classes", format!("cc.classes {}", enc_str(&p.src)), if k.is_empty() { "-".into() } else { k }, p.name.clone(), true);
    }
    // 2. format_lines: random texts x configurations x skipped ranges x selections
    for _ in 0..(if thorough { 60000 } else { 6000 }) {
        let n = rng.range(1, 12);
        let t = random_text(&mut rng, n);
        let mw = rng.range(1, 12);
        let ts = rng.range(1, 8);
        let nl = t.matches('\n').count() + 1;
        let mut skipped = vec![];
        for _ in 0..rng.below(3) {
            let a = rng.range(1, nl + 1);
            skipped.push((a, a + rng.below(3)));
        }
        let selected = if rng.chance(1, 3) {
            let mut v = vec![];
            for _ in 0..rng.below(3) {
                let a = rng.range(1, nl + 1);
                v.push((a, a + rng.below(3)));
            }
            Some(v)
        } else {
            None
        };
        scan_case(&mut o, &t, mw, ts, rng.chance(3, 4), rng.chance(1, 2), &skipped, &selected, "random");
    }
    // 3. real formatter output: the report of a real run against the specification evaluated on the
    //    emitted text with the skipped ranges the run recorded (scanner on real buffers), and
    // 4. glue: programs with a skipped item whose verbatim occurrence in the output tells the true
    //    exempt lines; the report must be what the specification gives for those true ranges.
    let mut jobs = vec![];
    let mut meta = vec![];
    let widths = [20usize, 37, 50, 80, 100];
    for p in progs.iter().filter(|p| !p.src.trim().is_empty()).take(if thorough { 2000 } else { 400 }) {
        let mw = *rng.pick(&widths);
        let cfg = merge_cfg(&p.cfg, &[("max_width".into(), mw.to_string()), ("error_on_line_overflow".into(), "true".into()), ("error_on_unformatted".into(), rng.chance(1, 2).to_string()), ("newline_style".into(), "Unix".into())]);
        jobs.push(Job { src: p.src.clone(), cfg: cfg.clone(), file_lines: None });
        meta.push((p.name.clone(), cfg, None::<String>));
    }
    let n_glue = if thorough { 3000 } else { 400 };
    for k in 0..n_glue {
        let (src, skipped_text) = glue_program(&mut rng, k);
        let cfg: Vec<(String, String)> = vec![("max_width".into(), rng.range(30, 60).to_string()), ("error_on_line_overflow".into(), "true".into()), ("error_on_unformatted".into(), "true".into())];
        jobs.push(Job { src, cfg: cfg.clone(), file_lines: None });
        meta.push((format!("glue{}", k), cfg, Some(skipped_text)));
    }
    let res = pool::run_jobs(&jobs, crate::util::jobs(), Duration::from_secs(10));
    for ((job, (name, cfg, skipped_text)), r) in jobs.iter().zip(meta.iter()).zip(res.iter()) {
        if r.status != Status::Ok || r.flags[1] || r.out.is_empty() {
            o.count("e2e:not-formatted");
            continue;
        }
        let mw: usize = cfg_get(cfg, "max_width").unwrap().parse().unwrap();
        let ts: usize = cfg_get(cfg, "tab_spaces").map(|s| s.parse().unwrap()).unwrap_or(4);
        let un = cfg_get(cfg, "error_on_unformatted") == Some("true");
        let impl_entries = enc_pool_entries(&r.entries);
        match skipped_text {
            None => {
                // scanner on the real buffer with the ranges the run recorded
                let req = format!("fl.spec {} {} 1 {} {} all {}", mw, ts, un as u8, enc_ranges(&r.ranges), enc_str(&r.out));
                o.push("oracle", "fl.spec(real)", req, format!("{} {}", impl_entries, enc_str(&r.out)), format!("{} [{}]", name, cfg_text(cfg)), !r.entries.is_empty());
                o.count(if r.entries.is_empty() { "e2e:no-entry" } else { "e2e:entries" });
            }
            Some(st) => {
                // true exempt lines = the verbatim occurrence of the skipped item in the output
                match r.out.find(st.as_str()) {
                    Some(pos) => {
                        let lo = r.out[..pos].matches('\n').count() + 1;
                        let hi = lo + st.matches('\n').count();
                        // the attribute line(s) above belong to the skipped node as well
                        let attr_lines = 1;
                        let truth = vec![(lo.saturating_sub(attr_lines), hi)];
                        let req = format!("fl.spec {} {} 1 1 {} all {}", mw, ts, enc_ranges(&truth), enc_str(&r.out));
                        let expect = format!("{} {}", impl_entries, enc_str(&r.out));
                        o.push("oracle", "fl.spec(glue)", req, expect, format!("{} recorded={} true={} src={}", name, enc_ranges(&r.ranges), enc_ranges(&truth), enc_str(&job.src)), true);
                        o.count("glue:checked");
                    }
                    None => {
                        o.direct_failures.push(json!({"sig": "c07:skipped-item-not-verbatim", "what": "a #[rustfmt::skip] item does not occur verbatim in the output", "src": job.src, "out": r.out}));
                    }
                }
            }
        }
    }
    // 4b. glue across the files of one run: a crate of two or three files, each a glue program with its own skipped item;
    //     the report is per run, the exempt ranges are per file: the diagnostics of every file must be what the
    //     specification gives for that file's text and that file's own true exempt lines.
    {
        let work = out.parent().unwrap_or(Path::new("/verif/work")).join("c07crate");
        let _ = std::fs::remove_dir_all(&work);
        let _ = std::fs::create_dir_all(&work);
        let work = std::fs::canonicalize(&work).unwrap_or(work);
        let home = work.join("home");
        let _ = std::fs::create_dir_all(&home);
        let n_crates = if thorough { 1500 } else { 400 };
        struct Crate {
            dir: std::path::PathBuf,
            mw: usize,
            files: Vec<(String, String, String)>, // name, source, skipped text
        }
        let mut crates = vec![];
        for k in 0..n_crates {
            let dir = work.join(format!("c{}", k));
            let _ = std::fs::create_dir_all(&dir);
            let names: Vec<&str> = if rng.chance(1, 2) { vec!["alpha", "zeta"] } else { vec![*rng.pick(&["alpha", "zeta", "lib_a"])] };
            let mut files = vec![];
            let (msrc, mskip) = glue_program(&mut rng, k * 10);
            let decls: String = names.iter().map(|n| format!("mod {};\n", n)).collect();
            files.push(("main.rs".to_string(), format!("{}{}", decls, msrc), mskip));
            for (j, n) in names.iter().enumerate() {
                let (s, sk) = glue_program(&mut rng, k * 10 + j + 1);
                files.push((format!("{}.rs", n), s, sk));
            }
            for (n, s, _) in &files {
                let _ = std::fs::write(dir.join(n), s);
            }
            crates.push(Crate { dir, mw: rng.range(30, 60), files });
        }
        let idx: Vec<usize> = (0..crates.len()).collect();
        let answers: Vec<Option<serde_json::Value>> = par_map(&idx, |i| {
            let c = &crates[*i];
            let spec = json!({"cli_loop": false, "emit": "files", "check": false, "backup": false, "cwd": c.dir.display().to_string(), "inputs": [{"path": c.dir.join("main.rs").display().to_string()}],
                "config": [["max_width", c.mw.to_string()], ["error_on_line_overflow", "true"], ["error_on_unformatted", "true"]]});
            crate::sessrun::run_child(&spec, &work.join(format!("spec{}.json", i)), &home, Duration::from_secs(30))
        });
        for (c, a) in crates.iter().zip(answers.iter()) {
            let a = match a { Some(a) => a, None => { o.count("crate:no-answer"); continue; } };
            let e = &a["entries"][0];
            if e["kind"] != "ok" || e["flags"].as_str().map(|f| f.as_bytes()[1] == b'1').unwrap_or(true) {
                o.count("crate:not-formatted");
                continue;
            }
            let diag = e["diag"].as_array().cloned().unwrap_or_default();
            for (name, _src, st) in &c.files {
                let text = std::fs::read_to_string(c.dir.join(name)).unwrap_or_default();
                let path = c.dir.join(name).display().to_string();
                let mine: Vec<String> = diag.iter().filter(|d| d["file"].as_str() == Some(path.as_str())).filter(|d| d["kind"] == "LineOverflow" || d["kind"] == "TrailingWhitespace").map(|d| if d["kind"] == "LineOverflow" { format!("{}:O:{}:{}:{}:{}", d["line"], d["found"], d["max"], d["c"].as_bool().unwrap_or(false) as u8, d["s"].as_bool().unwrap_or(false) as u8) } else { format!("{}:T:0:0:{}:{}", d["line"], d["c"].as_bool().unwrap_or(false) as u8, d["s"].as_bool().unwrap_or(false) as u8) }).collect();
                let impl_entries = if mine.is_empty() { "_".to_string() } else { mine.join(";") };
                match text.find(st.as_str()) {
                    Some(pos) => {
                        let lo = text[..pos].matches('\n').count() + 1;
                        let hi = lo + st.matches('\n').count();
                        let truth = vec![(lo.saturating_sub(1), hi)];
                        let req = format!("fl.spec {} 4 1 1 {} all {}", c.mw, enc_ranges(&truth), enc_str(&text));
                        o.push("oracle", "fl.spec(crate)", req, format!("{} {}", impl_entries, enc_str(&text)), format!("{} of a crate of {} files, max_width {}", name, c.files.len(), c.mw), true);
                        o.count("crate:file-checked");
                    }
                    None => o.direct_failures.push(json!({"sig": "c07:skipped-item-not-verbatim", "what": "a #[rustfmt::skip] item does not occur verbatim in the output (multi-file run)", "file": name, "out": text})),
                }
            }
        }
        let _ = std::fs::remove_dir_all(&work);
    }
    // 5. enumerated known-dirty input (F2b): a macro call whose arguments do not parse is copied
    //    verbatim and its *source* line range is recorded as exempt (macros.rs
    //    return_macro_parse_failure_fallback); code above it that grows puts an over-long formatted
    //    line into that stale range, and the line is not reported.
    {
        let y = "y".repeat(77);
        let src = format!("fn a(a: u32, {}: u32, c: u32) {{ let x = 1; }}\nfn main() {{\n    foo!(a b c;\n      zzz, z);\n}}\n", y);
        let job = Job { src: src.clone(), cfg: vec![("max_width".into(), "50".into()), ("error_on_line_overflow".into(), "true".into())], file_lines: None };
        let r = pool::run_jobs(&[job], 1, Duration::from_secs(10)).remove(0);
        if r.status == Status::Ok {
            let wide: Vec<usize> = r.out.lines().enumerate().filter(|(_, l)| l.chars().count() > 50).map(|(i, _)| i + 1).collect();
            let reported: Vec<usize> = r.entries.iter().filter(|e| e.kind == "LineOverflow").map(|e| e.line).collect();
            let missed: Vec<usize> = wide.iter().copied().filter(|l| !reported.contains(l)).collect();
            o.probes.push(json!({"id": "F2b", "fails": !missed.is_empty(), "what": format!("over-long output lines {:?}, reported {:?}, recorded exempt ranges {:?}", wide, reported, r.ranges), "detail": {"src": src, "out": r.out}}));
        }
    }
    // 6. enumerated known-dirty input (F19): a raw identifier makes CharClasses enter its raw-string
    //    prefix state, so the line counts as "contains a string literal" and is exempt when
    //    error_on_unformatted is off.
    {
        let src = format!("fn main() {{\n    let r#type = {};\n}}\n", "a".repeat(120));
        let job = Job { src: src.clone(), cfg: vec![("error_on_line_overflow".into(), "true".into())], file_lines: None };
        let r = pool::run_jobs(&[job], 1, Duration::from_secs(10)).remove(0);
        if r.status == Status::Ok {
            let wide: Vec<usize> = r.out.lines().enumerate().filter(|(_, l)| l.chars().count() > 100).map(|(i, _)| i + 1).collect();
            let reported: Vec<usize> = r.entries.iter().filter(|e| e.kind == "LineOverflow").map(|e| e.line).collect();
            let missed: Vec<usize> = wide.iter().copied().filter(|l| !reported.contains(l)).collect();
            o.probes.push(json!({"id": "F19", "fails": !missed.is_empty(), "what": format!("over-long output lines {:?} (no comment, no string literal), reported {:?}", wide, reported), "detail": {"src": src, "out": r.out}}));
        }
    }
    o.finish(out, crate::util::jobs())
}

/// A program with one skipped function (returned verbatim) surrounded by items that change their
/// number of lines when formatted, and with over-long / blank-ended lines inside and outside.
fn glue_program(rng: &mut Rng, k: usize) -> (String, String) {
    let mut s = String::new();
    let long = "x".repeat(rng.range(40, 90));
    let before = rng.below(4);
    for i in 0..before {
        match rng.below(5) {
            0 => s.push_str(&format!("fn a{}() {{}}\n\n\n\n", i)),                       // blank lines removed: code moves up
            1 => s.push_str(&format!("fn a{}(a: u32, b: u32, c: u32, d: u32, e: u32, f: u32, g: u32) {{ let x = 1; }}\n", i)), // grows
            2 => s.push_str(&format!("fn a{}() {{\n    let {} = 1;\n}}\n", i, long)),   // unbreakable long line outside
            3 => s.push_str(&format!("struct S{} {{ a: u32,\n\n\n b: u32 }}\n", i)),
            _ => s.push_str(&format!("const C{}: u32 = 1;\n", i)),
        }
    }
    let inner_long = "y".repeat(rng.range(40, 90));
    let trailing = if rng.chance(1, 2) { "   " } else { "" };
    let skipped = format!("fn skipped{}() {{{}\n    let {} = 1;\n        let z   =   2;\n}}", k, trailing, inner_long);
    s.push_str("#[rustfmt::skip]\n");
    s.push_str(&skipped);
    s.push('\n');
    for i in 0..rng.below(3) {
        match rng.below(3) {
            0 => s.push_str(&format!("fn b{}() {{\n    let {} = 1;\n}}\n", i, long)),
            1 => s.push_str(&format!("\n\nfn b{}() {{}}\n", i)),
            _ => s.push_str(&format!("fn b{}(a: u32, b: u32, c: u32, d: u32, e: u32, f: u32, g: u32, h: u32) {{}}\n", i)),
        }
    }
    (s, skipped)
}
