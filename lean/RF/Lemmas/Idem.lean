import RF.Model.Idem
import RF.Lemmas.Sort
import RF.Lemmas.Imports
import RF.Lemmas.Newline
import RF.Lemmas.Skip
/-!
Lemmas for C02: idempotence of the modelled stages (sorting, `use` normalisation, granularity,
grouping, newline handling, blank-line clamping, `trim`).  Core only.
-/
namespace RF.Lemmas.Idem
open RF.Sort RF.Imports RF.Lemmas.Sort RF.Lemmas.Imports RF.Idem

/-! ## The stable sort -/

/-- Sorting an ascending list changes nothing (no hypothesis on `cmp`). -/
theorem stableSort_of_sorted {α} (cmp : α → α → Ordering) :
    ∀ (l : List α), Sorted cmp l → stableSort cmp l = l
  | [], _ => rfl
  | x :: xs, h => by
    simp only [Sorted, List.pairwise_cons] at h
    rw [stableSort, stableSort_of_sorted cmp xs h.2]
    cases xs with
    | nil => rfl
    | cons y ys =>
      have := h.1 y (by simp)
      simp [insertSorted, this]

theorem stableSort_idem {α} {cmp : α → α → Ordering} (tp : TotalPreorder cmp) (l : List α) :
    stableSort cmp (stableSort cmp l) = stableSort cmp l :=
  stableSort_of_sorted cmp _ (stableSort_sorted tp l)

theorem sorted_sublist {α} {cmp : α → α → Ordering} {l l' : List α} (h : l'.Sublist l)
    (hs : Sorted cmp l) : Sorted cmp l' := List.Pairwise.sublist h hs


/-! ## Newline style -/
section Newline
open RF.Newline RF.Lemmas.Newline

/-- The first `\n` of a text that has one. -/
theorem exists_first_lf : ∀ (t : List Char), '\n' ∈ t → ∃ pre suf, t = pre ++ '\n' :: suf ∧ '\n' ∉ pre
  | [], h => by simp at h
  | c :: t, h => by
    by_cases hc : c = '\n'
    · exact ⟨[], t, by simp [hc], by simp⟩
    · have ht : '\n' ∈ t := by
        rcases List.mem_cons.1 h with e | e
        · exact absurd e.symm hc
        · exact e
      obtain ⟨pre, suf, rfl, hpre⟩ := exists_first_lf t ht
      refine ⟨c :: pre, suf, rfl, ?_⟩
      intro hm
      rcases List.mem_cons.1 hm with e | e
      · exact hc e.symm
      · exact hpre e

/-- A text in which every `\n` follows a `\r` is detected as Windows, or has no `\n` at all. -/
theorem autoDetect_of_everyLfAfterCr (t : List Char) (h : everyLfAfterCr none t = true) :
    autoDetect t = .windows ∨ '\n' ∉ t := by
  by_cases hm : '\n' ∈ t
  · left
    obtain ⟨pre, suf, rfl, hpre⟩ := exists_first_lf t hm
    have := (everyLfAfterCr_iff _ none).1 h pre suf rfl
    rw [prevOf_none] at this
    rw [autoDetect_first pre suf hpre, this]; rfl
  · exact Or.inr hm

/-- A text without `\r\n` is detected as Unix. -/
theorem autoDetect_of_noCrLf (t : List Char) (h : hasCrLf t = false) : autoDetect t = .unix := by
  by_cases hm : '\n' ∈ t
  · obtain ⟨pre, suf, rfl, hpre⟩ := exists_first_lf t hm
    rw [autoDetect_first pre suf hpre]
    split
    · rename_i hl
      exfalso
      have hp := eq_dropLast_append hl
      have : hasCrLf (pre ++ '\n' :: suf) = true := by
        rw [hasCrLf_iff]
        exact ⟨pre.dropLast, suf, by rw [hp]; simp⟩
      rw [h] at this; cases this
    · rfl
  · exact autoDetect_no_lf t hm

theorem noLf_noCrLf (t : List Char) (h : '\n' ∉ t) : hasCrLf t = false := by
  cases hc : hasCrLf t with
  | false => rfl
  | true =>
    obtain ⟨pre, suf, rfl⟩ := (hasCrLf_iff t).1 hc
    exact absurd (by simp) h

theorem windows_fix_self (t : List Char) :
    convertToWindows (convertToWindows t) = convertToWindows t := windows_idempotent t

/-- `apply_newline_style` applied to its own output, the output being also the raw input of the
second run: nothing changes, provided the text given to the Unix converter has no `\r\r\n`. -/
theorem applyNewlineStyle_idem (style : Style) (f raw : List Char)
    (h : effective style raw = .unix → hasCrCrLf f = false) :
    applyNewlineStyle style (applyNewlineStyle style f raw) (applyNewlineStyle style f raw) =
      applyNewlineStyle style f raw := by
  cases he : effective style raw with
  | windows =>
    have hout : applyNewlineStyle style f raw = convertToWindows f := by
      simp [applyNewlineStyle, he]
    rw [hout]
    have hall := everyLfAfterCr_windows f none
    cases style with
    | auto =>
      simp only [applyNewlineStyle, effective]
      rcases autoDetect_of_everyLfAfterCr _ hall with hw | hn
      · rw [hw]; exact windows_idempotent f
      · rw [autoDetect_no_lf _ hn]
        simp only [nativeNewlineStyle]
        exact unix_fix _ (noLf_noCrLf _ hn)
    | native => simp [effective, nativeNewlineStyle] at he
    | windows => simp only [applyNewlineStyle, effective]; exact windows_idempotent f
    | unix => simp [effective] at he
  | unix =>
    have hout : applyNewlineStyle style f raw = convertToUnix f := by
      simp [applyNewlineStyle, he]
    rw [hout]
    have hno : hasCrLf (convertToUnix f) = false := by rw [hasCrLf_unix]; exact h he
    cases style with
    | auto =>
      simp only [applyNewlineStyle, effective]
      rw [autoDetect_of_noCrLf _ hno]
      exact unix_fix _ hno
    | native => simp only [applyNewlineStyle, effective, nativeNewlineStyle]; exact unix_fix _ hno
    | windows => simp [effective] at he
    | unix => simp only [applyNewlineStyle, effective]; exact unix_fix _ hno

/-! ## Final newline -/

/-- Truncation alone leaves a text with at most one trailing `\n` (counted as `format_lines` counts)
unchanged. -/
theorem truncate_fixed (t : List Char) (h : newlineCount 0 t ≤ 1) : formatLinesTruncate t = some t := by
  unfold formatLinesTruncate
  simp only []
  split
  · omega
  · rfl

/-- The text `p ++ "\n"` (`p` ending in ordinary text) is what `append_newline` + truncation return for
every buffer `p ++ "\n"^k`: whatever number of newlines the next run's visitor leaves after `p`. -/
theorem finalize_fixed (p : List Char) (k : Nat) (hp : EndsInText p) :
    finalize (p ++ List.replicate k '\n') = some (p ++ ['\n']) := by
  simpa using finalize_cr_lf p 0 k hp

/-- First run then second run. -/
theorem finalize_idem (b : List Char) (hcr : '\r' ∉ b) (hne : ∃ x ∈ b, x ≠ '\n') :
    ∃ p, finalize b = some (p ++ ['\n']) ∧ p ≠ [] ∧
      (∀ k, finalize (p ++ List.replicate k '\n') = some (p ++ ['\n'])) ∧
      formatLinesTruncate (p ++ ['\n']) = some (p ++ ['\n']) := by
  obtain ⟨p, k, rfl, hpne, hp, hfin⟩ := finalize_no_cr b hcr hne
  have hpt : EndsInText p := by
    intro x hx
    refine ⟨fun e => hp (e ▸ hx), fun e => hcr ?_⟩
    subst e
    have : '\r' ∈ p := List.mem_of_getLast? hx
    simp [this]
  refine ⟨p, hfin, hpne, fun k => finalize_fixed p k hpt, ?_⟩
  have := formatLinesTruncate_decomp p ['\n'] hpt (by intro c hc; simp at hc; exact Or.inl hc)
  simpa using this

/-! ## Blank lines -/

/-- A request that, with the newlines already in the buffer, lies within the bounds is pushed as is. -/
theorem pushVerticalSpaces_fixed (off n lower upper : Nat) (h1 : lower + 1 ≤ n + off)
    (h2 : n + off ≤ upper + 1) : pushVerticalSpaces off n lower upper = n := by
  unfold pushVerticalSpaces
  simp only []
  split
  · omega
  · split
    · omega
    · rfl

end Newline

/-! ## `trim` -/
section Trim
open RF.Skip

theorem dropWhile_head_not {α} (p : α → Bool) : ∀ (l : List α) (c : α),
    (l.dropWhile p).head? = some c → p c = false
  | [], c, h => by simp at h
  | x :: xs, c, h => by
    simp only [List.dropWhile] at h
    split at h
    · exact dropWhile_head_not p xs c h
    · rename_i hx
      simp only [List.head?_cons, Option.some.injEq] at h
      subst h; simpa using hx

theorem trim_head (s : List Char) (c : Char) (h : (trim s).head? = some c) : isWhitespace c = false := by
  -- the head of `trim s` is the head of `trimStart s`
  unfold trim trimEnd at h
  have hts : ∀ c, (trimStart s).head? = some c → isWhitespace c = false :=
    fun c hc => dropWhile_head_not _ s c hc
  generalize trimStart s = u at h hts
  -- u = trimEnd u ++ ws
  have hd := trimEnd_decomp u
  unfold trimEnd at hd
  generalize (u.reverse.dropWhile isWhitespace).reverse = v at h hd
  cases v with
  | nil => simp at h
  | cons x xs =>
    simp only [List.head?_cons, Option.some.injEq] at h
    subst h
    exact hts x (by rw [hd]; simp)

theorem trim_last (s : List Char) (c : Char) (h : (trim s).getLast? = some c) :
    isWhitespace c = false := by
  unfold trim trimEnd at h
  rw [List.getLast?_reverse] at h
  exact dropWhile_head_not _ _ c h

theorem trim_idem (s : List Char) : trim (trim s) = trim s :=
  trim_eq_self (trim_head s) (trim_last s)

end Trim


/-! ## `UseTree::normalize` -/

/-- What one call of `normalize` does before it recurses. -/
inductive Step where
  | done (q : List Seg)
  | splice (p : List Seg)
  | sortList (rest : List Seg) (l : List Tree)

/-- The non-recursive part of `normPath` (same tests in the same order). -/
def normStep (hasAttrs hasVis : Bool) (path : List Seg) : Option Step :=
  match path.getLast? with
  | none => none
  | some last =>
    let rest := path.dropLast
    if !hasAttrs && isEmptyListSeg last then some (.done [])
    else if !hasAttrs && isSlfNone last && rest.isEmpty && hasVis then some (.done [])
    else if isSlfNone last && !rest.isEmpty then some (.done rest)
    else
      match last, rest.getLast? with
      | .slf (some rename), some (.ident n none) =>
        some (.done (rest.dropLast ++ [.ident n (some rename)]))
      | _, _ =>
        match last with
        | .list l =>
          match soleSplice l with
          | some t => some (.splice (rest ++ t.path))
          | none => some (.sortList rest l)
        | _ => some (.done (rest ++ [last]))

theorem normPath_step (cmp : Tree → Tree → Ordering) (fuel : Nat) (a v : Bool) (path : List Seg) :
    normPath cmp (fuel + 1) a v path =
      match normStep a v path with
      | none => .error .panic
      | some (.done q) => .ok q
      | some (.splice p) => normPath cmp fuel a v p
      | some (.sortList rest l) =>
        match mapE (fun t => (normPath cmp fuel false false t.path).map Tree.mk) l with
        | .error e => .error e
        | .ok l' =>
          if (l'.filter (fun t => !t.path.isEmpty)).length < l.length then
            normPath cmp fuel a v (rest ++ [.list (stableSort cmp (l'.filter (fun t => !t.path.isEmpty)))])
          else .ok (rest ++ [.list (stableSort cmp (l'.filter (fun t => !t.path.isEmpty)))]) := by
  rw [normPath]
  unfold normStep
  cases hl : path.getLast? with
  | none => rfl
  | some last =>
    simp only []
    by_cases c1 : (!a && isEmptyListSeg last) = true
    · simp only [if_pos c1]
    · simp only [if_neg c1]
      by_cases c2 : (!a && isSlfNone last && path.dropLast.isEmpty && v) = true
      · simp only [if_pos c2]
      · simp only [if_neg c2]
        by_cases c3 : (isSlfNone last && !path.dropLast.isEmpty) = true
        · simp only [if_pos c3]
        · simp only [if_neg c3]
          generalize path.dropLast.getLast? = g
          generalize path.dropLast = rest
          clear hl c1 c2 c3
          cases last with
          | list l => cases g <;> simp only [] <;> cases soleSplice l <;> rfl
          | slf al =>
            cases al with
            | none => cases g <;> rfl
            | some r =>
              cases g with
              | none => rfl
              | some x =>
                cases x with
                | ident n al2 => cases al2 <;> rfl
                | _ => rfl
          | _ => cases g <;> rfl

theorem normStep_snoc (a v : Bool) (rest : List Seg) (last : Seg) :
    normStep a v (rest ++ [last]) =
      if !a && isEmptyListSeg last then some (.done [])
      else if !a && isSlfNone last && rest.isEmpty && v then some (.done [])
      else if isSlfNone last && !rest.isEmpty then some (.done rest)
      else
        match last, rest.getLast? with
        | .slf (some rename), some (.ident n none) =>
          some (.done (rest.dropLast ++ [.ident n (some rename)]))
        | _, _ =>
          match last with
          | .list l =>
            match soleSplice l with
            | some t => some (.splice (rest ++ t.path))
            | none => some (.sortList rest l)
          | _ => some (.done (rest ++ [last])) := by
  simp [normStep]

/-- A last segment that is neither a list nor `self`. -/
def plainSeg : Seg → Bool
  | .list _ => false
  | .slf _ => false
  | _ => true

theorem normStep_plain (a v : Bool) (rest : List Seg) (last : Seg) (h : plainSeg last = true) :
    normStep a v (rest ++ [last]) = some (.done (rest ++ [last])) := by
  rw [normStep_snoc]
  cases last <;> simp_all [plainSeg, isEmptyListSeg, isSlfNone]

theorem normStep_slfNone (a v : Bool) (rest : List Seg) :
    normStep a v (rest ++ [.slf none]) =
      if rest.isEmpty then (if !a && v then some (.done []) else some (.done [.slf none]))
      else some (.done rest) := by
  rw [normStep_snoc]
  cases rest with
  | nil => cases a <;> cases v <;> simp [isEmptyListSeg, isSlfNone]
  | cons x xs => cases a <;> cases v <;> simp [isEmptyListSeg, isSlfNone]

theorem normStep_slfSome (a v : Bool) (rest : List Seg) (r : List Char) :
    normStep a v (rest ++ [.slf (some r)]) =
      match rest.getLast? with
      | some (.ident n none) => some (.done (rest.dropLast ++ [.ident n (some r)]))
      | _ => some (.done (rest ++ [.slf (some r)])) := by
  rw [normStep_snoc]
  simp only [isEmptyListSeg, isSlfNone, Bool.and_false, Bool.false_and, Bool.false_eq_true, if_false]
  split <;> simp_all

theorem normStep_list (a v : Bool) (rest : List Seg) (l : List Tree) :
    normStep a v (rest ++ [.list l]) =
      if !a && l.isEmpty then some (.done [])
      else match soleSplice l with
        | some t => some (.splice (rest ++ t.path))
        | none => some (.sortList rest l) := by
  rw [normStep_snoc]
  have : isEmptyListSeg (.list l) = l.isEmpty := by cases l <;> rfl
  simp only [this, isSlfNone, Bool.and_false, Bool.false_and, Bool.false_eq_true, if_false]

theorem normStep_some_snoc {a v : Bool} {path : List Seg} {s : Step} (h : normStep a v path = some s) :
    ∃ rest last, path = rest ++ [last] := by
  unfold normStep at h
  cases hl : path.getLast? with
  | none => simp [hl] at h
  | some last => exact ⟨path.dropLast, last, eq_dropLast_append hl⟩

theorem okPath_snoc {r : Bool} {rest : List Seg} {last : Seg} (h : okPath r (rest ++ [last]) = true) :
    innerAll r rest = true ∧ okPath (r && rest.isEmpty) [last] = true :=
  (okPath_append r rest [last] (by simp)).1 h

theorem innerOK_plain_or {r : Bool} {s : Seg} (h : innerOK r s = true) :
    plainSeg s = true ∨ (s = .slf none ∧ r = true) := by
  rcases innerOK_cases h with ⟨n, rfl⟩ | rfl | rfl | ⟨rfl, hr⟩
  · exact Or.inl rfl
  · exact Or.inl rfl
  · exact Or.inl rfl
  · exact Or.inr ⟨rfl, hr⟩

theorem exists_snoc_of_ne {α} {l : List α} (h : l ≠ []) : ∃ init x, l = init ++ [x] :=
  ⟨l.dropLast, l.getLast h, (List.dropLast_concat_getLast h).symm⟩

theorem wfPath_snoc {r : Bool} {rest : List Seg} {last : Seg} (h : wfPath r (rest ++ [last]) = true) :
    innerAll r rest = true ∧ wfLast (r && rest.isEmpty) last = true := by
  rw [wfPath_append _ _ _ (by simp), wfPath_single, Bool.and_eq_true] at h
  exact h

theorem wfLast_list_mem {r : Bool} {l : List Tree} (h : wfLast r (.list l) = true) :
    ∀ t ∈ l, t.path ≠ [] ∧ wfPath r t.path = true := by
  intro t ht
  simp only [wfLast] at h
  exact wfTree_path (wfTrees_mem h t ht)

/-- The result of a non-recursive step is a fixed point of the step, unless it is empty or the bare
`self` that the next call deletes. -/
theorem normStep_done_fixed {a v r : Bool} {path q : List Seg} (h : normStep a v path = some (.done q))
    (hwf : wfPath r path = true) (hne : q ≠ [])
    (hbare : ¬(a = false ∧ v = true ∧ q = [.slf none])) : normStep a v q = some (.done q) := by
  obtain ⟨rest, last, rfl⟩ := normStep_some_snoc h
  obtain ⟨hin, hl⟩ := wfPath_snoc hwf
  cases last with
  | list l =>
    rw [normStep_list] at h
    split at h
    · simp only [Option.some.injEq, Step.done.injEq] at h; exact absurd h.symm hne
    · split at h <;> simp at h
  | slf al =>
    cases al with
    | none =>
      rw [normStep_slfNone] at h
      split at h
      · rename_i hre
        have : rest = [] := by simpa using hre
        subst this
        split at h
        · simp only [Option.some.injEq, Step.done.injEq] at h; exact absurd h.symm hne
        · rename_i hc
          simp only [Option.some.injEq, Step.done.injEq] at h; subst h
          have := normStep_slfNone a v []
          simp only [List.nil_append, List.isEmpty_nil, if_true, if_neg hc] at this
          exact this
      · rename_i hre
        simp only [Option.some.injEq, Step.done.injEq] at h; subst h
        obtain ⟨init, x, rfl⟩ := exists_snoc_of_ne hne
        rw [innerAll_append, Bool.and_eq_true] at hin
        have hx := hin.2
        simp only [innerAll, Bool.and_true] at hx
        rcases innerOK_plain_or hx with hp | ⟨rfl, hr⟩
        · exact normStep_plain a v init x hp
        · simp only [Bool.and_eq_true, List.isEmpty_iff] at hr
          obtain ⟨_, rfl⟩ := hr
          have := normStep_slfNone a v []
          simp only [List.nil_append, List.isEmpty_nil, if_true] at this ⊢
          rw [this]
          split
          · rename_i hc
            exfalso; apply hbare
            simp only [Bool.and_eq_true, Bool.not_eq_true'] at hc
            exact ⟨hc.1, hc.2, rfl⟩
          · rfl
    | some rn =>
      rw [normStep_slfSome] at h
      split at h
      · simp only [Option.some.injEq, Step.done.injEq] at h; subst h
        exact normStep_plain a v _ _ rfl
      · rename_i hng
        simp only [Option.some.injEq, Step.done.injEq] at h; subst h
        rw [normStep_slfSome]
        split
        · rename_i n hg; exact absurd hg (hng n)
        · rfl
  | ident n al =>
    rw [normStep_plain a v rest _ rfl] at h
    simp only [Option.some.injEq, Step.done.injEq] at h; subst h
    exact normStep_plain a v rest _ rfl
  | super al =>
    rw [normStep_plain a v rest _ rfl] at h
    simp only [Option.some.injEq, Step.done.injEq] at h; subst h
    exact normStep_plain a v rest _ rfl
  | crate al =>
    rw [normStep_plain a v rest _ rfl] at h
    simp only [Option.some.injEq, Step.done.injEq] at h; subst h
    exact normStep_plain a v rest _ rfl
  | glob =>
    rw [normStep_plain a v rest _ rfl] at h
    simp only [Option.some.injEq, Step.done.injEq] at h; subst h
    exact normStep_plain a v rest _ rfl


theorem nePath_append (a b : List Seg) : nePath (a ++ b) = (nePath a && nePath b) := by
  induction a with
  | nil => simp [nePath]
  | cons s r ih => simp [nePath, ih, Bool.and_assoc]

theorem innerAll_nePath {r : Bool} {p : List Seg} (h : innerAll r p = true) : nePath p = true := by
  induction p generalizing r with
  | nil => rfl
  | cons s p ih =>
    simp only [innerAll, Bool.and_eq_true] at h
    have : neSeg s = true := by
      have := innerOK_not_list h.1
      cases s <;> simp_all [neSeg, isList]
    simp [nePath, this, ih h.2]

theorem neTrees_iff (l : List Tree) : neTrees l = true ↔ ∀ t ∈ l, neTree t = true := by
  induction l with
  | nil => simp [neTrees]
  | cons t l ih => simp [neTrees, ih]

theorem neTree_iff (t : Tree) : neTree t = true ↔ t.path ≠ [] ∧ nePath t.path = true := by
  cases t; simp [neTree, RF.Imports.Tree.path]

theorem nePath_single_nonlist (s : Seg) (h : isList s = false) : nePath [s] = true := by
  cases s <;> simp_all [nePath, neSeg, isList]

theorem okPath_single_list {r : Bool} {l : List Tree} (h : okPath r [.list l] = true) :
    l ≠ [] ∧ ∀ t ∈ l, t.path ≠ [] ∧ okPath r t.path = true := by
  obtain ⟨h1, h2⟩ := (okPath_list r l).1 h
  exact ⟨h1, fun t ht => (okTree_iff r t).1 (h2 t ht)⟩

/-- The result of a non-recursive step has no nested tree with an empty path, and is itself non-empty
for a nested tree (`hasVis = false`). -/
theorem normStep_done_ne {a v r : Bool} {path q : List Seg} (h : normStep a v path = some (.done q))
    (hok : okPath r path = true) : nePath q = true ∧ (v = false → q ≠ []) := by
  obtain ⟨rest, last, rfl⟩ := normStep_some_snoc h
  obtain ⟨hin, hl⟩ := okPath_snoc hok
  have hnr := innerAll_nePath hin
  cases last with
  | list l =>
    rw [normStep_list] at h
    have hl' := (okPath_single_list hl).1
    split at h
    · rename_i hc; simp at hc; exact absurd hc.2 hl'
    · split at h <;> simp at h
  | slf al =>
    cases al with
    | none =>
      rw [normStep_slfNone] at h
      split at h
      · split at h
        · rename_i hc
          simp only [Option.some.injEq, Step.done.injEq] at h; subst h
          refine ⟨rfl, fun hv => ?_⟩
          simp [hv] at hc
        · simp only [Option.some.injEq, Step.done.injEq] at h; subst h
          exact ⟨rfl, fun _ => by simp⟩
      · rename_i hre
        simp only [Option.some.injEq, Step.done.injEq] at h; subst h
        exact ⟨hnr, fun _ => by simpa using hre⟩
    | some rn =>
      rw [normStep_slfSome] at h
      split at h
      · rename_i n hg
        simp only [Option.some.injEq, Step.done.injEq] at h; subst h
        have hp := eq_dropLast_append hg
        rw [hp, nePath_append, Bool.and_eq_true] at hnr
        refine ⟨?_, fun _ => by simp⟩
        rw [nePath_append, hnr.1]; rfl
      · simp only [Option.some.injEq, Step.done.injEq] at h; subst h
        refine ⟨?_, fun _ => by simp⟩
        rw [nePath_append, hnr]; rfl
  | ident n al =>
    rw [normStep_plain a v rest _ rfl] at h
    simp only [Option.some.injEq, Step.done.injEq] at h; subst h
    exact ⟨by rw [nePath_append, hnr]; rfl, fun _ => by simp⟩
  | super al =>
    rw [normStep_plain a v rest _ rfl] at h
    simp only [Option.some.injEq, Step.done.injEq] at h; subst h
    exact ⟨by rw [nePath_append, hnr]; rfl, fun _ => by simp⟩
  | crate al =>
    rw [normStep_plain a v rest _ rfl] at h
    simp only [Option.some.injEq, Step.done.injEq] at h; subst h
    exact ⟨by rw [nePath_append, hnr]; rfl, fun _ => by simp⟩
  | glob =>
    rw [normStep_plain a v rest _ rfl] at h
    simp only [Option.some.injEq, Step.done.injEq] at h; subst h
    exact ⟨by rw [nePath_append, hnr]; rfl, fun _ => by simp⟩

theorem normStep_splice_ok {a v r : Bool} {path p : List Seg}
    (h : normStep a v path = some (.splice p)) (hok : okPath r path = true) : okPath r p = true := by
  obtain ⟨rest, last, rfl⟩ := normStep_some_snoc h
  obtain ⟨hin, hl⟩ := okPath_snoc hok
  cases last with
  | list l =>
    rw [normStep_list] at h
    split at h
    · simp at h
    · split at h
      · rename_i t ht
        simp only [Option.some.injEq, Step.splice.injEq] at h; subst h
        obtain ⟨rfl, _⟩ := soleSplice_some ht
        obtain ⟨htne, htok⟩ := (okPath_single_list hl).2 t (by simp)
        exact (okPath_append r rest t.path htne).2 ⟨hin, htok⟩
      · simp at h
  | slf al =>
    cases al with
    | none => rw [normStep_slfNone] at h; split at h <;> (try split at h) <;> simp at h
    | some rn => rw [normStep_slfSome] at h; split at h <;> simp at h
  | ident n al => rw [normStep_plain a v rest _ rfl] at h; simp at h
  | super al => rw [normStep_plain a v rest _ rfl] at h; simp at h
  | crate al => rw [normStep_plain a v rest _ rfl] at h; simp at h
  | glob => rw [normStep_plain a v rest _ rfl] at h; simp at h

theorem normStep_sortList_spec {a v r : Bool} {path rest : List Seg} {l : List Tree}
    (h : normStep a v path = some (.sortList rest l)) (hok : okPath r path = true) :
    path = rest ++ [.list l] ∧ innerAll r rest = true ∧ soleSplice l = none ∧ l ≠ [] ∧
      ∀ t ∈ l, t.path ≠ [] ∧ okPath (r && rest.isEmpty) t.path = true := by
  obtain ⟨rest', last, rfl⟩ := normStep_some_snoc h
  obtain ⟨hin, hl⟩ := okPath_snoc hok
  cases last with
  | list l' =>
    rw [normStep_list] at h
    split at h
    · simp at h
    · split at h
      · simp at h
      · rename_i hs
        simp only [Option.some.injEq, Step.sortList.injEq] at h
        obtain ⟨rfl, rfl⟩ := h
        exact ⟨rfl, hin, hs, (okPath_single_list hl).1, (okPath_single_list hl).2⟩
  | slf al =>
    cases al with
    | none => rw [normStep_slfNone] at h; split at h <;> (try split at h) <;> simp at h
    | some rn => rw [normStep_slfSome] at h; split at h <;> simp at h
  | ident n al => rw [normStep_plain a v rest' _ rfl] at h; simp at h
  | super al => rw [normStep_plain a v rest' _ rfl] at h; simp at h
  | crate al => rw [normStep_plain a v rest' _ rfl] at h; simp at h
  | glob => rw [normStep_plain a v rest' _ rfl] at h; simp at h

theorem normStep_sortList_of (a v : Bool) (rest : List Seg) (l : List Tree) (hne : l ≠ [])
    (hs : soleSplice l = none) : normStep a v (rest ++ [.list l]) = some (.sortList rest l) := by
  rw [normStep_list, hs]
  have : l.isEmpty = false := by simpa using hne
  simp [this]


/-! The same three facts from well-formedness alone (`{}` allowed anywhere). -/

/-- The result of a non-recursive step has no nested tree with an empty path. -/
theorem normStep_done_ne_wf {a v r : Bool} {path q : List Seg} (h : normStep a v path = some (.done q))
    (hwf : wfPath r path = true) : nePath q = true := by
  obtain ⟨rest, last, rfl⟩ := normStep_some_snoc h
  obtain ⟨hin, hl⟩ := wfPath_snoc hwf
  have hnr := innerAll_nePath hin
  have plain : ∀ s, plainSeg s = true → normStep a v (rest ++ [s]) = some (.done q) → nePath q = true := by
    intro s hs h
    rw [normStep_plain a v rest _ hs] at h
    simp only [Option.some.injEq, Step.done.injEq] at h; subst h
    rw [nePath_append, hnr]
    cases s <;> simp_all [plainSeg, nePath, neSeg]
  cases last with
  | list l =>
    rw [normStep_list] at h
    split at h
    · simp only [Option.some.injEq, Step.done.injEq] at h; subst h; rfl
    · split at h <;> simp at h
  | slf al =>
    cases al with
    | none =>
      rw [normStep_slfNone] at h
      split at h
      · split at h
        · simp only [Option.some.injEq, Step.done.injEq] at h; subst h; rfl
        · simp only [Option.some.injEq, Step.done.injEq] at h; subst h; rfl
      · simp only [Option.some.injEq, Step.done.injEq] at h; subst h
        exact hnr
    | some rn =>
      rw [normStep_slfSome] at h
      split at h
      · rename_i n hg
        simp only [Option.some.injEq, Step.done.injEq] at h; subst h
        have hp := eq_dropLast_append hg
        rw [hp, nePath_append, Bool.and_eq_true] at hnr
        rw [nePath_append, hnr.1]; rfl
      · simp only [Option.some.injEq, Step.done.injEq] at h; subst h
        rw [nePath_append, hnr]; rfl
  | ident n al => exact plain _ rfl h
  | super al => exact plain _ rfl h
  | crate al => exact plain _ rfl h
  | glob => exact plain _ rfl h

theorem normStep_splice_wf {a v r : Bool} {path p : List Seg}
    (h : normStep a v path = some (.splice p)) (hwf : wfPath r path = true) : wfPath r p = true := by
  obtain ⟨rest, last, rfl⟩ := normStep_some_snoc h
  obtain ⟨hin, hl⟩ := wfPath_snoc hwf
  cases last with
  | list l =>
    rw [normStep_list] at h
    split at h
    · simp at h
    · split at h
      · rename_i t ht
        simp only [Option.some.injEq, Step.splice.injEq] at h; subst h
        obtain ⟨rfl, _⟩ := soleSplice_some ht
        obtain ⟨htne, htwf⟩ := wfLast_list_mem hl t (by simp)
        rw [wfPath_append r rest t.path htne, hin, htwf]; rfl
      · simp at h
  | slf al =>
    cases al with
    | none => rw [normStep_slfNone] at h; split at h <;> (try split at h) <;> simp at h
    | some rn => rw [normStep_slfSome] at h; split at h <;> simp at h
  | ident n al => rw [normStep_plain a v rest _ rfl] at h; simp at h
  | super al => rw [normStep_plain a v rest _ rfl] at h; simp at h
  | crate al => rw [normStep_plain a v rest _ rfl] at h; simp at h
  | glob => rw [normStep_plain a v rest _ rfl] at h; simp at h

theorem normStep_sortList_wf {a v r : Bool} {path rest : List Seg} {l : List Tree}
    (h : normStep a v path = some (.sortList rest l)) (hwf : wfPath r path = true) :
    path = rest ++ [.list l] ∧ innerAll r rest = true ∧ wfLast (r && rest.isEmpty) (.list l) = true ∧
      soleSplice l = none ∧ (!a && l.isEmpty) = false := by
  obtain ⟨rest', last, rfl⟩ := normStep_some_snoc h
  obtain ⟨hin, hl⟩ := wfPath_snoc hwf
  cases last with
  | list l' =>
    rw [normStep_list] at h
    split at h
    · simp at h
    · rename_i hc
      split at h
      · simp at h
      · rename_i hs
        simp only [Option.some.injEq, Step.sortList.injEq] at h
        obtain ⟨rfl, rfl⟩ := h
        exact ⟨rfl, hin, hl, hs, by simpa using hc⟩
  | slf al =>
    cases al with
    | none => rw [normStep_slfNone] at h; split at h <;> (try split at h) <;> simp at h
    | some rn => rw [normStep_slfSome] at h; split at h <;> simp at h
  | ident n al => rw [normStep_plain a v rest' _ rfl] at h; simp at h
  | super al => rw [normStep_plain a v rest' _ rfl] at h; simp at h
  | crate al => rw [normStep_plain a v rest' _ rfl] at h; simp at h
  | glob => rw [normStep_plain a v rest' _ rfl] at h; simp at h

theorem normStep_sortList_of' (a v : Bool) (rest : List Seg) (l : List Tree)
    (hc : (!a && l.isEmpty) = false) (hs : soleSplice l = none) :
    normStep a v (rest ++ [.list l]) = some (.sortList rest l) := by
  rw [normStep_list, hs]
  simp [hc]

theorem filter_eq_self_of_length {α} (p : α → Bool) : ∀ (l : List α),
    ¬ (l.filter p).length < l.length → l.filter p = l
  | [], _ => rfl
  | x :: l, h => by
    have hle := List.length_filter_le p l
    simp only [List.filter_cons] at h ⊢
    split
    · rename_i hx
      simp only [hx, if_true, List.length_cons] at h
      rw [filter_eq_self_of_length p l (by omega)]
    · rename_i hx
      simp only [hx, List.length_cons] at h
      simp at h
      omega

theorem mapE_mem {α β ε} (f : α → Except ε β) : ∀ (l : List α) (l' : List β), mapE f l = .ok l' →
    ∀ b ∈ l', ∃ a ∈ l, f a = .ok b
  | [], l', h, b, hb => by simp [mapE] at h; subst h; simp at hb
  | a :: l, l', h, b, hb => by
    simp only [mapE] at h
    split at h
    · simp at h
    · rename_i b0 hb0
      split at h
      · simp at h
      · rename_i bs hbs
        simp only [Except.ok.injEq] at h; subst h
        rcases List.mem_cons.1 hb with rfl | hb
        · exact ⟨a, by simp, hb0⟩
        · obtain ⟨a', ha', hfa'⟩ := mapE_mem f l bs hbs b hb
          exact ⟨a', by simp [ha'], hfa'⟩

theorem mapE_length {α β ε} (f : α → Except ε β) : ∀ (l : List α) (l' : List β), mapE f l = .ok l' →
    l'.length = l.length
  | [], l', h => by simp [mapE] at h; subst h; rfl
  | a :: l, l', h => by
    simp only [mapE] at h
    split at h
    · simp at h
    · split at h
      · simp at h
      · rename_i bs hbs
        simp only [Except.ok.injEq] at h; subst h
        simp [mapE_length f l bs hbs]

theorem mapE_fixed {α ε} (f : α → Except ε α) : ∀ (l : List α), (∀ a ∈ l, f a = .ok a) → mapE f l = .ok l
  | [], _ => rfl
  | a :: l, h => by
    simp [mapE, h a (by simp), mapE_fixed f l (fun a' ha' => h a' (by simp [ha']))]

theorem soleSplice_none_of_length {l : List Tree} (h : l.length ≠ 1) : soleSplice l = none := by
  match l, h with
  | [], _ => rfl
  | [_], h => simp at h
  | _ :: _ :: _, _ => rfl

theorem soleSplice_none_cases {l : List Tree} (h : soleSplice l = none) :
    l.length ≠ 1 ∨ ∃ t, l = [t] ∧ displaysSelf t = true := by
  match l, h with
  | [], _ => exact Or.inl (by simp)
  | [t], h =>
    right
    refine ⟨t, rfl, ?_⟩
    simp only [soleSplice] at h
    split at h
    · assumption
    · simp at h
  | _ :: _ :: _, _ => exact Or.inl (by simp)

theorem normPath_displaysSelf (cmp : Tree → Tree → Ordering) {fuel : Nat} {t : Tree} {q : List Seg}
    (hd : displaysSelf t = true) (h : normPath cmp fuel false false t.path = .ok q) : q = t.path := by
  cases fuel with
  | zero => simp [normPath] at h
  | succ fuel =>
    rw [normPath_step] at h
    unfold displaysSelf at hd
    split at hd
    · rename_i al
      simp only [RF.Imports.Tree.path] at h ⊢
      have e : ([Seg.slf al] : List Seg) = [] ++ [Seg.slf al] := rfl
      cases al with
      | none =>
        rw [e, normStep_slfNone] at h
        simp at h; exact h.symm
      | some rn =>
        rw [e, normStep_slfSome] at h
        simp at h; exact h.symm
    · rename_i n
      simp only [RF.Imports.Tree.path] at h ⊢
      have e : ([Seg.ident n none] : List Seg) = [] ++ [Seg.ident n none] := rfl
      rw [e, normStep_plain false false [] _ rfl] at h
      simp at h; exact h.symm
    · simp at hd

/-- The result of `normalize` has no nested tree with an empty path (an element normalised to the
empty path is removed from its list): for every path as the parser builds it, `{}` included. -/
theorem normPath_ne (cmp : Tree → Tree → Ordering) :
    ∀ (fuel : Nat) (a v : Bool) (path q : List Seg) (r : Bool),
      normPath cmp fuel a v path = .ok q → wfPath r path = true → nePath q = true := by
  intro fuel
  induction fuel with
  | zero => intro _ _ _ _ _ h; simp [normPath] at h
  | succ fuel ih =>
    intro a v path q r h hwf
    rw [normPath_step] at h
    cases hs : normStep a v path with
    | none => simp [hs] at h
    | some st =>
      cases st with
      | done q' =>
        simp only [hs, Except.ok.injEq] at h; subst h
        exact normStep_done_ne_wf hs hwf
      | splice p =>
        simp only [hs] at h
        exact ih a v p q r h (normStep_splice_wf hs hwf)
      | sortList rest l =>
        simp only [hs] at h
        obtain ⟨rfl, hin, hwl, _, _⟩ := normStep_sortList_wf hs hwf
        split at h
        · simp at h
        · rename_i l2 hl2
          have hnorm := norm_list_wf cmp fuel r rest l l2 hin hwl hl2
          split at h
          · exact ih _ _ _ _ r h hnorm
          · simp only [Except.ok.injEq] at h; subst h
            rw [nePath_append, innerAll_nePath hin]
            simp only [nePath, neSeg, Bool.and_true, Bool.true_and]
            rw [neTrees_iff]
            intro t ht
            obtain ⟨htl, htne⟩ := mem_sorted_kept ht
            obtain ⟨t0, ht0, hf⟩ := mapE_mem _ _ _ hl2 t htl
            obtain ⟨qt, hqt, rfl⟩ := except_map_ok hf
            rw [neTree_iff]
            exact ⟨htne, ih false false t0.path qt _ hqt (wfLast_list_mem hwl t0 ht0).2⟩

theorem pathSize_snoc_list (rest : List Seg) (l : List Tree) :
    pathSize (rest ++ [.list l]) = pathSize rest + (1 + treesSize l) := by
  rw [pathSize_append]; simp [pathSize, segSize]

/-- `normalize` is idempotent: on every path as the parser builds it (`{}` allowed anywhere: an element
that imports nothing is removed and the tree normalised again) the result, unless it is empty or the
bare `self` that is deleted next time, is returned unchanged by a second call (with any fuel above its
size). -/
theorem normPath_idem {cmp : Tree → Tree → Ordering} (tp : TotalPreorder cmp) :
    ∀ (fuel : Nat) (a v : Bool) (path q : List Seg) (r : Bool),
      normPath cmp fuel a v path = .ok q → wfPath r path = true → q ≠ [] →
      ¬(a = false ∧ v = true ∧ q = [.slf none]) →
      ∀ fuel2, pathSize q < fuel2 → normPath cmp fuel2 a v q = .ok q := by
  intro fuel
  induction fuel with
  | zero => intro _ _ _ _ _ h; simp [normPath] at h
  | succ fuel ih =>
    intro a v path q r h hwf hne hbare fuel2 hf2
    rw [normPath_step] at h
    cases hs : normStep a v path with
    | none => simp [hs] at h
    | some st =>
      cases st with
      | done q' =>
        obtain ⟨f2, rfl⟩ : ∃ f2, fuel2 = f2 + 1 := ⟨fuel2 - 1, by omega⟩
        simp only [hs, Except.ok.injEq] at h; subst h
        rw [normPath_step, normStep_done_fixed hs hwf hne hbare]
      | splice p =>
        simp only [hs] at h
        exact ih a v p q r h (normStep_splice_wf hs hwf) hne hbare _ hf2
      | sortList rest l =>
        simp only [hs] at h
        obtain ⟨rfl, hin, hwl, hsole, hc⟩ := normStep_sortList_wf hs hwf
        split at h
        · simp at h
        · rename_i l2 hl2
          have hnorm := norm_list_wf cmp fuel r rest l l2 hin hwl hl2
          split at h
          · -- an element was removed: the shorter tree was normalised again
            exact ih _ _ _ _ r h hnorm hne hbare _ hf2
          · rename_i hlt
            obtain ⟨f2, rfl⟩ : ∃ f2, fuel2 = f2 + 1 := ⟨fuel2 - 1, by omega⟩
            simp only [Except.ok.injEq] at h; subst h
            have hlen2 := mapE_length _ _ _ hl2
            have hK : l2.filter (fun t => !t.path.isEmpty) = l2 :=
              filter_eq_self_of_length _ l2 (by rw [hlen2]; exact hlt)
            rw [hK] at hf2 ⊢
            have hKall : ∀ t ∈ l2, t.path ≠ [] := by
              intro t ht
              have := (List.filter_eq_self.1 hK) t ht
              simpa using this
            have hperm := stableSort_perm cmp l2
            have hlen : (stableSort cmp l2).length = l.length := by
              rw [hperm.length_eq, hlen2]
            have hc' : (!a && (stableSort cmp l2).isEmpty) = false := by
              have : (stableSort cmp l2).isEmpty = l.isEmpty := by
                rw [Bool.eq_iff_iff]; simp only [List.isEmpty_iff, ← List.length_eq_zero_iff, hlen]
              rw [this]; exact hc
            have hsole' : soleSplice (stableSort cmp l2) = none := by
              rcases soleSplice_none_cases hsole with hl1 | ⟨t, rfl, hd⟩
              · exact soleSplice_none_of_length (by rw [hlen]; exact hl1)
              · -- l = [t], displays self: unchanged
                simp only [mapE] at hl2
                split at hl2
                · simp at hl2
                · rename_i b hb
                  simp only [Except.ok.injEq] at hl2; subst hl2
                  obtain ⟨qt, hqt, rfl⟩ := except_map_ok hb
                  have := normPath_displaysSelf cmp hd hqt
                  subst this
                  obtain ⟨p⟩ := t
                  simpa [stableSort, insertSorted, soleSplice, RF.Imports.Tree.path] using hd
            rw [normPath_step, normStep_sortList_of' a v rest _ hc' hsole']
            simp only []
            have hfix : mapE (fun t => (normPath cmp f2 false false t.path).map Tree.mk)
                (stableSort cmp l2) = .ok (stableSort cmp l2) := by
              apply mapE_fixed
              intro t ht
              have ht2 : t ∈ l2 := hperm.mem_iff.1 ht
              obtain ⟨t0, ht0, hf⟩ := mapE_mem _ _ _ hl2 t ht2
              obtain ⟨qt, hqt, rfl⟩ := except_map_ok hf
              have hqne : qt ≠ [] := by simpa [RF.Imports.Tree.path] using hKall _ ht2
              have hsz : pathSize qt < f2 := by
                have h1 := treeSize_le_of_mem ht
                rw [treeSize_eq] at h1
                rw [pathSize_snoc_list] at hf2
                simp only [RF.Imports.Tree.path] at h1
                omega
              have := ih false false t0.path qt _ hqt (wfLast_list_mem hwl t0 ht0).2 hqne (by simp) f2 hsz
              simp only [RF.Imports.Tree.path, this, Except.map]
            rw [hfix]
            simp only []
            have hS : (stableSort cmp l2).filter (fun t => !t.path.isEmpty) = stableSort cmp l2 := by
              apply List.filter_eq_self.2
              intro t ht
              simpa using hKall t (hperm.mem_iff.1 ht)
            rw [hS, if_neg (Nat.lt_irrefl _), stableSort_idem tp]


/-! ## `flatten`, `nest_trailing_self`, `Item` granularity -/

/-- The last segment is not a list, or is `{self}` / `{self as x}`: what `flatten` leaves alone. -/
def flatLast (p : List Seg) : Bool :=
  match p.getLast? with
  | some (.list l) => isSoleSelf l
  | _ => true

theorem flatLast_cons (s : Seg) (q : List Seg) (hs : isList s = false) (h : flatLast q = true) :
    flatLast (s :: q) = true := by
  cases q with
  | nil => cases s <;> simp_all [flatLast, isList]
  | cons t r => simpa [flatLast, List.getLast?_cons_cons] using h

mutual
theorem flattenLast_flat : ∀ (s : Seg) (r : Bool), wfLast r s = true → ∀ q ∈ flattenLast s, flatLast q = true
  | .list l, r, h, q, hq => by
    simp only [flattenLast] at hq
    split at hq
    · rename_i hs
      simp only [List.mem_singleton] at hq; subst hq
      simpa [flatLast] using hs
    · simp only [wfLast] at h; exact flattenTrees_flat l r h q hq
  | .ident .., _, _, q, hq | .slf _, _, _, q, hq | .super _, _, _, q, hq | .crate _, _, _, q, hq
  | .glob, _, _, q, hq => by simp [flattenLast] at hq; simp [hq, flatLast]
theorem flattenTree_flat : ∀ (t : Tree) (r : Bool), wfTree r t = true → ∀ q ∈ flattenTree t, flatLast q = true
  | .mk p, r, h, q, hq => by
    simp only [wfTree, Bool.and_eq_true] at h
    simp only [flattenTree] at hq
    exact flattenPath_flat p r h.2 q hq
theorem flattenPath_flat : ∀ (p : List Seg) (r : Bool), wfPath r p = true → ∀ q ∈ flattenPath p, flatLast q = true
  | [], _, _, q, hq => by simp [flattenPath] at hq; simp [hq, flatLast]
  | [s], r, h, q, hq => by
    rw [wfPath_single] at h
    rw [flattenPath_single] at hq
    exact flattenLast_flat s r h q hq
  | s :: t :: rest, r, h, q, hq => by
    rw [wfPath_cons_ne _ _ _ (by simp), Bool.and_eq_true] at h
    rw [flattenPath_cons_cons] at hq
    simp only [List.mem_map] at hq
    obtain ⟨q', hq', rfl⟩ := hq
    exact flatLast_cons s q' (innerOK_not_list h.1) (flattenPath_flat (t :: rest) false h.2 q' hq')
theorem flattenTrees_flat : ∀ (ts : List Tree) (r : Bool), wfTrees r ts = true → ∀ q ∈ flattenTrees ts, flatLast q = true
  | [], _, _, q, hq => by simp [flattenTrees] at hq
  | t :: ts, r, h, q, hq => by
    simp only [wfTrees, Bool.and_eq_true] at h
    simp only [flattenTrees, List.mem_append] at hq
    rcases hq with hq | hq
    · exact flattenTree_flat t r h.1 q hq
    · exact flattenTrees_flat ts r h.2 q hq
end

/-- An item `flatten` returns as it is. -/
def FlatItem (x : Item) : Prop := x.hasComment = true ∨ flatLast x.tree.path = true

theorem flattenItem_flat (g : Granularity) (it : Item) (hwf : wfPath true it.tree.path = true) :
    ∀ x ∈ flattenItem g it, FlatItem x := by
  intro x hx
  obtain ⟨⟨p⟩, v, a, c⟩ := it
  simp only [RF.Imports.Tree.path] at hwf
  simp only [flattenItem, RF.Imports.Tree.path] at hx
  split at hx
  · rename_i hc
    simp only [List.mem_singleton] at hx; subst hx
    simp only [Bool.or_eq_true, List.isEmpty_iff] at hc
    rcases hc with rfl | hc
    · exact Or.inr rfl
    · exact Or.inl hc
  · split at hx
    · rename_i l hl
      split at hx
      · rename_i hs
        simp only [List.mem_singleton] at hx; subst hx
        exact Or.inr (by simp [flatLast, RF.Imports.Tree.path, hl, hs])
      · simp only [List.mem_map] at hx
        obtain ⟨q, hq, rfl⟩ := hx
        exact Or.inr (flattenPath_flat p true hwf q hq)
    · rename_i hnl
      simp only [List.mem_singleton] at hx; subst hx
      right
      show flatLast p = true
      unfold flatLast
      split
      · rename_i l hl; exact absurd hl (hnl l)
      · rfl

theorem nestPath_idem (p : List Seg) : nestPath (nestPath p) = nestPath p := by
  cases hl : p.getLast? with
  | none => simp [nestPath, hl]
  | some s =>
    cases s with
    | slf a =>
      have h1 : nestPath p = p.dropLast ++ [.list [.mk [.slf a]]] := by simp [nestPath, hl]
      rw [h1]
      simp [nestPath]
    | _ => simp [nestPath, hl]

theorem nestItem_idem (x : Item) : nestItem (nestItem x) = nestItem x := by
  simp [nestItem, RF.Imports.Tree.path, nestPath_idem]

theorem flatLast_nestPath (p : List Seg) (h : flatLast p = true) : flatLast (nestPath p) = true := by
  unfold nestPath
  split
  · simp [flatLast, isSoleSelf]
  · exact h

/-- `flatten` does nothing to a nested flat item. -/
theorem flattenItem_nest_fixed (g : Granularity) (x : Item) (h : FlatItem x) :
    flattenItem g (nestItem x) = [nestItem x] := by
  unfold flattenItem
  split
  · rfl
  · rename_i hc
    simp only [Bool.or_eq_true, not_or, Bool.not_eq_true] at hc
    have hf : flatLast (nestItem x).tree.path = true := by
      rcases h with h | h
      · simp [nestItem, h] at hc
      · simpa [nestItem, RF.Imports.Tree.path] using flatLast_nestPath _ h
    split
    · rename_i l hl
      simp only [flatLast, hl] at hf
      simp [hf]
    · rfl

/-! ### the de-duplication of `flatten_use_trees` (`is_repeated_by`) -/

theorem sameVis_comm (a b : Option (List Char)) : sameVis a b = sameVis b a := by
  cases a <;> cases b <;> simp only [sameVis]
  rw [Bool.eq_iff_iff]; simp only [beq_iff_eq]; exact eq_comm

theorem treeBEq_comm (a b : Tree) : treeBEq a b = treeBEq b a := by
  rw [Bool.eq_iff_iff, treeBEq_iff, treeBEq_iff]; exact eq_comm

/-- `is_repeated_by` is symmetric. -/
theorem isRepeatedBy_comm (s t : Item) : isRepeatedBy s t = isRepeatedBy t s := by
  simp only [isRepeatedBy, treeBEq_comm s.tree t.tree, sameVis_comm s.vis t.vis]
  generalize treeBEq t.tree s.tree = b1
  generalize sameVis t.vis s.vis = b2
  generalize s.attrs.isNone = b3
  generalize t.attrs.isNone = b4
  generalize s.hasComment = b5
  generalize t.hasComment = b6
  cases b1 <;> cases b2 <;> cases b3 <;> cases b4 <;> cases b5 <;> cases b6 <;> rfl

/-- Neither import repeats the other. -/
def NoRep (a b : Item) : Prop := isRepeatedBy a b = false

theorem NoRep.symm {a b : Item} (h : NoRep a b) : NoRep b a := by
  unfold NoRep at h ⊢; rw [isRepeatedBy_comm]; exact h

/-- What `flatten_use_trees` keeps is pairwise not repeated. -/
theorem dedupItems_pairwise : ∀ (xs res : List Item), res.Pairwise NoRep →
    (dedupItems xs res).Pairwise NoRep
  | [], _, h => by simpa only [dedupItems] using h
  | t :: ts, res, h => by
    simp only [dedupItems]
    split
    · exact dedupItems_pairwise ts res h
    · rename_i hn
      apply dedupItems_pairwise ts
      rw [List.pairwise_append]
      refine ⟨h, by simp, ?_⟩
      intro a ha b hb
      simp only [List.mem_singleton] at hb; subst hb
      simp only [List.any_eq_true, not_exists, not_and, Bool.not_eq_true] at hn
      exact hn a ha

/-- A list without repeated imports passes the loop of `flatten_use_trees` unchanged. -/
theorem dedupItems_of_pairwise : ∀ (l res : List Item), (res ++ l).Pairwise NoRep →
    dedupItems l res = res ++ l
  | [], res, _ => by simp [dedupItems]
  | t :: ts, res, h => by
    have hnot : (res.any fun s => isRepeatedBy s t) = false := by
      rw [List.pairwise_append] at h
      cases hh : (res.any fun s => isRepeatedBy s t) with
      | false => rfl
      | true =>
        simp only [List.any_eq_true] at hh
        obtain ⟨s, hs, he⟩ := hh
        have := h.2.2 s hs t (by simp)
        unfold NoRep at this
        rw [this] at he; cases he
    simp only [dedupItems, hnot]
    rw [dedupItems_of_pairwise ts (res ++ [t]) (by simpa using h)]
    simp

theorem dedupItems_idem (xs : List Item) : dedupItems (dedupItems xs []) [] = dedupItems xs [] := by
  have := dedupItems_of_pairwise (dedupItems xs []) []
    (by simpa using dedupItems_pairwise xs [] List.Pairwise.nil)
  simpa using this

theorem dedupItems_nil_sub (xs : List Item) : ∀ x ∈ dedupItems xs [], x ∈ xs := by
  intro x hx
  rcases dedupItems_sub xs [] x hx with h | h
  · simp at h
  · exact h

theorem flatMap_singleton_of {α} (f : α → List α) : ∀ (l : List α), (∀ a ∈ l, f a = [a]) → l.flatMap f = l
  | [], _ => rfl
  | a :: l, h => by
    simp [List.flatMap_cons, h a (by simp), flatMap_singleton_of f l (fun b hb => h b (by simp [hb]))]

/-- `flatten_use_trees` applied to its own output returns it unchanged. -/
theorem flattenUseTrees_idem (g : Granularity) (its : List Item)
    (hwf : ∀ it ∈ its, wfPath true it.tree.path = true) :
    flattenUseTrees g (flattenUseTrees g its) = flattenUseTrees g its := by
  have hF : ∀ y ∈ flattenUseTrees g its, flattenItem g y = [y] ∧ nestItem y = y := by
    intro y hy
    have := dedupItems_nil_sub _ y hy
    simp only [List.mem_map, List.mem_flatMap] at this
    obtain ⟨x, ⟨it, hit, hx⟩, rfl⟩ := this
    exact ⟨flattenItem_nest_fixed g x (flattenItem_flat g it (hwf it hit) x hx), nestItem_idem x⟩
  have h1 : (flattenUseTrees g its).flatMap (flattenItem g) = flattenUseTrees g its :=
    flatMap_singleton_of _ _ (fun y hy => (hF y hy).1)
  have h2 : (flattenUseTrees g its).map nestItem = flattenUseTrees g its := by
    rw [List.map_congr_left (fun y hy => (hF y hy).2)]; simp
  generalize hFd : flattenUseTrees g its = F at h1 h2
  have : flattenUseTrees g F = dedupItems ((F.flatMap (flattenItem g)).map nestItem) [] := rfl
  rw [this, h1, h2, ← hFd]
  unfold flattenUseTrees
  exact dedupItems_idem _


/-! ## `group_imports` -/

theorem filter_class_self (c : Group) (l : List Item) (h : ∀ t ∈ l, classify t.tree = c) :
    l.filter (classify ·.tree == c) = l := by
  apply List.filter_eq_self.2
  intro t ht; simp [h t ht]

theorem filter_class_other (c c' : Group) (hc : c ≠ c') (l : List Item)
    (h : ∀ t ∈ l, classify t.tree = c) : l.filter (classify ·.tree == c') = [] := by
  apply List.filter_eq_nil_iff.2
  intro t ht; simp [h t ht, hc]

/-- Grouping the concatenation of a std, an external and a local group gives back the three groups. -/
theorem groupImports_of_grouped (g1 g2 g3 : List Item) (h1 : ∀ t ∈ g1, classify t.tree = .std)
    (h2 : ∀ t ∈ g2, classify t.tree = .external) (h3 : ∀ t ∈ g3, classify t.tree = .localG) :
    groupImports (g1 ++ g2 ++ g3) = [g1, g2, g3] := by
  simp only [groupImports, List.filter_append]
  rw [filter_class_self _ _ h1, filter_class_self _ _ h2, filter_class_self _ _ h3,
    filter_class_other _ _ (by decide) _ h1, filter_class_other _ _ (by decide) _ h1,
    filter_class_other _ _ (by decide) _ h2, filter_class_other _ _ (by decide) _ h2,
    filter_class_other _ _ (by decide) _ h3, filter_class_other _ _ (by decide) _ h3]
  simp

theorem groupImports_idem (ts : List Item) : groupImports (groupImports ts).flatten = groupImports ts := by
  have := groupImports_of_grouped (ts.filter (classify ·.tree == .std))
    (ts.filter (classify ·.tree == .external)) (ts.filter (classify ·.tree == .localG))
    (fun t ht => by simpa using (List.mem_filter.1 ht).2)
    (fun t ht => by simpa using (List.mem_filter.1 ht).2)
    (fun t ht => by simpa using (List.mem_filter.1 ht).2)
  simpa [groupImports] using this

/-! ## Reading back -/

mutual
theorem reparseSeg_ne : ∀ s : Seg, neSeg s = true → reparseSeg s = s
  | .list l, h => by simp only [neSeg] at h; simp [reparseSeg, reparseTrees_ne l h]
  | .ident .., _ | .slf _, _ | .super _, _ | .crate _, _ | .glob, _ => by simp [reparseSeg]
theorem reparsePath_ne : ∀ p : List Seg, nePath p = true → reparsePath p = p
  | [], _ => rfl
  | s :: r, h => by
    simp only [nePath, Bool.and_eq_true] at h
    simp [reparsePath, reparseSeg_ne s h.1, reparsePath_ne r h.2]
theorem reparseTrees_ne : ∀ l : List Tree, neTrees l = true → reparseTrees l = l
  | [], _ => rfl
  | .mk p :: r, h => by
    simp only [neTrees, neTree, Bool.and_eq_true, Bool.not_eq_true'] at h
    simp [reparseTrees, h.1.1, reparsePath_ne p h.1.2, reparseTrees_ne r h.2]
end


/-! ## Items -/

theorem normalizeItem_path {cmp : Tree → Tree → Ordering} {it it' : Item}
    (h : normalizeItem cmp it = .ok it') :
    normPath cmp (pathSize it.tree.path + 1) it.attrs.isSome it.vis.isSome it.tree.path = .ok it'.tree.path ∧
      it'.vis = it.vis ∧ it'.attrs = it.attrs ∧ it'.hasComment = it.hasComment := by
  unfold normalizeItem at h
  split at h
  · simp at h
  · rename_i p hp
    simp only [Except.ok.injEq] at h; subst h
    exact ⟨hp, rfl, rfl, rfl⟩

/-- `normalize` applied to its own result, top level. -/
theorem normalizeItem_idem {cmp : Tree → Tree → Ordering} (tp : TotalPreorder cmp) (it it' : Item)
    (h : normalizeItem cmp it = .ok it') (hwf : wfPath true it.tree.path = true)
    (hne : it'.tree.path ≠ []) (hb : bareSelf it' = false) : normalizeItem cmp it' = .ok it' := by
  obtain ⟨hp, hv, ha, _⟩ := normalizeItem_path h
  have hbare : ¬(it.attrs.isSome = false ∧ it.vis.isSome = true ∧ it'.tree.path = [.slf none]) := by
    rintro ⟨h1, h2, h3⟩
    simp only [bareSelf, h3, ha, hv] at hb
    cases hat : it.attrs <;> simp_all
  have := normPath_idem tp _ _ _ _ _ true hp hwf hne hbare (pathSize it'.tree.path + 1) (by omega)
  obtain ⟨⟨p⟩, v', a', c'⟩ := it'
  simp only [RF.Imports.Tree.path] at this hv ha
  subst hv ha
  simp only [normalizeItem, RF.Imports.Tree.path, this]

/-- The result of `normalize` is read back as it is. -/
theorem normalizeItem_reparse {cmp : Tree → Tree → Ordering} (it it' : Item)
    (h : normalizeItem cmp it = .ok it') (hwf : wfPath true it.tree.path = true) :
    reparseTree it'.tree = it'.tree := by
  obtain ⟨hp, _⟩ := normalizeItem_path h
  have := normPath_ne cmp _ _ _ _ _ true hp hwf
  obtain ⟨⟨p⟩, _, _, _⟩ := it'
  simp only [RF.Imports.Tree.path] at this
  simp [reparseTree, RF.Imports.Tree.path, reparsePath_ne p this]

/-! ## The `use` arm twice, `Preserve` granularity -/

/-- Items whose path is not empty (what is written out). -/
def written (l : List Item) : List Item := l.filter fun it => !it.tree.path.isEmpty

theorem reparseItems_eq_written (l : List Item) (h : ∀ it ∈ l, reparseTree it.tree = it.tree) :
    reparseItems l = written l := by
  unfold reparseItems written
  have : ∀ it ∈ l.filter (fun it => !it.tree.path.isEmpty), ({ it with tree := reparseTree it.tree } : Item) = it := by
    intro it hit
    rw [h it (List.mem_filter.1 hit).1]
  rw [List.map_congr_left this]; simp

theorem written_sublist (l : List Item) : (written l).Sublist l := List.filter_sublist

theorem written_append (a b : List Item) : written (a ++ b) = written a ++ written b := by
  simp [written]

theorem written_flatten (L : List (List Item)) : written L.flatten = (L.map written).flatten := by
  induction L with
  | nil => rfl
  | cons a L ih => simp [written_append, ih]

theorem flatten_filter_nonempty {α} (L : List (List α)) :
    (L.filter fun g => !g.isEmpty).flatten = L.flatten := by
  induction L with
  | nil => rfl
  | cons a L ih =>
    cases a with
    | nil => simp [ih]
    | cons x xs => simp [ih]

theorem filter_map_filter_nonempty {α} (f : List α → List α) (hf : f [] = []) (L : List (List α)) :
    ((L.filter fun g => !g.isEmpty).map f).filter (fun g => !g.isEmpty) =
      (L.map f).filter (fun g => !g.isEmpty) := by
  induction L with
  | nil => rfl
  | cons a L ih =>
    cases a with
    | nil => simp [hf, ih]
    | cons x xs => simp [List.filter_cons, ih]

/-- The grouping + sorting + dropping of empty groups at the end of `rewriteUseRun`. -/
def finish (cmp : Tree → Tree → Ordering) (gt : GroupTactic) (reorder : Bool) (merged : List Item) :
    List (List Item) :=
  let groups := match gt with
    | .stdExternalCrate => groupImports merged
    | _ => [merged]
  let groups := if reorder then
      groups.map (RF.Sort.stableSort (fun a b => cmp a.tree b.tree)) else groups
  groups.filter (fun grp => !grp.isEmpty)

theorem rewriteUseRun_eq (cmp : Tree → Tree → Ordering) (g : Granularity) (gt : GroupTactic)
    (reorder : Bool) (items : List Item) :
    rewriteUseRun cmp g gt reorder items =
      match mapE (normalizeItem cmp) items with
      | .error e => .error e
      | .ok normalized =>
        match withGranularity cmp g normalized with
        | .error e => .error e
        | .ok merged => .ok (finish cmp gt reorder merged) := rfl

theorem classify_sort_mem {cmp : Item → Item → Ordering} {l : List Item} {c : Group}
    (h : ∀ t ∈ l, classify t.tree = c) : ∀ t ∈ stableSort cmp l, classify t.tree = c :=
  fun t ht => h t ((stableSort_perm cmp l).mem_iff.1 ht)

/-- `finish` on what is written of its own output gives that output again. -/
theorem finish_written {cmp : Tree → Tree → Ordering} (tp : TotalPreorder cmp) (gt : GroupTactic)
    (reorder : Bool) (merged : List Item) :
    finish cmp gt reorder (written (finish cmp gt reorder merged).flatten) =
      ((finish cmp gt reorder merged).map written).filter (fun grp => !grp.isEmpty) := by
  have tpI : TotalPreorder (fun a b : Item => cmp a.tree b.tree) := tp.pullback (fun it : Item => it.tree)
  -- the groups before empty ones are dropped
  obtain ⟨G, hG, hfin⟩ : ∃ G : List (List Item),
      finish cmp gt reorder merged = G.filter (fun grp => !grp.isEmpty) ∧
      finish cmp gt reorder (written G.flatten) = (G.map written).filter (fun grp => !grp.isEmpty) := by
    cases gt with
    | stdExternalCrate =>
      cases reorder with
      | false =>
        refine ⟨groupImports merged, rfl, ?_⟩
        simp only [finish, Bool.false_eq_true, if_false]
        rw [written_flatten]
        have hg := groupImports_of_grouped
          (written (merged.filter (classify ·.tree == .std)))
          (written (merged.filter (classify ·.tree == .external)))
          (written (merged.filter (classify ·.tree == .localG)))
          (fun t ht => by simpa using (List.mem_filter.1 ((written_sublist _).subset ht)).2)
          (fun t ht => by simpa using (List.mem_filter.1 ((written_sublist _).subset ht)).2)
          (fun t ht => by simpa using (List.mem_filter.1 ((written_sublist _).subset ht)).2)
        simp only [groupImports, List.map_cons, List.map_nil, List.flatten_cons, List.flatten_nil,
          List.append_nil] at hg ⊢
        rw [← List.append_assoc, hg]
      | true =>
        refine ⟨(groupImports merged).map (stableSort (fun a b => cmp a.tree b.tree)), rfl, ?_⟩
        simp only [finish, if_true]
        rw [written_flatten]
        have hc : ∀ (c : Group), ∀ t ∈ written (stableSort (fun a b => cmp a.tree b.tree)
            (merged.filter (classify ·.tree == c))), classify t.tree = c := by
          intro c t ht
          have := (stableSort_perm _ _).mem_iff.1 ((written_sublist _).subset ht)
          simpa using (List.mem_filter.1 this).2
        have hg := groupImports_of_grouped _ _ _ (hc .std) (hc .external) (hc .localG)
        have hflat : (((groupImports merged).map (stableSort (fun a b => cmp a.tree b.tree))).map written).flatten =
            written (stableSort (fun a b => cmp a.tree b.tree) (merged.filter (classify ·.tree == .std))) ++
            written (stableSort (fun a b => cmp a.tree b.tree) (merged.filter (classify ·.tree == .external))) ++
            written (stableSort (fun a b => cmp a.tree b.tree) (merged.filter (classify ·.tree == .localG))) := by
          simp [groupImports]
        rw [hflat, hg]
        have hs : ∀ (c : Group), stableSort (fun a b => cmp a.tree b.tree)
            (written (stableSort (fun a b => cmp a.tree b.tree) (merged.filter (classify ·.tree == c)))) =
            written (stableSort (fun a b => cmp a.tree b.tree) (merged.filter (classify ·.tree == c))) :=
          fun c => stableSort_of_sorted _ _ (sorted_sublist (written_sublist _) (stableSort_sorted tpI _))
        simp only [List.map_cons, List.map_nil, hs, groupImports]
    | preserve =>
      cases reorder with
      | false => exact ⟨[merged], rfl, by simp [finish]⟩
      | true =>
        refine ⟨[stableSort (fun a b => cmp a.tree b.tree) merged], rfl, ?_⟩
        simp only [finish, if_true, List.flatten_cons, List.flatten_nil, List.append_nil, List.map_cons,
          List.map_nil]
        rw [stableSort_of_sorted _ _ (sorted_sublist (written_sublist _) (stableSort_sorted tpI _))]
    | one =>
      cases reorder with
      | false => exact ⟨[merged], rfl, by simp [finish]⟩
      | true =>
        refine ⟨[stableSort (fun a b => cmp a.tree b.tree) merged], rfl, ?_⟩
        simp only [finish, if_true, List.flatten_cons, List.flatten_nil, List.append_nil, List.map_cons,
          List.map_nil]
        rw [stableSort_of_sorted _ _ (sorted_sublist (written_sublist _) (stableSort_sorted tpI _))]
  rw [hG, flatten_filter_nonempty, hfin, filter_map_filter_nonempty written rfl]


theorem finish_mem (cmp : Tree → Tree → Ordering) (gt : GroupTactic) (reorder : Bool)
    (merged : List Item) : ∀ g ∈ finish cmp gt reorder merged, ∀ x ∈ g, x ∈ merged := by
  intro g hg x hx
  unfold finish at hg
  simp only [] at hg
  have hg' := (List.mem_filter.1 hg).1
  have key : ∀ G : List (List Item), (∀ g ∈ G, ∀ x ∈ g, x ∈ merged) →
      ∀ g ∈ (if reorder = true then G.map (stableSort (fun a b => cmp a.tree b.tree)) else G),
        ∀ x ∈ g, x ∈ merged := by
    intro G hG g hg x hx
    cases reorder with
    | false => exact hG g (by simpa using hg) x hx
    | true =>
      simp only [if_true, List.mem_map] at hg
      obtain ⟨g0, hg0, rfl⟩ := hg
      exact hG g0 hg0 x ((mem_stableSort _ _ _).1 hx)
  cases gt with
  | stdExternalCrate =>
    refine key (groupImports merged) ?_ g hg' x hx
    intro g hg x hx
    simp only [groupImports, List.mem_cons, List.mem_nil_iff, or_false] at hg
    rcases hg with rfl | rfl | rfl <;> exact (List.mem_filter.1 hx).1
  | preserve =>
    refine key [merged] ?_ g hg' x hx
    intro g hg x hx
    simp only [List.mem_singleton] at hg
    subst hg; exact hx
  | one =>
    refine key [merged] ?_ g hg' x hx
    intro g hg x hx
    simp only [List.mem_singleton] at hg
    subst hg; exact hx

/-- Two runs of the `use` arm when the second run's `normalize` and granularity step leave the items
written by the first run as they are: the groups do not change. -/
theorem runTwice_of_fixed {cmp : Tree → Tree → Ordering} (tp : TotalPreorder cmp) (g : Granularity)
    (gt : GroupTactic) (reorder : Bool) (items normalized merged : List Item)
    (hn : mapE (normalizeItem cmp) items = .ok normalized)
    (hm : withGranularity cmp g normalized = .ok merged)
    (hre : ∀ it ∈ merged, reparseTree it.tree = it.tree)
    (hnorm : ∀ it ∈ merged, it.tree.path ≠ [] → normalizeItem cmp it = .ok it)
    (hg2 : ∀ l : List Item, (∀ x ∈ l, x ∈ merged ∧ x.tree.path ≠ []) →
        l = written (finish cmp gt reorder merged).flatten → withGranularity cmp g l = .ok l) :
    ∃ a, runTwice cmp g gt reorder items = .ok (a, a) := by
  have hfirst : rewriteUseRun cmp g gt reorder items = .ok (finish cmp gt reorder merged) := by
    rw [rewriteUseRun_eq, hn]; simp only [hm]
  have hmem : ∀ x ∈ (finish cmp gt reorder merged).flatten, x ∈ merged := by
    intro x hx
    obtain ⟨grp, hgrp, hx⟩ := List.mem_flatten.1 hx
    exact finish_mem cmp gt reorder merged grp hgrp x hx
  have hI2 : reparseItems (finish cmp gt reorder merged).flatten =
      written (finish cmp gt reorder merged).flatten :=
    reparseItems_eq_written _ (fun it hit => hre it (hmem it hit))
  have hI2mem : ∀ x ∈ written (finish cmp gt reorder merged).flatten, x ∈ merged ∧ x.tree.path ≠ [] := by
    intro x hx
    obtain ⟨h1, h2⟩ := List.mem_filter.1 hx
    exact ⟨hmem x h1, by simpa using h2⟩
  have hn2 : mapE (normalizeItem cmp) (written (finish cmp gt reorder merged).flatten) =
      .ok (written (finish cmp gt reorder merged).flatten) :=
    mapE_fixed _ _ (fun x hx => hnorm x (hI2mem x hx).1 (hI2mem x hx).2)
  have hsecond : rewriteUseRun cmp g gt reorder (written (finish cmp gt reorder merged).flatten) =
      .ok (finish cmp gt reorder (written (finish cmp gt reorder merged).flatten)) := by
    rw [rewriteUseRun_eq, hn2]; simp only [hg2 _ hI2mem rfl]
  have hA : (finish cmp gt reorder merged).map reparseItems = (finish cmp gt reorder merged).map written := by
    apply List.map_congr_left
    intro grp hgrp
    exact reparseItems_eq_written _ (fun it hit => hre it (finish_mem cmp gt reorder merged grp hgrp it hit))
  refine ⟨((finish cmp gt reorder merged).map written).filter (fun grp => !grp.isEmpty), ?_⟩
  unfold runTwice
  simp only [hfirst, hI2, hsecond, hA, finish_written tp]


/-- `Preserve` granularity (the default): the whole `use` arm, run on what it wrote, writes the same. -/
theorem run_idem_preserve {cmp : Tree → Tree → Ordering} (tp : TotalPreorder cmp) (gt : GroupTactic)
    (reorder : Bool) (items normalized : List Item)
    (hn : mapE (normalizeItem cmp) items = .ok normalized)
    (hok : ∀ it ∈ items, wfPath true it.tree.path = true)
    (hb : ∀ it ∈ normalized, bareSelf it = false) :
    ∃ a, runTwice cmp .preserve gt reorder items = .ok (a, a) := by
  apply runTwice_of_fixed tp .preserve gt reorder items normalized normalized hn rfl
  · intro it' hit'
    obtain ⟨it, hit, h⟩ := mapE_mem _ _ _ hn it' hit'
    exact normalizeItem_reparse it it' h (hok it hit)
  · intro it' hit' hne
    obtain ⟨it, hit, h⟩ := mapE_mem _ _ _ hn it' hit'
    exact normalizeItem_idem tp it it' h (hok it hit) hne (hb it' hit')
  · intro l _ _; rfl



/-! ## `Item` granularity: the whole `use` arm twice -/

/-- The last segment is neither `self` nor a list other than `{self}`: a path `flatten` and
`nest_trailing_self` leave alone. -/
def fixedLast (p : List Seg) : Bool :=
  match p.getLast? with
  | some (.list l) => isSoleSelf l
  | some (.slf _) => false
  | _ => true

theorem isSoleSelf_iff (l : List Tree) : isSoleSelf l = true ↔ ∃ a, l = [.mk [.slf a]] := by
  constructor
  · intro h
    unfold isSoleSelf at h
    split at h
    · exact ⟨_, rfl⟩
    · simp at h
  · rintro ⟨a, rfl⟩; rfl

theorem fixedLast_nestPath (p : List Seg) (h : flatLast p = true) : fixedLast (nestPath p) = true := by
  cases hl : p.getLast? with
  | none => simp [nestPath, fixedLast, hl]
  | some s =>
    cases s with
    | slf a => simp [nestPath, fixedLast, hl, isSoleSelf]
    | list l =>
      simp only [flatLast, hl] at h
      simp [nestPath, fixedLast, hl, h]
    | _ => simp [nestPath, fixedLast, hl]

theorem normPath_selfTree (cmp : Tree → Tree → Ordering) (fuel : Nat) (a : Option (List Char)) :
    normPath cmp (fuel + 1) false false [.slf a] = .ok [.slf a] := by
  rw [normPath_step]
  have e : ([Seg.slf a] : List Seg) = [] ++ [Seg.slf a] := rfl
  cases a with
  | none => rw [e, normStep_slfNone]; simp
  | some r => rw [e, normStep_slfSome]; simp

/-- `normalize` leaves a non-empty path with a `fixedLast` last segment as it is (whatever the other
segments, the flags, and the order). -/
theorem normPath_fixedLast (cmp : Tree → Tree → Ordering) (fuel : Nat) (a v : Bool) (p : List Seg)
    (hne : p ≠ []) (h : fixedLast p = true) : normPath cmp (fuel + 2) a v p = .ok p := by
  obtain ⟨rest, last, rfl⟩ := exists_snoc_of_ne hne
  rw [normPath_step]
  cases last with
  | list l =>
    simp only [fixedLast, List.getLast?_append, List.getLast?_singleton, Option.some_or] at h
    obtain ⟨al, rfl⟩ := (isSoleSelf_iff l).1 h
    rw [normStep_sortList_of a v rest _ (by simp) (by simp [soleSplice, displaysSelf])]
    simp [mapE, RF.Imports.Tree.path, normPath_selfTree, Except.map, stableSort, insertSorted]
  | slf al => simp [fixedLast] at h
  | ident n al => rw [normStep_plain a v rest _ rfl]
  | super al => rw [normStep_plain a v rest _ rfl]
  | crate al => rw [normStep_plain a v rest _ rfl]
  | glob => rw [normStep_plain a v rest _ rfl]

theorem segSize_pos (s : Seg) : 0 < segSize s := by
  cases s with
  | list l => simp only [segSize]; omega
  | _ => simp only [segSize]; omega

theorem pathSize_pos {p : List Seg} (h : p ≠ []) : 0 < pathSize p := by
  cases p with
  | nil => exact absurd rfl h
  | cons s r =>
    have := segSize_pos s
    simp only [pathSize]; omega

theorem normalizeItem_fixedLast (cmp : Tree → Tree → Ordering) (y : Item) (hne : y.tree.path ≠ [])
    (h : fixedLast y.tree.path = true) : normalizeItem cmp y = .ok y := by
  have hp := pathSize_pos hne
  obtain ⟨f, hf⟩ : ∃ f, pathSize y.tree.path + 1 = f + 2 := ⟨pathSize y.tree.path - 1, by omega⟩
  unfold normalizeItem
  rw [hf, normPath_fixedLast cmp f _ _ _ hne h]
  obtain ⟨⟨p⟩, _, _, _⟩ := y
  rfl

/-- A path whose last segment is `fixedLast` and whose other segments are not lists has no nested
empty tree. -/
theorem nePath_of_fixedLast (p : List Seg) (hin : (p.dropLast).all (fun s => !isList s) = true)
    (h : fixedLast p = true) : nePath p = true := by
  have h1 : nePath p.dropLast = true := by
    generalize p.dropLast = q at hin
    induction q with
    | nil => rfl
    | cons x q ih =>
      simp only [List.all_cons, Bool.and_eq_true, Bool.not_eq_true'] at hin
      have : neSeg x = true := by cases x <;> simp_all [neSeg, isList]
      simp [nePath, this, ih (by simpa using hin.2)]
  cases hl : p.getLast? with
  | none =>
    have : p = [] := by simpa using hl
    subst this; rfl
  | some s =>
    have hp := eq_dropLast_append hl
    rw [hp, nePath_append, h1]
    cases s with
    | list l =>
      simp only [fixedLast, hl] at h
      obtain ⟨a, rfl⟩ := (isSoleSelf_iff l).1 h
      rfl
    | _ => rfl


/-- No list among the segments before the last. -/
def innerPlain (p : List Seg) : Bool := p.dropLast.all (fun s => !isList s)

theorem innerPlain_cons (s : Seg) (q : List Seg) (hs : isList s = false) (h : innerPlain q = true) :
    innerPlain (s :: q) = true := by
  cases q with
  | nil => rfl
  | cons t r =>
    simp only [innerPlain, List.dropLast_cons_cons, List.all_cons, Bool.and_eq_true, Bool.not_eq_true'] at h ⊢
    exact ⟨hs, h⟩

mutual
theorem flattenLast_inner : ∀ (s : Seg) (r : Bool), wfLast r s = true → ∀ q ∈ flattenLast s, innerPlain q = true
  | .list l, r, h, q, hq => by
    simp only [flattenLast] at hq
    split at hq
    · simp only [List.mem_singleton] at hq; subst hq; rfl
    · simp only [wfLast] at h; exact flattenTrees_inner l r h q hq
  | .ident .., _, _, q, hq | .slf _, _, _, q, hq | .super _, _, _, q, hq | .crate _, _, _, q, hq
  | .glob, _, _, q, hq => by simp [flattenLast] at hq; simp [hq, innerPlain]
theorem flattenTree_inner : ∀ (t : Tree) (r : Bool), wfTree r t = true → ∀ q ∈ flattenTree t, innerPlain q = true
  | .mk p, r, h, q, hq => by
    simp only [wfTree, Bool.and_eq_true] at h
    simp only [flattenTree] at hq
    exact flattenPath_inner p r h.2 q hq
theorem flattenPath_inner : ∀ (p : List Seg) (r : Bool), wfPath r p = true → ∀ q ∈ flattenPath p, innerPlain q = true
  | [], _, _, q, hq => by simp [flattenPath] at hq; simp [hq, innerPlain]
  | [s], r, h, q, hq => by
    rw [wfPath_single] at h
    rw [flattenPath_single] at hq
    exact flattenLast_inner s r h q hq
  | s :: t :: rest, r, h, q, hq => by
    rw [wfPath_cons_ne _ _ _ (by simp), Bool.and_eq_true] at h
    rw [flattenPath_cons_cons] at hq
    simp only [List.mem_map] at hq
    obtain ⟨q', hq', rfl⟩ := hq
    exact innerPlain_cons s q' (innerOK_not_list h.1) (flattenPath_inner (t :: rest) false h.2 q' hq')
theorem flattenTrees_inner : ∀ (ts : List Tree) (r : Bool), wfTrees r ts = true → ∀ q ∈ flattenTrees ts, innerPlain q = true
  | [], _, _, q, hq => by simp [flattenTrees] at hq
  | t :: ts, r, h, q, hq => by
    simp only [wfTrees, Bool.and_eq_true] at h
    simp only [flattenTrees, List.mem_append] at hq
    rcases hq with hq | hq
    · exact flattenTree_inner t r h.1 q hq
    · exact flattenTrees_inner ts r h.2 q hq
end

/-- A piece returned by `flatten` is the item itself or a flat path without inner lists. -/
theorem flattenItem_cases (g : Granularity) (it : Item) (hwf : wfPath true it.tree.path = true) :
    ∀ x ∈ flattenItem g it, x = it ∨ (flatLast x.tree.path = true ∧ innerPlain x.tree.path = true) := by
  intro x hx
  obtain ⟨⟨p⟩, v, a, c⟩ := it
  simp only [RF.Imports.Tree.path] at hwf
  simp only [flattenItem, RF.Imports.Tree.path] at hx
  split at hx
  · simp only [List.mem_singleton] at hx; exact Or.inl hx
  · split at hx
    · split at hx
      · simp only [List.mem_singleton] at hx; exact Or.inl hx
      · simp only [List.mem_map] at hx
        obtain ⟨q, hq, rfl⟩ := hx
        exact Or.inr ⟨flattenPath_flat p true hwf q hq, flattenPath_inner p true hwf q hq⟩
    · simp only [List.mem_singleton] at hx; exact Or.inl hx

theorem dropLast_nestPath (p : List Seg) : (nestPath p).dropLast = p.dropLast := by
  cases hl : p.getLast? with
  | none => simp [nestPath, hl]
  | some s =>
    cases s with
    | slf a => simp [nestPath, hl]
    | _ => simp [nestPath, hl]

theorem nePath_nestPath (p : List Seg) (h : nePath p = true) : nePath (nestPath p) = true := by
  cases hl : p.getLast? with
  | none => simpa [nestPath, hl] using h
  | some s =>
    cases s with
    | slf a =>
      have hp := eq_dropLast_append hl
      rw [hp, nePath_append, Bool.and_eq_true] at h
      simp only [nestPath, hl]
      rw [nePath_append, h.1]; rfl
    | _ => simpa [nestPath, hl] using h

theorem nestPath_eq_of_not_slf (p : List Seg) (h : ∀ a, p.getLast? ≠ some (.slf a)) : nestPath p = p := by
  unfold nestPath
  split
  · rename_i a ha; exact absurd ha (h a)
  · rfl

theorem nestPath_eq_nil {p : List Seg} : nestPath p = [] ↔ p = [] := by
  constructor
  · intro h
    cases hl : p.getLast? with
    | none => simpa using hl
    | some s =>
      cases s with
      | slf a => simp [nestPath, hl] at h
      | _ =>
        rw [nestPath_eq_of_not_slf p (by simp [hl])] at h
        exact h
  · rintro rfl; rfl

/-- What holds of every item `flatten_use_trees` returns, when its input is the `normalize`d run:
the four steps of the next run leave it alone. -/
theorem flattened_fixed {cmp : Tree → Tree → Ordering} (tp : TotalPreorder cmp) (g : Granularity)
    (items normalized : List Item) (hn : mapE (normalizeItem cmp) items = .ok normalized)
    (hok : ∀ it ∈ items, wfPath true it.tree.path = true)
    (hwfN : ∀ it ∈ normalized, wfPath true it.tree.path = true) :
    ∀ y ∈ flattenUseTrees g normalized,
      reparseTree y.tree = y.tree ∧ (y.tree.path ≠ [] → normalizeItem cmp y = .ok y) ∧
      flattenItem g y = [y] ∧ nestItem y = y := by
  intro y hy
  have := dedupItems_nil_sub _ y hy
  simp only [List.mem_map, List.mem_flatMap] at this
  obtain ⟨x, ⟨nn, hnn, hx⟩, rfl⟩ := this
  have hflat := flattenItem_flat g nn (hwfN nn hnn) x hx
  refine ⟨?_, ?_, flattenItem_nest_fixed g x hflat, nestItem_idem x⟩
  · -- read back unchanged
    have hne : nePath (nestItem x).tree.path = true := by
      rcases flattenItem_cases g nn (hwfN nn hnn) x hx with rfl | ⟨hf, hi⟩
      · obtain ⟨it, hit, h⟩ := mapE_mem _ _ _ hn x hnn
        obtain ⟨hp, _⟩ := normalizeItem_path h
        have := normPath_ne cmp _ _ _ _ _ true hp (hok it hit)
        simpa [nestItem, RF.Imports.Tree.path] using nePath_nestPath _ this
      · simp only [nestItem, RF.Imports.Tree.path]
        exact nePath_of_fixedLast _ (by rw [dropLast_nestPath]; exact hi) (fixedLast_nestPath _ hf)
    simp only [reparseTree, reparsePath_ne _ hne]
    cases hh : (nestItem x).tree; rfl
  · intro hne
    by_cases hfl : flatLast x.tree.path = true
    · exact normalizeItem_fixedLast cmp _ hne
        (by simpa [nestItem, RF.Imports.Tree.path] using fixedLast_nestPath _ hfl)
    · -- not flat: the item itself, with a comment, ending in a list; `nest` does nothing
      rcases flattenItem_cases g nn (hwfN nn hnn) x hx with rfl | ⟨hf, _⟩
      · have hnest : nestItem x = x := by
          have : nestPath x.tree.path = x.tree.path := by
            apply nestPath_eq_of_not_slf
            intro a ha
            apply hfl
            simp [flatLast, ha]
          obtain ⟨⟨p⟩, _, _, _⟩ := x
          simp only [nestItem, RF.Imports.Tree.path] at this ⊢
          rw [this]
        rw [hnest] at hne ⊢
        obtain ⟨it, hit, h⟩ := mapE_mem _ _ _ hn x hnn
        refine normalizeItem_idem tp it x h (hok it hit) hne ?_
        -- not the bare `self`: its last segment is a list
        cases hb : bareSelf x with
        | false => rfl
        | true =>
          exfalso; apply hfl
          simp only [bareSelf, Bool.and_eq_true] at hb
          have hp := hb.2
          split at hp
          · rename_i hpath; simp [flatLast, hpath]
          · simp at hp
      · exact absurd hf hfl


theorem innerAll_okPath : ∀ (p : List Seg) (r : Bool), innerAll r p = true → okPath r p = true
  | [], _, _ => rfl
  | [s], r, h => by
    simp only [innerAll, Bool.and_true] at h
    exact okPath_single_nonlist r s (innerOK_not_list h)
  | s :: t :: rest, r, h => by
    simp only [innerAll, Bool.and_eq_true] at h
    have ih := innerAll_okPath (t :: rest) false (by simp [innerAll, h.2.1, h.2.2])
    simp only [okPath, Bool.and_eq_true] at ih ⊢
    rw [wfPath_cons_ne _ _ _ (by simp)]
    simp only [leafyPath, Bool.and_eq_true] at ih ⊢
    exact ⟨⟨h.1, ih.1⟩, innerOK_leafy h.1, ih.2⟩

theorem normStep_done_ok {a v r : Bool} {path q : List Seg} (h : normStep a v path = some (.done q))
    (hok : okPath r path = true) : okPath r q = true := by
  obtain ⟨rest, last, rfl⟩ := normStep_some_snoc h
  obtain ⟨hin, hl⟩ := okPath_snoc hok
  have plain : ∀ s, plainSeg s = true → normStep a v (rest ++ [s]) = some (.done q) →
      okPath r (rest ++ [s]) = true → okPath r q = true := by
    intro s hs h hok
    rw [normStep_plain a v rest _ hs] at h
    simp only [Option.some.injEq, Step.done.injEq] at h; subst h; exact hok
  cases last with
  | list l =>
    rw [normStep_list] at h
    split at h
    · simp only [Option.some.injEq, Step.done.injEq] at h; subst h; rfl
    · split at h <;> simp at h
  | slf al =>
    cases al with
    | none =>
      rw [normStep_slfNone] at h
      split at h
      · split at h
        · simp only [Option.some.injEq, Step.done.injEq] at h; subst h; rfl
        · simp only [Option.some.injEq, Step.done.injEq] at h; subst h; rfl
      · simp only [Option.some.injEq, Step.done.injEq] at h; subst h
        exact innerAll_okPath _ _ hin
    | some rn =>
      rw [normStep_slfSome] at h
      split at h
      · rename_i n hg
        simp only [Option.some.injEq, Step.done.injEq] at h; subst h
        have hp := eq_dropLast_append hg
        rw [hp, innerAll_append, Bool.and_eq_true] at hin
        exact (okPath_append r _ _ (by simp)).2 ⟨hin.1, okPath_single_nonlist _ _ rfl⟩
      · simp only [Option.some.injEq, Step.done.injEq] at h; subst h; exact hok
  | ident n al => exact plain _ rfl h hok
  | super al => exact plain _ rfl h hok
  | crate al => exact plain _ rfl h hok
  | glob => exact plain _ rfl h hok

/-- For a path as the parser builds it **without `{}`** (`okPath`) `normalize` returns such a path again,
and never the empty path for a nested tree: no element of a list is removed, the list arm does not
re-enter. -/
theorem normPath_ok_ne (cmp : Tree → Tree → Ordering) :
    ∀ (fuel : Nat) (a v : Bool) (path q : List Seg) (r : Bool),
      normPath cmp fuel a v path = .ok q → okPath r path = true →
      okPath r q = true ∧ (v = false → q ≠ []) := by
  intro fuel
  induction fuel with
  | zero => intro _ _ _ _ _ h; simp [normPath] at h
  | succ fuel ih =>
    intro a v path q r h hok
    rw [normPath_step] at h
    cases hs : normStep a v path with
    | none => simp [hs] at h
    | some st =>
      cases st with
      | done q' =>
        simp only [hs, Except.ok.injEq] at h; subst h
        exact ⟨normStep_done_ok hs hok, (normStep_done_ne hs hok).2⟩
      | splice p =>
        simp only [hs] at h
        exact ih a v p q r h (normStep_splice_ok hs hok)
      | sortList rest l =>
        simp only [hs] at h
        obtain ⟨rfl, hin, _, hlne, hel⟩ := normStep_sortList_spec hs hok
        split at h
        · simp at h
        · rename_i l2 hl2
          -- every element stays non-empty: nothing is filtered out
          have hK : l2.filter (fun t => !t.path.isEmpty) = l2 := by
            apply List.filter_eq_self.2
            intro t ht
            obtain ⟨t0, ht0, hf⟩ := mapE_mem _ _ _ hl2 t ht
            obtain ⟨qt, hqt, rfl⟩ := except_map_ok hf
            have := (ih false false t0.path qt _ hqt (hel t0 ht0).2).2 rfl
            simpa [RF.Imports.Tree.path] using this
          rw [hK, mapE_length _ _ _ hl2, if_neg (Nat.lt_irrefl _)] at h
          simp only [Except.ok.injEq] at h; subst h
          refine ⟨?_, fun _ => by simp⟩
          have hperm := stableSort_perm cmp l2
          have hne' : stableSort cmp l2 ≠ [] := by
            intro e
            have : (stableSort cmp l2).length = l.length := by
              rw [hperm.length_eq, mapE_length _ _ _ hl2]
            rw [e] at this
            exact hlne (List.length_eq_zero_iff.1 this.symm)
          refine (okPath_append r rest _ (by simp)).2 ⟨hin, (okPath_list _ _).2 ⟨hne', ?_⟩⟩
          intro t ht
          have ht2 : t ∈ l2 := hperm.mem_iff.1 ht
          obtain ⟨t0, ht0, hf⟩ := mapE_mem _ _ _ hl2 t ht2
          obtain ⟨qt, hqt, rfl⟩ := except_map_ok hf
          rw [okTree_iff]
          have := ih false false t0.path qt _ hqt (hel t0 ht0).2
          exact ⟨this.2 rfl, this.1⟩

/-- `normalize` keeps a path as the parser builds it, without `{}`, such a path. -/
theorem normPath_okPath (cmp : Tree → Tree → Ordering) (fuel : Nat) (a v : Bool) (path q : List Seg)
    (r : Bool) (h : normPath cmp fuel a v path = .ok q) (hok : okPath r path = true) :
    okPath r q = true := (normPath_ok_ne cmp fuel a v path q r h hok).1

theorem normalizeItem_okPath {cmp : Tree → Tree → Ordering} (it it' : Item)
    (h : normalizeItem cmp it = .ok it') (hok : okPath true it.tree.path = true) :
    okPath true it'.tree.path = true :=
  normPath_okPath cmp _ _ _ _ _ true (normalizeItem_path h).1 hok


theorem finish_flatten_perm (cmp : Tree → Tree → Ordering) (gt : GroupTactic) (reorder : Bool)
    (merged : List Item) : (finish cmp gt reorder merged).flatten.Perm merged := by
  unfold finish
  simp only []
  rw [flatten_filter_nonempty]
  have hg : (groupImports merged).flatten.Perm merged := (group_is_partition merged).2.1
  have hs : ∀ G : List (List Item),
      (G.map (stableSort (fun a b => cmp a.tree b.tree))).flatten.Perm G.flatten := by
    intro G
    induction G with
    | nil => exact List.Perm.refl _
    | cons a G ih =>
      simp only [List.map_cons, List.flatten_cons]
      exact List.Perm.append (stableSort_perm _ a) ih
  cases gt <;> cases reorder <;> simp only [if_true, Bool.false_eq_true, if_false]
  · simp
  · simpa using stableSort_perm _ merged
  · exact hg
  · exact (hs _).trans hg
  · simp
  · simpa using stableSort_perm _ merged

/-- `Item` granularity: the whole `use` arm, run on what it wrote, writes the same groups.  No
condition on `self`: after `nest_trailing_self` no item is the bare `use self;`. -/
theorem run_idem_item {cmp : Tree → Tree → Ordering} (tp : TotalPreorder cmp) (gt : GroupTactic)
    (reorder : Bool) (items normalized : List Item)
    (hn : mapE (normalizeItem cmp) items = .ok normalized)
    (hok : ∀ it ∈ items, wfPath true it.tree.path = true) :
    ∃ a, runTwice cmp .item gt reorder items = .ok (a, a) := by
  have hwfN : ∀ it ∈ normalized, wfPath true it.tree.path = true := by
    intro it' hit'
    obtain ⟨it, hit, h⟩ := mapE_mem _ _ _ hn it' hit'
    exact normPath_wf cmp _ _ _ _ _ true (normalizeItem_path h).1 (hok it hit)
  have hfix := flattened_fixed tp .item items normalized hn hok hwfN
  apply runTwice_of_fixed tp .item gt reorder items normalized (flattenUseTrees .item normalized) hn rfl
  · exact fun y hy => (hfix y hy).1
  · exact fun y hy => (hfix y hy).2.1
  · intro l hl hle
    have h1 : l.flatMap (flattenItem .item) = l :=
      flatMap_singleton_of _ _ (fun y hy => (hfix y (hl y hy).1).2.2.1)
    have h2 : l.map nestItem = l := by
      rw [List.map_congr_left (fun y hy => (hfix y (hl y hy).1).2.2.2)]; simp
    have hd : l.Pairwise NoRep := by
      rw [hle]
      apply List.Pairwise.sublist (written_sublist _)
      exact ((finish_flatten_perm cmp gt reorder _).pairwise_iff (fun h => NoRep.symm h)).2
        (dedupItems_pairwise _ [] List.Pairwise.nil)
    show Except.ok (flattenUseTrees .item l) = Except.ok l
    unfold flattenUseTrees
    rw [h1, h2, dedupItems_of_pairwise l [] (by simpa using hd)]
    simp


/-- Generic `trim`: drop a `p`-prefix and a `p`-suffix. -/
theorem trimGen_idem (p : Char → Bool) (s : List Char) :
    let t := ((s.dropWhile p).reverse.dropWhile p).reverse
    ((t.dropWhile p).reverse.dropWhile p).reverse = t := by
  intro t
  have hlast : ∀ c, t.reverse.head? = some c → p c = false := by
    intro c hc
    simp only [t, List.reverse_reverse] at hc
    exact dropWhile_head_not p _ c hc
  have hhead : ∀ c, t.head? = some c → p c = false := by
    intro c hc
    -- t is a prefix of `s.dropWhile p`
    have hts : ∀ c, (s.dropWhile p).head? = some c → p c = false := fun c hc => dropWhile_head_not p s c hc
    generalize hu : s.dropWhile p = u at hts
    have hd : u = t ++ (u.reverse.takeWhile p).reverse := by
      simp only [t, hu]
      rw [← List.reverse_append, List.takeWhile_append_dropWhile, List.reverse_reverse]
    cases ht : t with
    | nil => simp [ht] at hc
    | cons x xs =>
      rw [ht] at hc hd
      simp only [List.head?_cons, Option.some.injEq] at hc
      subst hc
      exact hts x (by rw [hd]; simp)
  rw [RF.Skip.dropWhile_eq_self_of_head hhead, RF.Skip.dropWhile_eq_self_of_head hlast, List.reverse_reverse]

/-- `str::trim` as modelled in `RF.Model.Newline` (`process_missing_code`) is idempotent. -/
theorem newlineTrim_idem (s : List Char) : RF.Newline.trim (RF.Newline.trim s) = RF.Newline.trim s :=
  trimGen_idem RF.Newline.isWhitespace s

/-! ## Decidable equality of items (for the concrete counter-examples) -/

instance : DecidableEq Tree := fun a b => decidable_of_iff _ (treeBEq_iff a b)
deriving instance DecidableEq for Item
instance {ε α} [DecidableEq ε] [DecidableEq α] : DecidableEq (Except ε α) := fun a b =>
  match a, b with
  | .ok x, .ok y => if h : x = y then isTrue (by rw [h]) else isFalse (by intro e; cases e; exact h rfl)
  | .error x, .error y =>
    if h : x = y then isTrue (by rw [h]) else isFalse (by intro e; cases e; exact h rfl)
  | .ok _, .error _ => isFalse (by intro e; cases e)
  | .error _, .ok _ => isFalse (by intro e; cases e)

end RF.Lemmas.Idem
