import RF.Lemmas.Skip
import RF.Lemmas.MacroBody
import RF.Gen.SkipSites

/-!
# C04  Skip-marked code and opted-out files are emitted verbatim

Theorems about `RF.Model.Skip`: the recogniser of the skip attribute (`is_skip`, `contains_skip`),
the scoped name sets of `rustfmt::skip::macros / attributes` (`SkipContext`), the visitor's buffer
operations that copy a skipped node (`push_skipped_with_span`, `push_rewrite(.., None)`), the
bookkeeping of skipped line ranges, and the whole-file opt-out decision of `format_input_inner` /
`format_project` / `should_skip_module`.

What is *not* covered by any theorem here: that every node kind of the rewriter forest has its
early return to the verbatim path (search only, see DESIGN §5 C04).

Statements that are false of the code carry `_counterexample`; the version that holds carries
`_partial` and names the excluding hypothesis.  Findings recorded here:
  * F14  `cfg_attr` with three or more arguments is not recognised.
  * F2   (cured at top level by /repo ed625bc, which this model follows) the recorded skipped range
         is now in lines of the visitor's own buffer; it is still wrong for the *file* when the
         visitor is a nested one (e.g. the one that formats an `impl` body counts its lines
         from 0, and its ranges are dropped or merged unshifted).
  * stdin: `ignore` and `format_generated_files = false` are not consulted for standard input.
  * the `skip::macros` / `skip::attributes` names of an out-of-line module file come from the
    crate root's inner attributes only (`formatFileCtx` has no other input).
  * `buffer.clear()` (items.rs:740, `reorder_impl_items`) breaks `line_number == count_newlines(buffer)`.
-/
namespace RF.Props.C04
open RF.Skip

/-! ## The recogniser -/

/-- `is_skip` accepts exactly: the word `rustfmt::skip`, the word `rustfmt_skip` (both compared as
printed paths), and `cfg_attr(c, X)` — path exactly `cfg_attr`, exactly two arguments, the second a
meta item `X` that is itself accepted.  `Accepted` is the inductive predicate with these three
rules, so nesting to any depth is accepted and nothing else is. -/
theorem isSkip_spec (m : MetaItem) : isSkip m = true ↔ Accepted m :=
  RF.Skip.isSkip_spec m

/-- The same for a list element: accepted iff it is a meta item (not a literal) that is accepted. -/
theorem isSkipNested_spec (n : Nested) :
    isSkipNested n = true ↔ ∃ m, n = .metaItem m ∧ Accepted m :=
  RF.Skip.isSkipNested_spec n

/-- The three rules of `Accepted`, spelled out (so that the reader need not open the lemma file). -/
theorem accepted_def (m : MetaItem) :
    Accepted m ↔
      (∃ p, m = .word p ∧ pathToString p = skipAnnotation) ∨
      (∃ p, m = .word p ∧ pathToString p = deprSkipAnnotation) ∨
      (∃ c x, m = .list [cfgAttr] [c, .metaItem x] ∧ Accepted x) := by
  constructor
  · intro h
    cases h with
    | skip h => exact Or.inl ⟨_, rfl, h⟩
    | depr h => exact Or.inr (Or.inl ⟨_, rfl, h⟩)
    | cfgAttr h => exact Or.inr (Or.inr ⟨_, _, rfl, h⟩)
  · rintro (⟨p, rfl, h⟩ | ⟨p, rfl, h⟩ | ⟨c, x, rfl, h⟩)
    · exact .skip h
    · exact .depr h
    · exact .cfgAttr h

/-- For a path whose segments are identifiers (no `:` inside a segment), a word is accepted iff
the path is `rustfmt::skip` (two segments) or `rustfmt_skip` (one segment). -/
theorem isSkip_word_idents {p : Path} (hp : IdentPath p) :
    isSkip (.word p) = true ↔ p = [rustfmtName, skipName] ∨ p = [deprSkipAnnotation] :=
  RF.Skip.isSkip_word_idents hp

example : IdentPath [rustfmtName, skipName] ∧ isSkip (.word [rustfmtName, skipName]) = true := by
  decide

/-- Wrapping in `cfg_attr(c, ·)` any number of times does not change the verdict. -/
theorem isSkip_any_depth (c : Nested) (k : Nat) (m : MetaItem) :
    isSkip (nestCfg c k m) = isSkip m :=
  RF.Skip.isSkip_nestCfg c k m

/-- A list is accepted only with path `cfg_attr` and exactly two arguments. -/
theorem isSkip_list_arity {p : Path} {args : List Nested} (h : isSkip (.list p args) = true) :
    p = [cfgAttr] ∧ args.length = 2 :=
  RF.Skip.isSkip_list_arity h

example : isSkip (.list [cfgAttr] [.lit, .metaItem (.word [rustfmtName, skipName])]) = true := by
  decide

/-- F14.  `#[cfg_attr(any(), allow(dead_code), rustfmt::skip)]` (three arguments, valid Rust,
expands to `#[allow(dead_code)] #[rustfmt::skip]` when the predicate holds) is not recognised,
while the two-argument form is. -/
theorem cfg_attr_three_args_counterexample :
    let any : Nested := .metaItem (.list [['a','n','y']] [])
    let allow : Nested := .metaItem (.list [['a','l','l','o','w']] [.metaItem (.word [['d','e','a','d','_','c','o','d','e']])])
    let skip : Nested := .metaItem (.word [rustfmtName, skipName])
    isSkip (.list [cfgAttr] [any, allow, skip]) = false ∧
    isSkip (.list [cfgAttr] [any, skip]) = true := by
  decide

/-- `contains_skip` holds iff some attribute of the list has a meta item (`Attribute::meta()` is
`Some`: not a doc comment, arguments parse) that `is_skip` accepts. -/
theorem containsSkip_iff_exists (attrs : List Attr) :
    containsSkip attrs = true ↔ ∃ a ∈ attrs, ∃ m, a.getMeta = some m ∧ isSkip m = true :=
  RF.Skip.containsSkip_iff attrs

/-- `get_skip_names(kind, attrs)` collects exactly the single-segment names of the meta items listed
in attributes whose printed path is `rustfmt::skip::<kind>`. -/
theorem getSkipNames_mem (kind : Name) (attrs : List Attr) (n : Name) :
    n ∈ getSkipNames kind attrs ↔
      ∃ p l, Attr.normal p (.list l) ∈ attrs ∧ pathToString p = skipKindPath kind ∧
        ∃ x ∈ l, Nested.ident x = some n :=
  RF.Skip.mem_getSkipNames kind attrs n

/-! ## Skip contexts -/

/-- Exact effect of the three mutators on the query: `extend` adds the given names, `update` adds
what the other context skips, `skip_all` skips everything. -/
theorem skipName_after (c o : SkipNameContext) (ns : List Name) (n : Name) :
    (c.extend ns).skip n = (c.skip n || ns.contains n) ∧
    (c.update o).skip n = (c.skip n || o.skip n) ∧
    (c.skipAll).skip n = true :=
  ⟨skip_extend c ns n, skip_update c o n, rfl⟩

/-- Once a name (or `All`) is in scope it stays in scope after `update_with_attrs` and after
`update`; and both operations are monotone in the context they are applied to
(`SkipContext.le c c'`: every macro / attribute name skipped under `c` is skipped under `c'`). -/
theorem skipCtx_monotone (c c' o o' : SkipContext) (attrs : List Attr) :
    SkipContext.le c (c.updateWithAttrs attrs) ∧
    SkipContext.le c (c.update o) ∧
    SkipContext.le o (c.update o) ∧
    (SkipContext.le c c' → SkipContext.le (c.updateWithAttrs attrs) (c'.updateWithAttrs attrs)) ∧
    (SkipContext.le c c' → SkipContext.le o o' → SkipContext.le (c.update o) (c'.update o')) :=
  ⟨le_updateWithAttrs c attrs, le_update c o, le_update_right c o,
   fun h => updateWithAttrs_mono h attrs, fun h ho => update_mono h ho⟩

/-- `SkipContext.le`, spelled out. -/
theorem skipCtx_le_def (c c' : SkipContext) :
    SkipContext.le c c' ↔
      (∀ n, c.macros.skip n = true → c'.macros.skip n = true) ∧
      (∀ n, c.attributes.skip n = true → c'.attributes.skip n = true) :=
  Iff.rfl

/-- Every node of an item tree is processed under a context that contains the one the visitor had
when it entered the tree: names in scope at an ancestor are in scope at every descendant. -/
theorem skipCtx_scope_monotone (ctx : SkipContext) (it : Item) :
    ∀ c ∈ (visitItem ctx it).2, SkipContext.le ctx c :=
  visitItem_log_ge ctx it

/-- The save / restore of `visit_item`: after visiting an item (whatever its attributes and
whatever is nested in it) or a run of items, the visitor's context is what it was before. -/
theorem skipCtx_restore (ctx : SkipContext) (it : Item) (its : List Item) :
    (visitItem ctx it).1 = ctx ∧ (visitItems ctx its).1 = ctx :=
  ⟨visitItem_restore ctx it, visitItems_restore ctx its⟩

/-- Hence the names an item brings into scope do not leak to its later siblings: the contexts
logged for `i :: is` are those of `i` followed by those of `is` visited from the *same* `ctx`; and
the item itself is processed under `ctx.updateWithAttrs attrs`. -/
theorem skipCtx_siblings (ctx : SkipContext) (i : Item) (is : List Item) (attrs : List Attr)
    (ch : List Item) :
    (visitItems ctx (i :: is)).2 = (visitItem ctx i).2 ++ (visitItems ctx is).2 ∧
    (visitItem ctx (.mk attrs ch)).2.head? = some (ctx.updateWithAttrs attrs) :=
  ⟨visitItems_cons ctx i is, by simp [visitItem]⟩

/-- Same-name nesting (seeded change c04e): an inner item that lists a name again does not take it from the
enclosing item when it ends.  Whatever the inner item's attributes and contents, the items after it inside
the enclosing item are visited under the enclosing item's context, in which the name is still skipped. -/
theorem skipCtx_relist_keeps_outer (ctx : SkipContext) (outer inner : List Attr) (ch rest : List Item) (n : Name)
    (h : skipMacro (ctx.updateWithAttrs outer) n = true) :
    skipMacro (visitItem (ctx.updateWithAttrs outer) (.mk inner ch)).1 n = true ∧
    (visitItems (ctx.updateWithAttrs outer) (.mk inner ch :: rest)).2 =
      (visitItem (ctx.updateWithAttrs outer) (.mk inner ch)).2 ++ (visitItems (ctx.updateWithAttrs outer) rest).2 := by
  refine ⟨?_, (skipCtx_siblings _ _ _ [] []).1⟩
  rw [(skipCtx_restore _ (.mk inner ch) []).1]; exact h

/-- the hypothesis is satisfiable: the name comes from `skip_macro_invocations` (the file's starting context) -/
example : skipMacro ((⟨.values [['m']], .values []⟩ : SkipContext).updateWithAttrs []) ['m'] = true := by decide

/-- The macro names skipped at the start of *any* file of a crate are: `skip_macro_invocations`
of the configuration and the `rustfmt::skip::macros(..)` of the crate root's inner attributes.
The formula has no other input: the inner attributes of an out-of-line module file and the outer
attributes of its `mod x;` declaration are not consulted (reproduced on the binary: a
`#![rustfmt::skip::macros(x)]` at the top of `foo.rs` does not protect `x!(a  ,   b)` in `foo.rs`,
whereas the same line at the top of the crate root does).  A nested visitor starts from the
configuration's names and its parent's. -/
theorem skipCtx_file_start (sel : List MacroSelector) (krateAttrs : List Attr)
    (parent : SkipContext) (n : Name) :
    skipMacro (formatFileCtx sel krateAttrs) n =
      (selectorAll sel || (selectorNames sel).contains n ||
        (getSkipNames macrosName krateAttrs).contains n) ∧
    skipMacro (fromContextCtx sel parent) n =
      (selectorAll sel || (selectorNames sel).contains n || skipMacro parent n) :=
  ⟨formatFileCtx_skipMacro sel krateAttrs n, fromContextCtx_skipMacro sel parent n⟩

/-! ## Copying a skipped node -/

/-- `push_skipped_with_span` does not panic iff `last_pos ≤ lo ≤ hi ≤ len(src)`. -/
theorem pushSkipped_defined_iff (src : List Char) (st : State) (attrHis : List Nat)
    (lo hi mainLo : Nat) (w : List Char) :
    (pushSkipped src st attrHis lo hi mainLo w).isSome ↔
      st.lastPos ≤ lo ∧ lo ≤ hi ∧ hi ≤ src.length :=
  pushSkipped_isSome_iff src st attrHis lo hi mainLo w

/-- After `push_skipped_with_span` the buffer is the old buffer, then what
`format_missing_with_indent` wrote (`w`), then `trim` of the characters `src[lo..hi)`; `last_pos` is
`hi`; `line_number` grew by the newlines written; one range was appended, `(lo', hi')` with `lo'` =
(`line_number` after `w`) + 1 + the source-side offset of the main span inside the item, and
`hi'` = new `line_number` + 1.  Nothing else changes. -/
theorem pushSkipped_verbatim {src : List Char} {st st' : State} {attrHis : List Nat}
    {lo hi mainLo : Nat} {w : List Char}
    (h : pushSkipped src st attrHis lo hi mainLo w = some st') :
    ∃ sn, snippet src lo hi = some sn ∧
      st'.buffer = st.buffer ++ w ++ trim sn ∧
      st'.lastPos = hi ∧
      st'.lineNumber = st.lineNumber + countNl w + countNl (trim sn) ∧
      st'.skipped = st.skipped ++
        [(st.lineNumber + countNl w + 1 +
            (min (attrsEnd src attrHis + 1) (lineOf src mainLo) - lineOf src lo),
          st'.lineNumber + 1)] := by
  obtain ⟨sn, h1, -, h2, h3, h4, h5⟩ := pushSkipped_spec h
  exact ⟨sn, h1, h2, h3, h4, h5⟩

/-- `snippet src lo hi = some sn` means: `sn` is the `hi - lo` characters of `src` from `lo`. -/
theorem snippet_def {src : List Char} {lo hi : Nat} {sn : List Char}
    (h : snippet src lo hi = some sn) :
    lo ≤ hi ∧ hi ≤ src.length ∧ sn.length = hi - lo ∧ src = src.take lo ++ sn ++ src.drop hi :=
  snippet_spec h

/-- `trim` removes a whitespace-only prefix and a whitespace-only suffix and nothing else. -/
theorem trim_spec (s : List Char) :
    ∃ a b, s = a ++ trim s ++ b ∧ (∀ c ∈ a, isWhitespace c = true) ∧
      (∀ c ∈ b, isWhitespace c = true) :=
  trim_decomp s

/-- When the span neither starts nor ends with whitespace (every AST node's span), the buffer ends
with exactly the span's characters. -/
theorem pushSkipped_verbatim_exact_partial {src : List Char} {st st' : State} {attrHis : List Nat}
    {lo hi mainLo : Nat} {w sn : List Char}
    (h : pushSkipped src st attrHis lo hi mainLo w = some st')
    (hsn : snippet src lo hi = some sn)
    (h1 : ∀ c, sn.head? = some c → isWhitespace c = false)
    (h2 : ∀ c, sn.getLast? = some c → isWhitespace c = false) :
    st'.buffer = st.buffer ++ w ++ sn := by
  obtain ⟨sn', hsn', hb, -⟩ := pushSkipped_verbatim h
  rw [hsn] at hsn'
  cases hsn'
  rw [hb, trim_eq_self h1 h2]

example :
    let src := "a; #[s] fn  f( ) {}".toList
    ∃ st', pushSkipped src ⟨"a;".toList, 2, 0, []⟩ [7] 3 19 3 "\n".toList = some st' ∧
      st'.buffer = "a;\n#[s] fn  f( ) {}".toList := by
  decide

/-- Without that hypothesis the copy is not exact: a span ` a ` is pushed as `a`. -/
theorem pushSkipped_untrimmed_counterexample :
    ∃ st', pushSkipped [' ', 'a', ' '] (State.init 0) [] 0 3 0 [] = some st' ∧
      st'.buffer = ['a'] ∧ st'.buffer ≠ [' ', 'a', ' '] := by
  decide

/-- `push_rewrite(span, rewrite)`: the buffer gets `w` and then the rewrite, or, for `None`,
`trim` of the span's characters (the verbatim fallback of every failed rewrite). -/
theorem pushRewrite_effect {src : List Char} {st st' : State} {lo hi : Nat} {w : List Char}
    {rw : Option (List Char)} (h : pushRewrite src st lo hi w rw = some st') :
    ∃ body, (match rw with
              | some s => body = s
              | none => ∃ sn, snippet src lo hi = some sn ∧ body = trim sn) ∧
      st.lastPos ≤ lo ∧
      st' = { buffer := st.buffer ++ w ++ body, lastPos := hi,
              lineNumber := st.lineNumber + countNl w + countNl body, skipped := st.skipped } :=
  pushRewrite_spec h

/-- `line_number == count_newlines(buffer)` (the `debug_assert_eq!` of formatting.rs:224) holds for
a fresh visitor and is preserved by every modelled operation that writes to the buffer. -/
theorem lineNumber_invariant :
    (∀ p, (State.init p).Inv) ∧
    (∀ st s, st.Inv → (pushStr st s).Inv) ∧
    (∀ src st e w st1, formatMissingWithIndent src st e w = some st1 → st.Inv → st1.Inv) ∧
    (∀ src st lo hi rw st2, pushRewriteInner src st lo hi rw = some st2 → st.Inv → st2.Inv) ∧
    (∀ src st lo hi w rw st', pushRewrite src st lo hi w rw = some st' → st.Inv → st'.Inv) ∧
    (∀ src st ah lo hi ml w st', pushSkipped src st ah lo hi ml w = some st' → st.Inv → st'.Inv) ∧
    (∀ st st', popNewline st = some st' → st.Inv → st'.Inv) :=
  ⟨init_inv, fun _ s h => pushStr_inv s h, fun _ _ _ _ _ h hi => formatMissing_inv h hi,
   fun _ _ _ _ _ _ h hi => pushRewriteInner_inv h hi, fun _ _ _ _ _ _ _ h hi => pushRewrite_inv h hi,
   fun _ _ _ _ _ _ _ _ h hi => pushSkipped_inv h hi, fun _ _ h hi => popNewline_inv h hi⟩

example : ∃ st', pushSkipped "x\ny".toList (State.init 0) [] 0 3 0 [] = some st' ∧ st'.Inv := by
  refine ⟨⟨"x\ny".toList, 3, 1, [(1, 2)]⟩, by decide, by decide⟩

/-- `self.buffer.clear()` in `visit_impl_items` (items.rs:740, only with `reorder_impl_items`)
keeps `line_number`: the invariant is lost as soon as a line has been written. -/
theorem clearBuffer_invariant_counterexample :
    (pushStr (State.init 0) ['\n']).Inv ∧ ¬ (clearBuffer (pushStr (State.init 0) ['\n'])).Inv := by
  decide

/-! ## The recorded range of skipped lines -/

/-- Under the invariant, the recorded pair is, in 1-based lines of this visitor's buffer: the first
line of the copied text plus `min(attrs_end + 1, line_of(main_span.lo)) - line_of(item_span.lo)`
(source lines, truncated subtraction = `saturating_sub`), and the last line of the copied text. -/
theorem skipped_range_exact {src : List Char} {st st' : State} {attrHis : List Nat}
    {lo hi mainLo : Nat} {w : List Char}
    (h : pushSkipped src st attrHis lo hi mainLo w = some st') (hinv : st.Inv) :
    ∃ sn, snippet src lo hi = some sn ∧
      st'.skipped = st.skipped ++
        [((outLines (st.buffer ++ w) (trim sn)).1 +
            (min (attrsEnd src attrHis + 1) (lineOf src mainLo) - lineOf src lo),
          (outLines (st.buffer ++ w) (trim sn)).2)] :=
  pushSkipped_range h hinv

/-- When the span handed over is the whole node with its attributes (`main_span = item_span`: items,
assoc items) the recorded range is exactly the first and last buffer line of the copied text —
whether or not the text moved and whatever the attributes are.  (Before /repo ed625bc this needed
"the text did not move", F2.) -/
theorem skipped_range_recorded {src : List Char} {st st' : State} {attrHis : List Nat}
    {lo hi : Nat} {w : List Char}
    (h : pushSkipped src st attrHis lo hi lo w = some st') (hinv : st.Inv) :
    ∃ sn, snippet src lo hi = some sn ∧
      st'.skipped = st.skipped ++ [outLines (st.buffer ++ w) (trim sn)] :=
  pushSkipped_range_item h hinv

/-- Statements (`main_span` = the statement without its attributes, inside `item_span`): for a
span that `trim` leaves alone, the recorded range starts somewhere inside the copied text's lines
(the attribute lines before it are left out) and ends on its last line. -/
theorem skipped_range_within {src : List Char} {st st' : State} {attrHis : List Nat}
    {lo hi mainLo : Nat} {w sn : List Char}
    (h : pushSkipped src st attrHis lo hi mainLo w = some st') (hinv : st.Inv)
    (hsn : snippet src lo hi = some sn) (htrim : trim sn = sn) (hm : mainLo ≤ hi) :
    ∃ a, st'.skipped = st.skipped ++ [(a, (outLines (st.buffer ++ w) sn).2)] ∧
      (outLines (st.buffer ++ w) sn).1 ≤ a ∧ a ≤ (outLines (st.buffer ++ w) sn).2 :=
  pushSkipped_range_within h hinv hsn htrim hm

/-- `outLines pre s` = (line on which `s` starts, line on which `s` ends) in `pre ++ s`, 1-based. -/
theorem outLines_def (pre s : List Char) :
    outLines pre s = (countNl pre + 1, countNl (pre ++ s) + 1) := by
  simp [outLines, countNl_append]

/-- Non-vacuity: a skipped `fn` on lines 2–3 after one line; recorded `(2, 3)`.  And a skipped
`let` whose attribute is on its own line: the copied text is on lines 2–3, recorded `(3, 3)`. -/
example :
    let src := "a;\n#[s]\nfn f(){}".toList
    let st : State := ⟨"a;".toList, 2, 0, []⟩
    st.Inv ∧ (pushSkipped src st [7] 3 16 3 ['\n']).map (·.skipped) = some [(2, 3)] := by
  decide

example :
    let src := "a;\n#[s]\nlet  x;".toList
    let st : State := ⟨"a;".toList, 2, 0, []⟩
    st.Inv ∧ snippet src 3 15 = some "#[s]\nlet  x;".toList ∧ trim "#[s]\nlet  x;".toList = "#[s]\nlet  x;".toList ∧
    (pushSkipped src st [7] 3 15 8 ['\n']).map (·.skipped) = some [(3, 3)] := by
  decide

/-- The former F2 reproduction is cured: three blank lines at the top of the file are dropped, the
skipped item moves from source lines 4–6 to output lines 1–3, and `(1, 3)` is recorded (the code
before ed625bc recorded `(4, 3)`). -/
theorem skipped_range_moved_cured :
    let src := "\n\n\n#[s]\nfn  f( ) {   \n}\n".toList
    let st := State.init 0
    st.Inv ∧
    (snippet src 3 23).map (fun sn => outLines (st.buffer ++ []) (trim sn)) = some (1, 3) ∧
    (pushSkipped src st [7] 3 23 3 []).map (·.skipped) = some [(1, 3)] := by
  decide

/-- What remains of F2.  The recorded lines are lines of *this visitor's buffer*.  A nested visitor
(the body of an `impl` is formatted by `FmtVisitor::from_context`, whose `line_number` starts at 0
where the `impl` body starts) records `(3, 4)` for a method that is on lines 5–6 of the file (the
text does not move: source line = final output line = `lineOf src 54`).  The nested ranges are
not translated to file lines: for `impl`/`trait` bodies the nested visitor's `skipped_range` is a
fresh vector that is dropped, for blocks (`rewrite_block_inner`) it is appended to the parent's as
it is. -/
theorem skipped_range_subvisitor_counterexample :
    let src := "struct S;\nstruct T;\nimpl S {\n    #[rustfmt::skip]\n    fn  f( ) {   \n    }\n}\n".toList
    let st := State.init 28                                   -- just after `impl S {`
    let w := "\n    #[rustfmt::skip]\n    ".toList              -- what format_missing_with_indent writes
    st.Inv ∧
    snippet src 54 73 = some "fn  f( ) {   \n    }".toList ∧
    lineOf src 54 = 5 ∧ lineOf src 73 = 6 ∧
    (pushSkipped src st [49] 54 73 54 w).map (·.skipped) = some [(3, 4)] := by
  decide

/-! ## Whole-file opt-outs -/

/-- The decision for every combination of the seven facts.  A file is formatted iff
  * not standard input: none of {inner skip, disable_all_formatting, ignore match,
    @generated ∧ ¬format_generated_files, skip_children ∧ not the main file} holds — this is the
    property's condition;
  * standard input: neither inner skip nor disable_all_formatting holds (ignore, the generated
    marker and skip_children are not consulted). -/
theorem whole_file_optout_table (c : FileCase) :
    fileDecision c = .format ↔
      if c.stdin then (c.innerSkip = false ∧ c.disableAll = false) else optedOut c = false := by
  obtain ⟨a, b, c, d, e, f, g⟩ := c
  exact table_format a b c d e f g

/-- A file that is not formatted is echoed (its text written to stdout, empty report) iff the
input is standard input and the opt-out is an inner skip or `disable_all_formatting`; otherwise
nothing at all is done with it. -/
theorem whole_file_optout_echo (c : FileCase) :
    fileDecision c = .echo ↔ c.stdin = true ∧ (c.innerSkip = true ∨ c.disableAll = true) := by
  obtain ⟨a, b, c, d, e, f, g⟩ := c
  exact table_echo a b c d e f g

/-- The property's condition, for files read from disk. -/
theorem whole_file_optout_table_partial (c : FileCase) (h : c.stdin = false) :
    fileDecision c = .format ↔ optedOut c = false := by
  have := whole_file_optout_table c
  simpa [h] using this

example : (⟨false, false, true, false, true, false, false⟩ : FileCase).stdin = false := rfl

/-- The complete list of combinations on which the code departs from "formatted iff not opted
out": standard input, no inner skip, no disable_all, and at least one of {ignore match,
@generated with generated files excluded, skip_children ∧ not main}. -/
theorem whole_file_optout_departures (c : FileCase) :
    ¬ (fileDecision c = .format ↔ optedOut c = false) ↔
      c.stdin = true ∧ c.innerSkip = false ∧ c.disableAll = false ∧
        (c.ignored = true ∨ (c.generated = true ∧ c.formatGenerated = false) ∨ c.childSkip = true) := by
  obtain ⟨a, b, c, d, e, f, g⟩ := c
  exact table_departures a b c d e f g

/-- Standard input carrying an `@generated` marker with `format_generated_files = false` is
formatted (formatting.rs:80-82 has a FIXME saying so). -/
theorem stdin_generated_counterexample :
    let c : FileCase := ⟨false, false, false, true, false, true, false⟩
    optedOut c = true ∧ fileDecision c = .format := by
  decide

/-- Standard input whose text comes from a path the `ignore` list matches is formatted
(`IgnorePathSet::is_match(Stdin) = false`; rustfmt has no path to match for stdin). -/
theorem stdin_ignore_counterexample :
    let c : FileCase := ⟨false, false, true, false, true, true, false⟩
    optedOut c = true ∧ fileDecision c = .format := by
  decide

/-- The early return of `format_project` (`skip_children && ignore_file(main_file)`, before
parsing) never changes the decision for a file: with `childSkip = skipChildren ∧ ¬isMain`, and
`ignored = mainIgnored` when the file is the main file, the decision is `fileDecision`. -/
theorem early_return_redundant (c : FileCase) (skipChildren isMain mainIgnored : Bool)
    (hmain : isMain = true → c.ignored = mainIgnored) :
    fileDecisionFull c skipChildren isMain mainIgnored =
      fileDecision { c with childSkip := skipChildren && !isMain } := by
  obtain ⟨a, b, c, d, e, f, g⟩ := c
  have := table_full a b c d e f skipChildren isMain mainIgnored
  simp only at this hmain
  simpa [fileDecisionFull] using this hmain

example : ((true : Bool) = true → (⟨false, false, true, false, true, false, false⟩ : FileCase).ignored = true) :=
  fun _ => rfl

/-! ## `is_generated_file` -/

/-- `is_generated_file` holds iff one of the first `limit` lines contains `@generated`; `splitNl`
cuts the text at every `\n` and loses nothing. -/
theorem isGeneratedFile_spec (src : List Char) (limit : Nat) :
    (isGeneratedFile src limit = true ↔
      ∃ l ∈ (splitNl src).take limit, ∃ a b, l = a ++ generatedMarker ++ b) ∧
    joinNl (splitNl src) = src ∧ (∀ l ∈ splitNl src, '\n' ∉ l) :=
  ⟨isGeneratedFile_iff src limit, joinNl_splitNl src, splitNl_no_nl src⟩

/-! ## Who records a skipped range with which spans (generated from the source on every run) -/

open RF.Gen.SkipSites in
/-- The call sites of `push_skipped_with_span`, as `translate/c04_skipsites.py` reads them from the
current source.  For items (`visit_item`, three calls: use / extern crate, inline module and every
other item) BOTH spans are `item.span()`, the `Spanned` span, which starts at the first outer
attribute (`itemSpanStartsAtFirstAttr`): the recorded range starts where the verbatim copy starts,
attribute and doc-comment lines included.  `visit_assoc_item` passes one span twice (`ai.span`: the
attributes of an impl / trait item are not part of the copy, they go through the missing-text
path).  The two statement calls pass the statement without its attributes as `main_span`: the
attribute lines after the first one are outside the range (`skipped_range_within`; inside a
`macro_rules!` body they are re-indented: known finding C04-macro-body-stmt-attrs).  There is no
other caller. -/
theorem skip_sites_cover_attributes :
    itemSpanStartsAtFirstAttr = true ∧ stmtItemSpanStartsAtFirstAttr = true ∧
    (∀ s ∈ sites, s.fn = "visit_item" → s.itemSpan = "item.span()" ∧ s.mainSpan = "item.span()") ∧
    (sites.filter (fun s => s.fn == "visit_item")).length = 3 ∧
    (∀ s ∈ sites, s.fn = "visit_assoc_item" → s.mainSpan = s.itemSpan) ∧
    (∀ s ∈ sites, s.fn = "visit_stmt" →
      s.itemSpan = "stmt.span()" ∧ s.mainSpan = "get_span_without_attrs(stmt.as_ast_node())") ∧
    (∀ s ∈ sites, s.file = "src/visitor.rs" ∧
      (s.fn = "visit_item" ∨ s.fn = "visit_assoc_item" ∨ s.fn = "visit_stmt")) := by
  decide

/-- `push_skipped_with_span` as called from a site, under any meaning `span` of the argument
expressions (expression text ↦ `(lo, hi)`). -/
def siteRun (s : RF.Gen.SkipSites.Site) (span : String → Nat × Nat) (src : List Char) (st : State)
    (attrHis : List Nat) (w : List Char) : Option State :=
  pushSkipped src st attrHis (span s.itemSpan).1 (span s.itemSpan).2 (span s.mainSpan).1 w

/-- For every call from `visit_item` and `visit_assoc_item` of the current source, whatever the
spans denote and whatever the attributes are: the recorded range is exactly the first and the last
buffer line of the verbatim copy.  (If a site starts passing a `main_span` that is written
differently from its `item_span`, e.g. `item.span` for `item.span()`, this stops checking.) -/
theorem skip_sites_item_range_whole (s : RF.Gen.SkipSites.Site) (hs : s ∈ RF.Gen.SkipSites.sites)
    (hfn : s.fn = "visit_item" ∨ s.fn = "visit_assoc_item") (span : String → Nat × Nat)
    {src : List Char} {st st' : State} {attrHis : List Nat} {w : List Char}
    (h : siteRun s span src st attrHis w = some st') (hinv : st.Inv) :
    ∃ sn, snippet src (span s.itemSpan).1 (span s.itemSpan).2 = some sn ∧
      st'.buffer = st.buffer ++ w ++ trim sn ∧
      st'.skipped = st.skipped ++ [outLines (st.buffer ++ w) (trim sn)] := by
  have hsame : s.mainSpan = s.itemSpan := by
    have h1 := skip_sites_cover_attributes.2.2.1 s hs
    have h2 := skip_sites_cover_attributes.2.2.2.2.1 s hs
    rcases hfn with hf | hf
    · rw [(h1 hf).1, (h1 hf).2]
    · exact h2 hf
  unfold siteRun at h
  rw [hsame] at h
  obtain ⟨sn, hsn, hr⟩ := pushSkipped_range_item h hinv
  obtain ⟨sn', hsn', _, hb, _⟩ := pushSkipped_spec h
  rw [hsn] at hsn'
  cases hsn'
  exact ⟨sn, hsn, hb, hr⟩

example : ∃ s ∈ RF.Gen.SkipSites.sites, s.fn = "visit_item" ∧
    (siteRun s (fun _ => (3, 16)) "a;\n#[s]\nfn f(){}".toList ⟨"a;".toList, 2, 0, []⟩ [7] ['\n']).map
      (·.skipped) = some [(2, 3)] := by
  decide

/-! ## The reader in `MacroBranch::rewrite`: re-indentation of a formatted macro body -/

open RF.MacroBody RF.CharClasses

/-- The condition under which `MacroBranch::rewrite` indents a line, and
`FormattedSnippet::is_line_non_formatted`, as they are written in the current source, are the ones
`RF.MacroBody.reindentLines` / `isLineNonFormatted` model (the model itself is tied to the code by
the correspondence `skip.mbody` on real runs of `rewrite_macro_def`). -/
theorem reindent_guard_is_the_modelled_one :
    RF.Gen.SkipSites.reindentGuard =
      ["!is_empty_line(l)", "need_indent", "!new_body_snippet.is_line_non_formatted(i+1)"] ∧
    RF.Gen.SkipSites.nonFormattedPredicate =
      "self.non_formatted_ranges.iter().any(|(low,high)|*low<=n&&n<=*high)" := by
  decide

/-- Every line of a formatted macro body comes out as it is or behind the body indentation; a line
inside a recorded range comes out as it is — whatever its kind, the configuration and the state of
`need_indent`. -/
theorem macro_body_covered_line_verbatim (ind : List Char) (ranges : List (Nat × Nat)) (c : Cfg)
    (cls : List (Kind × List Char)) (need : Bool) (k : Nat) (hk : k < cls.length) :
    ((reindentLines ind ranges c 0 need cls)[k]? = some (cls[k].2) ∨
      (reindentLines ind ranges c 0 need cls)[k]? = some (ind ++ cls[k].2)) ∧
    (isLineNonFormatted ranges (k + 1) = true →
      (reindentLines ind ranges c 0 need cls)[k]? = some (cls[k].2)) :=
  ⟨reindentLines_line ind ranges c cls 0 need k hk,
   fun h => reindentLines_covered ind ranges c cls 0 need k hk (by simpa using h)⟩

/-- The lines `a..=b` of a recorded range `(a, b)` are, after the re-indentation, the lines that
went in: the output is `U ++ M ++ V` with `M` the input's lines `a..=b` and `U` as long as the
input's first `a - 1` lines. -/
theorem macro_body_skipped_lines_verbatim (ind : List Char) (ranges : List (Nat × Nat)) (c : Cfg)
    (cls : List (Kind × List Char)) (need : Bool) {a b : Nat} (hm : (a, b) ∈ ranges)
    (ha : 1 ≤ a) (_hb : b ≤ cls.length) :
    ∃ U V, reindentLines ind ranges c 0 need cls =
        U ++ ((cls.map (·.2)).drop (a - 1)).take (b + 1 - a) ++ V ∧
      U.length = min (a - 1) cls.length ∧
      joinLines (reindentLines ind ranges c 0 need cls) =
        joinLines U ++ joinLines (((cls.map (·.2)).drop (a - 1)).take (b + 1 - a)) ++ joinLines V := by
  have hblk := reindentLines_block ind ranges c cls need hm ha
  have hsplit := split_block (reindentLines ind ranges c 0 need cls) (a - 1) (b + 1 - a)
  rw [hblk] at hsplit
  refine ⟨_, _, hsplit, ?_, ?_⟩
  · simp [reindentLines_length]
  · conv => lhs; rw [hsplit]
    simp [joinLines_append]

example : (2, 3) ∈ [(2, 3)] ∧ 1 ≤ 2 ∧ 3 ≤ [(Kind.normal, "a".toList), (Kind.normal, " b".toList), (Kind.normal, "c".toList)].length := by
  decide

/-- Text level.  Let the formatted body (after `trim_end`) be `pre ++ s ++ post` — `s` the
verbatim copy of a skipped node, as `pushSkipped_verbatim` leaves it in the buffer — without
carriage returns, and let the recorded ranges contain the first and last line of `s`
(`outLines pre s`, which is what `skip_sites_item_range_whole` says is recorded for items).  Then
`s` occurs in the re-indented body, byte for byte, for every indentation string and configuration:
only the part of `s`'s first line before `s` (`p`, no line break in it) can get the indentation in
front. -/
theorem macro_body_skipped_copy_verbatim (ind : List Char) (ranges : List (Nat × Nat)) (c : Cfg)
    (pre s post : List Char) (hne : pre ++ s ++ post ≠ []) (hcr : '\r' ∉ pre ++ s ++ post)
    (hlast : (pre ++ s ++ post).getLast? ≠ some '\n')
    (hm : RF.Skip.outLines pre s ∈ ranges) :
    ∃ u v, joinLines (reindentLines ind ranges c 0 true (lineClasses (pre ++ s ++ post))) =
      u ++ s ++ v := by
  obtain ⟨A, M, B, p, q, hsp, hA, hM, hj, _, _⟩ := splitNl_block pre s post
  have hlines := lineClasses_lines hne hcr hlast
  have hlen : (lineClasses (pre ++ s ++ post)).length = A.length + M.length + B.length := by
    have := congrArg List.length hlines
    rw [hsp] at this
    simp only [List.length_map, List.length_append] at this
    omega
  have hm' : (countNl pre + 1, countNl pre + countNl s + 1) ∈ ranges := by
    simpa [RF.Skip.outLines] using hm
  obtain ⟨U, V, _, _, hjoin⟩ := macro_body_skipped_lines_verbatim ind ranges c
    (lineClasses (pre ++ s ++ post)) true hm' (by omega) (by omega)
  have hblock : ((List.map (·.2) (lineClasses (pre ++ s ++ post))).drop (countNl pre + 1 - 1)).take
      (countNl pre + countNl s + 1 + 1 - (countNl pre + 1)) = M := by
    rw [hlines, hsp]
    have h1 : countNl pre + 1 - 1 = A.length := by omega
    have h2 : countNl pre + countNl s + 1 + 1 - (countNl pre + 1) = M.length := by omega
    rw [h1, h2, List.append_assoc, List.drop_left, List.take_left]
  rw [hblock] at hjoin
  have hMne : M ≠ [] := by
    intro h; rw [h] at hM; simp at hM
  rw [joinLines_eq_joinNl M hMne, hj] at hjoin
  exact ⟨joinLines U ++ p, q ++ ['\n'] ++ joinLines V, by rw [hjoin]; simp [List.append_assoc]⟩

/-- The same for `reindent` (which applies `trim_end` first), in terms of the trimmed text. -/
theorem macro_body_skipped_copy_verbatim_reindent (ind : List Char) (ranges : List (Nat × Nat))
    (c : Cfg) (snippet pre s post : List Char) (ht : RF.Skip.trimEnd snippet = pre ++ s ++ post)
    (hne : s ≠ []) (hcr : '\r' ∉ snippet) (hm : RF.Skip.outLines pre s ∈ ranges) :
    ∃ u v, reindent ind ranges c snippet = u ++ s ++ v := by
  unfold reindent
  rw [ht]
  have hne' : pre ++ s ++ post ≠ [] := by
    intro h
    have h1 := List.append_eq_nil_iff.1 h
    have h2 := List.append_eq_nil_iff.1 h1.1
    exact hne h2.2
  have hcr' : '\r' ∉ pre ++ s ++ post := by
    rw [← ht]
    intro hmem
    apply hcr
    have hd := RF.Skip.trimEnd_decomp snippet
    rw [hd]
    exact List.mem_append_left _ hmem
  have hlast : (pre ++ s ++ post).getLast? ≠ some '\n' := by
    rw [← ht]
    intro h
    have := trimEnd_getLast snippet '\n' h
    exact absurd this (by decide)
  exact macro_body_skipped_copy_verbatim ind ranges c pre s post hne' hcr' hlast hm

/-- From the call site to the macro body.  A skipped item is copied by a `visit_item` (or
`visit_assoc_item`) call of the current source into the body formatter's buffer; whatever is pushed
afterwards (`post`), whatever other ranges are recorded, whatever the arm's indentation and the
configuration: the re-indented body contains the copy (`trim` of the item's span, attributes
included for `visit_item`) byte for byte. -/
theorem skipped_item_in_macro_body_verbatim (s : RF.Gen.SkipSites.Site)
    (hs : s ∈ RF.Gen.SkipSites.sites) (hfn : s.fn = "visit_item" ∨ s.fn = "visit_assoc_item")
    (span : String → Nat × Nat) {src : List Char} {st st' : State} {attrHis : List Nat}
    {w : List Char} (h : siteRun s span src st attrHis w = some st') (hinv : st.Inv)
    (ind : List Char) (ranges : List (Nat × Nat)) (c : Cfg) (post post' : List Char)
    (hranges : ∀ r ∈ st'.skipped, r ∈ ranges)
    (ht : RF.Skip.trimEnd (st'.buffer ++ post) = st'.buffer ++ post')
    (hcr : '\r' ∉ st'.buffer ++ post) :
    ∃ sn, snippet src (span s.itemSpan).1 (span s.itemSpan).2 = some sn ∧
      (trim sn ≠ [] → ∃ u v, reindent ind ranges c (st'.buffer ++ post) = u ++ trim sn ++ v) := by
  obtain ⟨sn, hsn, hbuf, hsk⟩ := skip_sites_item_range_whole s hs hfn span h hinv
  refine ⟨sn, hsn, fun hne => ?_⟩
  have hm : RF.Skip.outLines (st.buffer ++ w) (trim sn) ∈ ranges :=
    hranges _ (by rw [hsk]; simp)
  rw [hbuf] at ht
  exact macro_body_skipped_copy_verbatim_reindent ind ranges c (st'.buffer ++ post)
    (st.buffer ++ w) (trim sn) post' (by rw [hbuf]; exact ht) hne hcr hm

example : ∃ s ∈ RF.Gen.SkipSites.sites, s.fn = "visit_item" ∧
    ∃ st', siteRun s (fun _ => (3, 16)) "a;\n#[s]\nfn f(){}".toList ⟨"a;".toList, 2, 0, []⟩ [7] ['\n'] = some st' ∧
      RF.Skip.trimEnd (st'.buffer ++ "\nfn g() {}\n".toList) = st'.buffer ++ "\nfn g() {}".toList ∧
      '\r' ∉ st'.buffer ++ "\nfn g() {}\n".toList ∧ (∀ r ∈ st'.skipped, r ∈ [(2, 3)]) := by
  refine ⟨⟨"src/visitor.rs", "visit_item", "attrs.as_slice()", "item.span()", "item.span()"⟩, by decide, rfl,
    ⟨"a;\n#[s]\nfn f(){}".toList, 16, 2, [(2, 3)]⟩, by decide, by decide, by decide, by decide⟩

/-- Non-vacuity, and the two theorems together on the shape of the seeded change's demo: the body
holds a skipped `fn` with a second attribute line.  With the whole copy recorded, `(1, 3)`, the three
lines are kept and the neighbour is indented. -/
example :
    let snippet := "#[rustfmt::skip]\n  #[cfg(a)]\nfn  f( ) {}\n\nfn g() {}\n".toList
    let s := "#[rustfmt::skip]\n  #[cfg(a)]\nfn  f( ) {}".toList
    RF.Skip.trimEnd snippet = [] ++ s ++ "\n\nfn g() {}".toList ∧ RF.Skip.outLines [] s = (1, 3) ∧
    reindent "    ".toList [(1, 3)] ⟨false, false⟩ snippet =
      "#[rustfmt::skip]\n  #[cfg(a)]\nfn  f( ) {}\n\n    fn g() {}\n".toList := by
  decide

/-- A non-blank line of the copy that the recorded range does not cover gets the indentation in
front (when no line ends inside a string literal, so that `need_indent` stays true): with a
non-empty indentation its bytes change. -/
theorem macro_body_uncovered_line_shifted (ind : List Char) (ranges : List (Nat × Nat)) (c : Cfg)
    (cls : List (Kind × List Char)) (k : Nat) (hk : k < cls.length)
    (hall : ∀ kl ∈ cls, indentNextLine c kl.1 kl.2 = true)
    (hun : isLineNonFormatted ranges (k + 1) = false) (hne : isEmptyLine (cls[k].2) = false)
    (hind : ind ≠ []) :
    (reindentLines ind ranges c 0 true cls)[k]? = some (ind ++ cls[k].2) ∧
    ind ++ cls[k].2 ≠ cls[k].2 := by
  refine ⟨reindentLines_uncovered ind ranges c cls 0 k hk hall (by simpa using hun) hne, ?_⟩
  intro h
  have := congrArg List.length h
  simp at this
  exact hind this

/-- What a range that starts late does (the range `min(last attribute line + 1, line of the item
keyword)` that a `main_span` without the attributes yields: here `(3, 3)` instead of `(1, 3)`): the
second attribute line of the skipped `fn` moves from column 2 to column 6, and the re-indented text
no longer contains the node's source text. -/
theorem macro_body_late_range_counterexample :
    let snippet := "#[rustfmt::skip]\n  #[cfg(a)]\nfn  f( ) {}\n\nfn g() {}\n".toList
    let s := "#[rustfmt::skip]\n  #[cfg(a)]\nfn  f( ) {}".toList
    reindent "    ".toList [(3, 3)] ⟨false, false⟩ snippet =
      "    #[rustfmt::skip]\n      #[cfg(a)]\nfn  f( ) {}\n\n    fn g() {}\n".toList ∧
    RF.Skip.containsSub s (reindent "    ".toList [(3, 3)] ⟨false, false⟩ snippet) = false ∧
    RF.Skip.containsSub s (reindent "    ".toList [(1, 3)] ⟨false, false⟩ snippet) = true := by
  decide

/-- The hypothesis "no carriage return" is needed: `LineClasses` drops one `\r` at the end of each
line and the fold writes `"\n"`, so a covered line that ends in `\r` (possible only for a lone
`\r` before a CRLF pair, inside a comment: rustc turns every CRLF into LF beforehand) loses it. -/
theorem macro_body_cr_counterexample :
    reindent [] [(1, 2)] ⟨false, false⟩ "/* a\r\n*/".toList = "/* a\n*/\n".toList := by
  decide

/-- `unwrap_code_block`: a range that lies below the wrapper's header lines is shifted up by their
number, so a line `n` of the unwrapped block is covered iff line `n + header` of the wrapped text
was. -/
theorem unwrapCodeBlock_shift (h : Nat) (ranges : List (Nat × Nat)) (n : Nat)
    (hr : ∀ r ∈ ranges, h < r.1) :
    isLineNonFormatted (unwrapCodeBlock h ranges) n = isLineNonFormatted ranges (n + h) := by
  induction ranges with
  | nil => rfl
  | cons r rs ih =>
    have h1 : h < r.1 := hr r (by simp)
    have ih' := ih (fun x hx => hr x (by simp [hx]))
    simp only [isLineNonFormatted, unwrapCodeBlock, List.map_cons, List.any_cons] at ih' ⊢
    rw [ih']
    congr 1
    rw [Bool.eq_iff_iff]
    simp only [Bool.and_eq_true, decide_eq_true_eq]
    omega

example : (∀ r ∈ [(3, 4)], 1 < r.1) ∧
    isLineNonFormatted (unwrapCodeBlock 1 [(3, 4)]) 2 = true ∧ isLineNonFormatted [(3, 4)] 3 = true := by
  decide

/-! ## `format_code_block`: the `fn main() {` wrapper around a statement-shaped body -/

/-- What the wrapper does to one line and what the un-indenting loop does to the result when the
formatter copied the line as it is (a line of a skipped node): the line comes back, for every line
when empty lines are left empty, and for every non-empty line otherwise.  `tabSpaces ≥ 1`; the line
with its indentation fits `max_width`. -/
theorem code_block_line_roundtrip (hardTabs : Bool) (tabSpaces maxWidth : Nat) (skipEmpty : Bool)
    (l : List Char) (ht : 1 ≤ tabSpaces) (hw : l.length + tabSpaces ≤ maxWidth)
    (hl : skipEmpty = true ∨ l ≠ []) :
    let ind := levelIndent hardTabs tabSpaces
    let offset := if hardTabs then 1 else tabSpaces
    unwrapLine ind offset maxWidth true ((if (!skipEmpty || !l.isEmpty) then ind else []) ++ l) =
      some l := by
  intro ind offset
  have hind : ind.length = offset := by
    simp only [ind, offset, levelIndent]
    split <;> simp
  have hoff : offset ≤ tabSpaces := by
    simp only [offset]; split <;> omega
  by_cases he : l = []
  · subst he
    rcases hl with h | h
    · subst h
      simp [unwrapLine]
    · exact absurd rfl h
  · have hne : l.isEmpty = false := by simpa using he
    have hpos : 0 < l.length := List.length_pos_iff.2 he
    simp only [hne, Bool.not_false, Bool.or_true, if_true]
    unfold unwrapLine
    have h1 : ¬ (ind ++ l).length > maxWidth := by
      simp only [List.length_append]; omega
    have h2 : (ind ++ l).length > ind.length := by
      simp only [List.length_append]; omega
    have h3 : ind.isPrefixOf (ind ++ l) = true := by
      simp
    simp only [Bool.not_true, Bool.false_eq_true, if_false, h1, h2, h3, if_true]
    rw [← hind, List.drop_left]

/-- The wrapper of the current source leaves empty lines empty (generated from lib.rs), so every
line of a verbatim copy survives the wrapping and unwrapping. -/
theorem code_block_roundtrip_current (hardTabs : Bool) (tabSpaces maxWidth : Nat) (l : List Char)
    (ht : 1 ≤ tabSpaces) (hw : l.length + tabSpaces ≤ maxWidth) :
    RF.Gen.SkipSites.encloseSkipsEmptyLines = true ∧
    unwrapLine (levelIndent hardTabs tabSpaces) (if hardTabs then 1 else tabSpaces) maxWidth true
      ((if (!RF.Gen.SkipSites.encloseSkipsEmptyLines || !l.isEmpty)
          then levelIndent hardTabs tabSpaces else []) ++ l) = some l :=
  ⟨by decide, code_block_line_roundtrip hardTabs tabSpaces maxWidth
    RF.Gen.SkipSites.encloseSkipsEmptyLines l ht hw (Or.inl (by decide))⟩

example : (1 : Nat) ≤ 4 ∧ ("  x".toList.length + 4 ≤ 100) := by decide

/-- Before /repo 22cb75b the wrapper indented empty lines too: an empty line inside a skipped node
came back as a line of `tab_spaces` blanks (the un-indenting loop only strips lines LONGER than the
indentation). -/
theorem code_block_blank_line_counterexample :
    unwrapLine (levelIndent false 4) 4 100 true
      ((if (!false || !([] : List Char).isEmpty) then levelIndent false 4 else []) ++ []) =
      some "    ".toList ∧
    unwrapLines (levelIndent false 4) 4 100 ⟨false, false⟩ true
      (lineClasses (((encloseInMainBlock (levelIndent false 4) ⟨false, false⟩ false
        "struct S {\n\n}".toList).drop fnMainPrefix.length).dropLast.dropLast)) =
      some ["struct S {".toList, "    ".toList, "}".toList] ∧
    unwrapLines (levelIndent false 4) 4 100 ⟨false, false⟩ true
      (lineClasses (((encloseInMainBlock (levelIndent false 4) ⟨false, false⟩ true
        "struct S {\n\n}".toList).drop fnMainPrefix.length).dropLast.dropLast)) =
      some ["struct S {".toList, [], "}".toList] := by
  decide

end RF.Props.C04
