import RF.Model.Shape
import RF.Model.CharClasses
/-!
# Model of `src/string.rs` (`rewrite_string`, `break_string`, `detect_url`, …)

Literal transcription: index arithmetic, the order of the tests and the quirks are the code's.
A text is a `List Char`.

**Graphemes are modelled as characters.**  `rewrite_string` works on the extended grapheme clusters
of the text (`UnicodeSegmentation::graphemes(_, false)`) and measures them with
`unicode_width` 0.1.14.  The model is exact on texts in which every grapheme is one `char` whose
`str` width is `cw` below (`'\n'` is 0 columns wide, everything else 1): all of U+0000‥U+00A0 except
the pair CR LF (one grapheme), and the narrow letters beyond.  The harness keeps the correspondence
inside that domain and reports a separate family with wide characters, combining marks and CR LF as a
distribution only.

`usize` is `Nat` (no wrap-around; everything is far below 2^63).  Where the dev build can panic the
functions say so (`detectUrl?`; `Indent::to_string` through `RF.Shape`).  Imports other models only.
-/
namespace RF.StringFmt
open RF.Shape (Panic)

/-! ## character classes -/

/-- `char::is_whitespace` (Unicode `White_Space`).  `is_whitespace(grapheme)` of string.rs:362 on a
one-character grapheme. -/
def isWs (c : Char) : Bool :=
  let n := c.toNat
  (9 ≤ n && n ≤ 13) || n == 0x20 || n == 0x85 || n == 0xA0 || n == 0x1680 ||
  (0x2000 ≤ n && n ≤ 0x200A) || n == 0x2028 || n == 0x2029 || n == 0x202F ||
  n == 0x205F || n == 0x3000

/-- `is_new_line` (string.rs:357) on a one-character grapheme. -/
def isNl (c : Char) : Bool := c == '\n'

/-- `not_whitespace_except_line_feed` (string.rs:217). -/
def notWsExceptLf (c : Char) : Bool := isNl c || !isWs c

/-- `is_punctuation` (string.rs:366): general category `Po`.  Exact below U+0100 (the Latin-1 members
are `¡ § ¶ · ¿`); characters from U+0100 on are taken as non-punctuation (outside the domain of the
correspondence unless they are letters). -/
def isPunct (c : Char) : Bool :=
  c == '!' || c == '"' || c == '#' || c == '%' || c == '&' || c == '\'' || c == '*' || c == ',' ||
  c == '.' || c == '/' || c == ':' || c == ';' || c == '?' || c == '@' || c == '\\' ||
  c.toNat == 0xA1 || c.toNat == 0xA7 || c.toNat == 0xB6 || c.toNat == 0xB7 || c.toNat == 0xBF

/-- `unicode_str_width` of a one-character grapheme (unicode-width 0.1.14 `str` width: LF is 0, every
other character up to U+00A0 is 1, the soft hyphen U+00AD is 0, narrow characters are 1). -/
def cw (c : Char) : Nat := if c == '\n' || c.toNat == 0xAD then 0 else 1

/-- `graphemes_width` (string.rs:372). -/
def width : List Char → Nat
  | [] => 0
  | c :: r => cw c + width r

/-- `str::len()`: the number of UTF-8 bytes. -/
def byteLen : List Char → Nat
  | [] => 0
  | c :: r => c.utf8Size + byteLen r

/-! ## slice helpers -/

/-- `iter().position(p)` -/
def position (p : Char → Bool) : List Char → Option Nat
  | [] => none
  | c :: r => if p c then some 0 else (position p r).map (· + 1)

/-- `iter().rposition(p)` -/
def rposition (p : Char → Bool) : List Char → Option Nat
  | [] => none
  | c :: r =>
    match rposition p r with
    | some i => some (i + 1)
    | none => if p c then some 0 else none

/-- `str::contains(pat)` -/
def containsSub (pat : List Char) : List Char → Bool
  | [] => pat.isEmpty
  | c :: r => pat.isPrefixOf (c :: r) || containsSub pat r

/-- `str::trim_end()`: drop the trailing `White_Space` characters. -/
def trimEndWs (l : List Char) : List Char := (l.reverse.dropWhile isWs).reverse

/-! ## `detect_url` (string.rs:158-180) -/

def hasUrlScheme (s : List Char) : Bool :=
  containsSub "https://".toList s || containsSub "http://".toList s ||
  containsSub "ftp://".toList s || containsSub "file://".toList s

/-- `detect_url(s, index)` for `index < s.len()` (and `index ≥ 1` or `s[index]` not white: otherwise
`index + pos - 1` underflows, see `detectUrl?`). -/
def detectUrl (s : List Char) (index : Nat) : Option Nat :=
  let start := match rposition isWs (s.take (index + 1)) with
    | some pos => pos + 1
    | none => 0
  -- 8 = minimum length for a string to contain a URL
  if s.length < start + 8 then none
  else if hasUrlScheme (s.drop start) then
    match position isWs (s.drop index) with
    | some pos => some (index + pos - 1)
    | none => some (s.length - 1)
  else none

/-- `detect_url` with its panics: `s[..=index]` out of range, and `index + pos - 1` with
`index = pos = 0` in a build with overflow checks.  Outer `none` = panic. -/
def detectUrl? (s : List Char) (index : Nat) : Option (Option Nat) :=
  if s.length ≤ index then none
  else
    let start := match rposition isWs (s.take (index + 1)) with
      | some pos => pos + 1
      | none => 0
    if s.length < start + 8 then some none
    else if hasUrlScheme (s.drop start) then
      match position isWs (s.drop index) with
      | some pos => if index + pos = 0 then none else some (some (index + pos - 1))
      | none => some (some (s.length - 1))
    else some none

/-! ## `break_string` (string.rs:224-338) -/

/-- `SnippetState` (string.rs:197-215). -/
inductive Snippet where
  | endOfInput (line : List Char)
  | lineEnd (line : List Char) (len : Nat)
  | endWithLineFeed (line : List Char) (len : Nat)
  deriving Repr, DecidableEq

/-- What the second loop of `break_at` (string.rs:249-259) finds to the right of the break. -/
inductive RightScan where
  | feed (i : Nat)       -- `!trim_end && is_new_line(grapheme)` at offset i
  | stop (i : Nat)       -- first `not_whitespace_except_line_feed` at offset i
  | exhausted            -- the loop ran off the end: `index_plus_ws` stays `index`
  deriving Repr, DecidableEq

def scanRight (trimEnd : Bool) : List Char → Nat → RightScan
  | [], _ => .exhausted
  | g :: r, i =>
    if !trimEnd && isNl g then .feed i
    else if notWsExceptLf g then .stop i
    else scanRight trimEnd r (i + 1)

/-- The second half of `break_at` (string.rs:248-274): take in the white space to the right of
`input[index]`. -/
def breakAtRight (trimEnd : Bool) (input : List Char) (index indexMinusWs : Nat) : Snippet :=
  match scanRight trimEnd (input.drop (index + 1)) 0 with
  | .feed i => .endWithLineFeed (input.take (index + 1 + i + 1)) (index + 2 + i)
  | .stop i =>
    let indexPlusWs := index + i
    if trimEnd then .lineEnd (input.take (indexMinusWs + 1)) (indexPlusWs + 1)
    else .lineEnd (input.take (indexPlusWs + 1)) (indexPlusWs + 1)
  | .exhausted =>
    -- `only_whitespaces_follow`: nothing is left for a next line; with `trim_end = false` the rest is
    -- significant and stays here, with `trim_end` it is dropped
    if trimEnd then .endOfInput (input.take (indexMinusWs + 1))
    else .endOfInput input

/-- The closure `break_at` (string.rs:225-274); `input[index]` is included in the line. -/
def breakAt (trimEnd : Bool) (input : List Char) (index : Nat) : Snippet :=
  let pre := input.take (index + 1)
  let indexMinusWs := (rposition notWsExceptLf pre).getD index
  -- only the first line feed of `input[0..=index]` is looked at (`break` after it)
  match position isNl pre with
  | some i =>
    if i ≤ indexMinusWs then
      let line := input.take i
      .endWithLineFeed ((if trimEnd then trimEndWs line else line) ++ ['\n']) (i + 1)
    else breakAtRight trimEnd input index indexMinusWs
  | none => breakAtRight trimEnd input index indexMinusWs

/-- `max_width_index_in_input` (string.rs:269-280): the first index at which the width of
`input[0..=i]` exceeds `max_width`, else the last index (0 for the empty input). -/
def maxWidthIndexGo (maxWidth : Nat) : List Char → Nat → Nat → Nat → Nat
  | [], _, _, curIndex => curIndex
  | g :: r, i, curWidth, _ =>
    if curWidth + cw g > maxWidth then i else maxWidthIndexGo maxWidth r (i + 1) (curWidth + cw g) i

def maxWidthIndex (maxWidth : Nat) (input : List Char) : Nat := maxWidthIndexGo maxWidth input 0 0 0

/-- `is_part_of_type` (string.rs:352). -/
def isPartOfType (input : List Char) (pos : Nat) : Bool :=
  (input[pos]? == some ':' && input[pos + 1]? == some ':') ||
  (1 ≤ pos && input[pos - 1]? == some ':' && input[pos]? == some ':')

/-- `is_valid_linebreak` (string.rs:340). -/
def isValidLinebreak (input : List Char) (pos : Nat) : Bool :=
  let g := input.getD pos ' '
  -- a backslash escapes what follows it: never a break point
  isWs g || ((isPunct g && g != '\\') && !isPartOfType input pos)

/-- `(0..n).rev().skip_while(|pos| !is_valid_linebreak(input, *pos)).next()` -/
def lastValidBelow (input : List Char) : Nat → Option Nat
  | 0 => none
  | n + 1 => if isValidLinebreak input n then some n else lastValidBelow input n

/-- `(pos..pos + count).skip_while(|p| !is_valid_linebreak(input, *p)).next()` -/
def firstValidFrom (input : List Char) (pos : Nat) : Nat → Option Nat
  | 0 => none
  | count + 1 => if isValidLinebreak input pos then some pos else firstValidFrom input (pos + 1) count

def MIN_STRING : Nat := 10

/-- Third stage of the search (string.rs:335-343): the first boundary at or after the limit. -/
def searchRight (trimEnd : Bool) (input : List Char) (mwi : Nat) : Snippet :=
  match firstValidFrom input mwi (input.length - mwi) with
  | some index => breakAt trimEnd input index
  | none => .endOfInput input

/-- Second stage (string.rs:326-334): the last boundary before the limit, if the line is long enough. -/
def searchPunct (trimEnd : Bool) (input : List Char) (mwi : Nat) : Snippet :=
  match lastValidBelow input mwi with
  | some index => if MIN_STRING ≤ index then breakAt trimEnd input index else searchRight trimEnd input mwi
  | none => searchRight trimEnd input mwi

/-- The three-stage search of string.rs:319-345: the last white space before the limit first. -/
def searchBreak (trimEnd : Bool) (input : List Char) (mwi : Nat) : Snippet :=
  match rposition isWs (input.take mwi) with
  | some index => if MIN_STRING ≤ index then breakAt trimEnd input index else searchPunct trimEnd input mwi
  | none => searchPunct trimEnd input mwi

/-- `break_string(max_width, trim_end, line_end, input)`. -/
def breakString (maxWidth : Nat) (trimEnd : Bool) (lineEnd : List Char) (input : List Char) : Snippet :=
  let mwi := maxWidthIndex maxWidth input
  if mwi = 0 then .endOfInput input
  else if lineEnd.isEmpty && trimEnd && !isWs (input.getD (mwi - 1) ' ') && isWs (input.getD mwi ' ') then
    -- "At a breaking point already"
    breakAt trimEnd input (mwi - 1)
  else
    match detectUrl input mwi with
    | some urlEnd => breakAt trimEnd input urlEnd
    | none => searchBreak trimEnd input mwi

/-! ## the line-continuation regex `([^\\](\\\\)*)(\\[\n\r][ \t\n\r]*)+` replaced by `$1` -/

/-- The literal the matcher below implements; `translate/strfmt_regex.py` reads the one in string.rs
into `RF/Gen/StringFmtRegex.lean` and `RF/Props/StringFmt.lean` compares the two. -/
def modelledRegex : String := "([^\\\\](\\\\\\\\)*)(\\\\[\\n\\r][ \\t\\n\\r]*)+"

/-- The white space a string continuation skips (`rustc_lexer::unescape::skip_ascii_whitespace`), which
is also the class `[ \t\n\r]` of the regex. -/
def isContWs (c : Char) : Bool := c == ' ' || c == '\t' || c == '\n' || c == '\r'

/-- State of the matcher between two characters.
`start`: no anchor (`[^\\]`) directly before the pending backslashes;
`even`: an anchor and an even number of backslashes behind it have been copied;
`odd`: as `even`, plus one backslash that is held back (it starts `\\[\n\r]` if a line break follows);
`space`: inside `[ \t\n\r]*` of a match;
`spaceBs`: as `space`, plus one backslash that is held back (it starts another round of the repetition if a
line break follows, otherwise the match ended before it). -/
inductive ReState where
  | start | even | odd | space | spaceBs
  deriving Repr, DecidableEq

/-- `Regex::replace_all(orig, "$1")`, leftmost-first, non-overlapping: a match starts at a
non-backslash character followed by an odd number of backslashes and `\n` or `\r`; it goes on over the
longest run of `[ \t\n\r]`, and over every further backslash–line-break–run directly behind it; the next
search starts there (so the character after a match is not preceded by an anchor). -/
def stripGo : ReState → List Char → List Char
  | .odd, [] => ['\\']
  | .spaceBs, [] => ['\\']
  | _, [] => []
  | .start, c :: r => if c == '\\' then c :: stripGo .start r else c :: stripGo .even r
  | .even, c :: r => if c == '\\' then stripGo .odd r else c :: stripGo .even r
  | .odd, c :: r =>
    if c == '\\' then '\\' :: '\\' :: stripGo .even r
    else if c == '\n' || c == '\r' then stripGo .space r
    else '\\' :: c :: stripGo .even r
  | .space, c :: r =>
    if isContWs c then stripGo .space r
    else if c == '\\' then stripGo .spaceBs r else c :: stripGo .even r
  | .spaceBs, c :: r =>
    if c == '\n' || c == '\r' then stripGo .space r
    else if c == '\\' then '\\' :: '\\' :: stripGo .start r
    else '\\' :: c :: stripGo .even r

/-- `strip_line_breaks_re.replace_all(orig, "$1")` (string.rs:76-77). -/
def stripLineBreaks (orig : List Char) : List Char := stripGo .start orig

/-! ## `rewrite_string` (string.rs:64-154) -/

/-- `StringFormat` (string.rs:14-28) with the parts of `Config` it reads. -/
structure Fmt where
  opener : List Char
  closer : List Char
  lineStart : List Char
  lineEnd : List Char
  shape : RF.Shape.Shape
  trimEnd : Bool
  config : RF.Shape.Config
  deriving Repr, DecidableEq

/-- `StringFormat::new` (string.rs:31-41). -/
def Fmt.new (shape : RF.Shape.Shape) (config : RF.Shape.Config) : Fmt :=
  { opener := ['"'], closer := ['"'], lineStart := [' '], lineEnd := ['\\'], shape, trimEnd := false, config }

/-- `max_width_with_indent` (string.rs:47-54). -/
def Fmt.maxWidthWithIndent (f : Fmt) : Option Nat :=
  match RF.Shape.checkedSub f.shape.width (byteLen f.opener + byteLen f.lineEnd + 1) with
  | some w => some (w + 1)
  | none => none

/-- `max_width_without_indent` (string.rs:59-61). -/
def Fmt.maxWidthWithoutIndent (f : Fmt) : Option Nat :=
  RF.Shape.checkedSub f.config.max_width (byteLen f.lineEnd)

/-- The constants of the loop. -/
structure LoopCfg where
  trimEnd : Bool
  lineStart : List Char
  lineEnd : List Char
  indentNl : List Char        -- `indent_with_newline`
  indentNoNl : List Char      -- `indent_without_newline`
  bareOk : Bool               -- `is_bareline_ok`
  newlineMax : Nat            -- `newline_max_chars`
  mwWith : Nat                -- `max_width_with_indent`
  mwWithout : Nat             -- `max_width_without_indent`
  deriving Repr, DecidableEq

/-- `result` is kept reversed (`acc`): `push_str(s)` is `s.reverse ++ acc`. -/
def pushStr (acc s : List Char) : List Char := s.reverse ++ acc

/-- `trim_end_but_line_feed` (string.rs:183-192) on the reversed buffer. -/
def trimEndButLf (trimEnd : Bool) (acc : List Char) : List Char :=
  if trimEnd then acc.dropWhile (fun c => isWs c && c != '\n') else acc

/-- The `for` loop of string.rs:98-110 ("all the input starting at cur_start fits"). -/
def pushFit (k : LoopCfg) : List Char → List Char → List Char
  | [], acc => acc
  | g :: r, acc =>
    if isNl g then
      -- take care of blank lines
      let acc := '\n' :: trimEndButLf k.trimEnd acc
      let acc := if !k.bareOk && !r.isEmpty then pushStr (pushStr acc k.indentNoNl) k.lineStart else acc
      pushFit k r acc
    else pushFit k r (g :: acc)

/-- The buffer after the first two statements of the `EndWithLineFeed` arm (string.rs:131-134):
`result.trim_end()` when the line is a bare line feed and `trim_end` is set, then the line. -/
def feedAcc (k : LoopCfg) (acc line : List Char) : List Char :=
  pushStr (if line == ['\n'] && k.trimEnd then acc.dropWhile isWs else acc) line

/-- The `loop` of string.rs:95-150 over `rem = graphemes[cur_start..]`.  `none`: the fuel ran out
(`RF.Lemmas.StringFmt.loop_fuel`: never with `fuel > rem.length`, because every `LineEnd` /
`EndWithLineFeed` consumes at least one grapheme). -/
def loop (k : LoopCfg) : Nat → List Char → List Char → Nat → Option (List Char)
  | 0, _, _, _ => none
  | fuel + 1, rem, acc, curMax =>
    if width rem ≤ curMax then
      some (trimEndButLf k.trimEnd (pushFit k rem acc))
    else
      match breakString curMax k.trimEnd k.lineEnd rem with
      | .lineEnd line len =>
        loop k fuel (rem.drop len)
          (pushStr (pushStr (pushStr (pushStr acc line) k.lineEnd) k.indentNl) k.lineStart) k.newlineMax
      | .endWithLineFeed line len =>
        if k.bareOk then
          -- the next line can benefit from the full width
          loop k fuel (rem.drop len) (feedAcc k acc line) k.mwWithout
        else
          loop k fuel (rem.drop len) (pushStr (pushStr (feedAcc k acc line) k.indentNoNl) k.lineStart) k.mwWith
      | .endOfInput line => some (pushStr acc line)

/-- `rewrite_string` up to `result.push_str(fmt.closer)`, given the two indent strings. -/
def rewriteRaw (k : LoopCfg) (opener closer : List Char) (orig : List Char) : Option (List Char) :=
  let stripped := stripLineBreaks orig
  match loop k (stripped.length + 1) stripped opener.reverse k.mwWith with
  | some acc => some (pushStr acc closer).reverse
  | none => none

/-! ### `wrap_str` (utils.rs:389-423) -/

/-- `filter_normal_code` (comment.rs:1740-1756). -/
def filterNormalCode (code : List Char) : List Char :=
  let buffer := (RF.CharClasses.lineClasses code).foldl (fun buf (kl : RF.CharClasses.Kind × List Char) =>
    match kl.1 with
    | .normal | .startString | .inString | .endString => buf ++ kl.2 ++ ['\n']
    | _ => buf) []
  if code.getLast? != some '\n' && buffer.getLast? == some '\n' then buffer.dropLast else buffer

/-- Split at every `'\n'` (`str::split('\n')`). -/
def splitNl : List Char → List (List Char)
  | [] => [[]]
  | c :: r =>
    match splitNl r with
    | [] => [[]]      -- unreachable
    | l :: ls => if c == '\n' then [] :: l :: ls else (c :: l) :: ls

/-- `str::lines()`: split at `\n`, no final empty line, one trailing `\r` of each line dropped. -/
def lines (s : List Char) : List (List Char) :=
  let ls := splitNl s
  let ls := if ls.getLast? == some [] then ls.dropLast else ls
  ls.map RF.CharClasses.popCr

/-- `filtered_str_fits` (utils.rs:397-423). -/
def filteredStrFits (snippet : List Char) (maxWidth : Nat) (shape : RF.Shape.Shape) : Bool :=
  let snippet := filterNormalCode snippet
  if snippet.isEmpty then true
  else
    let ls := splitNl snippet
    if width (ls.headD []) > shape.width then false
    else if !snippet.contains '\n' then true
    else if ((lines snippet).drop 1).any (fun l => width l > maxWidth) then false
    else if width (ls.getLastD []) > shape.used_width + shape.width then false
    else true

/-- The constants of the loop from a `StringFormat`; `Indent::to_string` can panic. -/
def Fmt.loopCfg (f : Fmt) (newlineMax mwWith mwWithout : Nat) : Except Panic LoopCfg :=
  match f.shape.indent.to_string_with_newline f.config with
  | .error e => .error e
  | .ok indentNl =>
    match f.shape.indent.to_string f.config with
    | .error e => .error e
    | .ok indentNoNl =>
      .ok { trimEnd := f.trimEnd, lineStart := f.lineStart, lineEnd := f.lineEnd, indentNl, indentNoNl,
            bareOk := f.lineStart.all isWs, newlineMax, mwWith, mwWithout }

/-- `rewrite_string(orig, fmt, newline_max_chars)`. -/
def rewriteString (orig : List Char) (f : Fmt) (newlineMax : Nat) : Except Panic (Option (List Char)) :=
  match f.maxWidthWithIndent with
  | none => .ok none
  | some mwWith =>
    match f.maxWidthWithoutIndent with
    | none => .ok none
    | some mwWithout =>
      match f.loopCfg newlineMax mwWith mwWithout with
      | .error e => .error e
      | .ok k =>
        match rewriteRaw k f.opener f.closer orig with
        | none => .ok none          -- out of fuel: never (`rewriteRaw_isSome`)
        | some result =>
          if filteredStrFits result f.config.max_width f.shape then .ok (some result) else .ok none

/-! ## specifications used as oracles -/

/-- Scanner state of `strValue`. -/
inductive ValState where
  | normal      -- between escapes
  | esc         -- directly after a backslash that starts an escape
  | skip        -- inside the white space that a line continuation swallows
  deriving Repr, DecidableEq

/-- The body of a (non-raw) string literal with its line continuations removed, escapes left as
written: a backslash and the character after it form a pair; the pair backslash–newline and the
run of ` `, `\t`, `\n`, `\r` after it denote nothing.  Written from the Rust reference ("String
continuation escapes"), not from rustfmt.  Two bodies with the same `strValue` denote the same
string. -/
def strValueGo : ValState → List Char → List Char
  | .esc, [] => ['\\']
  | _, [] => []
  | .normal, c :: r => if c == '\\' then strValueGo .esc r else c :: strValueGo .normal r
  | .esc, c :: r => if c == '\n' then strValueGo .skip r else '\\' :: c :: strValueGo .normal r
  | .skip, c :: r =>
    if isContWs c then strValueGo .skip r
    else if c == '\\' then strValueGo .esc r
    else c :: strValueGo .normal r

def strValue (body : List Char) : List Char := strValueGo .normal body

/-- `str::split_whitespace()`. -/
def wordsGo : List Char → List Char → List (List Char)
  | [], cur => if cur.isEmpty then [] else [cur.reverse]
  | c :: r, cur =>
    if isWs c then (if cur.isEmpty then wordsGo r [] else cur.reverse :: wordsGo r [])
    else wordsGo r (c :: cur)

def words (s : List Char) : List (List Char) := wordsGo s []

/-- The characters that are not white space, in order. -/
def payload (s : List Char) : List Char := s.filter (fun c => !isWs c)

/-- Remove the decoration of one continuation line of a wrapped comment: the leading white space
(the indentation) and then the line start without its surrounding blanks (`//` for `// `, `*` for
` * `), if it is there. -/
def undecorateLine (lineStart : List Char) (line : List Char) : List Char :=
  let mark := trimEndWs (lineStart.dropWhile isWs)
  let body := line.dropWhile isWs
  if mark.isPrefixOf body then body.drop mark.length else body

/-- A wrapped comment text without its decorations: the first line as it is, every later line
without indentation and line start; lines joined by a blank. -/
def undecorate (lineStart : List Char) (text : List Char) : List Char :=
  match splitNl text with
  | [] => []
  | first :: rest => first ++ (rest.map (fun l => ' ' :: undecorateLine lineStart l)).flatten

/-- The words of a wrapped comment text. -/
def commentWords (lineStart : List Char) (text : List Char) : List (List Char) :=
  words (undecorate lineStart text)

/-- `vs` are the words `ws` in order, except that a word may be cut into several pieces, every piece
but the last ending in a punctuation character (`cur` is what is left of the word being matched). -/
def refinesGo : List Char → List (List Char) → List (List Char) → Bool
  | cur, ws, [] => cur.isEmpty && ws.isEmpty
  | cur, ws, v :: vs =>
    if cur.isEmpty then
      match ws with
      | [] => false
      | w :: ws' =>
        if v == w then refinesGo [] ws' vs
        else if v.isPrefixOf w && (v.getLast?.map isPunct == some true) then refinesGo (w.drop v.length) ws' vs
        else false
    else
      if v == cur then refinesGo [] ws vs
      else if v.isPrefixOf cur && (v.getLast?.map isPunct == some true) then refinesGo (cur.drop v.length) ws vs
      else false

def refinesWords (ws vs : List (List Char)) : Bool := refinesGo [] ws vs

end RF.StringFmt
