#!/bin/sh
# usage: seedsweep.sh <prop> <from> <to> [tier]   -- runs the harness over a range of seeds and prints failing signatures
P=$1; A=$2; B=$3; T=${4:-quick}
for s in $(seq $A $B); do
  /verif/tools/rfv $P --tier $T --seed $s --out /verif/work/sweep_$P/$s >/dev/null 2>&1
  python3 - "$P" "$s" <<'PY'
import json,sys
p,s=sys.argv[1],sys.argv[2]
try:
    r=json.load(open(f'/verif/work/sweep_{p}/{s}/result.json'))
    sigs=sorted(set(d.get('sig','?') for d in r['direct_failures']+r['oracle_failures']))
    print(s, r['evaluations'], 'dis', r['disagreements_total'], 'ora', r['oracle_failures_total'], 'dir', r['direct_failures_total'], sigs, flush=True)
except Exception as e:
    print(s, 'no result', e, flush=True)
PY
done
