import RF.Model.Vertical
import RF.Lemmas.Lists
/-!
Helper lemmas for `RF/Props/Vertical.lean`: `str::split('\n')` on the texts the writer puts between two
fields, the fold of `struct_field_prefix_max_min_width`, and what the one-line pass leaves alone.
-/
namespace RF.Lemmas.Vertical
open RF.Lists RF.Vertical RF.Lemmas.Lists

theorem splitNl_no_nl (a : List Char) (h : '\n' ∉ a) : splitNl a = [a] := by
  induction a with
  | nil => rfl
  | cons c a ih =>
    have hc : c ≠ '\n' := fun e => h (by simp [e])
    have ha : '\n' ∉ a := fun e => h (by simp [e])
    simp [splitNl, hc, ih ha]

theorem splitNl_append_nl (a b : List Char) (h : '\n' ∉ a) :
    splitNl (a ++ '\n' :: b) = a :: splitNl b := by
  induction a with
  | nil => simp [splitNl]
  | cons c a ih =>
    have hc : c ≠ '\n' := fun e => h (by simp [e])
    have ha : '\n' ∉ a := fun e => h (by simp [e])
    simp [splitNl, hc, ih ha]

theorem trim_nil_isEmpty : (trim ([] : List Char)).isEmpty = true := by decide

/-- Between two fields on consecutive lines there is no blank line. -/
theorem hasBlankLine_one_break (ind : List Char) (h : '\n' ∉ ind) :
    hasBlankLine (',' :: '\n' :: ind) = false := by
  have : splitNl (',' :: '\n' :: ind) = [[','], ind] := by
    have := splitNl_append_nl [','] ind (by decide)
    simpa [splitNl_no_nl ind h] using this
  simp [hasBlankLine, this]

/-- A blank line between two fields is seen, whatever the indentation of the second one is (also none). -/
theorem hasBlankLine_two_breaks (ind : List Char) (h : '\n' ∉ ind) :
    hasBlankLine (',' :: '\n' :: '\n' :: ind) = true := by
  have : splitNl (',' :: '\n' :: '\n' :: ind) = [[','], [], ind] := by
    have h1 := splitNl_append_nl [','] ('\n' :: ind) (by decide)
    have h2 := splitNl_append_nl [] ind (by simp)
    simp only [List.nil_append] at h2
    simpa [h2, splitNl_no_nl ind h] using h1
  simp [hasBlankLine, this, trim_nil_isEmpty]

/-- The fold of `struct_field_prefix_max_min_width` bounds every prefix width. -/
theorem maxMinGo_bounds : ∀ (fields : List Field) (acc r : Nat × Nat), maxMinGo fields acc = some r →
    acc.1 ≤ r.1 ∧ r.2 ≤ acc.2 ∧ ∀ f ∈ fields, ∃ w, f.measW = some w ∧ r.2 ≤ w ∧ w ≤ r.1 := by
  intro fields
  induction fields with
  | nil =>
    intro acc r h
    simp only [maxMinGo, Option.some.injEq] at h
    subst h
    simp
  | cons f rest ih =>
    intro acc r h
    obtain ⟨mx, mn⟩ := acc
    simp only [maxMinGo] at h
    split at h
    · simp at h
    · rename_i len hlen
      obtain ⟨h1, h2, h3⟩ := ih _ _ h
      simp only at h1 h2
      refine ⟨by simp only; omega, by simp only; omega, ?_⟩
      intro g hg
      rcases List.mem_cons.mp hg with rfl | hg
      · exact ⟨len, hlen, by omega, by omega⟩
      · exact h3 g hg

/-- What the one-line pass leaves alone: everything of a `ListItem` but its item string. -/
def SameButItem (a b : ListItem) : Prop :=
  a.preComment = b.preComment ∧ a.preCommentStyle = b.preCommentStyle ∧
    a.postComment = b.postComment ∧ a.newLines = b.newLines

theorem oneLinePass_same : ∀ (fs : List Field) (its : List ListItem),
    Forall2 SameButItem (oneLinePass fs its) its := by
  intro fs its
  induction its generalizing fs with
  | nil => cases fs <;> exact Forall2.nil
  | cons it its ih =>
    cases fs with
    | nil =>
      simp only [oneLinePass]
      refine Forall2.cons ⟨rfl, rfl, rfl, rfl⟩ ?_
      have := ih []
      cases its <;> simpa [oneLinePass] using this
    | cons f fs =>
      simp only [oneLinePass]
      refine Forall2.cons ?_ (ih fs)
      split <;> exact ⟨rfl, rfl, rfl, rfl⟩

theorem alignedItem_isSome (f : Field) (w : Nat) : (alignedItem f w).isSome = f.ok := by
  unfold alignedItem; split <;> simp_all

/-- The item strings after the one-line pass: every field rewritten with `prefix_max_width = 0`. -/
theorem oneLinePass_items (w : Nat) : ∀ (fs : List Field) (its : List ListItem),
    its.map (·.item) = fs.map (alignedItem · w) →
    (oneLinePass fs its).map (·.item) = fs.map (alignedItem · 0) := by
  intro fs
  induction fs with
  | nil => intro its h; cases its <;> simp_all [oneLinePass]
  | cons f fs ih =>
    intro its h
    cases its with
    | nil => simp at h
    | cons it its =>
      simp only [List.map_cons, List.cons.injEq] at h
      obtain ⟨h1, h2⟩ := h
      simp only [oneLinePass, List.map_cons, List.cons.injEq]
      refine ⟨?_, ih its h2⟩
      have e1 := alignedItem_isSome f w
      have e0 := alignedItem_isSome f 0
      split
      · rfl
      · rename_i hn
        rw [h1, e1] at hn
        rw [h1]
        cases hok : f.ok
        · simp [alignedItem, hok]
        · simp [hok] at hn

end RF.Lemmas.Vertical
