import RF.Model.MacroFmt
/-!
Helper lemmas for `RF/Props/MacroFmt.lean`.

Part 1  the matcher formatter keeps the tokens: `Arg.toks` (the tokens an argument stands for),
        `rewriteArg_toks` / `wrapLoop_toks` (the rewrite emits exactly those), the parser invariant
        (`stepTT_inv` / `parseList_inv`: result ++ pending ++ rest = input) and `parse_toks`.
Part 2  `replaceAll`: the first-occurrence lemma and the scan over a region without occurrence.
-/
namespace RF.MacroFmt
open RF.Shape

/-! ## Pieces -/

theorem toks_append (a b : List Piece) : toks (a ++ b) = toks a ++ toks b := by
  induction a with
  | nil => rfl
  | cons p ps ih => cases p <;> simp [toks, ih]

@[simp] theorem toks_nil : toks [] = [] := rfl
@[simp] theorem toks_sp : toks [sp] = [] := rfl
@[simp] theorem toks_ws (cs : List Char) : toks [.ws cs] = [] := rfl
@[simp] theorem toks_ptok (t : Tok) : toks [ptok t] = [.t t] := rfl
@[simp] theorem toks_cons_ft (t : FTok) (ps : List Piece) : toks (.ft t :: ps) = t :: toks ps := rfl
@[simp] theorem toks_cons_ws (cs : List Char) (ps : List Piece) : toks (.ws cs :: ps) = toks ps := rfl
@[simp] theorem toks_cons_ptok (t : Tok) (ps : List Piece) : toks (ptok t :: ps) = .t t :: toks ps := rfl
@[simp] theorem toks_cons_sp (ps : List Piece) : toks (sp :: ps) = toks ps := rfl

theorem popChar_sp (xs : List Piece) : popChar (xs ++ [sp]) = xs := by
  simp [popChar, sp]

/-! ## The tokens an argument stands for -/

mutual
def Arg.toks : Arg → List FTok
  | .metaVar ty name => .t dollar :: (toks name ++ [.t colon, .t ⟨.Ident, ty⟩])
  | .repeat d args another tok =>
    .t dollar :: .o d :: (argsToks args ++ .c d :: (toks (another.getD []) ++ [.t tok]))
  | .delimited d args => .o d :: (argsToks args ++ [.c d])
  | .separator s pre => toks pre ++ toks s
  | .other inner pre => toks pre ++ toks inner
def argsToks : List Arg → List FTok
  | [] => []
  | a :: as => a.toks ++ argsToks as
end

theorem argsToks_append (a b : List Arg) : argsToks (a ++ b) = argsToks a ++ argsToks b := by
  induction a with
  | nil => simp [argsToks]
  | cons x xs ih => simp [argsToks, ih]

@[simp] theorem argsToks_nil : argsToks [] = [] := by simp [argsToks]
@[simp] theorem argsToks_single (a : Arg) : argsToks [a] = a.toks := by simp [argsToks]
@[simp] theorem argsToks_cons (a : Arg) (as : List Arg) : argsToks (a :: as) = a.toks ++ argsToks as := by
  simp [argsToks]

/-! ## The rewrite emits exactly these tokens -/

theorem retry_ok {α : Type} {a : R α} {b : Unit → R α} {x : α} (h : retry a b = .ok x) :
    a = .ok x ∨ b () = .ok x := by
  unfold retry at h
  split at h
  · exact Or.inr h
  · exact Or.inl h

theorem delimTokenToStr_toks {config : Config} {d : Delim} {shape : Shape} {multi ie : Bool}
    {lhs rhs : List Piece} (h : delimTokenToStr config d shape multi ie = .ok (lhs, rhs)) :
    toks lhs = [.o d] ∧ toks rhs = [.c d] := by
  have hpad : ∀ b : Bool, toks (if b then [sp] else []) = [] := by intro b; cases b <;> rfl
  unfold delimTokenToStr at h
  simp only at h
  split at h
  · split at h
    · cases h
    · split at h
      · cases h
      · injection h with h
        injection h with h1 h2
        subst h1; subst h2
        simp [toks_append, hpad]
  · injection h with h
    injection h with h1 h2
    subst h1; subst h2
    simp [toks_append, hpad]

theorem wrapInnerWith_toks {config : Config} {shape : Shape} {multi : Bool}
    {loop : List Char → R (List Piece)} {T : List FTok} {ps : List Piece}
    (hl : ∀ s ps, loop s = .ok ps → toks ps = T)
    (h : wrapInnerWith config shape multi loop = .ok ps) : toks ps = T := by
  unfold wrapInnerWith at h
  split at h
  · cases h
  · split at h
    · cases h
    · rename_i s _ result hr
      split at h
      · cases h
      · injection h with h
        subst h
        exact hl _ _ hr

theorem rewriteDelimitedWith_toks {config : Config} {shape : Shape} {d : Delim}
    {wrap : Shape → R (List Piece)} {T : List FTok} {ps : List Piece}
    (hw : ∀ sh ps, wrap sh = .ok ps → toks ps = T)
    (h : rewriteDelimitedWith config shape d wrap = .ok ps) : toks ps = .o d :: (T ++ [.c d]) := by
  unfold rewriteDelimitedWith at h
  split at h
  · cases h
  · rename_i inner hi
    split at h
    · cases h
    · rename_i lhs rhs hd
      have ⟨hl, hr⟩ := delimTokenToStr_toks hd
      split at h
      · injection h with h
        subst h
        simp [toks_append, hl, hr, hw _ _ hi]
      · split at h
        · cases h
        · rename_i lhs2 rhs2 hd2
          have ⟨hl2, hr2⟩ := delimTokenToStr_toks hd2
          split at h
          · cases h
          · rename_i inner2 hi2
            injection h with h
            subst h
            simp [toks_append, hl2, hr2, hw _ _ hi2]

theorem wrapGlue_toks' (multi : Bool) (ind : List Char) (arg : Arg) (next : Option Arg)
    (X : List Piece) (hX : arg.endsWithSpace = true → ∃ Y, X = Y ++ [sp]) :
    toks (wrapGlue multi ind arg next X) = toks X := by
  unfold wrapGlue
  by_cases he : arg.endsWithSpace = true
  · obtain ⟨Y, rfl⟩ := hX he
    cases multi <;> cases next <;> simp [he, popChar_sp, toks_append]
    all_goals (try split)
    all_goals (try simp [toks_append])
  · have he' : arg.endsWithSpace = false := by simpa using he
    cases multi <;> cases next <;> simp [he']
    all_goals (try split)
    all_goals (try split)
    all_goals (try simp [toks_append])

theorem wrapGlue_toks (multi : Bool) (ind : List Char) (arg : Arg) (next : Option Arg)
    (config : Config) (shape : Shape) (acc r : List Piece)
    (hr : rewriteArg config shape arg = .ok r) :
    toks (wrapGlue multi ind arg next (acc ++ r)) = toks acc ++ toks r := by
  rw [wrapGlue_toks', toks_append]
  intro he
  cases arg <;> simp [Arg.endsWithSpace] at he
  rename_i s pre
  simp [rewriteArg] at hr
  subst hr
  exact ⟨acc ++ pre ++ s, by simp⟩

mutual
theorem rewriteArg_toks (config : Config) :
    ∀ (a : Arg) (shape : Shape) (ps : List Piece), rewriteArg config shape a = .ok ps → toks ps = a.toks
  | .metaVar ty name, shape, ps, h => by
    simp [rewriteArg] at h
    subst h
    simp [Arg.toks, toks_append]
  | .repeat d args another tok, shape, ps, h => by
    simp only [rewriteArg] at h
    split at h
    · cases h
    · rename_i b hb
      injection h with h
      subst h
      have hT : toks b = .o d :: (argsToks args ++ [.c d]) := by
        refine rewriteDelimitedWith_toks (T := argsToks args) ?_ hb
        intro sh ps hps
        rcases retry_ok hps with h1 | h1
        · exact wrapInnerWith_toks (fun s ps hl => by simpa using wrapLoop_toks config args sh false s [] ps hl) h1
        · exact wrapInnerWith_toks (fun s ps hl => by simpa using wrapLoop_toks config args sh true s [] ps hl) h1
      simp [Arg.toks, toks_append, hT]
  | .delimited d args, shape, ps, h => by
    simp only [rewriteArg] at h
    have hT : toks ps = .o d :: (argsToks args ++ [.c d]) := by
      refine rewriteDelimitedWith_toks (T := argsToks args) ?_ h
      intro sh ps hps
      rcases retry_ok hps with h1 | h1
      · exact wrapInnerWith_toks (fun s ps hl => by simpa using wrapLoop_toks config args sh false s [] ps hl) h1
      · exact wrapInnerWith_toks (fun s ps hl => by simpa using wrapLoop_toks config args sh true s [] ps hl) h1
    simp [Arg.toks, hT]
  | .separator s pre, shape, ps, h => by
    simp [rewriteArg] at h
    subst h
    simp [Arg.toks, toks_append]
  | .other inner pre, shape, ps, h => by
    simp [rewriteArg] at h
    subst h
    simp [Arg.toks, toks_append]
theorem wrapLoop_toks (config : Config) :
    ∀ (args : List Arg) (shape : Shape) (multi : Bool) (ind : List Char) (acc ps : List Piece),
      wrapLoop config shape multi ind acc args = .ok ps → toks ps = toks acc ++ argsToks args
  | [], shape, multi, ind, acc, ps, h => by
    simp [wrapLoop] at h
    subst h
    simp
  | arg :: rest, shape, multi, ind, acc, ps, h => by
    simp only [wrapLoop] at h
    split at h
    · cases h
    · rename_i r hr
      have ih := wrapLoop_toks config rest shape multi ind _ ps h
      rw [ih, wrapGlue_toks multi ind arg rest.head? config shape acc r hr,
        rewriteArg_toks config arg shape r hr]
      simp [argsToks]
end

theorem wrapMacroArgs_toks {config : Config} {shape : Shape} {args : List Arg} {ps : List Piece}
    (h : wrapMacroArgs config shape args = .ok ps) : toks ps = argsToks args := by
  unfold wrapMacroArgs at h
  rcases retry_ok h with h1 | h1
  · exact wrapInnerWith_toks (fun s ps hl => by simpa using wrapLoop_toks config args shape false s [] ps hl) h1
  · exact wrapInnerWith_toks (fun s ps hl => by simpa using wrapLoop_toks config args shape true s [] ps hl) h1


/-! ## The parser keeps the tokens: result ++ pending ++ rest = input -/

theorem render_append (a b : List Piece) : render (a ++ b) = render a ++ render b := by
  induction a with
  | nil => rfl
  | cons p ps ih => simp [render, ih]

theorem Tok.ok_text {t : Tok} (h : t.ok = true) : t.text ≠ [] := by
  intro he
  have : (RF.Comment.trim []).isEmpty = true := by decide
  simp [Tok.ok, he, this] at h

theorem Tok.ok_trim {t : Tok} (h : t.ok = true) : (RF.Comment.trim t.text).isEmpty = false := by
  simp [Tok.ok] at h
  simpa using h.1.1

theorem Tok.ok_dollar {t : Tok} (h : t.ok = true) (hk : t.kind = .Dollar) : t = dollar := by
  cases t with
  | mk k x =>
    simp [Tok.ok] at h
    simp at hk
    subst hk
    simp [dollar]
    simpa using h.1.2

theorem Tok.ok_colon {t : Tok} (h : t.ok = true) (hk : t.kind = .Colon) : t = colon := by
  cases t with
  | mk k x =>
    simp [Tok.ok] at h
    simp at hk
    subst hk
    simp [colon]
    simpa using h.2

/-- The tokens already read that are not yet in `result`. -/
def PState.pending (s : PState) : List FTok :=
  match s.mode with
  | .normal => (if s.isMetaVar then [.t dollar] else []) ++ toks s.buf
  | .frag _ => .t dollar :: (toks s.buf ++ [.t colon])
  | .rep d args buffer =>
    .t dollar :: .o d :: (argsToks args ++ .c d :: (match buffer with | some b => [.t b] | none => []))

/-- An empty buffer holds no token; a separator kept by `add_repeat` is a real token. -/
def PState.good (s : PState) : Prop :=
  (s.bufEmpty = true → toks s.buf = []) ∧
  (match s.mode with
   | .rep _ _ b => toks s.buf = [] ∧ (match b with | some x => x.ok = true | none => True)
   | _ => True)

theorem PState.toks_pre (s : PState) : toks s.pre = [] := by
  unfold PState.pre
  split <;> rfl

theorem good_init : PState.good {} := by
  constructor
  · intro _; rfl
  · trivial


theorem bufEmpty_snoc (buf : List Piece) (t : Tok) (ht : t.ok = true) (mid : List Piece) :
    (render (buf ++ mid ++ [ptok t])).isEmpty = false := by
  have := Tok.ok_text ht
  simp [render_append, render, ptok, Piece.text, FTok.text, this]

theorem updateBuffer_spec (s : PState) (t : Tok) :
    ∃ mid, (s.updateBuffer t).buf = s.buf ++ mid ++ [ptok t] ∧ toks mid = [] ∧
      (s.updateBuffer t).result = s.result ∧ (s.updateBuffer t).mode = s.mode ∧
      (s.updateBuffer t).isMetaVar = s.isMetaVar := by
  unfold PState.updateBuffer
  split
  · exact ⟨[], by simp, rfl, rfl, rfl, rfl⟩
  · split
    · exact ⟨[sp], by simp, rfl, rfl, rfl, rfl⟩
    · exact ⟨[], by simp, rfl, rfl, rfl, rfl⟩

theorem stepTok_inv {s s' : PState} {t : Tok} (ht : t.ok = true) (hg : s.good)
    (h : stepTok s t = some s') :
    s'.good ∧ argsToks s'.result ++ s'.pending = argsToks s.result ++ s.pending ++ [.t t] := by
  obtain ⟨buf, startTok, isMetaVar, lastTok, result, mode⟩ := s
  obtain ⟨hg1, hg2⟩ := hg
  cases mode with
  | frag c =>
    simp only [stepTok] at h
    split at h
    · rename_i hk
      injection h with h
      subst h
      refine ⟨⟨fun _ => rfl, trivial⟩, ?_⟩
      have : ⟨.Ident, t.text⟩ = t := by
        cases t with
        | mk k x => simp at hk; simp [hk]
      simp [PState.pending, argsToks_append, Arg.toks]
      exact this
    · cases h
  | rep d args buffer =>
    obtain ⟨hgb, hgx⟩ := hg2
    simp at hgb
    cases buffer with
    | none =>
      simp only [stepTok] at h
      split at h
      · simp at h
        subst h
        exact ⟨⟨hg1, trivial⟩, by simp [PState.pending, argsToks_append, Arg.toks, hgb]⟩
      · split at h
        · cases h
        · simp at h
          subst h
          exact ⟨⟨hg1, hgb, ht⟩, by simp [PState.pending]⟩
    | some b =>
      have hb : b.ok = true := hgx
      have hb' : RF.Comment.trim b.text ≠ [] := by
        have := Tok.ok_trim hb
        simpa using this
      simp only [stepTok] at h
      split at h
      · split at h
        · cases h
        · simp at h
          subst h
          exact ⟨⟨hg1, trivial⟩, by simp [PState.pending, argsToks_append, Arg.toks, hb', hgb]⟩
      · split at h
        · cases h
        · simp at h
  | normal =>
    simp only [stepTok] at h
    split at h
    · rename_i hk
      have hd : t = dollar := Tok.ok_dollar ht (by simpa using hk)
      split at h
      · cases h
      · rename_i hm
        injection h with h
        subst h
        have hm' : isMetaVar = false := by simpa using hm
        subst hm'
        by_cases hb : (PState.bufEmpty ⟨buf, startTok, false, lastTok, result, .normal⟩) = true
        · have hbt := hg1 hb
          simp [hb] at hbt ⊢
          refine ⟨⟨fun _ => hbt, trivial⟩, ?_⟩
          simp [PState.pending, hbt, hd]
        · have hb' : (PState.bufEmpty ⟨buf, startTok, false, lastTok, result, .normal⟩) = false := by simpa using hb
          simp [hb', PState.addSeparator]
          refine ⟨⟨fun _ => rfl, trivial⟩, ?_⟩
          simp [PState.pending, argsToks_append, Arg.toks, PState.toks_pre, hd]
    · split at h
      · rename_i _ hc
        injection h with h
        subst h
        simp at hc
        have hcol : t = colon := Tok.ok_colon ht hc.1
        refine ⟨⟨hg1, trivial⟩, ?_⟩
        simp [PState.pending, hc.2, hcol]
      · split at h
        · cases h
        · injection h with h
          subst h
          obtain ⟨mid, hbuf, hmid, hres, hmode, hmv⟩ :=
            updateBuffer_spec ⟨buf, startTok, isMetaVar, lastTok, result, .normal⟩ t
          generalize PState.updateBuffer ⟨buf, startTok, isMetaVar, lastTok, result, .normal⟩ t = u at *
          obtain ⟨ubuf, ust, umv, ult, ures, umode⟩ := u
          simp at hbuf hres hmode hmv
          subst hbuf hres hmode hmv
          refine ⟨⟨?_, trivial⟩, ?_⟩
          · intro he
            have := bufEmpty_snoc buf t ht mid
            simp [PState.bufEmpty] at he
            simp [he] at this
          · simp [PState.pending, toks_append, hmid]


theorem stepDelim_inv {s s' : PState} {d : Delim} {sub : Option (List Arg)} {inner : List FTok}
    (hsub : ∀ args, sub = some args → argsToks args = inner) (hg : s.good)
    (h : stepDelim s d sub = some s') :
    s'.good ∧
      argsToks s'.result ++ s'.pending = argsToks s.result ++ s.pending ++ (.o d :: (inner ++ [.c d])) := by
  obtain ⟨buf, startTok, isMetaVar, lastTok, result, mode⟩ := s
  obtain ⟨hg1, hg2⟩ := hg
  cases mode with
  | frag c => simp [stepDelim] at h
  | rep d args buffer => simp [stepDelim] at h
  | normal =>
    cases sub with
    | none =>
      simp only [stepDelim] at h
      split at h <;> simp_all
    | some args =>
      have ha := hsub args rfl
      by_cases hb : (PState.bufEmpty ⟨buf, startTok, isMetaVar, lastTok, result, .normal⟩) = true
      · have hbt := hg1 hb
        simp at hbt
        cases isMetaVar with
        | true =>
          simp [stepDelim, hb] at h
          subst h
          exact ⟨⟨hg1, hbt, trivial⟩, by simp [PState.pending, hbt, ha]⟩
        | false =>
          simp [stepDelim, hb] at h
          subst h
          exact ⟨⟨hg1, trivial⟩, by simp [PState.pending, hbt, ha, argsToks_append, Arg.toks]⟩
      · have hb' : (PState.bufEmpty ⟨buf, startTok, isMetaVar, lastTok, result, .normal⟩) = false := by
          simpa using hb
        cases isMetaVar with
        | true => simp [stepDelim, hb'] at h
        | false =>
          by_cases hn : nextSpace lastTok = .always
          · simp [stepDelim, hb', hn, PState.addSeparator] at h
            subst h
            exact ⟨⟨fun _ => rfl, trivial⟩,
              by simp [PState.pending, ha, argsToks_append, Arg.toks, PState.toks_pre]⟩
          · simp [stepDelim, hb', hn, PState.addOther] at h
            subst h
            exact ⟨⟨fun _ => rfl, trivial⟩,
              by simp [PState.pending, ha, argsToks_append, Arg.toks, PState.toks_pre]⟩

theorem finish_inv {s : PState} {args : List Arg} (hg : s.good) (h : finish s = some args) :
    argsToks args = argsToks s.result ++ s.pending := by
  obtain ⟨buf, startTok, isMetaVar, lastTok, result, mode⟩ := s
  obtain ⟨hg1, _⟩ := hg
  cases mode with
  | frag c => simp [finish] at h
  | rep d a b => simp [finish] at h
  | normal =>
    simp only [finish] at h
    split at h
    · cases h
    · rename_i hm
      simp at hm
      split at h
      · injection h with h
        subst h
        simp [PState.addOther, PState.pending, hm, argsToks_append, Arg.toks, PState.toks_pre]
      · rename_i hb
        injection h with h
        subst h
        have hbt := hg1 (by simpa using hb)
        simp at hbt
        simp [PState.pending, hm, hbt]

mutual
theorem stepTT_inv : ∀ (t : TT) (s s' : PState), t.ok = true → s.good → stepTT s t = some s' →
    s'.good ∧ argsToks s'.result ++ s'.pending = argsToks s.result ++ s.pending ++ t.flat
  | .tok t, s, s', ht, hg, h => by
    simp only [stepTT] at h
    simp only [TT.ok] at ht
    simpa [TT.flat] using stepTok_inv ht hg h
  | .delim d inner, s, s', ht, hg, h => by
    simp only [stepTT] at h
    simp only [TT.ok] at ht
    refine stepDelim_inv (inner := flatList inner) ?_ hg h
    intro args hargs
    split at hargs
    · cases hargs
    · rename_i sub hsub
      have ⟨hgs, hinv⟩ := parseList_inv inner {} sub ht good_init hsub
      have := finish_inv hgs hargs
      rw [this, hinv]
      simp [PState.pending]
theorem parseList_inv : ∀ (ts : List TT) (s s' : PState), okList ts = true → s.good →
    parseList s ts = some s' →
    s'.good ∧ argsToks s'.result ++ s'.pending = argsToks s.result ++ s.pending ++ flatList ts
  | [], s, s', _, hg, h => by
    simp [parseList] at h
    subst h
    exact ⟨hg, by simp [flatList]⟩
  | t :: ts, s, s', ht, hg, h => by
    simp only [parseList] at h
    simp only [okList, Bool.and_eq_true] at ht
    split at h
    · cases h
    · rename_i s1 h1
      have ⟨hg1, hi1⟩ := stepTT_inv t s s1 ht.1 hg h1
      have ⟨hg2, hi2⟩ := parseList_inv ts s1 s' ht.2 hg1 h
      exact ⟨hg2, by rw [hi2, hi1]; simp [flatList]⟩
end

/-- The parsed arguments stand for exactly the tokens of the stream. -/
theorem parse_toks {ts : List TT} {args : List Arg} (hok : okList ts = true)
    (h : parseMatcher ts = some args) : argsToks args = flatList ts := by
  unfold parseMatcher at h
  split at h
  · cases h
  · rename_i s hs
    have ⟨hg, hinv⟩ := parseList_inv ts {} s hok good_init hs
    rw [finish_inv hg h, hinv]
    simp [PState.pending]

end RF.MacroFmt
