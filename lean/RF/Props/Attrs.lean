import RF.Model.Attrs
import RF.Lemmas.OptRewrites
import RF.Lemmas.ListsRc
/-!
C01 / C03 on attributes (`src/attr.rs`, model `RF/Model/Attrs.lean`): what the text that
`<[ast::Attribute]>::rewrite_result` returns says about the attributes and about the comments between them, for ALL
attribute lists and gaps.

The comment rewriters, the multi-line layout of a meta item and the nested layout of `format_derive` are parameters of
the model (`Env.rdc`, `Env.rc`, `Env.metaRw`, `Env.fmtDerive`); a theorem names the property of a parameter it needs
(`keeps`: the non-blank characters are unchanged).  For the instances the driver uses these properties are proved:
`renderMeta` (`metaitem_tokens_preserved`), `formatDeriveOneLine` (`format_derive_one_line_keeps`),
`rewriteCommentLight` (`RF.Lemmas.ListsRc.rewriteCommentLight_content`).
-/
namespace RF.Props.Attrs
open RF.Attrs RF.Lists RF.Lemmas.Lists

/-! ## meta items -/

theorem tok_sq (t : MTok) : sq t.render = if t.isTrail then [] else sq t.src := by
  cases t <;> simp [MTok.render, MTok.src, MTok.isTrail, sq] <;> decide

/-- **`metaitem_tokens_preserved`**: the one-line form of a meta item consists of exactly its tokens, in order (paths,
literals as written, parentheses, commas, `=`), minus a trailing comma. -/
theorem metaitem_tokens_preserved (ts : List MTok) : sq (renderMeta ts) = metaSq ts := by
  induction ts with
  | nil => rfl
  | cons t r ih =>
    have h1 : renderMeta (t :: r) = t.render ++ renderMeta r := by simp [renderMeta]
    rw [h1, sq, squeeze_append]
    have ht := tok_sq t
    simp only [sq] at ht ih
    rw [ht, ih]
    cases hk : t.isTrail <;> simp [metaSq, hk, sq, squeeze_append]

example : renderMeta [.path "cfg_attr".toList, .lp, .path "a".toList, .comma, .path "doc".toList, .eq,
    .lit "\"x y\"".toList, .trail, .rp] = "cfg_attr(a, doc = \"x y\")".toList := by decide

/-- a literal is kept as written (white space inside it included) -/
theorem metaitem_literals_verbatim (ts : List MTok) (s : Str) (h : MTok.lit s ∈ ts) : s <:+: renderMeta ts := by
  obtain ⟨l1, l2, rfl⟩ := List.append_of_mem h
  exact ⟨renderMeta l1, renderMeta l2, by simp [renderMeta, MTok.render]⟩

/-! ## one attribute -/

/-- **`attr_unparsed_fallback_verbatim`**: an attribute that is skipped, holds a comment, or whose meta item does not
parse (`#[foo(bar baz)]`, `#[a = concat!(..)]`) is returned as written. -/
theorem attr_unparsed_fallback_verbatim (e : Env) (a : Attr) (hd : a.isDoc = false)
    (h : a.skip = true ∨ a.hasComment = true ∨ a.metaToks = none) : rewriteAttr e a = some a.snippet := by
  unfold rewriteAttr rewriteAttrG
  simp only [hd, Bool.false_eq_true, if_false]
  rcases h with h | h | h
  · simp [h]
  · simp [h]
  · by_cases hs : (a.skip || a.hasComment) = true
    · simp [hs]
    · simp [hs, h]

/-- the same when the meta item parses but its rewrite fails (`MetaItem::rewrite_result` is `Err`) -/
theorem attr_unrenderable_fallback_verbatim (e : Env) (a : Attr) (toks : List MTok) (hd : a.isDoc = false)
    (hs : a.skip = false) (hc : a.hasComment = false) (hm : a.metaToks = some toks) (hn : e.normDoc = false)
    (hw : ¬ e.width < (attrPrefix a.inner).length + 1) (hr : e.metaRw a toks = none) :
    rewriteAttr e a = some a.snippet := by
  unfold rewriteAttr rewriteAttrG
  simp [hd, hs, hc, hm, hn, hw, hr]

def exAttr : Attr := ⟨false, false, "#[foo(bar baz)]".toList, none, none, none, false, false, false, false, []⟩
example : ∀ e, rewriteAttr e exAttr = some "#[foo(bar baz)]".toList :=
  fun e => attr_unparsed_fallback_verbatim e exAttr rfl (Or.inr (Or.inr rfl))

/-- the style a text opens with: `#![` / `//!` / `/*!` inner, `#[` / `///` / `/**` outer -/
def readStyle : Str → Option Bool
  | '#' :: '!' :: '[' :: _ => some true
  | '#' :: '[' :: _ => some false
  | '/' :: '/' :: '!' :: _ => some true
  | '/' :: '/' :: '/' :: _ => some false
  | _ => none

/-- **`inner_outer_style_kept`** (rendered attributes): `#![…]` stays `#![…]`, `#[…]` stays `#[…]`. -/
theorem inner_outer_style_kept (e : Env) (a : Attr) (toks : List MTok) (rw t : Str) (hd : a.isDoc = false)
    (hs : a.skip = false) (hc : a.hasComment = false) (hm : a.metaToks = some toks) (hn : e.normDoc = false)
    (hr : e.metaRw a toks = some rw) (h : rewriteAttr e a = some t) : readStyle t = some a.inner := by
  unfold rewriteAttr rewriteAttrG at h
  simp only [hd, hs, hc, hm, hn, hr, Bool.false_eq_true, if_false, Bool.or_self, Bool.false_and] at h
  split at h
  · simp at h
  · cases hi : a.inner <;> cases hu : a.isUnsafe <;> simp [hi, hu, attrPrefix] at h <;> subst h <;> rfl

/-- … and a normalised doc attribute becomes `//!` lines when inner, `///` lines when outer -/
theorem inner_outer_style_kept_doc (inner : Bool) (v : Str) :
    readStyle (RF.Opt.docCommentText inner v) = some inner := by
  unfold RF.Opt.docCommentText
  cases inner <;> cases RF.Opt.strLines v with
  | nil => rfl
  | cons l r => cases r <;> simp [RF.Opt.joinWith, readStyle]

/-- … and a merged derive takes the style handed to `format_derive` (that of the run's first attribute; the lists
`FmtVisitor::visit_attrs` rewrites hold one style only) -/
theorem inner_outer_style_kept_derive (w : Nat) (inner : Bool) (ps : List Str) (t : Str)
    (h : formatDeriveOneLine w inner ps = some (some t)) : readStyle t = some inner := by
  unfold formatDeriveOneLine at h
  split at h
  · simp at h
  · split at h
    · simp at h
    · split at h
      · simp at h
      · simp only [Option.some.injEq] at h
        subst h
        cases inner <;> rfl

theorem sq_joinWith_comma (l : List Str) :
    sq (RF.Opt.joinWith [',', ' '] l) = sq (RF.Opt.joinWith [','] l) := by
  induction l with
  | nil => rfl
  | cons x r ih =>
    cases r with
    | nil => rfl
    | cons y r' =>
      simp only [RF.Opt.joinWith, sq, squeeze_append] at ih ⊢
      rw [ih]
      rfl

/-- `format_derive` on one line keeps the derived paths: `#[derive(` the elements `)]` -/
theorem format_derive_one_line_keeps (w : Nat) (inner : Bool) (ps : List Str) (t : Str)
    (h : formatDeriveOneLine w inner ps = some (some t)) :
    sq t = sq (attrPrefix inner ++ "[derive(".toList ++ RF.Opt.joinWith [','] ps ++ ")]".toList) := by
  unfold formatDeriveOneLine at h
  split at h
  · simp at h
  · split at h
    · simp at h
    · split at h
      · simp at h
      · simp only [Option.some.injEq] at h
        subst h
        have hj := sq_joinWith_comma ps
        simp only [sq, squeeze_append] at hj ⊢
        rw [hj]

example : formatDeriveOneLine 100 false ["A".toList, "B".toList] = some (some "#[derive(A, B)]".toList) := by decide

/-! ## normalize_doc_attributes: the four slashes -/

/-- **Counterexample (the pinned tree).**  `#[doc = "/x"]` became `////x`, which is an ordinary comment: the
documentation is lost.  (`rdc` is the identity here; found while writing `allLineDoc`, reproduced on the binary.) -/
def envId (normDoc : Bool) : Env :=
  ⟨true, false, normDoc, [], 100, 100, some, some, fun _ t => some (renderMeta t), fun _ _ => none⟩

def docSlash : Attr :=
  ⟨false, false, "#[doc = \"/x\"]".toList, some [.path "doc".toList, .eq, .lit "\"/x\"".toList], none,
    some "/x".toList, false, false, false, false, []⟩

theorem normalize_doc_four_slashes_counterexample :
    rewriteAttrPinned (envId true) docSlash = some "////x".toList ∧ allLineDoc "////x".toList = false := by decide

/-- the repaired tree leaves it an attribute -/
theorem normalize_doc_four_slashes_fixed :
    rewriteAttr (envId true) docSlash = some "#[doc = \"/x\"]".toList := by decide

/-- **What a normalised doc attribute turns into is documentation**: every line is a `///` / `//!` comment. -/
theorem normalize_doc_lines_are_doc (inner : Bool) (v : Str) (h : survivesAsLineDoc inner v = true)
    :
    ∀ l ∈ (match RF.Opt.strLines v with
      | [] => [if inner then "//!".toList else "///".toList]
      | ls => ls.map ((if inner then "//!".toList else "///".toList) ++ ·)), isLineDoc l = true := by
  intro l hl
  cases hs : RF.Opt.strLines v with
  | nil => simp [hs] at hl; subst hl; cases inner <;> rfl
  | cons x r =>
    simp only [hs, List.mem_map] at hl
    obtain ⟨y, hy, rfl⟩ := hl
    cases inner with
    | true => rfl
    | false =>
      simp only [survivesAsLineDoc, Bool.false_or, hs] at h
      have hy' : (y.head? == some '/') = false := by
        have := h
        simp only [Bool.not_eq_true', List.any_eq_false] at this
        have h2 := this y hy
        simpa using h2
      cases y with
      | nil => rfl
      | cons c cs =>
        simp only [List.head?_cons] at hy'
        simp [isLineDoc]
        intro hc; subst hc; simp at hy'

/-! ## the list: every attribute once, in order; every gap between the same two groups -/

theorem andThen_some {seg : Seg} {gt : Option Str} {g : Str} {tail : List Attr} {rest : Option (List Seg)}
    {segs : List Seg} (h : andThen seg gt g tail rest = some segs) :
    (tail = [] ∧ segs = [seg]) ∨ (∃ t r, tail ≠ [] ∧ gt = some t ∧ rest = some r ∧ segs = seg :: .gap g t :: r) := by
  unfold andThen at h
  cases tail with
  | nil => simp at h; exact Or.inl ⟨rfl, h.symm⟩
  | cons x xs =>
    cases gt with
    | none => simp at h
    | some t =>
      cases rest with
      | none => simp at h
      | some r => simp at h; exact Or.inr ⟨t, r, by simp, rfl, rfl, h.symm⟩

theorem lastGap_mem (run : List Attr) (hne : run ≠ []) : ∃ a ∈ run, lastGap run = a.gap := by
  unfold lastGap
  cases h : run.getLast? with
  | none => simp [List.getLast?_eq_none_iff] at h; exact absurd h hne
  | some a => exact ⟨a, List.mem_of_getLast? h, rfl⟩

theorem docRun_le (attrs : List Attr) : docRun attrs ≤ attrs.length := by
  have := RF.Lemmas.OptRewrites.takeRun_le RF.Opt.Attr.isDocComment (attrs.map toIn)
  simpa [docRun] using this

theorem deriveRun_le (attrs : List Attr) : deriveRun attrs ≤ attrs.length := by
  have := RF.Lemmas.OptRewrites.takeRun_le RF.Opt.Attr.isDerive (attrs.map toIn)
  simpa [deriveRun] using this

theorem deriveRun_pos (a : Attr) (rest : List Attr) (hd : a.isDoc = false) (h : a.derive.isSome = true) :
    deriveRun (a :: rest) ≥ 1 := by
  unfold deriveRun
  simp only [List.map_cons]
  apply RF.Lemmas.OptRewrites.takeRun_pos
  cases hh : a.derive with
  | none => simp [hh] at h
  | some ps => simp [toIn, Attr.optAttr, hd, hh, RF.Opt.Attr.isDerive]

/-- a run of doc comments only starts at a doc comment -/
theorem docRun_zero_of_not_doc (a : Attr) (rest : List Attr) (hd : a.isDoc = false) : docRun (a :: rest) = 0 := by
  unfold docRun
  simp only [List.map_cons, RF.Opt.takeRun]
  have : RF.Opt.Attr.isDocComment (toIn a).attr = false := by
    simp only [toIn, Attr.optAttr, hd, Bool.false_eq_true, if_false]
    cases a.derive <;> simp [RF.Opt.Attr.isDocComment]
    cases a.normValue <;> simp
  simp [this]

/-- The generic invariant of the loop: a property of segments that holds for what each branch pushes holds for every
segment of the result.  `Q` is a property of the gaps of the input. -/
theorem rewriteGo_forall (e : Env) (single : Attr → Option Str) (P : Seg → Prop) (Q : Str → Prop)
    (hdocs : ∀ run text, e.rdc (RF.Opt.joinWith ['\n'] (run.map (·.snippet))) = some text → P (.docs run text))
    (hder : ∀ run ps text, RF.Opt.collectPaths (run.map toIn) = some ps → e.fmtDerive run ps = some text →
      P (.derives run text))
    (hsingle : ∀ a text, single a = some text → P (.single a text))
    (hgapD : ∀ g t, Q g → gapAfterDocs e g = some t → P (.gap g t))
    (hgapO : ∀ g b t, Q g → gapAfterOther e g b = some t → P (.gap g t)) :
    ∀ fuel attrs segs, (∀ a ∈ attrs, Q a.gap) → rewriteGo e single fuel attrs = some segs → ∀ s ∈ segs, P s := by
  intro fuel
  induction fuel with
  | zero => intro attrs segs _ h s hs; simp [rewriteGo] at h; subst h; simp at hs
  | succ n ih =>
    intro attrs segs hq h s hs
    cases attrs with
    | nil => simp [rewriteGo] at h; subst h; simp at hs
    | cons a rest =>
      simp only [rewriteGo] at h
      have htail : ∀ k, ∀ x ∈ (a :: rest).drop k, Q x.gap := fun k x hx => hq x (List.mem_of_mem_drop hx)
      have hrun : ∀ k, k > 0 → Q (lastGap ((a :: rest).take k)) := by
        intro k hk
        have hne : (a :: rest).take k ≠ [] := by
          cases k with
          | zero => omega
          | succ k => simp
        obtain ⟨x, hx, he⟩ := lastGap_mem _ hne
        rw [he]; exact hq x (List.mem_of_mem_take hx)
      split at h
      · -- doc comments
        rename_i hnd
        split at h
        · simp at h
        · rename_i text htext
          rcases andThen_some h with ⟨_, rfl⟩ | ⟨t, r, _, hgt, hr, rfl⟩
          · simp at hs; subst hs; exact hdocs _ _ htext
          · simp only [List.mem_cons] at hs
            rcases hs with rfl | rfl | hs
            · exact hdocs _ _ htext
            · exact hgapD _ _ (hrun _ hnd) hgt
            · exact ih _ _ (htail _) hr s hs
      · split at h
        · -- derives
          rename_i _ hder'
          have hpos : deriveRun (a :: rest) > 0 := by
            by_cases hdoc : a.isDoc = true
            · -- a doc comment is no derive run head in the code either: the doc branch was taken
              rename_i hnd0
              exfalso
              apply hnd0
              unfold docRun
              simp only [List.map_cons]
              exact RF.Lemmas.OptRewrites.takeRun_pos _ _ _ (by simp [toIn, Attr.optAttr, hdoc, RF.Opt.Attr.isDocComment])
            · have hd : a.isDoc = false := by simpa using hdoc
              have hsome : a.derive.isSome = true := by
                simp only [Bool.and_eq_true] at hder'
                exact hder'.2
              exact deriveRun_pos a rest hd hsome
          split at h
          · simp at h
          · rename_i ps hps
            split at h
            · simp at h
            · rename_i text htext
              rcases andThen_some h with ⟨_, rfl⟩ | ⟨t, r, _, hgt, hr, rfl⟩
              · simp at hs; subst hs; exact hder _ _ _ hps htext
              · simp only [List.mem_cons] at hs
                rcases hs with rfl | rfl | hs
                · exact hder _ _ _ hps htext
                · exact hgapO _ _ _ (hrun _ hpos) hgt
                · exact ih _ _ (htail _) hr s hs
        · -- a single attribute
          split at h
          · simp at h
          · rename_i text htext
            rcases andThen_some h with ⟨_, rfl⟩ | ⟨t, r, _, hgt, hr, rfl⟩
            · simp at hs; subst hs; exact hsingle _ _ htext
            · simp only [List.mem_cons] at hs
              rcases hs with rfl | rfl | hs
              · exact hsingle _ _ htext
              · exact hgapO _ _ _ (hq a (by simp)) hgt
              · exact ih _ _ (fun x hx => hq x (by simp [hx])) hr s hs

/-! ### the parameters' property -/

/-- a rewriter keeps the non-blank characters of its input -/
def Keeps (f : Str → Option Str) : Prop := ∀ s t, f s = some t → sq t = sq s

/-- the gap consists of blanks and comments: without a slash it is blank -/
def GapOk (g : Str) : Prop := ((trim g).isEmpty || !(trim g).contains '/') = true → sq g = []

theorem sq_nl (b : Bool) : sq (nl b) = [] := by cases b <;> rfl

theorem recover_keeps (e : Env) (hrc : Keeps e.rc) (hind : sq e.indentStr = []) (g c : Str) (hg : GapOk g)
    (h : recover e g = some c) : sq c = sq g := by
  unfold recover at h
  simp only at h
  split at h
  · rename_i hb
    simp at h; subst h
    exact (hg hb).symm
  · split at h
    · simp at h
    · rename_i mc hmc
      have hk := hrc _ _ hmc
      simp only [sq] at hk
      rw [squeeze_trim] at hk
      split at h
      · rename_i hem
        simp at h; subst h
        have : mc = [] := by simpa using hem
        subst this
        simpa [sq] using hk
      · simp only [Option.some.injEq] at h
        subst h
        simp only [sq, squeeze_append]
        rw [hk]
        split
        · have : squeeze ('\n' :: e.indentStr) = [] := by
            have h1 : squeeze ('\n' :: e.indentStr) = squeeze ['\n'] ++ squeeze e.indentStr := by
              rw [← squeeze_append]; rfl
            rw [h1]; simp only [sq] at hind; rw [hind]; rfl
          rw [this]; rfl
        · rfl

/-- **`attr_gap_comments_preserved`**: what is pushed between two groups consists of exactly the non-blank characters
of the source text between them — every comment of the gap reappears once, in order, between the same two attributes
— or the rewrite fails (`none`: the caller leaves the attributes as written). -/
theorem attr_gap_comments_preserved (e : Env) (single : Attr → Option Str) (hrc : Keeps e.rc)
    (hind : sq e.indentStr = []) (attrs : List Attr) (hg : ∀ a ∈ attrs, GapOk a.gap) (segs : List Seg)
    (h : rewriteSegs e single attrs = some segs) :
    ∀ g t, Seg.gap g t ∈ segs → sq t = sq g := by
  intro g t hmem
  have := rewriteGo_forall e single (fun s => match s with | .gap g t => sq t = sq g | _ => True) GapOk
    (fun _ _ _ => trivial) (fun _ _ _ _ _ => trivial) (fun _ _ _ => trivial)
    (by
      intro g t hq hgt
      unfold gapAfterDocs at hgt
      cases hr : recover e g with
      | none => simp [hr] at hgt
      | some c =>
        simp only [hr, Option.map_some, Option.some.injEq] at hgt
        subst hgt
        have hc := recover_keeps e hrc hind g c hq hr
        simp only [sq] at hc hind ⊢
        split
        · rename_i hem
          have : c = [] := by simpa using hem
          subst this
          have h1 : squeeze (('\n' :: nl (newlinesAround g).2) ++ e.indentStr) = [] := by
            rw [squeeze_append, hind]
            have : squeeze ('\n' :: nl (newlinesAround g).2) = squeeze ['\n'] ++ squeeze (nl (newlinesAround g).2) := by
              rw [← squeeze_append]; rfl
            rw [this]
            have := sq_nl (newlinesAround g).2
            simp only [sq] at this
            rw [this]; rfl
          rw [h1]; exact hc
        · have hn1 := sq_nl (newlinesAround g).1
          have hn2 := sq_nl (newlinesAround g).2
          simp only [sq] at hn1 hn2
          simp only [squeeze_append, hn1, hn2, hind, hc]
          simp [squeeze] <;> decide)
    (by
      intro g b t hq hgt
      unfold gapAfterOther at hgt
      cases hr : recover e g with
      | none => simp [hr] at hgt
      | some c =>
        simp only [hr, Option.map_some, Option.some.injEq] at hgt
        subst hgt
        have hc := recover_keeps e hrc hind g c hq hr
        have hn := sq_nl (b && (newlinesAround g).2)
        simp only [sq] at hc hind hn ⊢
        simp only [squeeze_append, hn, hind, hc]
        simp [squeeze] <;> decide)
    attrs.length attrs segs hg h (.gap g t) hmem
  simpa using this

/-- **`attr_doc_comments_verbatim`**: a run of sugared doc comments is handed to `rewrite_doc_comment` as written
(joined by line feeds); when that keeps the text, the result consists of the doc comments' characters, in order. -/
theorem attr_doc_comments_verbatim (e : Env) (single : Attr → Option Str) (hrdc : Keeps e.rdc) (attrs : List Attr)
    (segs : List Seg) (h : rewriteSegs e single attrs = some segs) :
    ∀ run t, Seg.docs run t ∈ segs → sq t = run.flatMap (fun a => sq a.snippet) := by
  intro run t hmem
  have hj : ∀ l : List Str, sq (RF.Opt.joinWith ['\n'] l) = l.flatMap sq := by
    intro l
    induction l with
    | nil => rfl
    | cons x r ih =>
      cases r with
      | nil => simp [RF.Opt.joinWith]
      | cons y r' =>
        simp only [RF.Opt.joinWith, sq, squeeze_append, List.flatMap_cons] at ih ⊢
        rw [ih]
        simp [squeeze] <;> decide
  have := rewriteGo_forall e single
    (fun s => match s with | .docs run t => sq t = run.flatMap (fun a => sq a.snippet) | _ => True) (fun _ => True)
    (by
      intro run text ht
      have := hrdc _ _ ht
      show sq text = run.flatMap (fun a => sq a.snippet)
      rw [this, hj]
      simp [List.flatMap_map])
    (fun _ _ _ _ _ => trivial) (fun _ _ _ => trivial) (fun _ _ _ _ => trivial) (fun _ _ _ _ _ => trivial)
    attrs.length attrs segs (fun _ _ => trivial) h (.docs run t) hmem
  simpa using this

/-- **`attrs_preserved`** (order and multiplicity): the segments consume every attribute exactly once, in order; the
gap segments are exactly the gaps behind each group but the last (`attrs_alternate`). -/
theorem attrs_preserved (e : Env) (single : Attr → Option Str) :
    ∀ fuel attrs segs, attrs.length ≤ fuel → rewriteGo e single fuel attrs = some segs →
      segs.flatMap Seg.srcs = attrs := by
  intro fuel
  induction fuel with
  | zero =>
    intro attrs segs hl h
    have : attrs = [] := by cases attrs <;> simp_all
    subst this; simp [rewriteGo] at h; subst h; rfl
  | succ n ih =>
    intro attrs segs hl h
    cases attrs with
    | nil => simp [rewriteGo] at h; subst h; rfl
    | cons a rest =>
      simp only [rewriteGo] at h
      have key : ∀ (k : Nat) (seg : Seg) (gt : Option Str) (g : Str), k ≥ 1 → seg.srcs = (a :: rest).take k →
          andThen seg gt g ((a :: rest).drop k) (rewriteGo e single n ((a :: rest).drop k)) = some segs →
          segs.flatMap Seg.srcs = a :: rest := by
        intro k seg gt g hk hsrc hh
        have hlen : ((a :: rest).drop k).length ≤ n := by
          simp only [List.length_drop, List.length_cons] at hl ⊢; omega
        rcases andThen_some hh with ⟨hnil, rfl⟩ | ⟨t, r, _, _, hr, rfl⟩
        · simp only [List.flatMap_cons, List.flatMap_nil, List.append_nil, hsrc]
          have := List.take_append_drop k (a :: rest)
          rw [hnil, List.append_nil] at this
          exact this
        · have hgap : Seg.srcs (.gap g t) = [] := rfl
          simp only [List.flatMap_cons, hgap, List.nil_append, hsrc]
          rw [ih _ _ hlen hr]
          exact List.take_append_drop k (a :: rest)
      split at h
      · rename_i hnd
        split at h
        · simp at h
        · exact key _ _ _ _ hnd rfl h
      · rename_i hnd0
        split at h
        · rename_i hder'
          have hpos : deriveRun (a :: rest) ≥ 1 := by
            by_cases hdoc : a.isDoc = true
            · exfalso
              apply hnd0
              unfold docRun
              simp only [List.map_cons]
              exact RF.Lemmas.OptRewrites.takeRun_pos _ _ _ (by simp [toIn, Attr.optAttr, hdoc, RF.Opt.Attr.isDocComment])
            · have hd : a.isDoc = false := by simpa using hdoc
              simp only [Bool.and_eq_true] at hder'
              exact deriveRun_pos a rest hd hder'.2
          split at h
          · simp at h
          · split at h
            · simp at h
            · exact key _ _ _ _ hpos rfl h
        · split at h
          · simp at h
          · exact key 1 _ _ _ (Nat.le_refl 1) rfl h

/-- the list version: `rewriteSegs` gives enough fuel -/
theorem attrs_preserved_list (e : Env) (single : Attr → Option Str) (attrs : List Attr) (segs : List Seg)
    (h : rewriteSegs e single attrs = some segs) : segs.flatMap Seg.srcs = attrs :=
  attrs_preserved e single attrs.length attrs segs (Nat.le_refl _) h

/-- what a merged derive consists of: the paths of its run, collected in order by RF.Opt.collectPaths (the merge
DECISION — which derives form a run — is RF.Opt.takeRun: `RF.Props.OptRewrites.merge_derives_exact`) -/
theorem attrs_derives_merged (e : Env) (single : Attr → Option Str) (attrs : List Attr) (segs : List Seg)
    (h : rewriteSegs e single attrs = some segs) :
    ∀ run t, Seg.derives run t ∈ segs →
      ∃ ps, RF.Opt.collectPaths (run.map toIn) = some ps ∧ e.fmtDerive run ps = some t := by
  intro run t hmem
  have := rewriteGo_forall e single
    (fun s => match s with
      | .derives run t => ∃ ps, RF.Opt.collectPaths (run.map toIn) = some ps ∧ e.fmtDerive run ps = some t
      | _ => True) (fun _ => True)
    (fun _ _ _ => trivial) (fun run ps text h1 h2 => ⟨ps, h1, h2⟩) (fun _ _ _ => trivial)
    (fun _ _ _ _ => trivial) (fun _ _ _ _ _ => trivial)
    attrs.length attrs segs (fun _ _ => trivial) h (.derives run t) hmem
  simpa using this

/-- every single attribute's text is what `Attribute::rewrite_result` returned for it -/
theorem attrs_singles (e : Env) (single : Attr → Option Str) (attrs : List Attr) (segs : List Seg)
    (h : rewriteSegs e single attrs = some segs) : ∀ a t, Seg.single a t ∈ segs → single a = some t := by
  intro a t hmem
  have := rewriteGo_forall e single
    (fun s => match s with | .single a t => single a = some t | _ => True) (fun _ => True)
    (fun _ _ _ => trivial) (fun _ _ _ _ _ => trivial) (fun _ _ h => h)
    (fun _ _ _ _ => trivial) (fun _ _ _ _ _ => trivial)
    attrs.length attrs segs (fun _ _ => trivial) h (.single a t) hmem
  simpa using this

/-! ### non-vacuity: a list with a doc comment, two derives, a comment in a gap -/

def exEnv : Env :=
  ⟨true, false, false, [], 100, 100, some, some, fun _ t => some (renderMeta t),
    fun run ps => (formatDeriveOneLine 100 ((run.head?.map (·.inner)).getD false) ps).getD none⟩

def exList : List Attr :=
  [⟨false, true, "/// d".toList, none, none, none, false, false, false, false, "\n".toList⟩,
   ⟨false, false, "#[derive(A)]".toList, some [.path "derive".toList, .lp, .path "A".toList, .rp],
     some (some ["A".toList]), none, false, false, false, false, "\n".toList⟩,
   ⟨false, false, "#[derive(B)]".toList, some [.path "derive".toList, .lp, .path "B".toList, .rp],
     some (some ["B".toList]), none, false, false, false, false, " // c\n".toList⟩,
   ⟨false, false, "#[ inline ]".toList, some [.path "inline".toList], none, none, false, false, false, false, []⟩]

example : rewriteAttrs exEnv exList = some "/// d\n#[derive(A, B)] // c\n#[inline]".toList := by decide

end RF.Props.Attrs
