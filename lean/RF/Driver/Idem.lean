import RF.Model.Proto
import RF.Model.Idem
import RF.Model.Skip
import RF.Driver.Sort
import RF.Driver.Imports
import RF.Driver.Newline
/-!
Line-protocol operations for C02: every modelled stage evaluated **twice** on real data, so that the
harness can ask "is this stage, applied to its own output, the identity on this input?" for the inputs
and outputs of the real rustfmt.

Encodings are those of the drivers of the stage concerned:
  * `idem.sortuse`, `idem.sortitems`: `RF/Driver/Sort.lean`   (`<v>` = `0|1`, trees `[(i:61:~)…]…`, items `m:<name>;e:<name>:<alias>`)
  * `idem.run`, `idem.granularity`, `idem.normalize`, `idem.reparse`: `RF/Driver/Imports.lean`
      (`<style>` = `2015|2018|2021|2024`, `<g>` = `preserve|crate|module|item|one`, `<gt>` = `preserve|std|one`,
       items `v;n;0;I61~-:[S~-,I62~63]|…`, groups `items!items`)
  * `idem.nl*`, `idem.finalize`, `idem.rtw`, `idem.trim`: `RF/Driver/Newline.lean` (`<text>` hex of UTF-8, `-` empty)

A response that carries the two runs uses `#` as separator (`:` `;` `|` `!` `,` all occur inside the
import encodings).  `err` = undecodable argument; `panic` = the first application panics in Rust.

  idem.sortuse <v> <trees>                  -> 0 | 1
        is `Vec<UseTree>::sort()` applied to its own output the identity on this list
  idem.sortitems <v> <items>                -> 0 | 1 | panic
        the same for `compare_items` (`panic`: mixed kinds, `unreachable!()`)
  idem.normalize <style> <item>             -> 0 | 1 | gone | panic
        `UseTree::normalize` twice, the second time on the tree read back (`reparseItems`);
        `gone` = the first result has an empty path (nothing is written)
  idem.reparse <items>                      -> items
        what the parser of the next run reads of these items: trees with an empty path erased
  idem.granularity <style> <g> <items>      -> (0|1)#<first>#<second> | panic
        `normalize_use_trees_with_granularity` applied to its own output, as lists
  idem.run <style> <g> <gt> <0|1> <items>   -> (0|1)#<first groups>#<second groups> | panic
        the whole `use` arm (`imp.run`) twice: `<first>` is what the first run writes (empty-path
        items and emptied groups removed), `<second>` the result of the run on that
  idem.nl <auto|native|unix|windows> <text> -> 0 | 1
        `out := apply_newline_style(style, text, raw = text)`; is `apply_newline_style(style, out, raw = out) == out`
  idem.nlfixed <style> <text>               -> 0 | 1
        is `text` itself a fixed point: `apply_newline_style(style, text, raw = text) == text`
  idem.finalize <buffer>                    -> 0 | 1 | panic
        `out := append_newline + truncation (buffer)`; does the same applied to `out` minus its final
        `\n`, and to `out` itself, return `out`, and does the truncation alone leave `out` unchanged
  idem.rtw <text>                           -> 0 | 1 | panic
        `remove_trailing_white_spaces` twice == once
  idem.clamp <off> <req> <lower> <upper>    -> 0 | 1
        `push_vertical_spaces`: a second request for nothing adds nothing, and the run it produced from
        an empty run is reproduced when requested again
  idem.trim <text>                          -> 0 | 1        `str::trim` twice == once (`RF.Skip.trim`)
-/
namespace RF.Driver.Idem
open RF.Proto RF.Sort RF.Imports RF.Idem

def bit (b : Bool) : String := if b then "1" else "0"

def orErr (o : Option String) : Option String := some (o.getD "err")

def decBool (s : String) : Option Bool :=
  if s == "1" then some true else if s == "0" then some false else none

def handle (op : String) (args : List String) : Option String :=
  match op, args with
  | "idem.sortuse", [v, ts] => orErr do
    let v ← RF.Driver.Sort.decV v
    let ts ← RF.Driver.Sort.decTrees ts
    let s1 := stableSort (treeCmp v) ts
    let s2 := stableSort (treeCmp v) s1
    pure (bit (RF.Driver.Sort.encTrees s1 == RF.Driver.Sort.encTrees s2))
  | "idem.sortitems", [v, is] => orErr do
    let v ← RF.Driver.Sort.decV v
    let is ← RF.Driver.Sort.decItems is
    match RF.Driver.Sort.itemSort v is with
    | none => pure "panic"
    | some s1 =>
      match RF.Driver.Sort.itemSort v s1 with
      | none => pure "panic"
      | some s2 => pure (bit (s1 == s2))
  | "idem.normalize", [st, it] => orErr do
    let st ← RF.Driver.Imports.decStyle st
    let it ← RF.Driver.Imports.decItem it
    match normalizeItem (treeCmp st) it with
    | .error _ => pure "panic"
    | .ok it1 =>
      match reparseItems [it1] with
      | [it1'] =>
        match normalizeItem (treeCmp st) it1' with
        | .error _ => pure "0"
        | .ok it2 => pure (bit (RF.Driver.Imports.encItem it2 == RF.Driver.Imports.encItem it1'))
      | _ => pure "gone"
  | "idem.reparse", [its] => orErr do
    let its ← RF.Driver.Imports.decItems its
    pure (RF.Driver.Imports.encItems (reparseItems its))
  | "idem.granularity", [st, g, its] => orErr do
    let st ← RF.Driver.Imports.decStyle st
    let g ← RF.Driver.Imports.decG g
    let its ← RF.Driver.Imports.decItems its
    match withGranularity (treeCmp st) g its with
    | .error _ => pure "panic"
    | .ok r1 =>
      match withGranularity (treeCmp st) g r1 with
      | .error _ => pure "panic"
      | .ok r2 =>
        let e1 := RF.Driver.Imports.encItems r1
        let e2 := RF.Driver.Imports.encItems r2
        pure (bit (e1 == e2) ++ "#" ++ e1 ++ "#" ++ e2)
  | "idem.run", [st, g, gt, r, its] => orErr do
    let st ← RF.Driver.Imports.decStyle st
    let g ← RF.Driver.Imports.decG g
    let gt ← RF.Driver.Imports.decGT gt
    let r ← decBool r
    let its ← RF.Driver.Imports.decItems its
    match runTwice (treeCmp st) g gt r its with
    | .error _ => pure "panic"
    | .ok (a, b) =>
      let e1 := RF.Driver.Imports.encGroups a
      let e2 := RF.Driver.Imports.encGroups b
      pure (bit (e1 == e2) ++ "#" ++ e1 ++ "#" ++ e2)
  | "idem.nl", [st, t] => orErr do
    let st ← RF.Driver.Newline.decStyle st
    let t ← decChars t
    let out := RF.Newline.applyNewlineStyle st t t
    pure (bit (RF.Newline.applyNewlineStyle st out out == out))
  | "idem.nlfixed", [st, t] => orErr do
    let st ← RF.Driver.Newline.decStyle st
    let t ← decChars t
    pure (bit (RF.Newline.applyNewlineStyle st t t == t))
  | "idem.finalize", [b] => orErr do
    let b ← decChars b
    match RF.Newline.finalize b with
    | none => pure "panic"
    | some out =>
      pure (bit (RF.Newline.finalize out.dropLast == some out && RF.Newline.finalize out == some out
        && RF.Newline.formatLinesTruncate out == some out))
  | "idem.rtw", [t] => orErr do
    let t ← decChars t
    match RF.Newline.removeTrailingWhiteSpaces t with
    | none => pure "panic"
    | some out => pure (bit (RF.Newline.removeTrailingWhiteSpaces out == some out))
  | "idem.clamp", [off, n, lo, up] => orErr do
    let off ← off.toNat?
    let n ← n.toNat?
    let lo ← lo.toNat?
    let up ← up.toNat?
    let c := RF.Newline.clampBlank off n lo up
    pure (bit (RF.Newline.clampBlank c 0 lo up == c &&
      RF.Newline.clampBlank 0 (RF.Newline.clampBlank 0 n lo up) lo up == RF.Newline.clampBlank 0 n lo up))
  | "idem.trim", [t] => orErr do
    let t ← decChars t
    pure (bit (RF.Skip.trim (RF.Skip.trim t) == RF.Skip.trim t))
  | _, _ => none

end RF.Driver.Idem
