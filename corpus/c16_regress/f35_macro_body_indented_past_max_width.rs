// rustfmt-tab_spaces: 8
// rustfmt-max_width: 45
mod a { mod b { mod c { mod d {
macro_rules! m { ($x:expr) => { let y = $x + 1; println!("{}", y); }; }
} } } }
