import RF.Model.Proto
import RF.Model.Shape
/-!
Line-protocol operations for `src/shape.rs` (C16 arithmetic, C08 indentation).

All arguments are decimal numbers, blank separated.  An `Indent` is the two numbers
`<block_indent> <alignment>` (written `I` below), a `Shape` the four numbers
`<width> <block_indent> <alignment> <offset>` (written `S`).  Booleans are `0`/`1`.
Configuration values are passed only to the operations that read them, in the order shown.

Responses: a number; an `Indent` as `block:align`; a `Shape` as `width:block:align:offset`; a string
in the `RF.Proto` encoding (hex of UTF-8, `-` for empty); `panic` where the dev build aborts; `none`
for `Option::None`; `err:<configured_width>` for `Err(ExceedsMaxWidthError)`.

  shape.indent_to_string <block> <align> <offset> <hard_tabs> <tab_spaces>  -> string | panic   `to_string_inner`

  shape.indent.new I                          -> indent
  shape.indent.from_width <hard_tabs> <tab_spaces> <width>   -> indent | panic
  shape.indent.empty                          -> indent
  shape.indent.block_only I                   -> indent
  shape.indent.block_indent I <tab_spaces>    -> indent
  shape.indent.block_unindent I <tab_spaces>  -> indent | panic
  shape.indent.width I                        -> n
  shape.indent.to_string I <hard_tabs> <tab_spaces>               -> string | panic
  shape.indent.to_string_with_newline I <hard_tabs> <tab_spaces>  -> string | panic
  shape.indent.add I I                        -> indent
  shape.indent.sub I I                        -> indent | panic
  shape.indent.add_usize I <n>                -> indent
  shape.indent.sub_usize I <n>                -> indent | panic

  shape.legacy <width> I                      -> shape
  shape.indented I <max_width>                -> shape
  shape.with_max_width S <max_width>          -> shape
  shape.visual_indent S <delta>               -> shape
  shape.block_indent S <delta>                -> shape
  shape.block_left S <delta>                  -> shape | err:<w>
  shape.add_offset S <delta>                  -> shape
  shape.block S                               -> shape
  shape.saturating_sub_width S <delta>        -> shape
  shape.sub_width S <delta>                   -> shape | err:<w>
  shape.sub_width_opt S <delta>               -> shape | none
  shape.shrink_left S <delta>                 -> shape | err:<w>
  shape.shrink_left_opt S <delta>             -> shape | none
  shape.offset_left S <delta>                 -> shape | err:<w>
  shape.offset_left_opt S <delta>             -> shape | none
  shape.used_width S                          -> n
  shape.rhs_overhead S <max_width>            -> n
  shape.comment S <comment_width>             -> shape
  shape.to_string_with_newline S <hard_tabs> <tab_spaces>  -> string | panic
  shape.infinite_width S                      -> shape
  shape.exceeds_max_width_error S             -> n   (`configured_width`)
-/
namespace RF.Driver.Shape
open RF.Proto RF.Shape

def encIndent (i : Indent) : String := s!"{i.block_indent}:{i.alignment}"
def encShape (s : Shape) : String :=
  s!"{s.width}:{s.indent.block_indent}:{s.indent.alignment}:{s.offset}"

def encP {α} (f : α → String) : Except Panic α → String
  | .ok a => f a
  | .error _ => "panic"

def encO {α} (f : α → String) : Option α → String
  | some a => f a
  | none => "none"

def encR {α} (f : α → String) : Except ExceedsMaxWidthError α → String
  | .ok a => f a
  | .error e => s!"err:{e.configured_width}"

def decBool : Nat → Option Bool
  | 0 => some false
  | 1 => some true
  | _ => none

/-- Only the fields an operation reads matter; the others are set to 0. -/
def cfg (hard_tabs : Bool) (tab_spaces max_width comment_width : Nat) : Config :=
  ⟨hard_tabs, tab_spaces, max_width, comment_width⟩

def handleNums (op : String) (a : List Nat) : Option String :=
  match op, a with
  | "shape.indent_to_string", [b, al, off, ht, ts] => do
    let ht ← decBool ht
    pure (encP encChars ((Indent.mk b al).to_string_inner (cfg ht ts 0 0) off))
  | "shape.indent.new", [b, al] => pure (encIndent (Indent.new b al))
  | "shape.indent.from_width", [ht, ts, w] => do
    let ht ← decBool ht
    pure (encP encIndent (Indent.from_width (cfg ht ts 0 0) w))
  | "shape.indent.empty", [] => pure (encIndent Indent.empty)
  | "shape.indent.block_only", [b, al] => pure (encIndent (Indent.mk b al).block_only)
  | "shape.indent.block_indent", [b, al, ts] =>
    pure (encIndent ((Indent.mk b al).blockIndent (cfg false ts 0 0)))
  | "shape.indent.block_unindent", [b, al, ts] =>
    pure (encP encIndent ((Indent.mk b al).block_unindent (cfg false ts 0 0)))
  | "shape.indent.width", [b, al] => pure (toString (Indent.mk b al).width)
  | "shape.indent.to_string", [b, al, ht, ts] => do
    let ht ← decBool ht
    pure (encP encChars ((Indent.mk b al).to_string (cfg ht ts 0 0)))
  | "shape.indent.to_string_with_newline", [b, al, ht, ts] => do
    let ht ← decBool ht
    pure (encP encChars ((Indent.mk b al).to_string_with_newline (cfg ht ts 0 0)))
  | "shape.indent.add", [b, al, b2, al2] => pure (encIndent ((Indent.mk b al).add ⟨b2, al2⟩))
  | "shape.indent.sub", [b, al, b2, al2] => pure (encP encIndent ((Indent.mk b al).sub ⟨b2, al2⟩))
  | "shape.indent.add_usize", [b, al, n] => pure (encIndent ((Indent.mk b al).add_usize n))
  | "shape.indent.sub_usize", [b, al, n] => pure (encP encIndent ((Indent.mk b al).sub_usize n))
  | "shape.legacy", [w, b, al] => pure (encShape (Shape.legacy w ⟨b, al⟩))
  | "shape.indented", [b, al, mw] => pure (encShape (Shape.indented ⟨b, al⟩ (cfg false 0 mw 0)))
  | "shape.with_max_width", [w, b, al, o, mw] =>
    pure (encShape ((Shape.mk w ⟨b, al⟩ o).with_max_width (cfg false 0 mw 0)))
  | "shape.visual_indent", [w, b, al, o, d] => pure (encShape ((Shape.mk w ⟨b, al⟩ o).visual_indent d))
  | "shape.block_indent", [w, b, al, o, d] => pure (encShape ((Shape.mk w ⟨b, al⟩ o).block_indent d))
  | "shape.block_left", [w, b, al, o, d] => pure (encR encShape ((Shape.mk w ⟨b, al⟩ o).block_left d))
  | "shape.add_offset", [w, b, al, o, d] => pure (encShape ((Shape.mk w ⟨b, al⟩ o).add_offset d))
  | "shape.block", [w, b, al, o] => pure (encShape (Shape.mk w ⟨b, al⟩ o).block)
  | "shape.saturating_sub_width", [w, b, al, o, d] =>
    pure (encShape ((Shape.mk w ⟨b, al⟩ o).saturating_sub_width d))
  | "shape.sub_width", [w, b, al, o, d] => pure (encR encShape ((Shape.mk w ⟨b, al⟩ o).sub_width d))
  | "shape.sub_width_opt", [w, b, al, o, d] =>
    pure (encO encShape ((Shape.mk w ⟨b, al⟩ o).sub_width_opt d))
  | "shape.shrink_left", [w, b, al, o, d] => pure (encR encShape ((Shape.mk w ⟨b, al⟩ o).shrink_left d))
  | "shape.shrink_left_opt", [w, b, al, o, d] =>
    pure (encO encShape ((Shape.mk w ⟨b, al⟩ o).shrink_left_opt d))
  | "shape.offset_left", [w, b, al, o, d] => pure (encR encShape ((Shape.mk w ⟨b, al⟩ o).offset_left d))
  | "shape.offset_left_opt", [w, b, al, o, d] =>
    pure (encO encShape ((Shape.mk w ⟨b, al⟩ o).offset_left_opt d))
  | "shape.used_width", [w, b, al, o] => pure (toString (Shape.mk w ⟨b, al⟩ o).used_width)
  | "shape.rhs_overhead", [w, b, al, o, mw] =>
    pure (toString ((Shape.mk w ⟨b, al⟩ o).rhs_overhead (cfg false 0 mw 0)))
  | "shape.comment", [w, b, al, o, cw] =>
    pure (encShape ((Shape.mk w ⟨b, al⟩ o).comment (cfg false 0 0 cw)))
  | "shape.to_string_with_newline", [w, b, al, o, ht, ts] => do
    let ht ← decBool ht
    pure (encP encChars ((Shape.mk w ⟨b, al⟩ o).to_string_with_newline (cfg ht ts 0 0)))
  | "shape.infinite_width", [w, b, al, o] => pure (encShape (Shape.mk w ⟨b, al⟩ o).infinite_width)
  | "shape.exceeds_max_width_error", [w, b, al, o] =>
    pure (toString (Shape.mk w ⟨b, al⟩ o).exceeds_max_width_error.configured_width)
  | _, _ => none

def handle (op : String) (args : List String) : Option String :=
  if op.startsWith "shape." then
    match args.mapM String.toNat? with
    | some nums => handleNums op nums
    | none => none
  else none

end RF.Driver.Shape
