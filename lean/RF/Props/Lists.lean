import RF.Lemmas.Lists
import RF.Lemmas.ListsRc
import RF.Model.ListsItemize
import RF.Model.ListsStructLit
/-!
# The list machinery (`src/lists.rs`): what `write_list` emits and how `definitive_tactic` decides

Mechanism behind C01 (no token added, dropped or reordered; only optional trailing separators change),
C03 (the comments attached to list items are written back) and C02 (the layout decision is stable).
Most rewriters (function parameters, call arguments, struct fields, enum variants, patterns, use lists,
generics, where clauses, arrays, tuples) hand their elements and the comments between them to
`write_list`; the theorems are about `RF.Lists.writeList` / `definitiveTactic` (`RF/Model/Lists.lean`, a
statement-by-statement transcription tied to the code by the correspondence `lists.write` / `lists.tactic`),
for EVERY item list, EVERY formatting and EVERY comment rewriter `rc` (the model's stand-in for
`rewrite_comment`), under the hypotheses each theorem names.

`render ps` is the result string; `ps` is the same string cut into the pieces the loop pushed
(blank / separator / item / pre-comment / post-comment).
-/
namespace RF.Props.Lists
open RF.Lists RF.Shape RF.Lemmas.Lists

/-- The separator place `write_list` works with (`SeparatorPlace::from_tactic`). -/
abbrev placeOf (f : ListFormatting) : SeparatorPlace :=
  SeparatorPlace.fromTactic f.separatorPlace f.tactic f.separator

/-- A comment rewriter for the examples: trims the comment (what `rewrite_comment` does to a one-line
comment under the default options). -/
def rcTrim : Rc := fun c _ _ => some (trim c)

/-- `rcTrim` satisfies the hypothesis of `writeList_content`. -/
theorem rcTrim_keeps_content : ∀ c bs sh r, rcTrim c bs sh = some r → squeeze r = squeeze c := by
  intro c bs sh r h
  simp only [rcTrim, Option.some.injEq] at h
  subst h
  exact squeeze_trim c

private def exItems : List ListItem :=
  [⟨some "/* p */".toList, .sameLine, some "a".toList, some "// q".toList, false⟩,
   ⟨none, .none, some "".toList, none, false⟩,
   ⟨none, .none, some "bb".toList, some " /* r */".toList, false⟩]

private def exFmt : ListFormatting :=
  { ListFormatting.new (Shape.legacy 40 (Indent.new 4 0)) ⟨false, 4, 100, 80⟩ false with
    trailingSeparator := .vertical }

/-! ## Structure of the result -/

/-- **Structure.**  Whenever `write_list` succeeds, its result is a sequence of pieces in which every
blank piece holds only spaces, newlines and indentation, and whose non-blank pieces are, item by item
and in the order of the input (`TokensOK`): nothing for an item that is not substantial; for a written
item its rewritten pre-comment (if it has one), the separator in front (if `separateSpec` says so and the
place is Front), the item string, and then its rewritten post-comment and the separator behind
(comment first in a horizontal list, separator first otherwise). -/
theorem writeList_structure (f : ListFormatting) (rc : Rc) (items : List ListItem) (out : List Char)
    (h : writeList f rc items = some out) :
    ∃ ps : List Piece, render ps = out ∧ BlanksOK (indentString f.shape.indent f.config) ps ∧
      TokensOK f rc (placeOf f) 0 items (nonBlank ps) := by
  unfold writeList at h
  simp only [Option.map_eq_some_iff] at h
  obtain ⟨ps, hps, rfl⟩ := h
  obtain ⟨hb, hts⟩ := writeListPieces_shape hps
  exact ⟨ps, rfl, hb, hts⟩

example : writeList exFmt rcTrim exItems = some "/* p */ a, // q\n    bb, /* r */".toList := by decide

/-! ## C01: items -/

/-- **Items in order.**  The result is `g0 ++ item1 ++ g1 ++ … ++ itemN ++ gN` where `item1 … itemN` are
exactly the item strings of the written (substantial) items, each once, in the order of the input, and
every gap `gk` is made of pieces that are blanks (spaces, newlines, indentation), the separator (as given
or trimmed) or a comment of one of the items as `rc` returned it.  (An item that is not substantial has
the empty string as its item string and no non-empty comment: nothing is lost by skipping it.) -/
theorem writeList_items_in_order (f : ListFormatting) (rc : Rc) (items : List ListItem) (out : List Char)
    (h : writeList f rc items = some out) :
    ∃ gaps : List (List Piece),
      gaps.length = (itemStrings items).length + 1 ∧
      out = weave (gaps.map render) (itemStrings items) ∧
      ∀ g ∈ gaps, ∀ p ∈ g, GapPiece f rc items p := by
  unfold writeList at h
  simp only [Option.map_eq_some_iff] at h
  obtain ⟨ps, hps, rfl⟩ := h
  obtain ⟨_, hts⟩ := writeListPieces_shape hps
  have hitems : itemTexts ps = itemStrings items := by
    rw [← itemTexts_nonBlank]; exact tokens_items hts
  refine ⟨splitGaps ps, ?_, ?_, ?_⟩
  · rw [splitGaps_length, hitems]
  · rw [← hitems]; exact splitGaps_weave ps
  · intro g hg p hp
    obtain ⟨hmem, hk⟩ := splitGaps_mem ps g hg p hp
    exact pieces_gap hps p hmem hk

/-- The piece form of the same statement: the item pieces of the result are the item strings of the
written items; every other piece is a gap piece. -/
theorem writeList_item_pieces (f : ListFormatting) (rc : Rc) (items : List ListItem) (out : List Char)
    (h : writeList f rc items = some out) :
    ∃ ps : List Piece, render ps = out ∧ itemTexts ps = itemStrings items ∧
      ∀ p ∈ ps, p.kind ≠ .item → GapPiece f rc items p := by
  unfold writeList at h
  simp only [Option.map_eq_some_iff] at h
  obtain ⟨ps, hps, rfl⟩ := h
  obtain ⟨_, hts⟩ := writeListPieces_shape hps
  exact ⟨ps, rfl, by rw [← itemTexts_nonBlank]; exact tokens_items hts, pieces_gap hps⟩

example : itemStrings exItems = ["a".toList, "bb".toList] := by decide

/-- **The error branch.**  One item whose rewrite failed (`item = Err(_)`) makes the whole result `Err`,
whatever the other items, the formatting and the comment rewriter are. -/
theorem writeList_none_on_missing_item (f : ListFormatting) (rc : Rc) (items : List ListItem)
    (h : ∃ it ∈ items, it.item = none) : writeList f rc items = none := by
  unfold writeList writeListPieces
  simp only [Option.map_eq_none_iff]
  exact loop_none_of_missing items 0 _ h

example : writeList exFmt rcTrim (exItems ++ [⟨none, .none, none, none, false⟩]) = none := by decide

/-! ## C03: comments -/

/-- **Comments emitted.**  The comment pieces of the result correspond one for one, in order, to the
comments of the written items (for each item its pre-comment, then its post-comment): each piece is what
some call `rc c _ _` (or `rc (trim_start c) _ _` for a post-comment outside a horizontal list) returned
for that comment `c`.  No comment of a written item is dropped or duplicated; where each one stands
relative to the items is given by `writeList_structure`. -/
theorem writeList_comments_emitted (f : ListFormatting) (rc : Rc) (items : List ListItem) (out : List Char)
    (h : writeList f rc items = some out) :
    ∃ ps : List Piece, render ps = out ∧
      Forall2 (Rewritten rc) (commentTexts ps) (rawComments items) := by
  unfold writeList at h
  simp only [Option.map_eq_some_iff] at h
  obtain ⟨ps, hps, rfl⟩ := h
  obtain ⟨_, hts⟩ := writeListPieces_shape hps
  exact ⟨ps, rfl, by rw [← commentTexts_nonBlank]; exact tokens_comments hts⟩

/-- With a comment rewriter that keeps some payload of a comment (for `rewrite_comment` under the
default options: the non-blank characters), the payloads of the emitted comments are the payloads of the
input comments, in order. -/
theorem writeList_comment_payloads {α : Type} (payload : List Char → α) (f : ListFormatting) (rc : Rc)
    (items : List ListItem) (out : List Char)
    (hrc : ∀ c bs sh r, rc c bs sh = some r → payload r = payload c)
    (htrim : ∀ c, payload (trimStart c) = payload c)
    (h : writeList f rc items = some out) :
    ∃ ps : List Piece, render ps = out ∧
      (commentTexts ps).map payload = (rawComments items).map payload := by
  obtain ⟨ps, hr, hf⟩ := writeList_comments_emitted f rc items out h
  refine ⟨ps, hr, ?_⟩
  have key : ∀ (ts cs : List (List Char)), Forall2 (Rewritten rc) ts cs → ts.map payload = cs.map payload := by
    intro ts cs hf
    induction hf with
    | nil => rfl
    | cons hab _ ih =>
      obtain ⟨bs, sh, h1 | h1⟩ := hab
      · simp [hrc _ _ _ _ h1, ih]
      · simp [hrc _ _ _ _ h1, htrim, ih]
  exact key _ _ hf

example : rawComments exItems = ["/* p */".toList, "// q".toList, " /* r */".toList] := by decide

example : ∃ ps, render ps = "/* p */ a, // q\n    bb, /* r */".toList ∧
    (commentTexts ps).map squeeze = ["/*p*/".toList, "//q".toList, "/*r*/".toList] := by
  obtain ⟨ps, h1, h2⟩ := writeList_comment_payloads squeeze exFmt rcTrim exItems
    "/* p */ a, // q\n    bb, /* r */".toList rcTrim_keeps_content squeeze_trimStart (by decide)
  exact ⟨ps, h1, by rw [h2]; decide⟩

/-- **Content.**  If the comment rewriter keeps the non-blank characters of every comment, then the
non-blank characters of the result are exactly `contentSpec`: for each written item, in order, its
pre-comment, the separator in front (if any), the item, and its post-comment and the separator behind
(if any).  Nothing else is written and nothing of this is left out.  (`contentSpec` is also the oracle
`lists.oracle.content` that judges the output of the real `write_list`.) -/
theorem writeList_content (f : ListFormatting) (rc : Rc) (items : List ListItem) (out : List Char)
    (hrc : ∀ c bs sh r, rc c bs sh = some r → squeeze r = squeeze c)
    (h : writeList f rc items = some out) :
    squeeze out = contentSpec f items := by
  obtain ⟨ps, rfl, hb, hts⟩ := writeList_structure f rc items out h
  rw [squeeze_render (indentString_ws f.shape.indent f.config) ps hb]
  exact tokens_content hrc hts

example : squeeze "/* p */ a, // q\n    bb, /* r */".toList = contentSpec exFmt exItems :=
  writeList_content exFmt rcTrim exItems _ rcTrim_keeps_content (by decide)

example : contentSpec exFmt exItems = "/*p*/a,//qbb,/*r*/".toList := by decide

/-! ## C01: separators -/

/-- **Separators.**  The separator pieces of the result are exactly those of `sepSpecGo`: a written item
with index `i` gets the (trimmed) separator in front iff the place is Front, `i ≠ 0` and
`separateSpec f place i last`; it gets the separator behind iff the place is Back and
`separateSpec f place i last`. -/
theorem writeList_separators (f : ListFormatting) (rc : Rc) (items : List ListItem) (out : List Char)
    (h : writeList f rc items = some out) :
    ∃ ps : List Piece, render ps = out ∧ sepTexts ps = sepSpecGo f (placeOf f) 0 items := by
  obtain ⟨ps, hr, _, hts⟩ := writeList_structure f rc items out h
  exact ⟨ps, hr, by rw [← sepTexts_nonBlank]; exact tokens_seps hts⟩

/-- Place Back: every item that is not the last one is followed by a separator, whatever the tactic and
the trailing-separator setting are. -/
theorem separator_between_back (f : ListFormatting) (i : Nat) : separateSpec f .back i false = true := by
  simp [separateSpec]

/-- Place Back: the only optional separator is the one after the last item, and it is written iff
`needs_trailing_separator()`; in a Mixed list that ends with a newline iff `trailing_separator` is not
`Never`. -/
theorem writeList_only_trailing_separator_optional (f : ListFormatting) (i : Nat) :
    separateSpec f .back i true =
      if f.tactic = .mixed ∧ f.endsWithNewline = true then f.trailingSeparator != .never
      else f.needsTrailingSeparator := by
  unfold separateSpec
  by_cases h : f.tactic = .mixed ∧ f.endsWithNewline = true
  · obtain ⟨h1, h2⟩ := h; simp [h1, h2]
  · have : (f.tactic == DefinitiveListTactic.mixed && true && f.endsWithNewline) = false := by
      cases he : f.endsWithNewline <;> simp_all
    simp [h]

/-- `needs_trailing_separator`, the whole table. -/
theorem needsTrailingSeparator_spec (f : ListFormatting) :
    f.needsTrailingSeparator = true ↔
      f.trailingSeparator = .always ∨
      (f.trailingSeparator = .vertical ∧ f.tactic = .vertical) ∨
      (f.trailingSeparator = .never ∧ f.tactic = .vertical ∧ f.separatorPlace = .front) := by
  unfold ListFormatting.needsTrailingSeparator SeparatorPlace.isFront
  cases f.trailingSeparator <;> simp

/-- Place Front: "every item but the first is preceded by a separator" is FALSE of the code: in a Mixed
list that ends with a newline and has `trailing_separator = Never`, the last item loses the separator in
front of it (lists.rs:355-357 overwrites `separate` for the last item whatever the place is).  No caller
of the pinned tree combines Mixed with a Front separator. -/
theorem separator_between_front_counterexample :
    ∃ f : ListFormatting, placeOf f = .front ∧
      writeList f rcTrim [ListItem.fromStr "a".toList, ListItem.fromStr "b".toList] = some "a b".toList := by
  refine ⟨{ ListFormatting.new (Shape.legacy 40 Indent.empty) ⟨false, 4, 100, 80⟩ false with
    tactic := .mixed, separator := " |".toList, separatorPlace := .front }, by decide, by decide⟩

/-- Place Front, outside that corner: every item but the first is preceded by a separator. -/
theorem separator_between_front_partial (f : ListFormatting) (i : Nat) (last : Bool) (hi : i ≠ 0)
    (hcorner : ¬(f.tactic = .mixed ∧ f.endsWithNewline = true ∧ f.trailingSeparator = .never)) :
    separateSpec f .front i last = true := by
  unfold separateSpec
  split
  · rename_i h
    simp only [Bool.and_eq_true, beq_iff_eq] at h
    obtain ⟨⟨h1, _⟩, h3⟩ := h
    cases ht : f.trailingSeparator <;> simp_all
  · simp [hi]

/-- "The separator after the last written item follows `trailing_separator`" is FALSE of the code when
the last item of the list is not substantial: the item before it is not the last one, so it gets its
separator, which now ends the output although `trailing_separator = Never`. -/
theorem trailing_separator_counterexample :
    (ListFormatting.new (Shape.legacy 40 Indent.empty) ⟨false, 4, 100, 80⟩ false).needsTrailingSeparator = false ∧
    writeList (ListFormatting.new (Shape.legacy 40 Indent.empty) ⟨false, 4, 100, 80⟩ false) rcTrim
      [ListItem.fromStr "a".toList, ListItem.fromStr []] = some "a,".toList := by
  constructor <;> decide

/-- With every item substantial and place Back the separators are: one after each item but the last,
plus the trailing one exactly as `writeList_only_trailing_separator_optional` says. -/
theorem writeList_separator_count_partial (f : ListFormatting) (rc : Rc) (items : List ListItem)
    (out : List Char) (hplace : placeOf f = .back)
    (hsub : ∀ it ∈ items, it.isSubstantial = true) (hne : items ≠ [])
    (h : writeList f rc items = some out) :
    ∃ ps : List Piece, render ps = out ∧
      sepTexts ps = List.replicate (items.length - 1) f.separator ++
        (if separateSpec f .back (items.length - 1) true then [f.separator] else []) := by
  obtain ⟨ps, hr, hs⟩ := writeList_separators f rc items out h
  refine ⟨ps, hr, ?_⟩
  rw [hs, hplace]
  have key : ∀ (l : List ListItem) (i : Nat), (∀ it ∈ l, it.isSubstantial = true) → l ≠ [] →
      sepSpecGo f .back i l = List.replicate (l.length - 1) f.separator ++
        (if separateSpec f .back (i + (l.length - 1)) true then [f.separator] else []) := by
    intro l
    induction l with
    | nil => intro i _ h; exact absurd rfl h
    | cons it rest ih =>
      intro i hs _
      have hit := hs it List.mem_cons_self
      cases rest with
      | nil => simp [sepSpecGo, hit, SeparatorPlace.isFront, SeparatorPlace.isBack]
      | cons it2 rest2 =>
        have := ih (i + 1) (fun x hx => hs x (List.mem_cons_of_mem _ hx)) (by simp)
        simp only [sepSpecGo, hit, ↓reduceIte, List.isEmpty_cons, SeparatorPlace.isFront,
          SeparatorPlace.isBack, separator_between_back] at this ⊢
        rw [this]
        simp only [List.length_cons, Nat.add_sub_cancel]
        have e : i + 1 + rest2.length = i + (rest2.length + 1) := by omega
        rw [e]
        simp [List.replicate_succ]
  simpa using key items 0 hsub hne

example : ∃ ps, render ps = "/* p */ a, // q\n    bb, /* r */".toList ∧
    sepTexts ps = [",".toList, ",".toList] := by
  obtain ⟨ps, h1, h2⟩ := writeList_separators exFmt rcTrim exItems
    "/* p */ a, // q\n    bb, /* r */".toList (by decide)
  exact ⟨ps, h1, by rw [h2]; decide⟩

/-! ## The oracles that judge the real `write_list` are consequences of the theorems

`lists.oracle.content` is `writeList_content`.  The two looser oracles: -/

/-- `lists.oracle.items` accepts every result of the model: the item strings of the written items occur
in the result as disjoint substrings, in order. -/
theorem writeList_passes_items_oracle (f : ListFormatting) (rc : Rc) (items : List ListItem)
    (out : List Char) (h : writeList f rc items = some out) :
    occursInOrder (itemStrings items) out = true := by
  obtain ⟨ps, rfl, hi, _⟩ := writeList_item_pieces f rc items out h
  rw [← hi]
  exact occursInOrder_of_embeds (embeds_items ps)

/-- `lists.oracle.comments` accepts every result of the model when the comment rewriter keeps the
non-blank characters: the squeezed comments occur in the squeezed result, in order. -/
theorem writeList_passes_comments_oracle (f : ListFormatting) (rc : Rc) (items : List ListItem)
    (out : List Char) (hrc : ∀ c bs sh r, rc c bs sh = some r → squeeze r = squeeze c)
    (h : writeList f rc items = some out) :
    occursInOrder (commentStrings items) (squeeze out) = true := by
  rw [writeList_content f rc items out hrc h]
  exact occursInOrder_of_embeds (embeds_comments f _ items 0)

example : occursInOrder (commentStrings exItems) (squeeze "/* p */ a, // q\n    bb, /* r */".toList) = true := by
  decide

/-- The items oracle does refuse a result that lost an item. -/
example : occursInOrder (itemStrings exItems) "/* p */ a, // q\n    , /* r */".toList = false := by decide

/-! ## C02: the layout decision -/

/-- **`definitive_tactic`, as the code has it.**  Horizontal iff no item has a `//` comment and either the
caller asked for Horizontal, or the caller asked for neither Vertical nor Horizontal and the measured
width (item widths, comment widths + 6 each, one separator width between neighbours) is within the limit
and no item or comment contains a newline. -/
theorem definitiveTactic_spec (items : List ListItem) (tactic : ListTactic) (sep : Separator) (width : Nat) :
    definitiveTactic items tactic sep width = .horizontal ↔
      items.any ListItem.hasSingleLineComment = false ∧
      (tactic = .horizontal ∨
        (tactic ≠ .vertical ∧ tactic ≠ .horizontal ∧
          realTotal items sep ≤ tacticLimit tactic width ∧ items.any ListItem.isMultiline = false)) := by
  rw [definitiveTactic_eq]
  cases hs : items.any ListItem.hasSingleLineComment
  · cases tactic <;> simp <;> (split <;> simp_all)
  · simp

example : definitiveTactic exItems .horizontalVertical .comma 100 = .vertical := by decide  -- `// q`
example : definitiveTactic [ListItem.fromStr "aaa".toList, ListItem.fromStr "bbb".toList]
    .horizontalVertical .comma 8 = .horizontal := by decide   -- 3 + 3 + 2 = 8
example : definitiveTactic [ListItem.fromStr "aaa".toList, ListItem.fromStr "bbb".toList]
    .horizontalVertical .comma 7 = .vertical := by decide
example : definitiveTactic [ListItem.fromStr "aaa".toList, ListItem.fromStr "bbb".toList]
    (.limitedHorizontalVertical 7) .comma 100 = .vertical := by decide
example : realTotal [ListItem.fromStr "aaa".toList, ListItem.fromStr "bbb".toList] .comma = 8 := by decide

/-- Mixed is chosen only for `ListTactic::Mixed`, when the horizontal layout is refused. -/
theorem definitiveTactic_mixed (items : List ListItem) (tactic : ListTactic) (sep : Separator) (width : Nat) :
    definitiveTactic items tactic sep width = .mixed ↔
      items.any ListItem.hasSingleLineComment = false ∧ tactic = .mixed ∧
        ¬(realTotal items sep ≤ width ∧ items.any ListItem.isMultiline = false) := by
  rw [definitiveTactic_eq]
  cases hs : items.any ListItem.hasSingleLineComment
  · cases tactic <;> simp [tacticLimit] <;> (split <;> simp_all)
  · simp

example : definitiveTactic [ListItem.fromStr "aaa".toList, ListItem.fromStr "bbb".toList]
    .mixed .comma 7 = .mixed := by decide

/-- `SpecialMacro` is never chosen by `definitive_tactic`. -/
theorem definitiveTactic_not_specialMacro (items : List ListItem) (tactic : ListTactic) (sep : Separator)
    (width n : Nat) : definitiveTactic items tactic sep width ≠ .specialMacro n := by
  rw [definitiveTactic_eq]
  split
  · simp
  · cases tactic <;> simp <;> (split <;> simp)

/-- **Stability of the decision (C02 mechanism).**  `definitive_tactic` reads of each item only its item
string and, of each comment, the trimmed text and whether it contains a newline.  Items re-read from a
formatted list — same item strings, comments possibly re-indented or trimmed but with the same trimmed
text and the same answer to "contains a newline" — get the same tactic, for every requested tactic,
separator and width. -/
theorem definitiveTactic_stable (items items' : List ListItem) (tactic : ListTactic) (sep : Separator)
    (width : Nat) (h : Forall2 SameMeasure items items') :
    definitiveTactic items' tactic sep width = definitiveTactic items tactic sep width := by
  obtain ⟨h1, h2, h3, h4⟩ := forall2_measure h
  rw [definitiveTactic_eq, definitiveTactic_eq, realTotal, realTotal, h1, h2, h3, h4]

example : Forall2 SameMeasure
    [⟨some " /* p */".toList, .sameLine, some "a".toList, some "/* q */ ".toList, false⟩]
    [⟨some "/* p */".toList, .differentLine, some "a".toList, some "/* q */".toList, true⟩] :=
  Forall2.cons ⟨rfl, by simp only [SameComment]; decide, by simp only [SameComment]; decide⟩ Forall2.nil

/-- In particular: a list that was laid out horizontally is laid out horizontally again when its items
come back with their comments passed through a rewriter `g` that keeps the trimmed text and introduces
no newline (what `rewrite_comment` does to a one-line comment under the default options). -/
theorem definitiveTactic_horizontal_again (g : List Char → List Char) (items : List ListItem)
    (tactic : ListTactic) (sep : Separator) (width : Nat)
    (hg : ∀ c, trim (g c) = trim c ∧ (hasNewline c = false → hasNewline (g c) = false) ∧
      endsWithLineComment (g c) = endsWithLineComment c)
    (h : definitiveTactic items tactic sep width = .horizontal) :
    definitiveTactic
      (items.map fun it => { it with preComment := it.preComment.map g, postComment := it.postComment.map g })
      tactic sep width = .horizontal := by
  have hc : ∀ o : Option (List Char), CommentKept o (o.map g) := by
    intro o; cases o with
    | none => simp [CommentKept]
    | some c => exact hg c
  have hall : ∀ l : List ListItem, Forall2 ItemKept l
      (l.map fun it => { it with preComment := it.preComment.map g, postComment := it.postComment.map g }) := by
    intro l
    induction l with
    | nil => exact Forall2.nil
    | cons it rest ih => exact Forall2.cons ⟨rfl, hc _, hc _⟩ ih
  obtain ⟨h1, h2, h3, h4⟩ := forall2_kept (hall items)
  rw [definitiveTactic_spec] at h ⊢
  obtain ⟨ha, hb⟩ := h
  refine ⟨by rw [h4]; exact ha, ?_⟩
  rcases hb with hb | ⟨hb1, hb2, hb3, hb4⟩
  · exact Or.inl hb
  · exact Or.inr ⟨hb1, hb2, by simpa [realTotal, h1, h2] using hb3, h3 hb4⟩

example : definitiveTactic
    [⟨some " /* p */".toList, .sameLine, some "a".toList, some "/* q */ ".toList, false⟩]
    .horizontalVertical .comma 40 = .horizontal := by decide

/-- `trim` keeps the trimmed text and introduces no newline (that it keeps the answer to "the last comment
is a line comment" is a statement about `CharClasses` on a text with and without its outer white space;
it is taken as a hypothesis above and checked on every case of the correspondence `lists.tactic`, where
both the trimmed and the untrimmed comment occur). -/
example : ∀ c, trim (trim c) = trim c ∧ (hasNewline c = false → hasNewline (trim c) = false) :=
  fun c => ⟨trim_idem c, hasNewline_trim c⟩

example : endsWithLineComment (trim " /* a */ // b \n".toList) = endsWithLineComment " /* a */ // b \n".toList := by
  decide

/-! ## C02 / C07: what was measured is what is written -/

/-- **A plain list written horizontally.**  For items without comments whose item strings are not empty,
a comma list without trailing separator written with the Horizontal tactic is the item strings joined by
`", "` (`horizGo 0`), for every comment rewriter, shape and configuration. -/
theorem writeList_horizontal_plain (f : ListFormatting) (rc : Rc) (items : List ListItem)
    (hf : f.tactic = .horizontal) (hsep : f.separator = [',']) (htr : f.trailingSeparator ≠ .always)
    (hitems : ∀ it ∈ items, Plain it) :
    writeList f rc items = some (horizGo 0 items) := by
  have hplace : placeOf f = .back := by simp [placeOf, SeparatorPlace.fromTactic, hf, hsep]
  have hts : (State.init f).trailingSeparator = false := by
    simp only [State.init, ListFormatting.needsTrailingSeparator, hf]
    cases h : f.trailingSeparator <;> simp_all
  have := loop_plain_horizontal (f := f) rc (indentString f.shape.indent f.config) hf hsep items 0
    (State.init f) hitems hts
  unfold writeList writeListPieces
  simp only [placeOf] at hplace
  rw [hplace, Option.map_map]
  simpa [State.init] using this

/-- **The horizontal layout fits.**  If `definitive_tactic` chose Horizontal by measuring (the caller asked
for HorizontalVertical, LimitedHorizontalVertical or Mixed) for plain items, a comma separator and
`width`, then the list written horizontally is exactly as wide as measured and at most `width` wide:
the decision and the writer agree on the width, to the column. -/
theorem writeList_horizontal_fits (f : ListFormatting) (rc : Rc) (items : List ListItem)
    (tactic : ListTactic) (width : Nat)
    (hf : f.tactic = .horizontal) (hsep : f.separator = [',']) (htr : f.trailingSeparator ≠ .always)
    (hitems : ∀ it ∈ items, Plain it) (ht : tactic ≠ .horizontal)
    (h : definitiveTactic items tactic .comma width = .horizontal) :
    ∃ out, writeList f rc items = some out ∧ strWidth out = realTotal items .comma ∧
      strWidth out ≤ width := by
  refine ⟨_, writeList_horizontal_plain f rc items hf hsep htr hitems, ?_⟩
  have hw : strWidth (horizGo 0 items) = realTotal items .comma := by
    rw [strWidth_horizGo_zero, realTotal]
    have : items.map totalItemWidth = items.map (fun it => strWidth it.innerAsRef) :=
      List.map_congr_left (fun it hit => totalItemWidth_plain (hitems it hit))
    rw [this]
    rfl
  refine ⟨hw, ?_⟩
  rw [hw]
  rw [definitiveTactic_spec] at h
  obtain ⟨_, h2⟩ := h
  rcases h2 with h2 | ⟨_, _, h3, _⟩
  · exact absurd h2 ht
  · have : tacticLimit tactic width ≤ width := by
      unfold tacticLimit; split <;> omega
    omega

example : writeList
    { ListFormatting.new (Shape.legacy 8 Indent.empty) ⟨false, 4, 100, 80⟩ false with tactic := .horizontal }
    rcTrim [ListItem.fromStr "aaa".toList, ListItem.fromStr "bbb".toList] = some "aaa, bbb".toList := by
  decide

example : Plain (ListItem.fromStr "aaa".toList) := ⟨rfl, rfl, _, rfl, by decide⟩

/-- One column less and `definitive_tactic` refuses the horizontal layout: the bound is tight. -/
example : definitiveTactic [ListItem.fromStr "aaa".toList, ListItem.fromStr "bbb".toList]
    .horizontalVertical .comma 7 = .vertical ∧ strWidth "aaa, bbb".toList = 8 := by decide

/-! ## The itemizing half: `ListItems::next` (C01 / C03 mechanism)

`itemize` (`RF/Model/ListsItemize.lean`) is the iterator that cuts the source text of a list into items and
the comments around them; tied to the code by the correspondence `lists.itemize`. -/

/-- The item a source element becomes: `leave_last` replaces the last one by `Err`. -/
def expectedItems (leaveLast : Bool) : List SourceItem → List (Option (List Char))
  | [] => []
  | src :: rest =>
    (if rest.isEmpty && leaveLast then none else src.itemString) :: expectedItems leaveLast rest

/-- **Itemizing keeps the items.**  Whenever the iterator runs to the end, it yields exactly one
`ListItem` per list element, in order, carrying that element's rewritten string (the last one `Err` under
`leave_last`): no element is dropped, duplicated or reordered, whatever stands in the gaps. -/
theorem itemize_items_in_order (separator terminator : List Char) (leaveLast : Bool) :
    ∀ (src : List SourceItem) (firstPre : List Char) (items : List ListItem),
      itemize separator terminator leaveLast firstPre src = some items →
      items.map (·.item) = expectedItems leaveLast src := by
  intro src
  induction src with
  | nil =>
    intro firstPre items h
    simp only [itemize, itemizeGo, Option.some.injEq] at h
    subst h
    rfl
  | cons s rest ih =>
    intro firstPre items h
    simp only [itemize, itemizeGo] at h
    split at h
    · rename_i pc pcs ce _ _
      split at h
      · rename_i nl post _ _
        split at h
        · rename_i its hrec
          simp only [Option.some.injEq] at h
          subst h
          have := ih _ _ hrec
          simp [expectedItems, this]
        · simp at h
      · simp at h
    · simp at h

/-- What `ListItems::next` computes for one element from its pre-snippet and its post-snippet. -/
def NextOK (separator terminator : List Char) (leaveLast isLast : Bool) (pre : List Char)
    (src : SourceItem) (item : ListItem) (commentEnd : Nat) : Prop :=
  getCommentEnd src.postSnippet separator terminator isLast = some commentEnd ∧
  extractPreComment pre = some (item.preComment, item.preCommentStyle) ∧
  extractPostComment src.postSnippet commentEnd separator isLast = some item.postComment ∧
  hasExtraNewline src.postSnippet commentEnd = some item.newLines ∧
  item.item = (if isLast && leaveLast then none else src.itemString)

/-- The whole run: every element is processed with the pre-snippet that the previous element left. -/
inductive ItemizeOK (separator terminator : List Char) (leaveLast : Bool) :
    List Char → List SourceItem → List ListItem → Prop where
  | nil (pre : List Char) : ItemizeOK separator terminator leaveLast pre [] []
  | cons {pre : List Char} {src : SourceItem} {rest : List SourceItem} {item : ListItem}
      {items : List ListItem} (commentEnd : Nat) :
      NextOK separator terminator leaveLast rest.isEmpty pre src item commentEnd →
      ItemizeOK separator terminator leaveLast (src.postSnippet.drop commentEnd) rest items →
      ItemizeOK separator terminator leaveLast pre (src :: rest) (item :: items)

/-- **The gaps are partitioned.**  The text after an element is split at `comment_end` into the part the
element's post-comment is taken from (`post_snippet[..comment_end]`) and the pre-snippet of the next element
(`post_snippet[comment_end..]`): the iterator looks at every character of every gap exactly once, as part
of exactly one of the two snippets (`take n l ++ drop n l = l`).  What each snippet becomes is decided by
`extract_post_comment` and `extract_pre_comment` alone. -/
theorem itemize_partitions_gaps (separator terminator : List Char) (leaveLast : Bool) :
    ∀ (src : List SourceItem) (firstPre : List Char) (items : List ListItem),
      itemize separator terminator leaveLast firstPre src = some items →
      ItemizeOK separator terminator leaveLast firstPre src items := by
  intro src
  induction src with
  | nil =>
    intro firstPre items h
    simp only [itemize, itemizeGo, Option.some.injEq] at h
    subst h
    exact .nil _
  | cons s rest ih =>
    intro firstPre items h
    simp only [itemize, itemizeGo] at h
    split at h
    · rename_i pc pcs ce hpre hce
      split at h
      · rename_i nl post hnl hpost
        split at h
        · rename_i its hrec
          simp only [Option.some.injEq] at h
          subst h
          exact .cons ce ⟨hce, hpre, hpost, hnl, rfl⟩ (ih _ _ hrec)
        · simp at h
      · simp at h
    · simp at h

/-- **A pre-comment is taken whole or not at all.**  `extract_pre_comment` returns the trimmed pre-snippet
when it starts with `//` or `/*` or ends with `*/`, and nothing otherwise; it never returns a part of it. -/
theorem extractPreComment_all_or_nothing (pre : List Char) (c : Option (List Char))
    (st : ListItemCommentStyle) (h : extractPreComment pre = some (c, st)) :
    (c = some (trim pre) ∧ (startsWith "//".toList (trim pre) = true ∨
        startsWith "/*".toList (trim pre) = true ∨ endsWith "*/".toList (trim pre) = true)) ∨
    (c = none ∧ st = .none ∧ startsWith "//".toList (trim pre) = false ∧
        startsWith "/*".toList (trim pre) = false ∧ endsWith "*/".toList (trim pre) = false) := by
  unfold extractPreComment at h
  simp only at h
  split at h
  · rename_i he
    split at h
    · simp at h
    · split at h
      · simp only [Option.some.injEq, Prod.mk.injEq] at h
        obtain ⟨rfl, _⟩ := h
        exact Or.inl ⟨rfl, Or.inr (Or.inr he)⟩
      · simp only [Option.some.injEq, Prod.mk.injEq] at h
        obtain ⟨rfl, _⟩ := h
        exact Or.inl ⟨rfl, Or.inr (Or.inr he)⟩
  · rename_i he
    split at h
    · rename_i hs
      simp only [Option.some.injEq, Prod.mk.injEq] at h
      obtain ⟨rfl, _⟩ := h
      simp only [Bool.or_eq_true] at hs
      rcases hs with hs | hs
      · exact Or.inl ⟨rfl, Or.inl hs⟩
      · exact Or.inl ⟨rfl, Or.inr (Or.inl hs)⟩
    · rename_i hs
      simp only [Option.some.injEq, Prod.mk.injEq] at h
      obtain ⟨rfl, rfl⟩ := h
      simp only [Bool.or_eq_true, not_or, Bool.not_eq_true] at hs he
      exact Or.inr ⟨rfl, rfl, hs.1, hs.2, he⟩

example : extractPreComment " /* a */ ".toList = some (some "/* a */".toList, .sameLine) := by decide
example : extractPreComment " /* a */\n ".toList = some (some "/* a */".toList, .differentLine) := by decide
example : extractPreComment " , ".toList = some (none, .none) := by decide

/-- "The post-comment is the comment text of the snippet" is FALSE of the code (known finding LW1, probe in
`harness/src/lists_corr.rs`, reproduced on the binary: `b: u32 /* y */ // last,` as the last parameter comes
out as `b: u32, /* y */ // last`): for the last element, a line comment whose text ends with the
separator, behind a block comment, loses that character: lists.rs:644-647 tests `ends_with(separator)` on
the text of the snippet, not on its code. -/
theorem extractPostComment_strips_comment_char_counterexample :
    extractPostComment " /* y */ // last,\n".toList 18 [','] true = some (some "/* y */ // last".toList) ∧
    commentContent " /* y */ // last,\n".toList = "/*y*///last,".toList := by
  constructor <;> decide

example : itemize [','] [')'] false [] [⟨some "a".toList, ", // one\n    ".toList⟩, ⟨some "b".toList, " /* two */\n".toList⟩]
    = some [⟨none, .none, some "a".toList, some "// one".toList, false⟩,
            ⟨none, .none, some "b".toList, some "/* two */".toList, false⟩] := by decide

/-! ## The struct-literal helpers (`struct_lit_shape`, `struct_lit_tactic`, `shape_for_tactic`,
`struct_lit_formatting`) -/

/-- Without a horizontal shape the tactic is Vertical. -/
theorem structLitTactic_none (c : StructLitConfig) (items : List ListItem) :
    structLitTactic none c items = .vertical := rfl

/-- With a horizontal shape the tactic is `definitive_tactic` on its width: asked for
HorizontalVertical when the style is Visual and there is one field, or `struct_lit_single_line` is on;
for Vertical otherwise. -/
theorem structLitTactic_spec (h : Shape) (c : StructLitConfig) (items : List ListItem) :
    structLitTactic (some h) c items =
      definitiveTactic items
        (if (c.indentStyle = .visual ∧ items.length = 1) ∨ c.structLitSingleLine = true then
          .horizontalVertical else .vertical) .comma h.width := by
  unfold structLitTactic
  by_cases h1 : c.indentStyle = .visual ∧ items.length = 1
  · simp [h1]
  · by_cases h2 : c.structLitSingleLine = true <;> simp [h1, h2]

/-- **`shape_for_tactic` never unwraps `None` after `struct_lit_tactic`.**  The tactic computed from
`h_shape` is Horizontal only if `h_shape` is there, so `h_shape.unwrap()` in `shape_for_tactic` cannot
panic on the pair the two callers (expr.rs, patterns.rs) pass. -/
theorem shapeForTactic_after_structLitTactic (hShape : Option Shape) (vShape : Shape)
    (c : StructLitConfig) (items : List ListItem) :
    shapeForTactic (structLitTactic hShape c items) hShape vShape ≠ none := by
  cases hShape with
  | none => simp [structLitTactic, shapeForTactic]
  | some h =>
    unfold shapeForTactic
    split <;> simp

/-- `shape_for_tactic` does panic on a Horizontal tactic without a horizontal shape. -/
example : shapeForTactic .horizontal none (Shape.legacy 10 Indent.empty) = none := rfl

/-- The horizontal shape of a struct literal: what is left of the width after prefix and suffix, capped
by `struct_lit_width`, at the indentation of the given shape; absent iff prefix and suffix do not fit. -/
theorem structLitShape_horizontal (shape : Shape) (c : StructLitConfig) (pw sw : Nat)
    (h : Option Shape) (v : Shape) (hok : structLitShape shape c pw sw = .ok (h, v)) :
    (pw + sw ≤ shape.width →
      h = some (Shape.legacy (min (shape.width - (pw + sw)) c.structLitWidth) shape.indent)) ∧
    (shape.width < pw + sw → h = none) := by
  unfold structLitShape at hok
  simp only at hok
  split at hok
  · simp at hok
  · simp only [Except.ok.injEq, Prod.mk.injEq] at hok
    obtain ⟨rfl, _⟩ := hok
    constructor
    · intro hle
      have : ¬ shape.width < pw + sw := by omega
      simp [checkedSub, this]
    · intro hlt
      simp [checkedSub, hlt]

example : structLitShape (Shape.legacy 40 (Indent.new 4 0)) ⟨.block, 4, 100, 18, true, .vertical⟩ 6 2 =
    .ok (some (Shape.legacy 18 (Indent.new 4 0)), ⟨92, Indent.new 8 0, 0⟩) := by decide

/-- `struct_lit_formatting`: comma behind, newlines preserved, comments aligned; the list "ends with a
newline" exactly for a Vertical list outside the Visual style; a forced `Never` overrides
`trailing_comma`. -/
theorem structLitFormatting_spec (shape : Shape) (tactic : DefinitiveListTactic) (c : StructLitConfig)
    (force : Bool) (config : Config) (nc : Bool) :
    let f := structLitFormatting shape tactic c force config nc
    f.tactic = tactic ∧ f.separator = [','] ∧ f.separatorPlace = .back ∧ f.shape = shape ∧
    f.preserveNewline = true ∧ f.nested = false ∧ f.alignComments = true ∧
    (f.endsWithNewline = true ↔ c.indentStyle = .block ∧ tactic = .vertical) ∧
    f.trailingSeparator = (if force then .never else c.trailingComma) := by
  refine ⟨rfl, rfl, rfl, rfl, rfl, rfl, rfl, ?_, rfl⟩
  simp only [structLitFormatting]
  cases c.indentStyle <;> simp

/-- **A struct literal laid out on one line fits its horizontal shape.**  When `struct_lit_tactic` answers
Horizontal for comment-free fields, the fields written with `struct_lit_formatting` (no forced trailing
comma `Always`) are exactly as wide as measured and fit the width of the horizontal shape, which is at
most `struct_lit_width`. -/
theorem structLit_horizontal_fits (h : Shape) (c : StructLitConfig) (items : List ListItem) (rc : Rc)
    (force : Bool) (config : Config) (nc : Bool)
    (hitems : ∀ it ∈ items, Plain it) (htc : force = true ∨ c.trailingComma ≠ .always)
    (ht : structLitTactic (some h) c items = .horizontal) :
    ∃ out, writeList (structLitFormatting h .horizontal c force config nc) rc items = some out ∧
      strWidth out ≤ h.width := by
  rw [structLitTactic_spec] at ht
  have htr : (structLitFormatting h .horizontal c force config nc).trailingSeparator ≠ .always := by
    simp only [structLitFormatting]
    rcases htc with rfl | htc
    · simp
    · cases force <;> simp [htc]
  have hne : (if (c.indentStyle = .visual ∧ items.length = 1) ∨ c.structLitSingleLine = true then
      ListTactic.horizontalVertical else ListTactic.vertical) ≠ .horizontal := by
    split <;> simp
  obtain ⟨out, hw, _, hle⟩ := writeList_horizontal_fits
    (structLitFormatting h .horizontal c force config nc) rc items _ h.width rfl rfl htr hitems hne ht
  exact ⟨out, hw, hle⟩

example : structLitTactic (some (Shape.legacy 18 (Indent.new 4 0))) ⟨.block, 4, 100, 18, true, .vertical⟩
    [ListItem.fromStr "a: 1".toList, ListItem.fromStr "b: 2".toList] = .horizontal := by decide

/-! ## No line comment in front of code on the same line -/

/-- **A horizontal list has no line comment.**  Whenever `definitive_tactic` answers Horizontal — also when
the caller forced `ListTactic::Horizontal` — no comment of any item starts with `//` or ends with a line
comment (`/* a */ // b`): in a one-line layout such a comment would swallow the tokens after it. -/
theorem definitiveTactic_horizontal_no_line_comment (items : List ListItem) (tactic : ListTactic)
    (sep : Separator) (width : Nat) (h : definitiveTactic items tactic sep width = .horizontal) :
    ∀ it ∈ items, ∀ c, (it.preComment = some c ∨ it.postComment = some c) →
      isOrEndsWithLineComment c = false := by
  rw [definitiveTactic_spec] at h
  obtain ⟨hs, _⟩ := h
  intro it hit c hc
  have := List.any_eq_false.mp hs it hit
  simp only [ListItem.hasSingleLineComment, Bool.not_eq_true, Bool.or_eq_false_iff] at this
  rcases hc with hc | hc
  · simpa [hc, optAny] using this.1
  · simpa [hc, optAny] using this.2

example : definitiveTactic [⟨none, .none, some "a".toList, some "/* x */ // y".toList, false⟩]
    .horizontal .comma 100 = .vertical := by decide

/-- **A pre-comment kept on the item's line ends with a block comment.**  `extract_pre_comment` answers
`SameLine` (the only style for which `write_list` may put the item behind the comment on one line) only
for a snippet that ends with `*/`. -/
theorem extractPreComment_sameLine_ends_block (pre : List Char) (c : Option (List Char))
    (h : extractPreComment pre = some (c, .sameLine)) : endsWith "*/".toList (trim pre) = true := by
  unfold extractPreComment at h
  simp only at h
  split at h
  · rename_i he; exact he
  · split at h <;> simp at h

/-! ## Under the default comment options the hypothesis about the rewriter is discharged -/

/-- **`write_list` with the default comment options.**  With `rewriteCommentLight` — the model of
`rewrite_comment` for `normalize_comments = wrap_comments = false`, compared with the real function by
`lists.rc` — in the place of `rc`, the non-blank characters of the result are exactly `contentSpec`: every
item string and every comment of a written item, each once, in order, plus the separators the
specification demands, and nothing else.  No hypothesis is left. -/
theorem writeList_content_default (f : ListFormatting) (items : List ListItem) (out : List Char)
    (h : writeList f (rewriteCommentLight f.config) items = some out) :
    squeeze out = contentSpec f items :=
  writeList_content f _ items out (RF.Lemmas.ListsRc.rewriteCommentLight_content f.config) h

example : writeList exFmt (rewriteCommentLight exFmt.config) exItems =
    some "/* p */ a, // q\n    bb, /* r */".toList := by decide

end RF.Props.Lists
