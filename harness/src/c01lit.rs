//! C01 (mechanism): the literal-spelling rewrites `float_literal_trailing_zero` / `hex_literal_case`.
//! Correspondence of `RF/Model/Literal.lean` (`rewrite_float_lit`, `rewrite_int_lit`, `parse_float_symbol`) with the
//! real formatter: numeric literals built from a grid of integer parts x fractional parts x exponents x suffixes are
//! placed in expression, macro-argument, array-length and pattern positions, formatted under every value of the two
//! options, and the literal tokens of the output (`rustc_lexer`, same order) are compared with what the model prints
//! for the (symbol, suffix) pair the lexer reports for the input token.  The Lean oracle `lit.den` judges the code's
//! output as well: the denotation (digits without `_` and trailing fractional zeros, exponent) must not change.
use std::time::Duration;

use serde_json::json;

use crate::pool::{self, Job};
use crate::util::*;

#[derive(Clone, Debug)]
struct Lit {
    text: String,
    symbol: String,
    suffix: String,
    float_kind: bool,
}

fn literals_of(src: &str) -> Vec<Lit> {
    use rustc_lexer::{LiteralKind as LK, TokenKind as K};
    let mut pos = 0usize;
    let mut v = vec![];
    for t in rustc_lexer::tokenize(src) {
        let len = t.len as usize;
        let text = &src[pos..pos + len];
        if let K::Literal { kind, suffix_start } = t.kind {
            let s = suffix_start as usize;
            match kind {
                LK::Int { .. } => v.push(Lit { text: text.into(), symbol: text[..s].into(), suffix: text[s..].into(), float_kind: false }),
                LK::Float { .. } => v.push(Lit { text: text.into(), symbol: text[..s].into(), suffix: text[s..].into(), float_kind: true }),
                _ => {}
            }
        }
        pos += len;
    }
    v
}

/// every spelling the grid produces that lexes as ONE well-formed numeric literal
fn grid() -> Vec<String> {
    let ips = ["0", "1", "12", "1_0", "00", "9_", "1__2", "007"];
    let fracs = ["", ".", ".0", ".00", ".0_", ".5", ".50", ".05", ".0_0", ".5_", ".000_001", ".10_00"];
    let exps = ["", "e5", "E5", "e+5", "e-5", "e0_1", "e_1", "E-0"];
    let sufs = ["", "f32", "f64", "_f32", "u8", "i64", "usize", "px", "_f64"];
    let mut v = vec![];
    for ip in ips {
        for fr in fracs {
            for ex in exps {
                for su in sufs {
                    // `1.` directly followed by an exponent or a suffix is not one literal
                    if fr == "." && (!ex.is_empty() || !su.is_empty()) {
                        continue;
                    }
                    v.push(format!("{}{}{}{}", ip, fr, ex, su));
                }
            }
        }
    }
    for h in ["0xff", "0xFF", "0xDead_Beef", "0xabcdef", "0xABCDEFu64", "0x_1f", "0x1F_u8", "0xe1", "0xE_1i32", "0xfu8", "0xf_f32", "0b1010", "0o17", "0b1u8", "0xaAbB_cCdD_eEfF"] {
        v.push(h.to_string());
    }
    // keep what the lexer sees as exactly one numeric literal without lexer errors
    v.into_iter()
        .filter(|s| {
            let toks: Vec<_> = rustc_lexer::tokenize(s).collect();
            if toks.len() != 1 {
                return false;
            }
            match toks[0].kind {
                rustc_lexer::TokenKind::Literal { kind: rustc_lexer::LiteralKind::Int { empty_int, .. }, .. } => !empty_int,
                rustc_lexer::TokenKind::Literal { kind: rustc_lexer::LiteralKind::Float { empty_exponent, base }, .. } => !empty_exponent && base == rustc_lexer::Base::Decimal,
                _ => false,
            }
        })
        .collect()
}

const FZ: &[(&str, &str)] = &[("P", "Preserve"), ("A", "Always"), ("I", "IfNoPostfix"), ("N", "Never")];
const HEX: &[(&str, &str)] = &[("P", "Preserve"), ("U", "Upper"), ("L", "Lower")];

fn program(lits: &[String], ctx: usize) -> String {
    let mut s = String::from("fn f() {\n");
    for (i, l) in lits.iter().enumerate() {
        match (ctx + i) % 5 {
            0 => s.push_str(&format!("    let v{} = {};\n", i, l)),
            1 => s.push_str(&format!("    m!({});\n", l)),
            2 => s.push_str(&format!("    g(a, {}, -{});\n", l, l)),
            3 => s.push_str(&format!("    let w{} = [{}, {}];\n", i, l, l)),
            _ => s.push_str(&format!("    if x == {} {{ y = {} + z; }}\n", l, l)),
        }
    }
    s.push_str("}\n");
    s
}

pub fn part(o: &mut Outcome, rng: &mut Rng, thorough: bool) {
    let all = grid();
    o.count_n("lit:grid spellings", all.len() as u64);
    // programs of 12 literals; quick: every spelling once per (fz, hex) pair class, thorough: every context as well
    let mut cases: Vec<(String, usize, usize)> = vec![];
    let chunks: Vec<Vec<String>> = all.chunks(12).map(|c| c.to_vec()).collect();
    for (ci, ch) in chunks.iter().enumerate() {
        for fz in 0..FZ.len() {
            let hexes: Vec<usize> = if thorough { (0..HEX.len()).collect() } else { vec![(ci + fz) % HEX.len()] };
            for hx in hexes {
                let ctxs: Vec<usize> = if thorough { (0..5).collect() } else { vec![rng.below(5)] };
                for ctx in ctxs {
                    cases.push((program(ch, ctx), fz, hx));
                }
            }
        }
    }
    let jobs: Vec<Job> = cases
        .iter()
        .map(|(src, fz, hx)| Job { src: src.clone(), cfg: vec![("float_literal_trailing_zero".into(), FZ[*fz].1.into()), ("hex_literal_case".into(), HEX[*hx].1.into())], file_lines: None })
        .collect();
    let res = pool::run_jobs(&jobs, jobs_n(), Duration::from_secs(20));
    for ((src, fz, hx), r) in cases.iter().zip(res.iter()) {
        if !r.clean() {
            o.count("lit:not-clean-or-timeout");
            if r.status != pool::Status::Timeout {
                o.direct_failures.push(json!({"sig": "c01lit:generated-program-not-formatted", "what": format!("status {:?} flags {:?}", r.status, r.flags), "src": src, "fz": FZ[*fz].1, "hex": HEX[*hx].1}));
            }
            continue;
        }
        let lin = literals_of(src);
        let lout = literals_of(&r.out);
        if lin.len() != lout.len() {
            o.direct_failures.push(json!({"sig": "c01lit:literal-count", "what": format!("{} numeric literals in, {} out", lin.len(), lout.len()), "src": src, "out": r.out, "fz": FZ[*fz].1, "hex": HEX[*hx].1}));
            continue;
        }
        for (a, b) in lin.iter().zip(lout.iter()) {
            let desc = format!("`{}` -> `{}` [float_literal_trailing_zero={}, hex_literal_case={}]", a.text, b.text, FZ[*fz].1, HEX[*hx].1);
            let expect = enc_str(&b.text);
            let req = if a.float_kind {
                format!("lit.float {} {} {}", FZ[*fz].0, enc_str(&a.symbol), enc_str(&a.suffix))
            } else {
                format!("lit.int {} {} {} {}", HEX[*hx].0, FZ[*fz].0, enc_str(&a.symbol), enc_str(&a.suffix))
            };
            o.count(if a.float_kind { "lit:float tokens" } else { "lit:integer tokens" });
            if b.text != a.text {
                o.count("lit:re-spelt by the code");
            }
            o.push("corr", if a.float_kind { "lit.float" } else { "lit.int" }, req, expect.clone(), desc.clone(), b.text != a.text);
            // oracle: same suffix, and for decimal spellings the same denotation
            if a.suffix != b.suffix && !(a.float_kind || b.float_kind) {
                o.direct_failures.push(json!({"sig": "c01lit:suffix-changed", "what": desc.clone(), "src": src, "out": r.out}));
            }
            if !a.symbol.starts_with("0x") && !a.symbol.starts_with("0b") && !a.symbol.starts_with("0o") && (a.float_kind || !a.suffix.is_empty()) {
                o.push("oracle", "lit.den(output)=lit.den(input)", format!("lit.den {}", enc_str(&b.symbol)), String::new(), desc, b.text != a.text);
                let n = o.cases.len();
                // the expected answer is the model's denotation of the INPUT symbol: filled in below
                o.cases[n - 1].expect = format!("@den:{}", enc_str(&a.symbol));
            }
        }
    }
    // resolve the `@den:` expectations with one batch of model calls
    let idx: Vec<usize> = (0..o.cases.len()).filter(|i| o.cases[*i].expect.starts_with("@den:")).collect();
    let reqs: Vec<String> = idx.iter().map(|i| format!("lit.den {}", &o.cases[*i].expect[5..])).collect();
    let ans = run_model(&reqs, jobs_n());
    for (i, a) in idx.iter().zip(ans.into_iter()) {
        o.cases[*i].expect = a;
    }
}

fn jobs_n() -> usize {
    crate::util::jobs()
}

/// stand-alone entry (`rfverif c01lit`), used while the part is not yet called from c01::run
pub fn run(tier: &str, seed: u64, out: &std::path::Path) -> i32 {
    pool::install_panic_hook();
    let mut o = Outcome::new("C01", tier, seed);
    let mut rng = Rng::new(seed ^ 0xc0111);
    part(&mut o, &mut rng, tier == "thorough");
    o.finish(out, jobs_n())
}
