#!/usr/bin/env python3
"""translator:c09_gates — every place where the formatting code observes the style edition
-> RF/Gen/Gates.lean (gates, per-edition default table, and the pinned copies from c09_pinned.json).
`--pin` rewrites c09_pinned.json from the given tree (done once, at the audited commit)."""
import os, re, sys, json, hashlib
sys.path.insert(0, os.path.dirname(os.path.abspath(__file__)))
from common import *

NAME = "c09_gates"
HERE = os.path.dirname(os.path.abspath(__file__))
EDS = {"2015": "e2015", "2018": "e2018", "2021": "e2021", "2024": "e2024", "2027": "e2027"}
OPS = {"<=": "le", "<": "lt", ">=": "ge", ">": "gt", "==": "eq", "!=": "ne"}
GATE = re.compile(r"([\w\.\(\)]*style_edition(?:\(\))?)\s*(<=|>=|==|!=|<|>)\s*StyleEdition::Edition(\d{4})")
EXCLUDE_DIRS = ("src/config/", "src/test/", "src/cargo-fmt/test/")


def norm(s):
    return " ".join(s.split())


def h(s):
    return hashlib.sha256(norm(s).encode()).hexdigest()[:16]


def extract(src, start_rx, what):
    m = re.search(start_rx, src)
    if not m:
        refuse(NAME, f"{what} not found")
    body, end = block_after(src, m.start())
    return src[m.start():end]


def scan(repo):
    gates = []
    for root, _, files in os.walk(os.path.join(repo, "src")):
        for f in sorted(files):
            if not f.endswith(".rs"):
                continue
            rel = os.path.relpath(os.path.join(root, f), repo)
            if rel == "src/verif_hooks.rs" or any(rel.startswith(d) for d in EXCLUDE_DIRS) or "/test/" in rel:
                continue
            s = cut_tests(strip_rust_comments(open(os.path.join(root, f)).read()))
            s = s.split('#[cfg(feature = "verif-hooks")]')[0]
            s = re.sub(r'"(?:[^"\\]|\\.)*"', '""', s)
            if "style_edition" not in s and "StyleEdition" not in s:
                continue
            covered = []
            for m in GATE.finditer(s):
                gates.append((rel, m.group(2), m.group(3), s.count("\n", 0, m.start()) + 1))
                covered.append((m.start(), m.end()))
            # N1: a literal variant outside a gate
            for m in re.finditer(r"StyleEdition::Edition\d{4}", s):
                if not any(a <= m.start() and m.end() <= b for a, b in covered):
                    line = s.count("\n", 0, m.start()) + 1
                    refuse(NAME, f"{rel}:{line}: `{m.group(0)}` is used outside a comparison `<style edition> op StyleEdition::EditionNNNN` (unclassified observation of the style edition)")
            # N2/N3: other ways of observing the value
            for m in re.finditer(r"style_edition(?:\(\))?\s*(?:as\s+\w+|\.\s*(?:into|eq|ne|cmp|partial_cmp|le|lt|ge|gt|to_string|hash)\s*\()", s):
                line = s.count("\n", 0, m.start()) + 1
                refuse(NAME, f"{rel}:{line}: `{norm(m.group(0))}` observes the style edition other than through a literal comparison")
            for m in re.finditer(r"style_edition(?:\(\))?\s*(?:<=|>=|==|!=|<(?![=<])|>(?![=>]))(?!\s*StyleEdition::Edition\d{4})", s):
                nxt = s[m.end():m.end() + 30]
                line = s.count("\n", 0, m.start()) + 1
                refuse(NAME, f"{rel}:{line}: the style edition is compared with something that is not a literal edition: `{norm(m.group(0) + nxt)[:60]}`")
    return gates


def config_side(repo):
    opt = strip_rust_comments(read(repo, "src/config/options.rs", NAME))
    se = strip_rust_comments(read(repo, "src/config/style_edition.rs", NAME))
    mod = strip_rust_comments(read(repo, "src/config/mod.rs", NAME))
    ct = strip_rust_comments(read(repo, "src/config/config_type.rs", NAME))
    texts = {
        "enum StyleEdition": extract(opt, r"pub enum StyleEdition\b", "enum StyleEdition"),
        "impl PartialOrd for StyleEdition": extract(opt, r"impl PartialOrd for StyleEdition\b", "impl PartialOrd for StyleEdition"),
        "impl From<StyleEdition> for rustc Edition": extract(opt, r"impl From<StyleEdition> for rustc_span::edition::Edition\b", "From<StyleEdition>"),
        "impl From<Edition> for StyleEdition": extract(opt, r"impl From<Edition> for StyleEdition\b", "From<Edition> for StyleEdition"),
        "macro style_edition_default": extract(se, r"macro_rules!\s*style_edition_default\b", "style_edition_default!"),
        "fn default_for_possible_style_edition": extract(mod, r"pub fn default_for_possible_style_edition\b", "default_for_possible_style_edition"),
        "impl Default for Config": extract(ct, r"impl Default for Config\b", "impl Default for Config"),
        "fn default_with_style_edition": extract(ct, r"fn default_with_style_edition\b", "default_with_style_edition"),
    }
    # arms of the two-default macro rule: which editions go to which default
    mac = texts["macro style_edition_default"]
    arm = {}
    for mm in re.finditer(r"((?:\$crate::config::StyleEdition::Edition\d{4}\s*\|?\s*)+)=>\s*\$(default_\d{4})", mac):
        for e in re.findall(r"Edition(\d{4})", mm.group(1)):
            arm[e] = 1 if mm.group(2) == "default_2024" else 0
    if set(arm) != set(EDS):
        refuse(NAME, f"style_edition_default!: the two-default rule does not cover the five editions ({sorted(arm)})")
    # default rows
    m = re.search(r"^config_option_with_style_edition_default!\s*\(", opt, re.M)
    i = opt.index("(", m.start())
    d, j = 0, i
    while True:
        if opt[j] == "(":
            d += 1
        elif opt[j] == ")":
            d -= 1
            if d == 0:
                break
        j += 1
    rows = []
    for ent in opt[i + 1:j].split(";"):
        ent = norm(ent)
        if not ent:
            continue
        mm = re.match(r"(\w+), ([\w:<>]+), (?:Edition2024 => (.+?), )?_ => (.+)$", ent)
        if not mm:
            refuse(NAME, f"default entry not understood: `{ent[:80]}`")
        rows.append([mm.group(1), mm.group(4), mm.group(3)])
    return {k: h(v) for k, v in texts.items()}, arm, rows


def codes(s):
    return "[" + ", ".join(str(ord(c)) for c in s) + "]"


def main():
    pin = "--pin" in sys.argv
    if pin:
        sys.argv.remove("--pin")
    a = args()
    gates = scan(a.repo)
    hashes, arm, rows = config_side(a.repo)
    pinned_path = os.path.join(HERE, "c09_pinned.json")
    if pin:
        json.dump({"gates": [[f, op, ed] for (f, op, ed, _) in gates], "hashes": hashes, "rows": rows, "arm": arm}, open(pinned_path, "w"), indent=1)
        print(f"pinned {len(gates)} gates, {len(rows)} default rows")
    pinned = json.load(open(pinned_path))
    for k, v in pinned["hashes"].items():
        if hashes.get(k) != v:
            refuse(NAME, f"`{k}` (src/config) differs from the audited text: the order of editions / the edition an unset configuration gets / the per-edition default arms are no longer the ones the model assumes")
    files = sorted({f for (f, _, _) in map(tuple, pinned["gates"])})
    for (f, _, _, _) in gates:
        if f not in files:
            files.append(f)
    fid = {f: i for i, f in enumerate(files)}
    def gl(gs):
        return "[" + ", ".join(f"⟨{fid[f]}, .{OPS[op]}, .{EDS[ed]}⟩" for (f, op, ed) in gs) + "]"
    def rl(rs):
        return "[" + ",\n  ".join(f"({codes(n)}, {codes(dv)}, {'some ' + codes(d24) if d24 else 'none'})" for n, dv, d24 in rs) + "]"
    L = ["/- GENERATED by translate/c09_gates.py from a scan of src/** (gates) and src/config/options.rs (defaults);\n   `pinned*` come from translate/c09_pinned.json (the audited commit).  Do not edit. -/",
         "import RF.Model.Gates", "namespace RF.Gen.Gates", "open RF.Gates\n",
         "/-- files that contain gates (display only; gates refer to them by index) -/",
         "def files : List String := [" + ", ".join('"' + f + '"' for f in files) + "]\n",
         "/-- every `<style edition> op StyleEdition::EditionNNNN` in the formatting code of the current tree -/",
         f"def gates : List Gate := {gl([(f, op, ed) for (f, op, ed, _) in gates])}\n",
         "/-- the same scan at the audited commit -/",
         f"def pinnedGates : List Gate := {gl([tuple(g) for g in pinned['gates']])}\n",
         "/-- which arm of `style_edition_default!` each edition takes (0: `_`, 1: `Edition2024`) -/",
         "def armOf : StyleEdition → Nat\n" + "\n".join(f"  | .{EDS[e]} => {arm[e]}" for e in sorted(EDS)) + "\n",
         "/-- rows of `config_option_with_style_edition_default!` in the current tree (strings as character codes) -/",
         f"def defaults : List DefaultRow :=\n  {rl(rows)}\n",
         "/-- the rows at the audited commit -/",
         f"def pinnedDefaults : List DefaultRow :=\n  {rl(pinned['rows'])}\n",
         "end RF.Gen.Gates\n"]
    changed = write_if_changed(os.path.join(a.out, "Gates.lean"), "\n".join(L))
    print(f"c09_gates: ok ({'rewritten' if changed else 'unchanged'}); {len(gates)} gates in {len(files)} files; rows {len(rows)}")


if __name__ == "__main__":
    main()
